"""./check <PROPERTY> [--tier quick|thorough] [--replay FILE]"""
import argparse, importlib, os, sys
from .common import Verdict


def main():
    ap = argparse.ArgumentParser()
    ap.add_argument("prop")
    ap.add_argument("--tier", default=os.environ.get("VERIF_TIER", "quick"), choices=["quick", "thorough"])
    ap.add_argument("--replay", default=None)
    a = ap.parse_args()
    prop = a.prop.upper()
    try:
        mod = importlib.import_module(".p_%s" % prop.lower(), package="vlib")
    except ImportError as e:
        print("no check for %s: %s" % (prop, e))
        sys.exit(2)
    # checks share build directories and the campaign cache under .cache: invocations started in
    # parallel run one after the other (the second finds the cached campaign)
    import fcntl
    from .common import CACHE
    os.makedirs(CACHE, exist_ok=True)
    _lock = open(os.path.join(CACHE, "check.lock"), "w")
    fcntl.flock(_lock, fcntl.LOCK_EX)
    v = Verdict(prop, a.tier)
    if a.replay:
        rc = mod.replay(v, a.replay)
        sys.exit(rc)
    try:
        mod.check(v)
    except Exception as e:   # a crash of the machinery is reported, never swallowed
        import traceback
        v.coverage.setdefault("evaluations", 0)
        v.coverage.setdefault("distinct_nontrivial", 0)
        v.violation("machinery", {"kind": "machinery-crash", "detail": traceback.format_exc()[-4000:]}, no_input=True)
    sys.exit(v.finish())


if __name__ == "__main__":
    main()
