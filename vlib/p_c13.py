"""C13: writer failures. Proof: Props/C13.v (for every writer state machine). Correspondence: the 'wfault' observation:
the real crate against a writer failing after every byte count k in [0, len], a failing flush, short writes (1, 3, 7 with
interrupts), Ok(0), BufWriter<File>, /dev/full, and the same oracles run on the model; the same object is serialized again
afterwards (source intact)."""
from .codecprops import *

OPS = {"C13": ["ser", "wfault"], "C14": ["ser", "full"], "C18": ["ser", "schema"]}
ORACLE = {"C13": oracle_c13, "C14": oracle_c14, "C18": oracle_c18}


EXTRA = "Per case: len+1 failure positions, 7 other writer behaviours, 2 real sinks."


def extra_coverage(v, c):
    tot = 0
    for x in c.cases:
        st = ser_status(c, x)
        if st.get("status") == "OK":
            tot += int(st["n"], 16) + 1
    v.coverage["failure_positions_tried"] = tot
    v.assumptions.append("heap integrity (no free of the borrowed buffer) is observed: a double free aborts the harness process, which is reported as a violation; the same object is re-serialized after the failed runs")
    v.coverage.setdefault("samples", []).append({"theorem": "C13_accepted_bytes_are_a_prefix: forall w fuel s run, is_prefix (fst (serialize_io w fuel s run)) (bytes_of (fst run))"})


def check(v):
    run_codec_property(v, "C13", OPS["C13"], ORACLE["C13"], rule_extra=EXTRA)
    c = campaign(v.tier)
    extra_coverage(v, c)


def replay(v, path):
    return replay_codec(v, path, "C13", ORACLE["C13"])
