"""Seeded generator of ε-serde types, values, and their renderings for the model (S-expressions)
and for the implementation (Rust source).  Types are tuples:

  ('prim', p) ('unit',) ('ph', T) ('string',) ('boxstr',) ('vec', T) ('bslice', T) ('sref', T)
  ('siter', T) ('arr', n, T) ('tup', n, T) ('opt', T) ('bound', T) ('cf', B, C) ('range', k, T)
  ('rfull',) ('adt', defname, (args...))        and ('param', name) inside definitions.

Values are tuples: ('n', int) ('b', bytes) ('s', [v...]) ('t', k, [v...]).
"""
import random

INTS = {"u8": 1, "u16": 2, "u32": 4, "u64": 8, "u128": 16, "usize": 8,
        "i8": 1, "i16": 2, "i32": 4, "i64": 8, "i128": 16, "isize": 8}
PSIZE = dict(INTS)
PSIZE.update({"nz" + k: v for k, v in INTS.items()})
PSIZE.update({"f32": 4, "f64": 8, "bool": 1, "char": 4})
PRIMS = list(PSIZE.keys())
RKINDS = ["range", "from", "incl", "to", "toincl"]
NZ_RUST = {"nz" + k: "NonZero" + k[0].upper() + k[1:] for k in INTS}


def hx(b):
    return "".join("%02x" % x for x in b) if len(b) else "-"


class Def:
    """A derived struct or enum definition (possibly generic)."""

    def __init__(self, name, kind, copy, reprs, tparams, cparams, body, style="named",
                 bounds=None, defaults=None, where=None, align=0):
        self.name = name
        self.kind = kind            # 'struct' | 'enum'
        self.copy = copy            # 'zero' | 'deep' | 'none'
        self.reprs = reprs          # list of token strings, one per #[repr(..)] attribute
        self.tparams = tparams      # [name]
        self.cparams = cparams      # [(name, rust type, value int)]
        self.body = body            # struct: [(fname, texpr)]; enum: [(vname, style, [(fname, texpr)])]
        self.style = style          # struct: 'named' | 'tuple' | 'unit'
        self.bounds = bounds or {}  # tparam -> "Clone + ..." inline bounds
        self.defaults = defaults or {}  # tparam -> texpr
        self.where = where or []    # raw where predicates
        self.align = align          # n of an extra repr(align(n)) (also listed in reprs)
        self.module = None          # Rust module holding the definition (mutants of a definition keep its name)
        self.key = name             # unique key in the universe

    @property
    def path(self):
        return (self.module + "::" + self.name) if self.module else self.name


class Universe:
    def __init__(self):
        self.defs = {}
        self.order = []

    def add(self, d):
        self.defs[d.key] = d
        self.order.append(d.key)


# ------------------------------------------------------------------ structural helpers

def subst(t, env):
    k = t[0]
    if k == "param":
        return env[t[1]]
    if k in ("prim", "unit", "string", "boxstr", "rfull", "str", "raw"):
        return t
    if k in ("ph", "vec", "bslice", "sref", "siter", "opt", "bound", "ref", "slice"):
        return (k, subst(t[1], env))
    if k in ("arr", "tup"):
        return (k, t[1], subst(t[2], env))
    if k == "cf":
        return (k, subst(t[1], env), subst(t[2], env))
    if k == "range":
        return (k, t[1], subst(t[2], env))
    if k == "adt":
        return (k, t[1], tuple(subst(a, env) for a in t[2]))
    raise ValueError(t)


def mentions(t, p):
    k = t[0]
    if k == "param":
        return t[1] == p
    if k in ("prim", "unit", "string", "boxstr", "rfull"):
        return False
    if k in ("ph", "vec", "bslice", "sref", "siter", "opt", "bound"):
        return mentions(t[1], p)
    if k in ("arr", "tup", "range"):
        return mentions(t[2], p)
    if k == "cf":
        return mentions(t[1], p) or mentions(t[2], p)
    if k == "adt":
        return any(mentions(a, p) for a in t[2])
    raise ValueError(t)


def inst_fields(U, t):
    """Instantiated body of an adt type: struct -> [(fname, isparam, T)], enum -> [(vname, style, [..])]."""
    d = U.defs[t[1]]
    env = dict(zip(d.tparams, t[2]))
    def f(fs):
        return [(n, te[0] == "param", subst(te, env)) for (n, te) in fs]
    if d.kind == "struct":
        return f(d.body)
    return [(vn, st, f(fs)) for (vn, st, fs) in d.body]


def is_zc(U, t):
    k = t[0]
    if k in ("prim", "unit", "ph", "rfull", "tup", "range"):
        return True
    if k == "arr":
        return is_zc(U, t[2])
    if k == "adt":
        return U.defs[t[1]].copy == "zero"
    return False


def zc_ok(U, t):
    k = t[0]
    if k in ("prim", "unit", "ph", "rfull"):
        return True
    if k in ("arr", "tup"):
        return zc_ok(U, t[2])
    if k == "range":
        return t[1] in ("to", "toincl") and zc_ok(U, t[2])
    if k == "adt":
        d = U.defs[t[1]]
        if d.copy != "zero":
            return False
        b = inst_fields(U, t)
        if d.kind == "struct":
            return all(zc_ok(U, ft) for (_, _, ft) in b)
        return all(zc_ok(U, ft) for (_, _, fs) in b for (_, _, ft) in fs)
    return False


def sertype(U, t):
    k = t[0]
    if k in ("sref", "siter"):
        return ("vec", t[1])
    if k == "adt":
        d = U.defs[t[1]]
        # a parameter that is the bare type of some field is replaced by its SerType
        bare = set()
        fl = d.body if d.kind == "struct" else [f for (_, _, fs) in d.body for f in fs]
        for (_, te) in fl:
            if te[0] == "param":
                bare.add(te[1])
        args = tuple(sertype(U, a) if p in bare else a for p, a in zip(d.tparams, t[2]))
        return ("adt", t[1], args)
    return t


def ser_only(t):
    """contains &[T] or SerIter somewhere (cannot be deserialized as itself)"""
    k = t[0]
    if k in ("sref", "siter"):
        return True
    if k in ("prim", "unit", "string", "boxstr", "rfull", "ph"):
        return False
    if k in ("vec", "bslice", "opt", "bound"):
        return ser_only(t[1])
    if k in ("arr", "tup", "range"):
        return ser_only(t[2])
    if k == "cf":
        return ser_only(t[1]) or ser_only(t[2])
    if k == "adt":
        return any(ser_only(a) for a in t[2])
    return False


# ------------------------------------------------------------------ renderings

def model_info(d):
    consts = " ".join("(%s %s)" % (hx(n.encode()), hx(const_feed(ct, cv))) for (n, ct, cv) in d.cparams)
    return "(info %s %d %d (%s) %x (%s))" % (
        hx(d.name.encode()), 1 if d.copy == "zero" else 0, 1 if d.copy == "deep" else 0,
        " ".join(hx(r.encode()) for r in d.reprs), d.align, consts)


def const_feed(ct, cv):
    """bytes fed to the hasher by `N.hash(hasher)` for a const generic value"""
    if ct == "bool":
        return bytes([1 if cv else 0])
    if ct == "char":
        return int(cv).to_bytes(4, "little")
    return (int(cv) & ((1 << (8 * INTS[ct])) - 1)).to_bytes(INTS[ct], "little")


def model_ty(U, t):
    k = t[0]
    if k == "raw":
        return t[2]
    if k == "prim":
        return t[1]
    if k == "unit":
        return "unit"
    if k == "string":
        return "string"
    if k == "boxstr":
        return "boxstr"
    if k == "rfull":
        return "rfull"
    if k in ("ph", "vec", "bslice", "sref", "siter", "opt", "bound"):
        return "(%s %s)" % (k, model_ty(U, t[1]))
    if k in ("arr", "tup"):
        return "(%s %x %s)" % (k, t[1], model_ty(U, t[2]))
    if k == "cf":
        return "(cf %s %s)" % (model_ty(U, t[1]), model_ty(U, t[2]))
    if k == "range":
        return "(range %s %s)" % (t[1], model_ty(U, t[2]))
    if k == "adt":
        d = U.defs[t[1]]
        b = inst_fields(U, t)
        def fs(l):
            return " ".join("(f %s %d %s)" % (hx(n.encode()), 1 if isp else 0, model_ty(U, ft)) for (n, isp, ft) in l)
        if d.kind == "struct":
            return "(struct %s %s)" % (model_info(d), fs(b))
        return "(enum %s %s)" % (model_info(d), " ".join(
            "(v %s %d %s)" % (hx(vn.encode()), 1 if st != "tuple" else 0, fs(l)) for (vn, st, l) in b))
    raise ValueError(t)


def model_val(v):
    k = v[0]
    if k == "n":
        return "(n %x)" % v[1]
    if k == "b":
        return "(b %s)" % hx(v[1])
    if k == "s":
        return "(s%s)" % "".join(" " + model_val(x) for x in v[1])
    if k == "t":
        return "(t %x%s)" % (v[1], "".join(" " + model_val(x) for x in v[2]))
    raise ValueError(v)


def rust_ty(U, t, lt="'static"):
    k = t[0]
    if k == "prim":
        p = t[1]
        return NZ_RUST.get(p, p)
    if k == "unit":
        return "()"
    if k == "ph":
        return "PhantomData<%s>" % rust_ty(U, t[1], lt)
    if k == "string":
        return "String"
    if k == "boxstr":
        return "Box<str>"
    if k == "vec":
        return "Vec<%s>" % rust_ty(U, t[1], lt)
    if k == "bslice":
        return "Box<[%s]>" % rust_ty(U, t[1], lt)
    if k == "sref":
        return "&%s [%s]" % (lt, rust_ty(U, t[1], lt))
    if k == "siter":
        return "SerIter<%s, %s, LenIter<%s, %s>>" % (lt, rust_ty(U, t[1], lt), lt, rust_ty(U, t[1], lt))
    if k == "arr":
        return "[%s; %d]" % (rust_ty(U, t[2], lt), t[1])
    if k == "tup":
        return "(%s,)" % ", ".join([rust_ty(U, t[2], lt)] * t[1])
    if k == "opt":
        return "Option<%s>" % rust_ty(U, t[1], lt)
    if k == "bound":
        return "Bound<%s>" % rust_ty(U, t[1], lt)
    if k == "cf":
        return "ControlFlow<%s, %s>" % (rust_ty(U, t[1], lt), rust_ty(U, t[2], lt))
    if k == "range":
        n = {"range": "Range", "from": "RangeFrom", "incl": "RangeInclusive", "to": "RangeTo", "toincl": "RangeToInclusive"}[t[1]]
        return "%s<%s>" % (n, rust_ty(U, t[2], lt))
    if k == "rfull":
        return "RangeFull"
    if k == "adt":
        d = U.defs[t[1]]
        args = [rust_ty(U, a, lt) for a in t[2]] + [rust_const(ct, cv) for (_, ct, cv) in d.cparams]
        return d.path + ("<%s>" % ", ".join(args) if args else "")
    if k == "param":
        return t[1]
    if k == "ref":
        return "&%s %s" % (lt, rust_ty(U, t[1], lt))
    if k == "slice":
        return "&%s [%s]" % (lt, rust_ty(U, t[1], lt))
    if k == "str":
        return "&%s str" % lt
    if k == "raw":
        return t[1]
    raise ValueError(t)


def bare_params(d):
    """type parameters that are the declared type of some field (of some variant)"""
    fl = d.body if d.kind == "struct" else [f for (_, _, fs) in d.body for f in fs]
    return set(te[1] for (_, te) in fl if te[0] == "param")


def desertype(U, t):
    """The ε-copy type, by the rule of the documentation: a zero-copy type becomes a reference to
    itself; vectors / boxed slices of zero-copy items become slices, strings become &str; a
    deep-copy derived type keeps its name with exactly the type parameters that are the type of
    some field replaced by their own ε-copy type.  Result in the type language extended with
    ('ref', T), ('slice', T), ('str',)."""
    k = t[0]
    if k in ("prim", "unit", "ph", "rfull"):
        return t
    if k in ("string", "boxstr"):
        return ("str",)
    if k in ("vec", "bslice"):
        return ("slice", t[1]) if is_zc(U, t[1]) else (k, desertype(U, t[1]))
    if k == "arr":
        return ("ref", t) if is_zc(U, t[2]) else ("arr", t[1], desertype(U, t[2]))
    if k == "tup":
        return ("ref", t)
    if k in ("opt", "bound"):
        return (k, desertype(U, t[1]))
    if k == "cf":
        return (k, desertype(U, t[1]), desertype(U, t[2]))
    if k == "range":
        return (k, t[1], desertype(U, t[2]))
    if k == "adt":
        d = U.defs[t[1]]
        if d.copy == "zero":
            return ("ref", t)
        bare = bare_params(d)
        return ("adt", t[1], tuple(desertype(U, a) if p in bare else a for p, a in zip(d.tparams, t[2])))
    raise ValueError(t)


def dty_sexp(U, t):
    """canonical text of an ε-copy type, field by field (the model driver prints the same)"""
    k = t[0]
    if k == "prim":
        return t[1]
    if k in ("unit", "string", "boxstr", "rfull", "str"):
        return k
    if k in ("ph", "vec", "bslice", "opt", "bound", "ref", "slice", "sref", "siter"):
        return "(%s %s)" % (k, dty_sexp(U, t[1]))
    if k in ("arr", "tup"):
        return "(%s %x %s)" % (k, t[1], dty_sexp(U, t[2]))
    if k == "cf":
        return "(cf %s %s)" % (dty_sexp(U, t[1]), dty_sexp(U, t[2]))
    if k == "range":
        return "(range %s %s)" % (t[1], dty_sexp(U, t[2]))
    if k == "adt":
        d = U.defs[t[1]]
        b = inst_fields(U, t)
        nm = hx(d.name.encode())
        if d.kind == "struct":
            return "(struct %s%s)" % (nm, "".join(" " + dty_sexp(U, ft) for (_, _, ft) in b))
        return "(enum %s%s)" % (nm, "".join(" (v%s)" % "".join(" " + dty_sexp(U, ft) for (_, _, ft) in l) for (_, _, l) in b))
    raise ValueError(t)


def texp_sexp(U, d, te):
    """a declared field type as a type expression of Model/Generic.v, or None when it mentions a
    parameter under a constructor the expression language of that file does not have"""
    k = te[0]
    if k == "param":
        return "(p %d)" % d.tparams.index(te[1])
    if not any(mentions(te, p) for p in d.tparams):
        return "(c %s)" % model_ty(U, te)
    if k in ("ph", "vec", "bslice", "opt"):
        e = texp_sexp(U, d, te[1])
        return e and "(%s %s)" % (k, e)
    if k == "arr":
        e = texp_sexp(U, d, te[2])
        return e and "(arr %x %s)" % (te[1], e)
    return None


def gdef_sexp(U, d):
    """a deep-copy generic definition before instantiation (Model/Generic.v gdef), or None"""
    def fs(l):
        out = []
        for (n, te) in l:
            e = texp_sexp(U, d, te)
            if e is None:
                return None
            out.append("(f %s %s)" % (hx(n.encode()), e))
        return " ".join(out)
    if d.kind == "struct":
        f = fs(d.body)
        return None if f is None else "(gdef %s %d 1 (%s) ())" % (model_info(d), len(d.tparams), f)
    vs = []
    for (vn, st, l) in d.body:
        f = fs(l)
        if f is None:
            return None
        vs.append("(v %s %d %s)" % (hx(vn.encode()), 1 if st != "tuple" else 0, f))
    return "(gdef %s %d 0 () (%s))" % (model_info(d), len(d.tparams), " ".join(vs))


def gen_expected(U, t):
    """what Model/Generic.v must say about the instance t = S<args> of a definition of the grammar:
    inside the boundary, instantiating to the type the campaign uses, and with exactly the
    parameters that are the type of a field replaced by their eps-copy type"""
    d = U.defs[t[1]]
    bare = bare_params(d)
    dargs = [dty_sexp(U, desertype(U, a)) if p in bare else dty_sexp(U, a) for p, a in zip(d.tparams, t[2])]
    return "wf=1 inst=same dargs=%s" % ";".join(dargs)


def scale_borrowed(U, t, v, k):
    """the same value with every sequence that ε-copy deserialization returns as a borrowed
    slice / str made k times longer (same skeleton); None if nothing is borrowed with a length"""
    changed = [False]

    def go(t, v):
        kk = t[0]
        if kk in ("string", "boxstr"):
            if len(v[1]):
                changed[0] = True
            return ("b", v[1] * k)
        if kk in ("vec", "bslice"):
            if is_zc(U, t[1]):
                if len(v[1]):
                    changed[0] = True
                return ("s", list(v[1]) * k)
            return ("s", [go(t[1], x) for x in v[1]])
        if kk == "arr":
            return v if is_zc(U, t[2]) else ("s", [go(t[2], x) for x in v[1]])
        if kk in ("opt", "bound"):
            return ("t", v[1], [go(t[1], x) for x in v[2]])
        if kk == "cf":
            return ("t", v[1], [go(t[1 + v[1]], x) for x in v[2]])
        if kk == "range":
            n = 2 if t[1] in ("range", "incl") else 1
            return ("s", [go(t[2], x) for x in v[1][:n]] + list(v[1][n:]))
        if kk == "adt":
            d = U.defs[t[1]]
            if d.copy == "zero":
                return v
            b = inst_fields(U, t)
            if d.kind == "struct":
                return ("s", [go(ft, x) if isp else x for (_, isp, ft), x in zip(b, v[1])])
            return ("t", v[1], [go(ft, x) if isp else x for (_, isp, ft), x in zip(b[v[1]][2], v[2])])
        return v

    r = go(t, v)
    return r if changed[0] else None


def rust_const(ct, cv):
    if ct == "bool":
        return "true" if cv else "false"
    if ct == "char":
        return "'\\u{%x}'" % cv
    return "%d" % cv


def rust_prim_val(p, n):
    if p in NZ_RUST:
        base = p[2:]
        return "%s::new(%s).unwrap()" % (NZ_RUST[p], rust_prim_val(base, n))
    if p == "f32":
        return "f32::from_bits(0x%x)" % n
    if p == "f64":
        return "f64::from_bits(0x%x)" % n
    if p == "bool":
        return "true" if n else "false"
    if p == "char":
        return "char::from_u32(0x%x).unwrap()" % n
    if p.startswith("i"):
        return "(0x%x%s as %s)" % (n, "u" + p[1:], p)
    return "0x%x%s" % (n, p)


class RustCtx:
    """collects the let-bindings needed before the value expression (backing vectors of &[T]/SerIter)"""

    def __init__(self):
        self.lets = []
        self.n = 0

    def fresh(self):
        self.n += 1
        return "tmp%d" % self.n


def rust_val(U, t, v, cx):
    k = t[0]
    if k == "prim":
        return rust_prim_val(t[1], v[1])
    if k == "unit":
        return "()"
    if k == "ph":
        return "PhantomData"
    if k == "rfull":
        return "(..)"
    if k == "string":
        return "String::from_utf8(vec![%s]).unwrap()" % ", ".join("%du8" % b for b in v[1])
    if k == "boxstr":
        return "String::from_utf8(vec![%s]).unwrap().into_boxed_str()" % ", ".join("%du8" % b for b in v[1])
    if k == "vec":
        return "vec![%s]" % ", ".join(rust_val(U, t[1], x, cx) for x in v[1])
    if k == "bslice":
        return "vec![%s].into_boxed_slice()" % ", ".join(rust_val(U, t[1], x, cx) for x in v[1])
    if k == "sref":
        nm = cx.fresh()
        cx.lets.append("let %s: Vec<%s> = vec![%s];" % (nm, rust_ty(U, t[1], "'_"), ", ".join(rust_val(U, t[1], x, cx) for x in v[1])))
        return "&%s[..]" % nm
    if k == "siter":
        nm = cx.fresh()
        cx.lets.append("let %s: Vec<%s> = vec![%s];" % (nm, rust_ty(U, t[1], "'_"), ", ".join(rust_val(U, t[1], x, cx) for x in v[2])))
        return "SerIter::from(LenIter::new(&%s[..], %d))" % (nm, v[1])
    if k == "arr":
        return "[%s]" % ", ".join(rust_val(U, t[2], x, cx) for x in v[1])
    if k == "tup":
        return "(%s,)" % ", ".join(rust_val(U, t[2], x, cx) for x in v[1])
    if k == "opt":
        return "None" if v[1] == 0 else "Some(%s)" % rust_val(U, t[1], v[2][0], cx)
    if k == "bound":
        return ["Bound::Unbounded", "Bound::Included(%s)", "Bound::Excluded(%s)"][v[1]] % (
            () if v[1] == 0 else (rust_val(U, t[1], v[2][0], cx),))
    if k == "cf":
        return ("ControlFlow::Break(%s)" % rust_val(U, t[1], v[2][0], cx)) if v[1] == 0 else (
            "ControlFlow::Continue(%s)" % rust_val(U, t[2], v[2][0], cx))
    if k == "range":
        rk = t[1]
        xs = [rust_val(U, t[2], x, cx) for x in v[1][:2 if rk in ("range", "incl") else 1]]
        if rk == "range":
            return "(%s..%s)" % (xs[0], xs[1])
        if rk == "from":
            return "(%s..)" % xs[0]
        if rk == "to":
            return "(..%s)" % xs[0]
        if rk == "toincl":
            return "(..=%s)" % xs[0]
        if v[1][2][1]:
            return "{ let mut r = %s..=%s; r.next(); r }" % (xs[0], xs[1])
        return "(%s..=%s)" % (xs[0], xs[1])
    if k == "adt" and getattr(U.defs[t[1]], "liar", False):
        return '%s { data: "this lives in the address space of the writer" }' % U.defs[t[1]].path
    if k == "adt":
        d = U.defs[t[1]]
        b = inst_fields(U, t)
        if d.kind == "struct":
            vals = [rust_val(U, ft, x, cx) for (_, _, ft), x in zip(b, v[1])]
            if d.style == "named":
                return "%s { %s }" % (d.path, ", ".join("%s: %s" % (n, e) for (n, _, _), e in zip(b, vals)))
            if d.style == "tuple":
                return "%s(%s)" % (d.path, ", ".join(vals))
            return d.path
        vn, st, fs = b[v[1]]
        vals = [rust_val(U, ft, x, cx) for (_, _, ft), x in zip(fs, v[2])]
        if st == "named":
            return "%s::%s { %s }" % (d.path, vn, ", ".join("%s: %s" % (n, e) for (n, _, _), e in zip(fs, vals)))
        if st == "tuple":
            return "%s::%s(%s)" % (d.path, vn, ", ".join(vals))
        return "%s::%s" % (d.path, vn)
    raise ValueError(t)


def rust_texpr(U, te):
    return rust_ty(U, te, "'static")


LIAR_SRC = """#[derive(Clone, Copy, Debug)]
pub struct %(n)s { pub data: &'static str }
// wrongly declared zero-copy by hand; IS_ZERO_COPY tells the truth
impl epserde::traits::CopyType for %(n)s { type Copy = epserde::traits::Zero; }
impl epserde::traits::MaxSizeOf for %(n)s { fn max_size_of() -> usize { 8 } }
impl epserde::traits::TypeHash for %(n)s { fn type_hash(h: &mut impl core::hash::Hasher) { use core::hash::Hash; "%(n)s".hash(h); } }
impl epserde::traits::AlignHash for %(n)s { fn align_hash(_h: &mut impl core::hash::Hasher, off: &mut usize) { *off += 16; } }
impl epserde::ser::SerializeInner for %(n)s {
    type SerType = Self;
    const IS_ZERO_COPY: bool = false;
    const ZERO_COPY_MISMATCH: bool = false;
    fn _serialize_inner(&self, backend: &mut impl epserde::ser::WriteWithNames) -> epserde::ser::Result<()> {
        epserde::ser::helpers::serialize_zero(backend, self)
    }
}
impl epserde::deser::DeserializeInner for %(n)s {
    type DeserType<'a> = &'a %(n)s;
    fn _deserialize_full_inner(backend: &mut impl epserde::deser::ReadWithPos) -> core::result::Result<Self, epserde::deser::Error> {
        epserde::deser::helpers::deserialize_full_zero::<Self>(backend)
    }
    fn _deserialize_eps_inner<'a>(backend: &mut epserde::deser::SliceWithPos<'a>) -> core::result::Result<Self::DeserType<'a>, epserde::deser::Error> {
        epserde::deser::helpers::deserialize_eps_zero::<Self>(backend)
    }
}
impl Obs for %(n)s { fn obs(&self, out: &mut String) { out.push_str("[n0,n0]"); } }"""


def has_liar(U, t):
    """does the type mention a hand-written, wrongly declared zero-copy type?"""
    k = t[0]
    if k == "adt":
        d = U.defs[t[1]]
        if getattr(d, "liar", False):
            return True
        if any(has_liar(U, a) for a in t[2]):
            return True
        fl = d.body if d.kind == "struct" else [f for (_, _, fs) in d.body for f in fs]
        return any(has_liar(U, te) for (_, te) in fl if te[0] != "param")
    if k in ("ph", "vec", "bslice", "sref", "siter", "opt", "bound"):
        return has_liar(U, t[1])
    if k in ("arr", "tup", "range"):
        return has_liar(U, t[2])
    if k == "cf":
        return has_liar(U, t[1]) or has_liar(U, t[2])
    return False


def rust_def(U, d):
    """Source of the definition plus its Obs impl."""
    if getattr(d, "liar", False):
        return LIAR_SRC % {"n": d.name}
    attrs = ["#[derive(Epserde, Debug, Clone%s)]" % (", Copy" if d.copy == "zero" else "")]
    for r in d.reprs:
        attrs.append("#[repr(%s)]" % r)
    if d.copy == "zero":
        attrs.append("#[zero_copy]")
    elif d.copy == "deep":
        attrs.append("#[deep_copy]")
    gen_decl, gen_use, gen_impl = [], [], []
    for p in d.tparams:
        s = p
        if p in d.bounds:
            s += ": " + d.bounds[p]
        gi = p + ": Obs" + (" + " + d.bounds[p] if p in d.bounds else "")
        if p in d.defaults:
            s += " = " + rust_texpr(U, d.defaults[p])
        gen_decl.append(s)
        gen_use.append(p)
        gen_impl.append(gi)
    for (n, ct, _) in d.cparams:
        gen_decl.append("const %s: %s" % (n, ct))
        gen_use.append(n)
        gen_impl.append("const %s: %s" % (n, ct))
    g_decl = "<%s>" % ", ".join(gen_decl) if gen_decl else ""
    g_use = "<%s>" % ", ".join(gen_use) if gen_use else ""
    g_impl = "<%s>" % ", ".join(gen_impl) if gen_impl else ""
    where = (" where " + ", ".join(d.where)) if d.where else ""
    out = list(attrs)
    if d.kind == "struct":
        if d.style == "named":
            out.append("pub struct %s%s%s { %s }" % (d.name, g_decl, where, ", ".join("pub %s: %s" % (n, rust_texpr(U, te)) for (n, te) in d.body)))
        elif d.style == "tuple":
            out.append("pub struct %s%s(%s)%s;" % (d.name, g_decl, ", ".join("pub " + rust_texpr(U, te) for (_, te) in d.body), where))
        else:
            out.append("pub struct %s%s%s;" % (d.name, g_decl, where))
        acc = ["self.%s.obs(out);" % n for (n, _) in d.body]
        body = "out.push('['); " + " out.push(','); ".join(acc) + " out.push(']');"
    else:
        vs = []
        arms = []
        for i, (vn, st, fs) in enumerate(d.body):
            if st == "named":
                vs.append("%s { %s }" % (vn, ", ".join("%s: %s" % (n, rust_texpr(U, te)) for (n, te) in fs)))
                pat = "%s::%s { %s }" % (d.name, vn, ", ".join(n for (n, _) in fs))
                names = [n for (n, _) in fs]
            elif st == "tuple":
                vs.append("%s(%s)" % (vn, ", ".join(rust_texpr(U, te) for (_, te) in fs)))
                names = ["x%d" % j for j in range(len(fs))]
                pat = "%s::%s(%s)" % (d.name, vn, ", ".join(names))
            else:
                vs.append(vn)
                names = []
                pat = "%s::%s" % (d.name, vn)
            acc = ["%s.obs(out);" % n for n in names]
            arms.append("%s => { out.push_str(\"t%x[\"); %s out.push(']'); }" % (pat, i, " out.push(','); ".join(acc)))
        out.append("pub enum %s%s%s { %s }" % (d.name, g_decl, where, ", ".join(vs)))
        body = "match self { %s }" % " ".join(arms)
    out.append("impl%s Obs for %s%s%s { fn obs(&self, out: &mut String) { %s } }" % (g_impl, d.name, g_use, where, body))
    if d.module:
        return "pub mod %s {\nuse super::*;\n%s\n}" % (d.module, "\n".join(out))
    return "\n".join(out)
