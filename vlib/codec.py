"""The codec campaign: generated types and values run through the real crate (generated Rust
crates built against /repo) and through the extracted model; observations are compared and kept
for the direct oracles of C01, C02, C03, C06, C07, C10, C11, C12, C15, C16."""
import json, os, pickle, random, re, shutil, time
from .common import *
from .tygen import *
from .tyrand import *
from .mutants import *

GEN_SHARDS = 8

PRELUDE = """#![allow(unused_imports, dead_code, non_camel_case_types, non_snake_case, unused_variables, unused_mut, unused_parens)]
use core::marker::PhantomData;
use core::num::*;
use core::ops::*;
use epserde::prelude::*;
use evharness::codec::*;
use evharness::loaders::*;
use evharness::obs::*;

#[global_allocator]
static GLOBAL_ALLOC: evharness::alloc::Counting = evharness::alloc::Counting;
"""


def canon_val(v):
    k = v[0]
    if k == "n":
        return "n%x" % v[1]
    if k == "b":
        return "b" + "".join("%02x" % x for x in v[1])
    if k == "s":
        return "[" + ",".join(canon_val(x) for x in v[1]) + "]"
    if k == "t":
        return "t%x[" % v[1] + ",".join(canon_val(x) for x in v[2]) + "]"
    raise ValueError(v)


def canon_of(U, t, v):
    """canonical text of the value that deserialization must return (SerIter -> its items)"""
    k = t[0]
    if k == "siter":
        return "[" + ",".join(canon_of(U, t[1], x) for x in v[2]) + "]"
    if k in ("vec", "bslice", "sref"):
        return "[" + ",".join(canon_of(U, t[1], x) for x in v[1]) + "]"
    if k in ("arr", "tup"):
        return "[" + ",".join(canon_of(U, t[2], x) for x in v[1]) + "]"
    if k in ("opt", "bound"):
        return "t%x[" % v[1] + ",".join(canon_of(U, t[1], x) for x in v[2]) + "]"
    if k == "cf":
        return "t%x[" % v[1] + ",".join(canon_of(U, t[1 + v[1]], x) for x in v[2]) + "]"
    if k == "range":
        xs = [canon_of(U, t[2], x) for x in v[1][:2 if t[1] in ("range", "incl") else 1]]
        if t[1] == "incl":
            xs.append(canon_val(v[1][2]))
        return "[" + ",".join(xs) + "]"
    if k == "adt":
        d = U.defs[t[1]]
        b = inst_fields(U, t)
        if d.kind == "struct":
            return "[" + ",".join(canon_of(U, ft, x) for (_, _, ft), x in zip(b, v[1])) + "]"
        return "t%x[" % v[1] + ",".join(canon_of(U, ft, x) for (_, _, ft), x in zip(b[v[1]][2], v[2])) + "]"
    return canon_val(v)


REF_RE = re.compile(r"&[STO](?:[0-9a-f]+\+[0-9a-f]+x[0-9a-f]+|zst\+0x[0-9a-f]+|OUTSIDE\+[0-9a-f]+x[0-9a-f]+):")


def erase_refs(s):
    return REF_RE.sub("", s)


def refs_of(s):
    """[(kind, off, nbytes, count)] of the borrowed parts of an ε-copy observation, in order"""
    out = []
    for m in re.finditer(r"&([STO])([0-9a-f]+)\+([0-9a-f]+)x([0-9a-f]+):", s):
        out.append((m.group(1), int(m.group(2), 16), int(m.group(3), 16), int(m.group(4), 16)))
    return out


class Case:
    def __init__(self, cid, tid, t, v):
        self.cid, self.tid, self.t, self.v = cid, tid, t, v


def make_cases(seed, tier, ndefs=None, ntypes=None, nvals=None):
    rng = random.Random(seed * 7919 + 13)
    ndefs = ndefs or (40 if tier == "quick" else 120)
    ntypes = ntypes or (220 if tier == "quick" else 1000)
    nvals = nvals or 3
    U = build_universe(rng, ndefs)
    kdefs, kpairs = known_pair_defs()
    for d in kdefs:
        U.add(d)
    fdefs, fcases = fixed_defs_and_cases()
    for d in fdefs:
        U.add(d)
    types = []
    seen = set()
    depth = 3 if tier == "quick" else 5
    size_limit = 2500 if tier == "quick" else 6000
    # every definition instantiated at least once, then random types
    for name in U.order:
        d = U.defs[name]
        t = ("adt", name, tuple(rand_arg(U, rng, d, p, 2, True) for p in d.tparams))
        types.append(t)
    tries = 0
    while len(types) < ntypes and tries < ntypes * 20:
        tries += 1
        t = rand_type(U, rng, rng.randint(1, depth), allow_ser_only=True)
        key = repr(t)
        if key in seen:
            continue
        seen.add(key)
        types.append(t)
    # near-miss mutants (C04): mutated definitions live in their own modules under the same name
    pairs = []          # (index of T, index of U, kind)
    pair_only = set()   # types that exist only as near-miss partners: they get the observations C04 needs
    counter = [0]
    base_defs = list(U.order)
    chosen = base_defs if tier != "quick" else rng.sample(base_defs, min(14, len(base_defs)))
    chosen = chosen + [d.key for d in fdefs if d.key not in chosen]      # the hand-picked definitions always get their near-misses
    tindex = {}
    for name in chosen:
        d = U.defs[name]
        insts = [t for t in types if t[0] == "adt" and t[1] == name and not ser_only(t)][:2]
        if not insts:
            continue
        for m in mutants_of(d, counter):
            U.add(m)
            for t in insts:
                tm = ("adt", m.key, t[2])
                types.append(tm)
                pair_only.add(repr(tm))
                pairs.append((repr(t), repr(tm), m.mutation))
                # the same near-miss one level down: the hashes of a container must depend on its item type
                if valid_elem(U, t) and valid_elem(U, tm) and rng.random() < (0.6 if tier == "quick" else 1.0):
                    w = rng.choice(["vec", "vec", "bslice", "opt", "arr"])
                    wrap = (lambda x: ("arr", 2, x)) if w == "arr" else (lambda x: (w, x))
                    types.append(wrap(t))
                    types.append(wrap(tm))
                    pair_only.update([repr(wrap(t)), repr(wrap(tm))])
                    pairs.append((repr(wrap(t)), repr(wrap(tm)), m.mutation + "/in-" + w))
    for (ta, tb, kind) in kpairs:
        types.append(ta)
        types.append(tb)
        pairs.append((repr(ta), repr(tb), kind))
    for t in list(types[:ntypes]):
        if ser_only(t):
            continue
        for kind, tn in builtin_near_misses(U, t)[:2]:
            if rng.random() < (0.5 if tier == "quick" else 1.0):
                types.append(tn)
                pair_only.add(repr(tn))
                pairs.append((repr(t), repr(tn), kind))
    # regression corpus: the inputs of every defect found so far (fixed or known), always first,
    # followed by the hand-picked corner cases
    corpus = corpus_cases() + fcases
    types = [t for (t, _) in corpus] + types
    cases = []
    for i, (t, vals) in enumerate(corpus):
        for j, v in enumerate(vals):
            cases.append(Case("c%dv%d" % (i, j), "t%d" % i, t, v))
    for i, t in enumerate(types):
        if i < len(corpus):
            continue
        vals, vseen = [], set()
        for _ in range(nvals * 3):
            v = rand_value(U, t, rng)
            # keep streams of a size the extracted model handles in seconds (it is quadratic in the length)
            for _retry in range(4):
                if approx_len(U, t, v) <= size_limit:
                    break
                v = rand_value(U, t, rng)
            v = shrink_top(U, t, v, size_limit)
            kv = repr(v)
            if kv not in vseen:
                vseen.add(kv)
                vals.append(v)
            if len(vals) >= nvals:
                break
        for j, v in enumerate(vals):
            cases.append(Case("c%dv%d" % (i, j), "t%d" % i, t, v))
    base_types = set(repr(t) for t in types[:len(corpus) + ntypes])
    for c in cases:
        c.pair_only = repr(c.t) in pair_only and repr(c.t) not in base_types
    # cross-read targets: bytes of a case of type T are read as every paired type U (both directions)
    tid_of = {}
    for c in cases:
        tid_of.setdefault(repr(c.t), c.tid)
    for c in cases:
        c.cross = []
    for (rt, ru, kind) in pairs:
        if rt in tid_of and ru in tid_of:
            for c in cases:
                if repr(c.t) == rt:
                    c.cross.append((tid_of[ru], kind))
                elif repr(c.t) == ru:
                    c.cross.append((tid_of[rt], kind))
    # twins: every case that holds a slice reference or an iterator wrapper gets the same case
    # with vectors in their place (C16 compares the two streams byte for byte)
    twins = []
    for i, (ts, tv, v) in enumerate(nested_slice_cases()):
        a = Case("N%dv0" % i, "tN%d" % i, ts, v)
        b = Case("N%dv0o" % i, "tN%do" % i, tv, v)
        a.cross, b.cross = [], []
        a.ser_ops_only = b.ser_ops_only = True
        b.outer_twin_of = a.cid
        types += [ts, tv]
        cases += [a, b]
    for c in cases:
        if ser_only(c.t) and not getattr(c, "ser_ops_only", False):
            tw = Case(c.cid + "w", c.tid + "w", vecty(U, c.t), normv(U, c.t, c.v))
            tw.twin_of = c.cid
            tw.cross = []
            twins.append(tw)
    for tw in twins:
        types.append(tw.t)
    # wrongly declared zero-copy types (C17): fixed definitions and cases
    ldefs, lcases = liar_defs_and_cases()
    for d in ldefs:
        U.add(d)
    for i, (t, vals) in enumerate(lcases):
        types.append(t)
        for j, v in enumerate(vals):
            lc = Case("L%dv%d" % (i, j), "tL%d" % i, t, v)
            lc.cross, lc.liar = [], True
            twins.append(lc)
    # scaled twins (C03): the same skeleton with every borrowed sequence 3 and 8 times longer
    scaled = []
    nsc = 0
    for c in cases:
        if ser_only(c.t) or not c.cid.endswith("v0"):
            continue
        for k in (3, 8):
            sv = scale_borrowed(U, c.t, c.v, k)
            if sv is None or approx_len(U, c.t, sv) > 60000:
                continue
            sc = Case(c.cid + "k%d" % k, c.tid, c.t, sv)
            sc.scaled_of = c.cid
            sc.cross = []
            scaled.append(sc)
        nsc += 1
        if tier == "quick" and len(scaled) >= 160:
            break
    cases += twins + scaled
    return U, types, cases


def shrink_top(U, t, v, limit):
    """a top-level sequence that is too long for the model's budget keeps its first items"""
    if t[0] in ("vec", "bslice", "sref") and approx_len(U, t, v) > limit:
        items = list(v[1])
        while len(items) > 1 and approx_len(U, t, ("s", items)) > limit:
            items = items[:max(1, len(items) // 2)]
        return ("s", items)
    return v


def vecty(U, t):
    k = t[0]
    if k in ("sref", "siter"):
        return ("vec", vecty(U, t[1]))
    if k in ("vec", "bslice", "opt", "bound"):
        return (k, vecty(U, t[1]))
    if k == "arr":
        return (k, t[1], vecty(U, t[2]))
    if k == "cf":
        return (k, vecty(U, t[1]), vecty(U, t[2]))
    if k == "adt":
        return (k, t[1], tuple(vecty(U, a) for a in t[2]))
    return t


def normv(U, t, v):
    k = t[0]
    if k == "siter":
        return ("s", [normv(U, t[1], x) for x in v[2]])
    if k in ("sref", "vec", "bslice"):
        return ("s", [normv(U, t[1], x) for x in v[1]])
    if k == "arr":
        return ("s", [normv(U, t[2], x) for x in v[1]])
    if k in ("opt", "bound"):
        return ("t", v[1], [normv(U, t[1], x) for x in v[2]])
    if k == "cf":
        return ("t", v[1], [normv(U, t[1 + v[1]], x) for x in v[2]])
    if k == "adt":
        d = U.defs[t[1]]
        b = inst_fields(U, t)
        if d.kind == "struct":
            return ("s", [normv(U, ft, x) for (_, _, ft), x in zip(b, v[1])])
        return ("t", v[1], [normv(U, ft, x) for (_, _, ft), x in zip(b[v[1]][2], v[2])])
    return v


def known_pair_defs():
    """definitions and type pairs of the known findings of C04 (hash feed not injective)"""
    u8 = ("prim", "u8")
    t2 = ("tup", 2, u8)
    a = Def("T", "struct", "zero", ["C"], [], [], [("x", ("tup", 2, t2)), ("y", t2), ("z", u8)])
    a.module, a.key = "kf1", "kf1::T"
    b = Def("T", "struct", "zero", ["C"], [], [], [("x", ("tup", 1, t2)), ("y", t2), ("z", ("tup", 3, u8))])
    b.module, b.key = "kf2", "kf2::T"
    e = Def("abcdefg", "enum", "deep", [], [], [], [("N", "unit", []), ("S", "unit", [])])
    e.module, e.key = "kf3", "kf3::abcdefg"
    s_ = Def("S", "struct", "deep", [], [], [("N", "usize", 0xff67666564636261)], [], style="unit")
    s_.module, s_.key = "kf4", "kf4::S"
    pairs = [(("adt", "kf1::T", ()), ("adt", "kf2::T", ()), "known:D11"),
             (("adt", "kf3::abcdefg", ()), ("adt", "kf4::S", ()), "known:D12")]
    return [a, b, e, s_], pairs


def liar_defs_and_cases():
    """C17, second layer: a hand-written type that declares CopyType = Zero but reports
    IS_ZERO_COPY = false, on every path guarded by the run-time check: alone, as the item of
    sequences, as a field of derived zero-copy structs / enum variants (tuple-like and struct-like),
    inside deep-copy structures after other fields."""
    u64, u16 = ("prim", "u64"), ("prim", "u16")
    n = lambda x: ("n", x)
    h = Def("Handle0", "struct", "zero", [], [], [], [("data", u64), ("len", u64)])
    h.liar = True
    H = ("adt", "Handle0", ())
    hv = ("s", [n(0), n(0)])
    zs = Def("BadStruct", "struct", "zero", ["C"], [], [], [("id", u64), ("handle", H)])
    zt = Def("BadTupleStruct", "struct", "zero", ["C"], [], [], [("0", u16), ("1", H)], style="tuple")
    en = Def("BadNamed", "enum", "zero", ["C"], [], [], [("Plain", "tuple", [("0", u64)]), ("Held", "named", [("id", u64), ("handle", H)])])
    et = Def("BadTuple", "enum", "zero", ["C"], [], [], [("Plain", "tuple", [("0", u64)]), ("Held", "tuple", [("0", H)])])
    et2 = Def("BadTupleFirst", "enum", "zero", ["C"], [], [], [("Held", "tuple", [("0", u16), ("1", H)]), ("Unit", "unit", [])])
    dp = Def("DeepHolder", "struct", "deep", [], [], [], [("x", u16), ("h", H), ("y", ("string",))])
    dg = Def("DeepGen", "struct", "none", [], ["A"], [], [("n", ("vec", u16)), ("a", ("param", "A"))])
    # generic zero-copy definitions instantiated with the wrongly declared type: the parameter is bounded
    # by ZeroCopy (a declaration), the refusal must come from the constant of the instance
    gz = Def("BadGenStruct", "struct", "zero", ["C"], ["A"], [], [("tag", u16), ("a", ("param", "A"))], bounds={"A": "ZeroCopy"})
    ge = Def("BadGenEnum", "enum", "zero", ["C"], ["A"], [], [("Plain", "tuple", [("0", u64)]), ("Held", "named", [("id", u64), ("a", ("arr", 2, ("param", "A")))])],
             bounds={"A": "ZeroCopy"})
    gz.zc_params, ge.zc_params = {"A"}, {"A"}
    defs = [h, zs, zt, en, et, et2, dp, dg, gz, ge]
    cases = [
        (H, [hv]),
        (("vec", H), [("s", [hv, hv]), ("s", [])]),
        (("bslice", H), [("s", [hv])]),
        (("sref", H), [("s", [hv, hv])]),
        (("arr", 2, H), [("s", [hv, hv])]),
        (("opt", H), [("t", 1, [hv])]),
        (("adt", "BadStruct", ()), [("s", [n(7), hv])]),
        (("adt", "BadTupleStruct", ()), [("s", [n(7), hv])]),
        (("adt", "BadNamed", ()), [("t", 1, [n(7), hv]), ("t", 0, [n(7)])]),
        (("adt", "BadTuple", ()), [("t", 1, [hv]), ("t", 0, [n(7)])]),
        (("adt", "BadTupleFirst", ()), [("t", 0, [n(7), hv]), ("t", 1, [])]),
        (("vec", ("adt", "BadTuple", ())), [("s", [("t", 1, [hv])])]),
        (("adt", "DeepHolder", ()), [("s", [n(258), hv, ("b", b"xy")])]),
        (("adt", "DeepGen", (H,)), [("s", [("s", [n(1), n(2)]), hv])]),
        (("adt", "DeepGen", (("vec", ("adt", "BadNamed", ())),)), [("s", [("s", [n(1)]), ("s", [("t", 1, [n(7), hv])])])]),
        (("adt", "BadGenStruct", (H,)), [("s", [n(7), hv])]),
        (("adt", "BadGenEnum", (H,)), [("t", 1, [n(7), ("s", [hv, hv])]), ("t", 0, [n(7)])]),
        (("vec", ("adt", "BadGenStruct", (H,))), [("s", [("s", [n(7), hv])])]),
    ]
    return defs, cases


def fixed_defs_and_cases():
    """hand-picked definitions for corners that random generation reaches rarely: a data-carrying
    zero-copy enum in the middle of a zero-copy struct (the running offset of AlignHash after the
    enum), enums whose variants have different sizes, 128-bit const parameters, slices of slices"""
    u8, u16, u32, u64 = ("prim", "u8"), ("prim", "u16"), ("prim", "u32"), ("prim", "u64")
    n = lambda x: ("n", x)
    tag = Def("FxTag", "enum", "zero", ["C"], [], [], [("None", "unit", []), ("Byte", "tuple", [("0", u8)])])
    outer = Def("FxOuter", "struct", "zero", ["C"], [], [], [("t", ("adt", "FxTag", ())), ("x", u16), ("y", u64)])
    wide = Def("FxWide", "enum", "zero", ["C"], [], [], [("A", "named", [("a", u8), ("b", u32)]), ("B", "unit", []), ("C", "tuple", [("0", u64)])])
    mid = Def("FxMid", "struct", "zero", ["C"], [], [], [("p", u8), ("e", ("adt", "FxWide", ())), ("z", u8), ("w", u32)])
    k128 = Def("FxK", "struct", "deep", [], [], [("N", "u128", 5)], [("x", u16)])
    ki128 = Def("FxKi", "enum", "none", [], [], [("N", "i128", -3)], [("A", "unit", []), ("B", "tuple", [("0", u8)])])
    gen = Def("FxGen", "struct", "none", [], ["A"], [], [("a", ("param", "A")), ("n", u8)])
    big = Def("FxBig", "struct", "zero", ["C", "align(128)"], [], [], [("x", u8)], align=128)
    holder = Def("FxHolder", "struct", "deep", [], [], [], [("n", u16), ("b", ("adt", "FxBig", ()))])
    # the derive matrix: (struct named / struct tuple / enum tuple variant / enum named variant) x
    # (parameter that is the type of a field / parameter only mentioned inside a field type)
    A, B = ("param", "A"), ("param", "B")
    shape = Def("FxShape", "enum", "none", [], ["A"], [], [("Empty", "unit", []), ("Tuple", "tuple", [("0", u8), ("1", ("vec", A))]),
                                                          ("Named", "named", [("id", u32), ("items", ("vec", A)), ("last", ("opt", A))])])
    mix = Def("FxMix", "enum", "deep", [], ["A", "B"], [], [("V0", "named", [("a", A), ("bs", ("vec", B))]), ("V1", "tuple", [("0", A), ("1", ("opt", B))])])
    smix = Def("FxSMix", "struct", "none", [], ["A", "B"], [], [("a", A), ("bs", ("vec", B)), ("o", ("opt", B))])
    tmix = Def("FxTMix", "struct", "deep", [], ["A", "B"], [], [("0", ("vec", B)), ("1", A)], style="tuple")
    defs = [tag, outer, wide, mid, k128, ki128, gen, big, holder, shape, mix, smix, tmix]
    T = lambda name, *args: ("adt", name, tuple(args))
    cases = [
        (T("FxOuter"), [("s", [("t", 1, [n(7)]), n(258), n(1 << 40)]), ("s", [("t", 0, []), n(1), n(2)])]),
        (("vec", T("FxOuter")), [("s", [("s", [("t", 1, [n(9)]), n(3), n(4)])])]),
        (T("FxMid"), [("s", [n(1), ("t", 0, [n(2), n(3)]), n(4), n(5)]), ("s", [n(1), ("t", 2, [n(1 << 50)]), n(4), n(5)])]),
        (("arr", 2, T("FxWide")), [("s", [("t", 1, []), ("t", 0, [n(8), n(9)])])]),
        # a native alignment beyond what load_mem guarantees (its pre-check), alone, in a vector, in a deep struct
        (T("FxBig"), [("s", [n(7)])]),
        (("vec", T("FxBig")), [("s", [("s", [n(1)]), ("s", [n(2)])])]),
        (T("FxHolder"), [("s", [n(300), ("s", [n(9)])])]),
        (T("FxK"), [("s", [n(77)])]),
        (("rfull",), [("s", [])]),
        (("opt", ("rfull",)), [("t", 1, [("s", [])])]),
        (T("FxKi"), [("t", 1, [n(5)]), ("t", 0, [])]),
        (T("FxShape", u32), [("t", 0, []), ("t", 1, [n(7), ("s", [n(1), n(2), n(3)])]), ("t", 2, [n(42), ("s", [n(1)]), ("t", 1, [n(5)])])]),
        (T("FxShape", ("string",)), [("t", 2, [n(1), ("s", [("b", b"ab"), ("b", b"")]), ("t", 1, [("b", b"xyz")])]), ("t", 2, [n(0), ("s", []), ("t", 0, [])])]),
        (T("FxMix", ("string",), u16), [("t", 0, [("b", b"hello"), ("s", [n(1), n(2)])]), ("t", 1, [("b", b""), ("t", 1, [n(9)])])]),
        (T("FxMix", ("vec", u64), ("string",)), [("t", 0, [("s", [n(1)]), ("s", [("b", b"a")])]), ("t", 1, [("s", []), ("t", 0, [])])]),
        (T("FxSMix", ("string",), u8), [("s", [("b", b"k"), ("s", [n(1), n(2), n(3)]), ("t", 1, [n(4)])])]),
        (T("FxTMix", u32, ("vec", u8)), [("s", [("s", [("s", [n(1)]), ("s", [])]), n(5)])]),
    ]
    # every primitive on the eps-copy path (inside an Option) with a boundary value
    for p in PRIMS:
        sz = PSIZE[p]
        top = {"bool": 1, "char": 0x10FFFF, "f32": 0x7fc00001, "f64": 0x7ff8000000000001}.get(p, (1 << (8 * sz)) - 1)
        cases.append((("opt", ("prim", p)), [("t", 1, [n(top)])]))
    return defs, cases


def nested_slice_cases():
    """slices whose items hold slices: (slice type, the vector of the same items, value).  Their
    SerType (Vec of the item type as it is) is not deserializable, so only the two streams are
    compared (C16): serialization, header included, must not depend on slice vs vector."""
    u32 = ("prim", "u32")
    n = lambda x: ("n", x)
    g = ("adt", "FxGen", (("sref", u32),))
    return [
        (("sref", ("sref", u32)), ("vec", ("sref", u32)), ("s", [("s", [n(1), n(2)]), ("s", [])])),
        (("sref", g), ("vec", g), ("s", [("s", [("s", [n(5)]), n(1)]), ("s", [("s", []), n(2)])])),
    ]


def corpus_cases():
    u8, u32, u64 = ("prim", "u8"), ("prim", "u32"), ("prim", "u64")
    n = lambda x: ("n", x)
    return [
        # D1: ControlFlow tags
        (("cf", u8, u8), [("t", 1, [n(7)]), ("t", 0, [n(7)])]),
        (("vec", ("cf", ("string",), ("vec", u32))), [("s", [("t", 0, [("b", b"ab")]), ("t", 1, [("s", [n(1), n(2)])])])]),
        # D2: zero-length arrays; D9: zero-sized zero-copy data
        (("arr", 0, u32), [("s", [])]),
        (("arr", 3, ("unit",)), [("s", [("s", []), ("s", []), ("s", [])])]),
        # D3: sequences of zero-sized types
        (("vec", ("unit",)), [("s", [("s", [])] * 3), ("s", [])]),
        (("tup", 1, ("unit",)), [("s", [("s", [])])]),
        (("vec", ("ph", u8)), [("s", [("s", [])] * 2)]),
        (("vec", ("rfull",)), [("s", [("s", [])] * 2)]),
        (("vec", ("range", "to", ("unit",))), [("s", [("s", [("s", [])])] * 2)]),
        (("bslice", ("arr", 0, u64)), [("s", [("s", [])] * 4)]),
        # D15: zero-sized zero-copy structures whose unit is larger than 1, eps-copy
        (("tup", 1, ("arr", 0, u64)), [("s", [("s", [])])]),
        (("arr", 2, ("opt", ("tup", 1, ("arr", 0, u64)))), [("s", [("t", 1, [("s", [("s", [])])]), ("t", 1, [("s", [("s", [])])])])]),
        # D4: Option
        (("opt", u8), [("t", 1, [n(9)]), ("t", 0, [])]),
        # D10 (known finding): a unit that is not a power of two
        (("vec", ("range", "to", ("arr", 3, u32))), [("s", [("s", [("s", [n(1), n(2), n(3)])])] * 2), ("s", [])]),
        (("opt", ("vec", ("range", "toincl", ("arr", 5, ("prim", "i16"))))), [("t", 1, [("s", [("s", [("s", [n(1), n(2), n(3), n(4), n(5)])])])])]),
        # exhausted inclusive ranges (refused by the documented assertion)
        (("range", "incl", u32), [("s", [n(5), n(5), n(1)]), ("s", [n(1), n(9), n(0)])]),
        (("opt", ("range", "incl", u8)), [("t", 1, [("s", [n(3), n(3), n(1)])]), ("t", 1, [("s", [n(1), n(2), n(0)])])]),
        # slices and iterators (honest and lying)
        (("sref", u64), [("s", [n(i) for i in range(20)])]),
        (("siter", u32), [("t", 3, [n(1), n(2), n(3)]), ("t", 5, [n(1), n(2)]), ("t", 0, [n(1)])]),
        (("sref", ("string",)), [("s", [("b", b"x"), ("b", b"")])]),
    ]


def write_gen_workspace(U, cases, gdir, shards=GEN_SHARDS):
    """One generated crate per shard: all definitions + a dispatch over the shard's cases."""
    os.makedirs(gdir, exist_ok=True)
    lock_src = os.path.join(HARNESS, "Cargo.lock")
    members = []
    defs_src = "\n".join(rust_def(U, U.defs[n]) for n in U.order)
    type_of_tid = {}
    for c in cases:
        type_of_tid.setdefault(c.tid, c.t)
    parts = shards_of_cases(cases, shards)
    for k, part in enumerate(parts):
        cdir = os.path.join(gdir, "s%d" % k)
        os.makedirs(os.path.join(cdir, "src"), exist_ok=True)
        members.append("s%d" % k)
        with open(os.path.join(cdir, "Cargo.toml"), "w") as f:
            f.write('[package]\nname = "evc_s%d"\nversion = "0.1.0"\nedition = "2021"\n\n[dependencies]\n'
                    'epserde = { path = "%s/epserde" }\nevharness = { path = "%s" }\n' % (k, REPO, HARNESS))
        body = [PRELUDE, defs_src, ""]
        arms = []
        for c in part:
            cx = RustCtx()
            expr = rust_val(U, c.t, c.v, cx)
            st = rust_ty(U, c.t, "'_")
            # the type the stream is deserialized as: the SerType, or (when that still holds slices: nested
            # slices) the same type with vectors everywhere, which has the same hashes
            dt = rust_ty(U, sertype(U, c.t) if not ser_only(sertype(U, c.t)) else vecty(U, c.t), "'static")
            crosses = ""
            for (tidu, kind) in getattr(c, "cross", []):
                tu = type_of_tid[tidu]
                crosses += "\n    cross_case::<%s, %s>(\"%s\", \"%s\", &mk, ops, arena, out);" % (st, rust_ty(U, sertype(U, tu), "'static"), c.cid, tidu)
            crosses += "\n    load_case::<%s, %s>(\"%s\", &mk, ops, out);" % (st, dt, c.cid)
            if not getattr(c, "liar", False):
                crosses += "\n    sfeed_case::<%s>(\"%s\", ops, out);" % (rust_ty(U, c.t, "'static"), c.cid)
            if not ser_only(sertype(U, c.t)):
                crosses += "\n    dty_case::<%s, %s>(\"%s\", ops, out);" % (dt, rust_ty(U, desertype(U, sertype(U, c.t)), "'static"), c.cid)
            body.append("fn case_%s(ops: &[String], arena: &mut Arena, out: &mut String) {\n    %s\n    let mk = || -> %s { %s };\n    run_case::<%s, %s>(\"%s\", &mk, ops, arena, out);%s\n}" % (
                c.cid, "\n    ".join(cx.lets), st, expr, st, dt, c.cid, crosses))
            arms.append('        "%s" => case_%s(ops, arena, out),' % (c.cid, c.cid))
        body.append("fn dispatch(cid: &str, ops: &[String], arena: &mut Arena, out: &mut String) {\n    match cid {\n%s\n        _ => {}\n    }\n}" % "\n".join(arms))
        body.append("""fn main() {
    std::panic::set_hook(Box::new(|_| {}));
    let path = std::env::args().nth(1).expect("ops file");
    let text = std::fs::read_to_string(path).unwrap();
    let mut arena = Arena::new(1 << 20);
    println!("base {:x}", arena.base());
    println!("flags {}", flags_obs());
    println!("hashfam {}", hash_family_obs());
    let mut out = String::new();
    for line in text.lines() {
        let mut it = line.split(' ');
        let cid = match it.next() { Some(c) if !c.is_empty() => c, _ => continue };
        let ops: Vec<String> = it.map(|s| s.to_string()).collect();
        dispatch(cid, &ops, &mut arena, &mut out);
        // one flush per case: after an abort (e.g. a failed huge allocation) the orchestrator knows where to resume
        out.push_str(&format!("{} done\n", cid));
        { use std::io::Write; let so = std::io::stdout(); let mut l = so.lock(); l.write_all(out.as_bytes()).unwrap(); l.flush().unwrap(); }
        out.clear();
    }
}""")
        src = "\n".join(body) + "\n"
        p = os.path.join(cdir, "src", "main.rs")
        old = open(p).read() if os.path.exists(p) else None
        if old != src:
            with open(p, "w") as f:
                f.write(src)
    with open(os.path.join(gdir, "Cargo.toml"), "w") as f:
        f.write('[workspace]\nresolver = "2"\nmembers = [%s]\n\n[profile.dev]\nopt-level = 0\ndebug = false\nincremental = false\n\n'
                '[profile.nodebug]\ninherits = "dev"\ndebug-assertions = false\noverflow-checks = false\n\n'
                '[patch.crates-io]\nepserde-derive = { path = "%s/epserde-derive" }\n' % (", ".join('"%s"' % m for m in members), REPO))
    os.makedirs(os.path.join(gdir, ".cargo"), exist_ok=True)
    with open(os.path.join(gdir, ".cargo", "config.toml"), "w") as f:
        f.write('[net]\noffline = true\n[build]\nrustflags = ["--cfg", "epserde_verif"]\n')
    if os.path.exists(lock_src):
        shutil.copy(lock_src, os.path.join(gdir, "Cargo.lock"))
    return parts


def shards_of_cases(cases, n):
    """cases of the same type stay in the same shard"""
    by_tid = {}
    for c in cases:
        # a vector twin is compiled in the same crate as its original (type names include the crate name)
        by_tid.setdefault(c.tid.rstrip("w").rstrip("o"), []).append(c)
    tids = list(by_tid.keys())
    parts = [[] for _ in range(n)]
    for i, tid in enumerate(tids):
        parts[i % n].extend(by_tid[tid])
    return [p for p in parts if p]


def build_gen(gdir, tdir, profile=None):
    env = dict(ENV)
    env["CARGO_TARGET_DIR"] = tdir
    # the uplifted binaries are re-linked on every build: a binary of the same name left by another
    # workspace would otherwise be taken for this one's (cargo only checks its own fingerprints)
    import glob
    bdir = profile or "debug"
    for f in glob.glob(os.path.join(tdir, bdir, "gen_s*")) + glob.glob(os.path.join(tdir, bdir, "evc_s*")):
        if os.path.isfile(f):
            os.remove(f)
    rc, out, err = run(["cargo", "build", "--offline", "--quiet", "--workspace"] + (["--profile", profile] if profile else []), cwd=gdir, timeout=3000, env=env)
    return rc == 0, out + err


def run_impl(parts, ops_of, gdir, tdir, tag, binprefix="evc_s", bindir="debug"):
    """ops_of: cid -> list of op strings. Returns (obs dict, base address per case, errors).
    A shard that aborts (e.g. allocation failure) is resumed after the case that killed it; that
    case gets the observation (cid, 'crash')."""
    obs, errs, bases = {}, [], {}
    for part in parts:
        for c in part:
            if getattr(c, "_resume_ops", None):
                c._resume_ops = None
    pending = {k: [c for c in part if ops_of(c)] for k, part in enumerate(parts)}
    hangs = {}
    for attempt in range(40):
        todo = {k: cs for k, cs in pending.items() if cs}
        if not todo:
            break
        cmds, keys = [], []
        for k, cs in todo.items():
            p = os.path.join(gdir, "%s_ops_%d.txt" % (tag, k))
            write_lines(p, ["%s %s" % (c.cid, " ".join(getattr(c, "_resume_ops", None) or ops_of(c))) for c in cs])
            cmds.append([os.path.join(tdir, bindir, "%s%d" % (binprefix, k)), p])
            keys.append(k)
        # a shard takes seconds (quick) to a minute (thorough); a run that hangs (a changed crate may
        # loop or crawl on the bytes it is fed) is killed, counted, and the case it was on is recorded
        # as a crash; after three such hangs the rest of the shard is given up
        budget = 120 if sum(len(cs) for cs in todo.values()) < 4000 else 900
        res = run_parallel(cmds, timeout=budget)
        for k, (rc, out, err) in zip(keys, res):
            if rc == 124:
                hangs[k] = hangs.get(k, 0) + 1
            done = set()
            base = None
            for line in out.splitlines():
                if line.startswith("flags "):
                    obs[("_", "flags")] = line.split(" ", 1)[1]
                if line.startswith("hashfam "):
                    obs[("_", "hashfam")] = line.split(" ", 1)[1]
                if line.startswith("base "):
                    base = int(line.split()[1], 16)
                elif line.endswith(" done") and line.count(" ") == 1:
                    done.add(line.split(" ")[0])
            o = parse_obs(out)
            cs = pending[k]
            for c in cs:
                if base is not None:
                    bases.setdefault(c.cid, base)
            if rc == 0:
                obs.update(o)
                pending[k] = []
                continue
            # keep the observations of completed cases; the first incomplete case crashed the process
            crashed = None
            rest = []
            for c in cs:
                if c.cid in done:
                    continue
                if crashed is None:
                    crashed = c
                else:
                    rest.append(c)
            for (cid, kind), val in o.items():
                if cid in done:
                    obs[(cid, kind)] = val
            if crashed is None:
                errs.append("generated shard %d exited with %d after completing every case: %s" % (k, rc, err[-300:]))
                pending[k] = []
            else:
                for (cid, kind), val in o.items():
                    if cid == crashed.cid:
                        obs[(cid, kind)] = val
                # observations are flushed per operation: the first one without a line was running
                wanted = ops_of(crashed) if not getattr(crashed, "_resume_ops", None) else crashed._resume_ops
                during, after = None, []
                for i, op in enumerate(wanted):
                    base = op.split(":")[0]
                    if base in ("cross", "load", "dty", "sfeed"):
                        continue     # run by the generated code after the others
                    if not any(cid == crashed.cid and (kind == op or kind.split(":")[0] == base) for (cid, kind) in o):
                        during, after = base, wanted[i + 1:]
                        break
                if during is None:
                    # the operations run by the generated code after run_case, in its order
                    for base in ("cross", "load", "sfeed", "dty"):
                        want = [op for op in wanted if op.split(":")[0] == base]
                        if want and not any(cid == crashed.cid and kind.split(":")[0] == base for (cid, kind) in o):
                            during = base
                            break
                msg = "ABORT rc=%d during=%s %s" % (rc, during or "?", err.strip().splitlines()[0][:200] if err.strip() else "")
                obs[(crashed.cid, "crash")] = (obs[(crashed.cid, "crash")] + " ; " + msg) if (crashed.cid, "crash") in obs else msg
                if during and after:
                    # the rest of the crashed case's operations still run
                    crashed._resume_ops = after
                    rest = [crashed] + rest
                if hangs.get(k, 0) >= 3:
                    errs.append("generated shard %d hung %d times (last on case %s): the rest of the shard was not run" % (k, hangs[k], crashed.cid))
                    rest = []
                pending[k] = rest
    else:
        errs.append("generated shards kept aborting (more than 40 restarts)")
    return obs, bases, errs


def run_model(U, cases, hdrs, ops_of, workdir, tag):
    """hdrs: cid -> (th, ah, namehex). Returns (obs dict, errors)."""
    os.makedirs(workdir, exist_ok=True)
    by_tid = {}
    for c in cases:
        by_tid.setdefault(c.tid, []).append(c)
    # balance the shards by an estimate of the work: roughly linear in the stream length times the
    # number of positions tried (all of them up to a few hundred bytes, a sample beyond)
    def est(c):
        n = approx_len(U, c.t, c.v)
        return 100 + n * min(n, 600) // 20
    cost = {tid: sum(est(c) for c in cs) for tid, cs in by_tid.items()}
    groups = [[] for _ in range(NPROC)]
    load = [0] * NPROC
    for tid in sorted(by_tid, key=lambda t: -cost[t]):
        k = load.index(min(load))
        groups[k].append(tid)
        load[k] += cost[tid]
    groups = [g for g in groups if g]
    cmds = []
    for k, tids in enumerate(groups):
        lines = []
        declared = set()
        for tid in tids:
            # types read across (C04) must be declared in the same file
            for c in by_tid[tid]:
                for (tidu, _) in getattr(c, "cross", []):
                    if tidu not in declared and tidu in by_tid:
                        declared.add(tidu)
                        lines.append("T %s %s" % (tidu, model_ty(U, by_tid[tidu][0].t)))
        for tid in tids:
            cs = by_tid[tid]
            lines.append("T %s %s" % (tid, model_ty(U, cs[0].t)))
            t0 = cs[0].t
            if t0[0] == "adt" and U.defs[t0[1]].tparams and U.defs[t0[1]].copy != "zero" and not getattr(U.defs[t0[1]], "liar", False) \
                    and not any(getattr(c, "liar", False) for c in cs):
                g = gdef_sexp(U, U.defs[t0[1]])
                if g is not None:
                    lines.append("G g%s %s %s %s" % (tid, tid, g, " ".join(model_ty(U, a) for a in t0[2])))
            for c in cs:
                if c.cid not in hdrs or not ops_of(c):
                    continue
                th, ah, nm = hdrs[c.cid]
                lines.append("C %s %s %s %s %s %s %s" % (c.cid, tid, th, ah, nm or "-", model_val(c.v), " ".join(ops_of(c))))
        p = os.path.join(workdir, "%s_model_%d.txt" % (tag, k))
        write_lines(p, lines)
        cmds.append([os.path.join(DRIVER, "_build", "model_run"), "codec", p])
    res = run_parallel(cmds, timeout=3000)
    obs, errs = {}, []
    for k, (rc, out, err) in enumerate(res):
        if rc != 0:
            errs.append("model driver shard %d exited with %d: %s" % (k, rc, err[-400:]))
        obs.update(parse_obs(out))
    return obs, errs


def masked_equal(model_hex, impl_hex):
    if len(model_hex) != len(impl_hex):
        return False
    for i in range(0, len(model_hex), 2):
        m = model_hex[i:i + 2]
        if m != "xx" and m != impl_hex[i:i + 2]:
            return False
    return True


def split_ser(s):
    """'OK n=.. bytes=.. chunks=..' -> dict"""
    d = {"status": s.split(" n=")[0]}
    for part in s.split(" "):
        if "=" in part:
            k, v = part.split("=", 1)
            d[k] = v
    return d


def ser_agree(m, i):
    if m is None or i is None:
        return False
    dm, di = split_ser(m), split_ser(i)
    if dm["status"] != di["status"]:
        return False
    if dm["status"] == "OK":
        return dm.get("n") == di.get("n") and masked_equal(dm.get("bytes", ""), di.get("bytes", "")) and \
            chunks_agree(dm.get("chunks", ""), di.get("chunks", ""))
    return True


def chunk_bounds(s):
    """(write boundaries, boundaries strictly inside a run of padding, flush positions) of a chunk list"""
    pos, bounds, inside, flushes = 0, set(), set(), []
    for x in s.split(","):
        if not x:
            continue
        if x == "F":
            flushes.append(pos)
        elif x.startswith("p"):
            n = int(x[1:])
            for j in range(1, n + 1):
                bounds.add(pos + j)
                if j < n:
                    inside.add(pos + j)
            pos += n
        else:
            pos += int(x)
            bounds.add(pos)
    return bounds, inside, flushes


def chunks_agree(model, impl):
    """the implementation hands the writer the pieces the model says, except that it may write a run
    of padding zeros in fewer calls than one per byte (how padding is chunked is no part of any
    property; pieces of data, and padding merged with data, are)"""
    bm, inside, fm = chunk_bounds(model)
    bi, _, fi = chunk_bounds(impl)
    return fm == fi and bi <= bm and (bm - bi) <= inside


def norm_chunks(s):
    out = []
    for x in s.split(","):
        if not x:
            continue
        if x.startswith("p"):
            out += ["1"] * int(x[1:])
        else:
            out.append(x)
    return out


# ------------------------------------------------------------------ the shared campaign

def tag_counts(U, t, v):
    """number of valid tags of every tag written for (t, v), in stream order"""
    k = t[0]
    out = []
    if k in ("vec", "bslice", "sref"):
        if not is_zc(U, t[1]):
            for x in v[1]:
                out += tag_counts(U, t[1], x)
    elif k == "arr":
        if not is_zc(U, t[2]):
            for x in v[1]:
                out += tag_counts(U, t[2], x)
    elif k == "opt":
        out.append(2)
        for x in v[2]:
            out += tag_counts(U, t[1], x)
    elif k == "bound":
        out.append(3)
        for x in v[2]:
            out += tag_counts(U, t[1], x)
    elif k == "cf":
        out.append(2)
        out += tag_counts(U, t[1 + v[1]], v[2][0])
    elif k == "adt":
        d = U.defs[t[1]]
        if d.copy != "zero":
            b = inst_fields(U, t)
            if d.kind == "struct":
                for (_, _, ft), x in zip(b, v[1]):
                    out += tag_counts(U, ft, x)
            else:
                out.append(len(b))
                for (_, _, ft), x in zip(b[v[1]][2], v[2]):
                    out += tag_counts(U, ft, x)
    return out


def approx_len(U, t, v):
    """rough size of the serialized value (only used to choose the sampling step)"""
    k = v[0]
    if k == "n":
        return 8
    if k == "b":
        return 8 + len(v[1])
    if k == "s":
        return 8 + sum(approx_len(U, t, x) for x in v[1])
    return 8 + sum(approx_len(U, t, x) for x in v[2])


def contains_siter(t):
    if t[0] == "siter":
        return True
    if t[0] == "adt":
        return any(contains_siter(a) for a in t[2])
    return any(contains_siter(y) for y in t[1:] if isinstance(y, tuple))


def repo_fingerprint():
    """hash of every source file cargo reads under /repo (tracked or not)"""
    h = hashlib.sha256()
    for root, dirs, files in os.walk(REPO):
        dirs[:] = sorted(d for d in dirs if d not in ("target", ".git"))
        for f in sorted(files):
            if f.endswith((".rs", ".toml", ".lock", ".md")):
                p = os.path.join(root, f)
                h.update(p.encode())
                try:
                    h.update(open(p, "rb").read())
                except OSError:
                    pass
    return h.hexdigest()


def verif_fingerprint():
    h = hashlib.sha256()
    for sub in ("vlib", "driver", "harness/src", "coq/Model", "coq/Extract"):
        for root, dirs, files in os.walk(os.path.join(VERIF, sub)):
            dirs[:] = sorted(d for d in dirs if d not in ("_build", "__pycache__"))
            for f in sorted(files):
                if f.endswith((".py", ".ml", ".rs", ".v", ".toml", ".sh")):
                    p = os.path.join(root, f)
                    h.update(p.encode())
                    h.update(open(p, "rb").read())
    return h.hexdigest()


class Campaign:
    pass


_campaigns = {}


def campaign(tier):
    """Run (or load from the cache keyed by the /repo and /verif contents) the codec campaign."""
    key = sha("%s|%s|%s|%d" % (repo_fingerprint(), verif_fingerprint(), tier, seed()))
    if key in _campaigns:
        return _campaigns[key]
    cdir = os.path.join(CACHE, "campaign")
    os.makedirs(cdir, exist_ok=True)
    cpath = os.path.join(cdir, "codec_%s.pkl" % key[:24])
    if os.path.exists(cpath):
        try:
            with open(cpath, "rb") as f:
                c = pickle.load(f)
            _campaigns[key] = c
            return c
        except Exception:
            pass
    c = run_campaign(tier)
    c.key = key
    if not c.errors:
        # keep a few recent campaign files only
        old = sorted((os.path.getmtime(os.path.join(cdir, f)), f) for f in os.listdir(cdir))
        for _, f in old[:-6]:
            try:
                os.remove(os.path.join(cdir, f))
            except OSError:
                pass
        with open(cpath, "wb") as f:
            pickle.dump(c, f)
    _campaigns[key] = c
    return c


def run_campaign(tier):
    from .coqstage import build as coq_build
    t0 = time.time()
    c = Campaign()
    c.tier, c.errors = tier, []
    c.U, c.types, c.cases = make_cases(seed(), tier)
    gdir = os.path.join(CACHE, "gen", "codec_%s" % tier)
    tdir = os.path.join(CACHE, "gen-target")
    parts = write_gen_workspace(c.U, c.cases, gdir)
    okc, logc = coq_build()
    if not okc:
        c.errors.append("coq/driver build failed: " + logc[-1500:])
    c.timing = {"generate": round(time.time() - t0, 1)}
    t1 = time.time()
    ok, log = build_gen(gdir, tdir)
    c.timing["cargo_build"] = round(time.time() - t1, 1)
    c.build_log = log[-4000:]
    if not ok:
        c.errors.append("generated harness does not compile:\n" + log[-3000:])
        c.iobs, c.mobs, c.bases, c.hdrs = {}, {}, {}, {}
        c.wall = time.time() - t0
        return c
    c.tagc = {x.cid: tag_counts(c.U, x.t, x.v) for x in c.cases}
    # every cut / failure position for short streams; for longer ones in the quick tier the first
    # and last 48 and every step-th (the thorough tier tries all of them)
    # (the thorough tier tries every position of streams up to ~500 bytes and a four times denser sample beyond)
    c.steps = {x.cid: max(1, approx_len(c.U, x.t, x.v) // (96 if tier == "quick" else 500)) for x in c.cases}
    heavy_limit = 700 if tier == "quick" else 4000

    def iops(x):
        si = contains_siter(x.t)
        st = c.steps[x.cid]
        ops = ["hdr", "ser", "feed", "cross", "full", "eps:0", "schema:noagain" if si else "schema", "flips", "place",
               "cuts:%d" % st, "rfault:%d" % st, "wfault:%s:%d" % ("noagain" if si else "again", st)]
        if not si and not getattr(x, "twin_of", None) and (tier != "quick" or x.cid.endswith("v0")):
            ops.append("load")
        ops.append("tags:" + ",".join(str(n) for n in c.tagc[x.cid]))
        if getattr(x, "liar", False) or getattr(x, "ser_ops_only", False):
            return ["ser", "schema"]
        if getattr(x, "pair_only", False):
            return ["hdr", "ser", "feed", "cross", "full", "eps:0", "schema:noagain" if si else "schema", "dty"]
        if getattr(x, "scaled_of", None):
            # a scaled twin exists only for the allocation comparison (and the usual round trips)
            return ["hdr", "ser", "full", "eps:0", "alloc:0"]
        if not ser_only(sertype(c.U, x.t)):
            ops += ["alloc:0", "dty"]
        ops.append("sfeed")
        return ops

    t1 = time.time()
    c.iobs, c.bases, errs = run_impl(parts, iops, gdir, tdir, "run")
    c.timing["impl_run"] = round(time.time() - t1, 1)
    c.errors += errs
    # the same cases on a build without debug assertions and overflow checks
    t1 = time.time()
    ok2, log2 = build_gen(gdir, tdir, profile="nodebug")
    if ok2:
        c.iobs2, _b2, errs2 = run_impl(parts, iops, gdir, tdir, "run2", bindir="nodebug")
        c.errors += errs2
    else:
        c.iobs2 = {}
        c.errors.append("generated harness does not compile without debug assertions:\n" + log2[-3000:])
    c.timing["nodebug_build_and_run"] = round(time.time() - t1, 1)
    c.hdrs = {}
    for x in c.cases:
        # header inputs (hash words, type-name string) are read from the bytes the implementation wrote
        b = bytes.fromhex(split_ser(c.iobs.get((x.cid, "ser"), "")).get("bytes", ""))
        if len(b) >= 37:
            nl = int.from_bytes(b[29:37], "little")
            if len(b) >= 37 + nl:
                c.hdrs[x.cid] = ("%x" % int.from_bytes(b[13:21], "little"), "%x" % int.from_bytes(b[21:29], "little"), b[37:37 + nl].hex())

    def mops(x):
        b = "%x" % c.bases.get(x.cid, 0)
        cr = []
        for (tidu, kind) in getattr(x, "cross", []):
            hu = next((c.hdrs[y.cid] for y in c.cases if y.tid == tidu and y.cid in c.hdrs), None)
            if hu:
                cr.append("cross:%s:%s:%s:%s" % (b, tidu, hu[0], hu[1]))
        if (x.cid, "load") in c.iobs:
            cr.append("load")
        if getattr(x, "liar", False) or getattr(x, "ser_ops_only", False):
            return ["tinfo", "ser", "schema"]
        if getattr(x, "pair_only", False):
            return cr + ["tinfo", "ser", "feed", "full", "eps:" + b, "schema"] + (["dty"] if (x.cid, "dty") in c.iobs else [])
        if getattr(x, "scaled_of", None):
            return ["tinfo", "ser", "full", "eps:" + b, "alloc:" + b]
        if (x.cid, "alloc:0") in c.iobs:
            cr.append("alloc:" + b)
        if (x.cid, "dty") in c.iobs:
            cr.append("dty")
        if (x.cid, "sfeed") in c.iobs:
            cr.append("sfeed")
        return cr + ["tinfo", "ser", "feed", "full", "eps:" + b, "schema", "wfault:%d" % c.steps[x.cid], "rfault:%d" % c.steps[x.cid], "flips:" + b, "place:" + b,
                "cuts:%s:%d" % (b, c.steps[x.cid]),
                "tags:%s:%s" % (b, ",".join(str(n) for n in c.tagc[x.cid]))]

    if okc:
        t1 = time.time()
        c.mobs, merrs = run_model(c.U, c.cases, c.hdrs, mops, gdir, "run")
        c.timing["model_run"] = round(time.time() - t1, 1)
        c.errors += merrs
    else:
        c.mobs = {}
    c.wall = time.time() - t0
    return c


def mkey(c, x, op):
    """key of the model observation corresponding to the implementation observation [op]"""
    b = "%x" % c.bases.get(x.cid, 0)
    if op == "eps:0":
        return "eps:" + b
    if op == "alloc:0":
        return "alloc:" + b
    if op == "cuts":
        return "cuts:" + b
    if op in ("flips", "place", "tags"):
        return op + ":" + b
    if op.startswith("cross:"):
        return op
    return op


def agree(c, x, op):
    """does the model agree with the implementation on observation [op] of case [x]?"""
    i = c.iobs.get((x.cid, op))
    m = c.mobs.get((x.cid, mkey(c, x, op)))
    if op == "ser":
        return ser_agree(m, i)
    if i is None and m is None:
        return True
    if i is None or m is None:
        return False
    if op == "dty":
        # the implementation compares rustc's DeserType with the type rendered from the documentation's rule;
        # here the model's field-level ε-copy type is compared with the expansion of that same type
        return m.strip() == dty_sexp(c.U, desertype(c.U, sertype(c.U, x.t)))
    if op == "alloc:0":
        return alloc_agree(c, x, m, i)
    if op == "schema":
        # the implementation adds same=..; compare rows and render outcomes
        return m == re.sub(r" same=[yn]$", "", i)
    if op == "place":
        return m.strip() == re.sub(r" misaligned=\d+( diffrefs=\d+)?$", "", i).strip()
    if op == "feed":
        # the implementation adds the hash words; compare the two feeds
        return m.strip() == " ".join(p for p in i.split(" ") if p.startswith(("t=", "a=")))
    if op == "wfault":
        # the implementation also reports real sinks and the re-serialization of the same object
        keep = lambda s: " ".join(p for p in s.split(" ") if p and not p.startswith(("file=", "devfull=", "again=", "sflush=", "smid=")))
        return keep(m) == keep(i)
    return m.strip() == i.strip()


def may_zst(U, t, seen=None):
    """could a sequence of items of a type built from t need no heap block (zero-sized items)?"""
    k = t[0]
    if k in ("unit", "ph", "rfull"):
        return True
    if k == "arr":
        return t[1] == 0 or may_zst(U, t[2])
    if k in ("vec", "bslice", "opt", "bound", "sref", "siter"):
        return may_zst(U, t[1])
    if k in ("tup", "range"):
        return may_zst(U, t[2])
    if k == "cf":
        return may_zst(U, t[1]) or may_zst(U, t[2])
    if k == "adt":
        d = U.defs[t[1]]
        b = inst_fields(U, t)
        if d.kind == "struct":
            return len(b) == 0 or any(may_zst(U, ft) for (_, _, ft) in b)
        return len(b) <= 1 or any(may_zst(U, ft) for (_, _, fs) in b for (_, _, ft) in fs)
    return False


def alloc_parts(s):
    d = dict(p.split("=", 1) for p in (s or "").split(" ") if "=" in p)
    return d


def alloc_agree(c, x, m, i):
    """allocation requests of the ε-copy call: the model gives the element count of each request,
    the implementation the byte size of each request"""
    if i.strip() in ("none", "PANIC") or m.strip().endswith("none"):
        return (i.strip() in ("none", "PANIC")) == m.strip().endswith("none")
    dm, di = alloc_parts(m), alloc_parts(i)
    if dm.get("refs_in_blocks") not in ("y", "na") or dm.get("skel") != "y":
        return False
    counts = [int(z, 16) for z in dm.get("counts", "").split(",") if z]
    counts = [z for z in counts if z]
    sizes = [int(z, 16) for z in di.get("sizes", "").split(",") if z]
    if int(di.get("calls", "0"), 16) != len(sizes):
        return len(counts) >= 256          # log overflow: only the prefix is known
    if may_zst(c.U, sertype(c.U, x.t)):
        return len(sizes) <= len(counts)
    return len(sizes) == len(counts) and all(sz % n == 0 and sz >= n for sz, n in zip(sizes, counts))


def type_histogram(c):
    h = {}
    for t in c.types:
        for k in constructors(c.U, t):
            h[k] = h.get(k, 0) + 1
    return h


def nontrivial(c, x):
    """a case is non-trivial when its type has a composite constructor or its value a non-default scalar"""
    return type_size(x.t) > 1 or (x.v[0] == "n" and x.v[1] not in (0,))
