"""C03: borrowed parts in place, allocation independent of borrowed lengths. Proof: Props/C03.v."""
from .codecprops import *


def check(v):
    run_codec_property(v, "C03", ["ser", "eps:0", "schema", "alloc:0"], oracle_c03,
                       rule_extra="Scaled twins: for every first value whose eps-copy result borrows a non-empty sequence, the same skeleton with the borrowed sequences 3x and 8x longer; allocation requests (count, bytes, sizes) of the eps-copy call must be identical.")
    c = campaign(v.tier)
    sc = [x for x in c.cases if getattr(x, "scaled_of", None)]
    v.coverage["scaled_twins"] = len(sc)
    v.coverage["scaled_twins_compared"] = sum(1 for x in sc if (c.iobs.get((x.cid, "alloc:0")) or "").startswith("calls"))
    v.coverage["references_checked"] = sum(len(refs_of(c.iobs.get((x.cid, "eps:0"), ""))) for x in c.cases)
    v.coverage["allocation_observations"] = sum(1 for x in c.cases if (c.iobs.get((x.cid, "alloc:0")) or "").startswith("calls"))
    v.assumptions.append("PARTIAL: that a Rust reference aliases the input buffer (rather than a copy) is observed through pointer arithmetic in the harness on every case; that nothing allocates behind the counting global allocator is a runtime fact outside the model")
    v.assumptions.append("the model gives the element count of every allocation request; element sizes are rustc's (each observed request size must be a multiple of the model's count; types that may contain zero-sized items are compared by <=)")


def replay(v, path):
    return replay_codec(v, path, "C03", oracle_c03)
