"""C15: tags. Proof: Props/C15.v. Correspondence: O-full, O-eps, and the 'tags' observation
(every foreign one-byte tag value at every tag position, boundary usize values for derived enums)."""
from .codecprops import *


def check(v):
    run_codec_property(v, "C15", ["ser", "full", "eps:0", "tags"], oracle_c15,
                       rule_extra="For every tag position of every case (positions read from serialize_with_schema): all foreign one-byte values, and {n, n+1, 255, 256, 2^32, 2^63, 2^64-1} for derived enums with n variants, both modes.")
    c = campaign(v.tier)
    npos = sum(len(c.tagc.get(x.cid, [])) for x in c.cases)
    nvals = 0
    for x in c.cases:
        line = c.iobs.get((x.cid, "tags"), "")
        nvals += line.count(">")
    v.coverage["tag_positions"] = npos
    v.coverage["foreign_tag_values_tried"] = nvals
    v.coverage.setdefault("samples", []).append({"theorem": "C15_foreign_byte_tag_eps: forall base t tag rest pos, byte_tagged t = true -> ntags t <= tag -> tag < 256 -> deser_eps base t (tag :: rest) pos = Err (InvalidTag tag)"})


def replay(v, path):
    return replay_codec(v, path, "C15", oracle_c15)
