"""Probe programs: small client programs compiled (cargo check) against /repo; the outcome class
(compiles / rejected) is compared with the recorded expectation."""
import json, os, shutil
from .common import *

PDIR = os.path.join(VERIF, "probes")


def load_probes(prop):
    with open(os.path.join(PDIR, "probes.json")) as f:
        return [p for p in json.load(f)["probes"] if p["property"] == prop]


def run_probes(prop, extra=None):
    """returns [(probe, outcome, first error code / message)]"""
    probes = load_probes(prop) + (extra or [])
    root = os.path.join(CACHE, "probes", prop)
    os.makedirs(root, exist_ok=True)
    members = []
    for p in probes:
        d = os.path.join(root, p["id"])
        os.makedirs(os.path.join(d, "src"), exist_ok=True)
        members.append(p["id"])
        with open(os.path.join(d, "Cargo.toml"), "w") as f:
            f.write('[package]\nname = "probe_%s"\nversion = "0.1.0"\nedition = "2021"\n\n[dependencies]\nepserde = { path = "%s/epserde" }\nmaligned = "0.2.1"\n' % (p["id"], REPO))
        src = p["main"]
        mp = os.path.join(d, "src", "main.rs")
        if not os.path.exists(mp) or open(mp).read() != src:
            with open(mp, "w") as f:
                f.write(src)
    with open(os.path.join(root, "Cargo.toml"), "w") as f:
        f.write('[workspace]\nresolver = "2"\nmembers = [%s]\n\n[patch.crates-io]\nepserde-derive = { path = "%s/epserde-derive" }\n' % (
            ", ".join('"%s"' % m for m in members), REPO))
    os.makedirs(os.path.join(root, ".cargo"), exist_ok=True)
    with open(os.path.join(root, ".cargo", "config.toml"), "w") as f:
        f.write('[net]\noffline = true\n')
    shutil.copy(os.path.join(HARNESS, "Cargo.lock"), os.path.join(root, "Cargo.lock"))
    env = dict(ENV)
    env["CARGO_TARGET_DIR"] = os.path.join(CACHE, "probes-target")
    out = []
    for p in probes:
        rc, so, se = run(["cargo", "check", "--offline", "--quiet", "-p", "probe_" + p["id"]], cwd=root, timeout=600, env=env)
        if rc == 0:
            out.append((p, "compiles", ""))
        else:
            import re
            m = re.search(r"error(\[E\d+\])?: ([^\n]*)", se)
            # an error in a dependency (the crate itself does not build) is not a verdict on the probe
            kind = "rejected" if ("probe_" + p["id"]) in se or m else "build-failed"
            out.append((p, kind, (m.group(0) if m else se[-300:])[:300]))
    return out
