"""C09: backing memory lifetime, single release, no leak on failure. Proof: Props/C09.v (resource ledger).
Correspondence / direct oracle: the 'load' observation: heap-live bytes and blocks (counting global allocator), memory mappings
(/proc/self/maps) and file descriptors before and after every successful load + drop and every failing load (wrong type,
corrupt header, truncated at 5 cut points) through the four loaders. Lifetime part: probe programs through rustc."""
from .codecprops import *
from .p_c08 import load_parts
from . import probes


def oracle_c09(c, x):
    line, d, fails = load_parts(c, x)
    if not line:
        return None
    for k, val in d.items():
        if "|LEAK" in val:
            return "%s: after the loaded structure was dropped, (heap bytes; heap blocks; mappings; descriptors) changed by %s" % (k, val[val.index("|LEAK") + 5:][:60])
    for q in fails.split(","):
        if "|LEAK" in q:
            lab, res = q.split("=", 1)
            return "failed load (%s) returned %s and left (heap bytes; heap blocks; mappings; descriptors) changed by %s" % (lab, res.split("|")[0], res[res.index("|LEAK") + 5:])
        if "=" in q:
            lab, res = q.split("=", 1)
            if lab.startswith(("wrongtype", "magic")) and not res.startswith("E:"):
                return "loading a file of the wrong type / with a corrupt header via %s gave %s" % (lab, res)
    return None


def check(v):
    run_codec_property(v, "C09", ["ser"], oracle_c09,
                       rule_extra="Per load case: 17 successful loads (then dropped) and 36 failing loads, each bracketed by measurements of heap, mappings and descriptors.")
    c = campaign(v.tier)
    v.coverage["failing_loads_measured"] = sum(load_parts(c, x)[2].count("=") for x in c.cases)
    v.coverage["successful_loads_measured"] = sum(sum(1 for k in load_parts(c, x)[1] if k[-1:].isdigit()) for x in c.cases)
    if v.violations:
        return
    # lifetime probes
    res = probes.run_probes("C09")
    v.coverage["lifetime_probes"] = [{"id": p["id"], "access_path": p["access_path"], "expected": p["expected"], "observed": o, "diagnostic": msg[:120]} for (p, o, msg) in res]
    for (p, o, msg) in res:
        if o == "build-failed":
            v.violation("probes", {"kind": "correspondence", "correspondence": "a probe program could not be judged: the crate does not build", "detail": msg}, no_input=True)
            return
        if p["expected"] == "rejected" and o != "rejected":
            v.violation("probe_" + p["id"], {"kind": "failing-input", "why": "a safe client program that keeps borrowed data past its owner compiles (access path: %s)" % p["access_path"], "program": p["main"]})
            return
        if p["expected"] == "compiles":
            if o == "compiles":
                if known_listed("C09", p.get("known", "")):
                    v.known("%s: %s [probe %s compiles]" % (p["known"], known_listed("C09", p["known"])["identified_by"], p["id"]))
                else:
                    v.violation("probe_" + p["id"], {"kind": "failing-input", "why": "a safe client program that keeps borrowed data past its owner compiles (access path: %s)" % p["access_path"], "program": p["main"]})
                    return
    v.assumptions.append("PARTIAL: that borrowed results cannot outlive their owner for ALL safe client programs is a statement about Rust's borrow checker, not expressible in the model; a family of probe programs (one per access path) is compiled on every run and compared with the recorded classification")
    v.assumptions.append("the ledger model abstracts each loader to its resource steps; the tie to the code is the measurement of heap, mappings and descriptors around every load")
    v.coverage.setdefault("samples", []).append({"theorem": "C09_failure_leaks_nothing: forall l n s h live, can_stop l s = true -> load_ledger l n s h live = (live, false)   (h: by returned error or by panic)   (load_ledger = the loader's ownership steps run with Rust's unwinding rules)"})


def replay(v, path):
    return replay_codec(v, path, "C09", oracle_c09)
