"""C06: published format and readability of old files. Proof: Props/C06.v (the serializer emits exactly the bytes of
the direct format specification enc/enc_file; header layout; the reference decoder inverts it; hash feeds are the recipe).
Correspondence: O-ser byte for byte and O-feed for every generated case (campaign); the golden corpus: files written by
the pinned build (709c463) are read by the current build in both modes and by the reference decoder, and the current
build writes the same bytes again."""
from .codecprops import *
from . import golden


def oracle_c06(c, x):
    """the implementation writes the bytes of the reference encoder (padding masked) and the feeds of the recipe"""
    st = ser_status(c, x)
    if st.get("status") != "OK":
        return None
    mm = split_ser(c.mobs.get((x.cid, "ser"), ""))
    if mm.get("status") != "OK":
        return None
    a, b = st.get("bytes", ""), mm.get("bytes", "")
    if len(a) != len(b):
        return "the stream has %d bytes, format 1.1 prescribes %d" % (len(a) // 2, len(b) // 2)
    for i in range(0, len(a), 2):
        if b[i:i + 2] != "xx" and a[i:i + 2] != b[i:i + 2]:
            return "byte %d of the stream is %s, format 1.1 prescribes %s" % (i // 2, a[i:i + 2], b[i:i + 2])
    fi = c.iobs.get((x.cid, "feed"), "")
    fm = c.mobs.get((x.cid, "feed"), "")
    if fi and fm and not agree(c, x, "feed"):
        return "the bytes fed to the type/alignment hashers differ from the published recipe"
    if "hdr=n" in fi:
        return "the hash words in the header are not xxh3-64 of the feeds"
    return None


def check(v):
    run_codec_property(v, "C06", ["ser", "feed", "full"], oracle_c06,
                       rule_extra="Reference encoder = the model's ser_top (proved equal to the direct specification enc_file).")
    if v.violations:
        return
    cases, iobs, mobs, errs = golden.run_gold()
    cov = v.coverage
    cov["golden_files"] = len(cases)
    cov["golden_pinned_commit"] = "709c463"
    if errs:
        v.violation("golden", {"kind": "correspondence", "correspondence": "the golden-corpus reader could not be built/run against the current tree", "detail": [e[-2500:] for e in errs[:2]]}, no_input=True)
        return
    kf = known_listed("C06", "D10") or known_listed("C02", "D10")
    bad_model = 0
    for g in cases:
        cid = g["cid"]
        got = iobs.get((cid, "gold"), "")
        canon = g["canon"]
        if g["exhausted"]:
            want_full, want_eps = ["P"], ["P"]
        else:
            want_full, want_eps = ["OK:" + canon], ["OK:" + canon]
            # eps-copy of the D10 class is refused from any aligned buffer (known finding of C02/C12)
            if "RangeTo" in g["rust_type"]:
                want_eps.append("E:AlignmentError")
        m = re.match(r"full=(\S*) eps=(\S*)", got)
        if not m or m.group(1) not in want_full or m.group(2) not in want_eps:
            v.violation("golden", {"kind": "failing-input", "why": "a file written by the pinned build no longer deserializes to its value",
                                   "case": cid, "rust_type": g["rust_type"], "value": g["model_value"][:1500], "file_bytes": g["bytes"][:4000],
                                   "expected_value": canon[:2000], "observed": got[:2000]})
            return
        # the current build writes the same file (padding bytes masked with the model's mask)
        st = split_ser(iobs.get((cid, "ser"), ""))
        mm = split_ser(mobs.get((cid, "ser"), ""))
        a, b, mk = st.get("bytes", ""), g["bytes"], mm.get("bytes", "")
        if st.get("status") != "OK" or len(a) != len(b):
            v.violation("golden", {"kind": "failing-input", "why": "the current build no longer writes the file the pinned build wrote (length %d vs %d)" % (len(a) // 2, len(b) // 2),
                                   "case": cid, "rust_type": g["rust_type"], "value": g["model_value"][:1500], "pinned_bytes": b[:4000], "current": iobs.get((cid, "ser"), "")[:4000]})
            return
        for i in range(0, len(a), 2):
            if a[i:i + 2] != b[i:i + 2] and mk[i:i + 2] != "xx":
                v.violation("golden", {"kind": "failing-input", "why": "the current build writes byte %d as %s, the pinned build wrote %s" % (i // 2, a[i:i + 2], b[i:i + 2]),
                                       "case": cid, "rust_type": g["rust_type"], "value": g["model_value"][:1500], "pinned_bytes": b[:4000], "current_bytes": a[:4000]})
                return
        # the reference decoder reads the stored file to the same result as the implementation
        if (mobs.get((cid, "gold"), "") or "").strip() != got.strip():
            bad_model += 1
    cov["golden_read_back"] = len(cases)
    if bad_model:
        v.violation("golden-correspondence", {"kind": "correspondence", "correspondence": "reference decoder vs implementation on %d golden files" % bad_model}, no_input=True)
    cov.setdefault("samples", []).append({"golden_case": cases[3]["rust_type"], "bytes": cases[3]["bytes"][:200], "value": cases[3]["canon"][:200]})
    cov.setdefault("samples", []).append({"theorem": "C06_stream_is_format_1_1: forall pf h t v evs, wf t -> wt t v -> ser_top pf h t v = (evs, SDone) -> bytes_of evs = enc_file pf (h_type_hash h) (h_align_hash h) (h_name h) t v"})
    v.assumptions.append("the golden files were written once by the pinned build 709c463 (committed under corpus/golden with the Rust sources of their types); cases the pinned build could not write are absent")


def replay(v, path):
    return replay_codec(v, path, "C06", oracle_c06)
