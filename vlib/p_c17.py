"""C17: wrongly declared zero-copy types. Proof: Props/C17.v.
Tie to the code: (1) the probe family -- every zero-copy definition of the campaign's universe and four fixed ones, each
mutated by replacing one field with a non-zero-copy type (7 kinds), dropping repr(C), or adding deep_copy -- is compiled against
/repo; rustc's verdict is compared with the model's derive_check and with the property (rejected, or compiles but panics before
any byte of the value); (2) hand-written types that declare CopyType = Zero but report IS_ZERO_COPY = false are serialized by the
real crate on every path guarded by the run-time check and compared with the model (campaign cases L*)."""
import random
from .codecprops import *
from . import deriveprobes as dp


def header_len(hexbytes):
    b = bytes.fromhex(hexbytes)
    if len(b) < 37:
        return None
    return 37 + int.from_bytes(b[29:37], "little")


def oracle_c17(c, x):
    """campaign cases holding a wrongly declared type: serialization must panic and must not have
    written any byte of the wrongly declared value (the model gives the exact bytes written before it)"""
    if not getattr(x, "liar", False):
        return None
    i = c.iobs.get((x.cid, "ser"), "")
    m = c.mobs.get((x.cid, "ser"), "")
    holds = "Handle0" in rust_ty(c.U, x.t, "'_") or dp.has_liar(c.U, x.t)
    reaches = liar_reached(c.U, x.t, x.v)
    if reaches:
        if not i.startswith("PANIC"):
            return "a value holding a type wrongly declared zero-copy was serialized without a panic: %s" % i[:200]
        if b"this lives".hex() in i:
            return "bytes of the referenced data were written"
    return None


def liar_reached(U, t, v):
    """does serializing this value reach a wrongly declared zero-copy type (on a zero-copy path)?"""
    k = t[0]
    if k == "adt":
        d = U.defs[t[1]]
        if getattr(d, "liar", False):
            return True
        b = inst_fields(U, t)
        if d.copy == "zero":
            # the whole value is written as one block: the check covers all field types of all variants
            fl = b if d.kind == "struct" else [f for (_, _, fs) in b for f in fs]
            return any(dp.has_liar(U, ft) for (_, _, ft) in fl)
        if d.kind == "struct":
            return any(liar_reached(U, ft, x) for (_, _, ft), x in zip(b, v[1]))
        return any(liar_reached(U, ft, x) for (_, _, ft), x in zip(b[v[1]][2], v[2]))
    if k in ("vec", "bslice", "sref"):
        if is_zc(U, t[1]):
            return dp.has_liar(U, t[1])       # checked before the length is written, even when empty
        return any(liar_reached(U, t[1], x) for x in v[1])
    if k == "arr":
        return dp.has_liar(U, t[2]) if is_zc(U, t[2]) else any(liar_reached(U, t[2], x) for x in v[1])
    if k in ("opt", "bound"):
        return any(liar_reached(U, t[1], x) for x in v[2])
    return False


def check(v):
    run_codec_property(v, "C17", ["ser", "schema"], oracle_c17,
                       rule_extra="Cases L*: a hand-written type with CopyType = Zero and IS_ZERO_COPY = false, alone, in Vec / Box<[T]> / &[T] / arrays / Option, as a field of derived zero-copy structs and of tuple-like and struct-like variants of zero-copy enums, and inside deep-copy structures after other fields.")
    if v.violations:
        return
    c = campaign(v.tier)
    lc = [x for x in c.cases if getattr(x, "liar", False)]
    v.coverage["wrongly_declared_runtime_cases"] = len(lc)
    v.coverage["wrongly_declared_runtime_panics"] = sum(1 for x in lc if c.iobs.get((x.cid, "ser"), "").startswith("PANIC"))
    # the probe family
    rng = random.Random(seed() * 31 + 17)
    import copy
    U = copy.deepcopy(c.U)
    probes = dp.c17_probes(U, rng, per_def=4 if v.tier == "quick" else 12)
    base_src = "\n".join(dp.def_src(U, U.defs[k], ["Epserde", "Debug", "Clone"] + (["Copy"] if U.defs[k].copy == "zero" else []))
                         for k in U.order if not U.defs[k].module and not getattr(U.defs[k], "liar", False)
                         and not any(dp.has_liar(U, te) for (_, te) in all_fields(U.defs[k]))) + dp.BASE_EXTRA
    res = dp.judge("C17", probes, base_src, "c17")
    pred = dp.model_predictions(probes, os.path.join(CACHE, "probes", "c17"))
    hist, muts = {}, {}
    corr = None
    for p in probes:
        r = res[p.pid]
        hist[r["class"]] = hist.get(r["class"], 0) + 1
        muts[p.mutation] = muts.get(p.mutation, 0) + 1
        if r["class"] in ("build-failed",):
            v.violation("probes", {"kind": "correspondence", "correspondence": "probe crate could not be judged", "probe": p.what, "detail": r}, no_input=True)
            return
        if r["class"] == "compiles":
            # first layer absent for this definition: the second layer must stop it
            out = r.get("run", "")
            line = next((l for l in out.splitlines() if l.startswith(p.pid + " ")), "")
            obs = line.split(" ", 1)[1] if line else out
            m = re.match(r"(OK|ERR|PANIC|RUN-PANIC)(?: n=\d+)? ?(?:bytes=([0-9a-f]*))?", obs)
            written = m.group(2) if m and m.group(2) is not None else ""
            hl = header_len(written) if written else None
            beyond = (len(written) // 2 - hl) if hl is not None else 0
            if not m or m.group(1) not in ("PANIC", "RUN-PANIC") or beyond > 0:
                v.violation("probe_" + p.pid, {"kind": "failing-input", "why": "a type wrongly declared zero-copy (%s) compiles and is serialized: %s" % (p.what, obs[:300]),
                                               "program": p.src, "value": p.run})
                return
            if corr is None:
                corr = (p, r, "compiles (stopped at run time: %s)" % obs[:80])
            continue
        want = dp.MODEL_CLASS.get(pred.get(p.pid, ""), None)
        if want and want != r["class"] and corr is None:
            corr = (p, r, r["class"])
    v.coverage["probe_programs"] = len(probes)
    v.coverage["probe_outcomes"] = hist
    v.coverage["probe_mutations"] = muts
    v.coverage["probe_model_predictions"] = len([p for p in probes if p.pid in pred])
    if "_error" in pred:
        v.violation("probes", {"kind": "correspondence", "correspondence": "model driver failed on derive_check", "detail": pred["_error"]}, no_input=True)
        return
    if corr:
        p, r, got = corr
        v.violation("correspondence", {"kind": "correspondence", "correspondence": "model derive_check vs rustc on a probe definition",
                                       "probe": p.what, "program": p.src, "model": pred.get(p.pid), "impl": got, "diagnostics": r.get("diagnostics"),
                                       "searched": "all %d probes: every one is rejected at compile time or panics before writing any byte of the value; %d run-time cases panic" % (len(probes), len(lc))},
                    no_input=True)
        return
    v.assumptions.append("PARTIAL: rustc's trait resolution and the expansion of the derive are observed on the probe family, not modelled; the model carries the decision logic (derive_check) and the ordering argument (check before align and write)")
    v.coverage.setdefault("samples", []).append({"probe": probes[0].what, "program": probes[0].src, "observed": res[probes[0].pid]})


def replay(v, path):
    return replay_codec(v, path, "C17", oracle_c17)
