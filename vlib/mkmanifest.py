"""Regenerates /verif/MANIFEST.json from the table below (python3 -m vlib.mkmanifest)."""
import json, os

VERIF = os.path.dirname(os.path.dirname(os.path.abspath(__file__)))
TRUST = ("Trusted: Coq 8.16.1 kernel (vm_compute for closed computations), no axioms (Print Assumptions checked on every run), extraction via ExtrOcamlBasic, "
         "OCaml driver, Python generators, Rust observation harness. The theorems are about the hand-written Gallina model; the model is tied to /repo on every run by "
         "differential execution of the same generated cases on the real crate and on the extracted model. ")

CLAIMS = {
    "C01": dict(
        text="Theorems (Coq): for every well-formed type of the grammar (any nesting, derived structs/enums included), every well-typed value without an exhausted inclusive range on the deep path, every stream position and every content of padding bytes, serialization succeeds and full-copy deserialization of the produced bytes returns the value, consuming exactly those bytes (C01_serialization_succeeds, C01_full_roundtrip, C01_roundtrip_in_context). "
             "Tie to the code: ~600 (quick) / ~4000 (thorough) generated (type, value) cases are serialized and deserialized by the real crate and by the extracted model; bytes (padding masked), chunking and results must agree, and the direct oracle (round trip returns the value) is evaluated on the implementation.",
        note=TRUST + "Modelled, not verified: unsafe reinterpretations (align_to, from_raw_parts, assume_init), trait dispatch, rustc layout of std types (checked by the byte-level comparison). Length corruption is outside the property.",
        tech="Coq proof by mutual induction over the type grammar (round-trip combinators) + differential correspondence check", ref="DESIGN.md section 7 C01"),
    "C04": dict(
        text="Theorems (Coq): for EVERY 64-bit hash function H of the byte feeds, bytes serialized as T are refused when read as U, by both deserializers and for every base address, with WrongTypeHash (or, type hashes equal, WrongAlignHash) carrying the hash found in the file -- never a value, never a panic -- as soon as H separates the type feeds or the alignment feeds (C04_cross_read_refused). The feeds (the exact bytes given to TypeHash/AlignHash) are proved to separate the listed near-misses: type name, field/variant renamed, field type, primitive types pairwise (prefix-free), copy kind, sequence kind, array length, tuple arity of a whole tuple, element/generic argument, const value, zero-copy size, repr attributes; the documented equivalents (&[T], SerIter, Vec<T>) share both feeds. Two refutation lemmas exhibit different types with equal feeds (known findings D11 tuple regrouping, D12 raw const bytes). "
             "Tie to the code: a recording Hasher captures the exact bytes fed by TypeHash/AlignHash of every generated type (mutants included) and they are compared byte for byte with the model's feeds; the header words are checked to be xxh3-64 of those feeds; for ~1000 (quick) ordered pairs (T, near-miss mutant U), both directions, bytes of T are read as U by the real crate and by the model in both modes: every pair must be refused with the hash found in the file.",
        note=TRUST + "That xxh3-64 separates two given different feeds cannot be proved (hypothesis H f1 <> H f2 in the theorem); it is confirmed with the real hash on every generated pair. General injectivity of the feed is false (D11, D12) and is proved only mutation by mutation. The feed of range types contains the output of stringify! inside macro_rules ('core :: ops :: Range'), i.e. depends on rustc's pretty-printer.",
        tech="Coq proofs (case analysis on the header; prefix-freeness of the string feed; per-mutation separation lemmas; computed refutations) + differential correspondence check of feeds and cross reads", ref="DESIGN.md section 7 C04"),
    "C06": dict(
        text="Theorems (Coq): format 1.1 is written out as a plain function from (type, value) to bytes (Model/Format.v: header = cookie, versions, pointer width, two hash words, length-prefixed type name; value in declaration order with little-endian primitives, 8-byte lengths, one-byte tags, 8-byte variant indices, zero padding to the unit of each zero-copy block, in-memory representation of the block); for every type, value, padding content and position the serializer emits exactly those bytes (C06_stream_is_format_1_1, C06_value_encoding), the value starts at offset 37 + |name|, and every conforming file decodes to its value (C06_conforming_files_decode). "
             "Tie to the code: (a) on every generated case the real crate's bytes are compared with the model's; (b) a committed corpus of 474 golden files (bytes written by the pinned build, kept under /verif/corpus/golden with the type definitions) is, on every run, re-serialized by the current crate and compared byte for byte (padding masked), and every golden file is read by the current crate in both modes and must give the recorded value; (c) the byte feeds of both header hashes are compared with the model's recipe on every type and the header words with xxh3-64 of those feeds.",
        note=TRUST + "The hash words are xxh3-64 of the modelled feeds: xxh3 itself is not modelled (words in golden files are the reference). The type-name string is rustc's type_name (documented as unstable across compilers); golden files pin it for this toolchain. PARTIAL: 'readable by later builds' is established against the pinned corpus and the reference encoder, not for unknown future formats.",
        tech="Coq proof (serializer = reference encoder, by mutual induction over the type grammar; reference decoder round trip) + differential correspondence check + golden-corpus cross-build comparison", ref="DESIGN.md section 7 C06"),
    "C08": dict(
        text="Theorems (Coq): store writes exactly the stream; for each of the four loaders, every type (units powers of two covering native alignment), value and padding content, loading the stored file returns a structure equal to the stored value, consumes exactly the file and leaves the zero tail untouched whenever the region base is a multiple of the largest unit (C08_loaders_return_the_stored_value); the backing region starts with the file, has the rounded-up capacity (multiple of 64 / 16, less than one unit beyond the file) and is zero after the file (C08_region); the flag translation table for all 8 flag sets (C08_flags, finite domain by computation); truncated files are refused by the loaders that do not zero-extend (C08_truncated_files). "
             "Tie to the code: one value per generated type (375 in quick) is stored (also over an existing longer file) and loaded by load_full, load_mem, load_mmap and mmap under all 8 flag sets with the real crate; the result, the backing range (hook MemCase::verif_backing_range), the tail bytes, the value after moving, boxing and use from another thread, and the translated flag bits (hook Flags::verif_mmap_flag_bits) are compared with the model and the direct oracle; a second build without the mmap feature stores and loads files of all 64 length residues.",
        note=TRUST + "PARTIAL: validity after moves/boxing/threads rests on heap blocks and mappings not moving with their owner; the model makes moves the identity, so that facet is observed on every load, not proved. The OS (mmap, file system) and mmap-rs are trusted; page-size alignment of mappings is observed.",
        tech="Coq proof (composition of the eps-copy round trip with the region construction; finite table by computation) + differential correspondence check on real files", ref="DESIGN.md section 7 C08"),
    "C09": dict(
        text="Theorems (Coq) over a ledger model of the loaders' resource steps: a successful load leaves exactly one more live resource, owned by the returned case, and dropping the case releases exactly that one (C09_success_then_release_once); a load stopping at ANY step (metadata, open, acquisition, read, deserialization error or panic) leaves the ledger unchanged (C09_failure_leaks_nothing); load_full holds nothing. "
             "Tie to the code: around every successful load + drop (17 per case) and every failing load (28 per case: wrong type, corrupt header, truncation at several cut points, through all four loaders) the harness measures live heap bytes and blocks (counting global allocator), memory mappings (/proc/self/maps) and open descriptors; any difference is a violation with the file as replay. Lifetime part: 7 probe programs (one per access path) are compiled against /repo on every run and compared with the recorded classification. Four genuine leaks found this way are fixed in /repo (05218c1, f833d76, d735b01, 3564370); known finding D7 (copy-out of a borrowed field from a MemCase compiles) is listed.",
        note=TRUST + "PARTIAL: 'for every safe client program' is a statement about rustc's borrow checker and is not expressible in the model: decided only on the probe family. The ledger abstracts each loader to its resource steps; its tie to the code is the measurement, not a translation.",
        tech="Coq proof (case analysis over the stop point of each loader on a resource ledger) + leak measurements around every load + compile-outcome probes", ref="DESIGN.md section 7 C09"),
    "C07": dict(
        text="Theorems (Coq): the padding formula is the least padding for every position and every power-of-two unit up to 2^64 (C07_pad_formula); in the stream of every value of every type whose units are powers of two, for every padding content, every zero-copy block starts at a multiple of its unit and every padding run equals pad_align_to(offset, unit), is non-empty and shorter than the unit (C07_blocks_aligned); units dominate native alignment and field units (range-free types); returned count = bytes written; full-copy consumes exactly the stream. "
             "Tie to the code: block offsets/units/paddings are read from serialize_with_schema of the real crate on every generated case, counts and chunk lengths from a recording writer, consumed positions from both deserializers, and compared with the model. Known finding D10 (non power-of-two unit of RangeTo over odd-sized index types) is listed in known_findings.json and proved as a refutation lemma.",
        note=TRUST + "The eps-copy consumption count is observed (theorem for it is part of C02). D10 class excluded by the hypothesis units_pow2 and reported as KNOWN-FINDING.",
        tech="Coq proofs (bit-level arithmetic lemma; induction over types on the event list) + differential correspondence check", ref="DESIGN.md section 7 C07"),
    "C02": dict(
        text="Theorems (Coq): for every type whose units are powers of two covering the native alignment, every value, padding content and base address that is a multiple of the largest unit of the type, eps-copy deserialization of the serialized bytes succeeds, consumes exactly the stream and its result with borrowed parts resolved equals the value (C02_eps_roundtrip); whenever both modes return a value on the same bytes they describe the same value (C02_modes_agree); the same for every field in context (C02_eps_in_context, a dichotomy value / AlignmentError). Derived types: parameter-typed fields eps-copy, all other fields full-copy from the same slice, as the derive generates. "
             "Tie to the code: every generated case is eps-copy deserialized by the real crate from a 64 KiB aligned buffer and by the extracted model at the same address; results (with the offset, byte length and count of every borrowed slice/str/reference) must agree; direct oracle: erase(eps) = original = full. The proof attempt found a genuine defect (zero-sized zero-copy structures with unit > 1 were misread in eps mode), fixed in /repo (d12f556).",
        note=TRUST + "Known finding D10 (non power-of-two unit) is excluded by units_pow2 and proved as a refutation lemma. That a Rust reference really aliases the buffer is observed through pointer arithmetic in the harness, not proved.",
        tech="Coq proof: simulation combinator (value or AlignmentError by base address) by mutual induction over the type grammar + differential correspondence check", ref="DESIGN.md section 7 C02"),
    "C10": dict(
        text="Theorems (Coq): complete characterisation of check_header for ANY values of the seven header fields, on both reader backends and every base address: the two entry points return exactly the error given by header_verdict (wrong cookie with its value / endianness for the reversed cookie / major / minor raised / pointer width / type hash / alignment hash, each carrying the offending value) and never a value or a panic; a lower minor version gives the same continuation; a single-bit flip always changes its field and never yields the reversed cookie; every serialized stream starts with that header. "
             "Tie to the code: on every generated stream all 232 single-bit flips of the 29 fixed bytes, the reversed cookie and minor versions {0,1,2,255,256,65535} are run through deserialize_full and deserialize_eps of the real crate and through the model, and compared; the direct oracle checks the required error and payload for each.",
        note=TRUST + "The type-name bytes are not among the checked fields (a corrupted name can make String::from_utf8 panic): outside the property, stated as the hypothesis fields_in_range.",
        tech="Coq proof by case analysis on the header fields (+ bit-level lemma for flips) + differential correspondence check", ref="DESIGN.md section 7 C10"),
    "C11": dict(
        text="Theorems (Coq), for every type without any well-formedness hypothesis: every reader of the model consumes a prefix of its input, is independent of what follows, and on every strict prefix of what it consumes fails with ReadError (full-copy) or with ReadError/a panic (eps-copy, never AlignmentError, never a value) -- hence every strict prefix of a stream that deserializes is refused in both modes (C11_truncated_full, C11_truncated_eps), in particular every prefix of what serialization produced (C11_prefix_of_serialization_refused). "
             "Tie to the code: for every generated stream every cut point is deserialized in both modes by the real crate (reader implementing only read; eps-copy with the valid continuation left in memory behind the prefix so that an out-of-prefix read would succeed and be reported) and by the model, outcome classes compared.",
        note=TRUST + "'Without reading outside the prefix' is observed, not proved (the model reads lists). load_full/mmap of truncated files are covered with the loaders (C08).",
        tech="Coq proof: prefix-strictness of reader combinators, mutual induction over the type grammar + differential correspondence check", ref="DESIGN.md section 7 C11"),
    "C12": dict(
        text="Theorem (Coq): for EVERY base address, eps-copy deserialization of a serialized stream returns the serialized value exactly when the address is a multiple of need(t, v) -- the largest unit among the zero-copy blocks met for this value -- and AlignmentError otherwise; no other outcome (no wrong value, no other error, no panic, hence no reference misaligned for its type); need is a power of two bounded by the largest unit of the type; requirement 1 means any address works. "
             "Tie to the code: every generated stream is placed at the 128 residues 0..127 of an aligned arena and eps-copy deserialized by the real crate (references checked for native alignment by the harness) and by the model; the direct oracle recomputes the requirement from the block units recorded by serialize_with_schema.",
        note=TRUST + "Known finding D10 (non power-of-two unit) excluded by units_pow2.",
        tech="Coq proof: value-or-AlignmentError simulation parametrised by the base address + differential correspondence check", ref="DESIGN.md section 7 C12"),
    "C13": dict(
        text="Theorems (Coq), quantified over EVERY writer state machine (any answers to write: short count, Ok(0), Interrupted, error; any answer to flush): the bytes accepted are a prefix of the fault-free stream; success is reported only with the exact count when exactly the fault-free bytes and the flush were accepted, any other run gives WriteError (never a panic, never success after a failure); writers that only split or retry receive exactly the fault-free bytes; the writer failing after k bytes receives exactly the first k. The borrowed buffer of a slice reference is never released by the serializer (events carry no release on any path; fix 267d146). "
             "Tie to the code: for every generated value the real crate is run against a writer failing after every byte count k in [0,len], a failing flush, short writes with interrupts, Ok(0), BufWriter<File> and /dev/full, through serialize AND serialize_with_schema; the same oracles run on the model; the same object is serialized again afterwards (source intact).",
        note=TRUST + "std::io::Write::write_all's loop is modelled as documented (std is trusted). Heap integrity is observed (a double free aborts the harness and is reported), not proved.",
        tech="Coq proof by induction over the event list with the writer oracle universally quantified + differential correspondence check with fault injection", ref="DESIGN.md section 7 C13"),
    "C14": dict(
        text="Theorems (Coq): read_exact -- the only way full-copy deserialization touches its reader -- over a reader delivering the stream in arbitrary fragments with arbitrary Interrupted interleavings returns exactly what read_exact on the stream as one slice returns (same bytes, same position, ReadError at the end of data; never a panic); with a reader failing after k bytes every read needing a byte at or beyond k gives ReadError; a stream that ends before the value is complete yields ReadError for every type (C11's strictness). "
             "Tie to the code: deserialize_full of the real crate over readers implementing only read with 1-byte, 3-byte, prime-sized and mixed fragments, interleaved Interrupted, and failing after every byte count k in [0,len), for every generated value; results must equal the unfragmented result / be ReadError.",
        note=TRUST + "PARTIAL: the whole-value statement is the composition of the read_exact-level theorem with the list-level model of deser_full (which uses read_exact only); 'without corrupting memory through partially built values' is not expressible in a value-level model and is observed only (a crash of the harness is reported as a violation; seeded mutant C14-a is caught this way).",
        tech="Coq proof by induction on the read loop for every fragmentation policy + differential correspondence check with fault injection", ref="DESIGN.md section 7 C14"),
    "C15": dict(
        text="Theorems (Coq): for Option, Bound, ControlFlow every one-byte tag value that no variant writes, and for derived enums every pointer-width value >= the number of variants, is rejected with InvalidTag carrying exactly that value, in both modes, at every position and whatever follows; the written tag selects exactly its variant's decoder and every value of every sum type round-trips (C15_written_tags_decode). "
             "Tie to the code: at every tag position of every generated stream (positions read from serialize_with_schema) all foreign one-byte values / boundary usize values are substituted and both deserializers of the real crate and of the model are run and compared.",
        note=TRUST + "Two defects of this property were found on the pinned tree and fixed in /repo (ControlFlow tags da137be; Option eps payload fd5c726).",
        tech="Coq proof by computation on the tag + induction over variants + differential correspondence check", ref="DESIGN.md section 7 C15"),
    "C16": dict(
        text="Theorems (Coq): for every type in which slice references and iterator wrappers occur anywhere (standalone, type-parameter fields of structures, inside options...), every well-typed value with honest iterators and every padding content, the stream (header included) and the outcome equal those of the value with vectors in their place (C16_stream_equals_vector_stream), hence it deserializes as the vector type to the items; an iterator announcing k and producing n <> k items yields IteratorLengthMismatch{actual n, expected k} for every pair. "
             "Tie to the code: every generated case holding &[T] or SerIter (zero-copy and deep elements, nested under generic structs/enums, honest and lying) has a generated vector twin compiled in the same crate; the two streams produced by the real crate are compared byte for byte (padding masked) and with the model.",
        note=TRUST + "The type-name string in the header is rustc's (type_name of the SerType): equal for twin types in the same crate.",
        tech="Coq proof: byte-equivalence of writers closed under the combinators, mutual induction over the type grammar + differential correspondence check on twins", ref="DESIGN.md section 7 C16"),
    "C18": dict(
        text="Theorems (Coq) about the rows computed from the writer events: rows are in pre-order (offsets never decrease; the vector is the pre-order traversal of the row tree); every row lies within the stream; for the stream of ANY value of ANY type the top-level rows tile the whole stream and the children of every composite row tile it without gaps or overlaps; padding rows cover only zero bytes; zero-copy blocks start at multiples of their recorded alignment; rendering (to_csv, debug) never indexes outside the data. "
             "Tie to the code: rows (field path, offset, size, alignment), flush count and render outcomes of serialize_with_schema of the real crate are compared with the model's on every case; bytes are compared with plain serialization of the same object; the direct oracle re-checks pre-order, bounds, tiling, zero padding and block alignment on the implementation's rows.",
        note=TRUST + "'Same bytes as plain serialization' holds by construction in the model (rows are a function of the same events) and is observed on the implementation. The ty strings of rows are rustc's type names and are not compared.",
        tech="Coq proof: tiling invariant of writers closed under the combinators, mutual induction over the type grammar + differential correspondence check", ref="DESIGN.md section 7 C18"),
    "C19": dict(
        text="Refinement theorem in Coq: for every unit size and every feasible history of write/read/seek/set_position, the model of AlignedCursor returns the same results and has the same position, length and contents after every operation as the model of std::io::Cursor<Vec<u8>>, plus the storage invariant (whole units, zero beyond len). Both models are tied to the code on every run by executing ~8k (quick) / ~150k (thorough) histories on the real AlignedCursor<T>, the real std cursor and the extracted models.",
        note=TRUST + "Modelled, not verified: Rust's Vec<T> (resize zero-fills with T::default(), storage address aligned to T: observed on every history, not proved). Feasible histories only (no write ending beyond isize::MAX).",
        tech="Coq refinement proof (induction over operation lists) + differential correspondence check", ref="DESIGN.md section 7 C19"),
}


def main():
    props = [json.loads(l) for l in open(os.path.join(VERIF, "properties.jsonl"))]
    checks = []
    for pid in sorted(CLAIMS):
        c = CLAIMS[pid]
        checks.append({
            "property_id": pid,
            "quick_cmd": "./check %s --tier quick" % pid,
            "thorough_cmd": "./check %s --tier thorough" % pid,
            "evidence_file": "/verif/evidence/%s.json" % pid,
            "replay_cmd_template": "./check %s --replay {path}" % pid,
            "engine": "coq-model+correspondence",
            "level_claimed": {"category": "proof", "text": c["text"], "design_ref": c["ref"]},
            "level_note": c["note"],
            "technique": c["tech"],
        })
    m = {
        "version": 1,
        "setup_cmd": "./setup.sh",
        "hooks": {"guard": "--cfg epserde_verif",
                  "enable": "RUSTFLAGS=\"--cfg epserde_verif\" (set in the .cargo/config.toml of /verif/harness and of the generated crates)",
                  "baseline_off_cmd": "cd /repo && cargo test --workspace --no-fail-fast --offline",
                  "source_commits": ["f968b9c"], "add_only": True},
        "engines": [{"name": "coq-model+correspondence", "path": "/verif/check", "serves_properties": sorted(CLAIMS),
                     "kind_free_text": "Coq 8.16 theorems about a hand-written Gallina model; model tied to /repo by differential execution (extracted OCaml model vs generated Rust harness)"}],
        "checks": checks,
        "not_applicable": [{"property_id": p["id"], "reason": "check under construction in this session (model/proofs not yet registered); planned per DESIGN.md section 7"}
                           for p in props if p["id"] not in CLAIMS],
        "notes": "See DESIGN.md. Fix commits in /repo and known findings are recorded in /verif/known_findings.json.",
    }
    with open(os.path.join(VERIF, "MANIFEST.json"), "w") as f:
        json.dump(m, f, indent=1)


if __name__ == "__main__":
    main()
