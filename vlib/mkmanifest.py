"""Regenerates /verif/MANIFEST.json from the table below (python3 -m vlib.mkmanifest)."""
import json, os

VERIF = os.path.dirname(os.path.dirname(os.path.abspath(__file__)))
TRUST = ("Trusted: Coq 8.16.1 kernel (vm_compute for closed computations), no axioms (Print Assumptions checked on every run), extraction via ExtrOcamlBasic, "
         "OCaml driver, Python generators, Rust observation harness. The theorems are about the hand-written Gallina model; the model is tied to /repo on every run by "
         "differential execution of the same generated cases on the real crate and on the extracted model. ")

CLAIMS = {
    "C01": dict(
        text="Theorems (Coq): for every well-formed type of the grammar (any nesting, derived structs/enums included), every well-typed value without an exhausted inclusive range on the deep path, every stream position and every content of padding bytes, serialization succeeds and full-copy deserialization of the produced bytes returns the value, consuming exactly those bytes (C01_serialization_succeeds, C01_full_roundtrip, C01_roundtrip_in_context). "
             "Tie to the code: ~600 (quick) / ~4000 (thorough) generated (type, value) cases are serialized and deserialized by the real crate and by the extracted model; bytes (padding masked), chunking and results must agree, and the direct oracle (round trip returns the value) is evaluated on the implementation.",
        note=TRUST + "Modelled, not verified: unsafe reinterpretations (align_to, from_raw_parts, assume_init), trait dispatch, rustc layout of std types (checked by the byte-level comparison). Length corruption is outside the property.",
        tech="Coq proof by mutual induction over the type grammar (round-trip combinators) + differential correspondence check", ref="DESIGN.md section 7 C01"),
    "C07": dict(
        text="Theorems (Coq): the padding formula is the least padding for every position and every power-of-two unit up to 2^64 (C07_pad_formula); in the stream of every value of every type whose units are powers of two, for every padding content, every zero-copy block starts at a multiple of its unit and every padding run equals pad_align_to(offset, unit), is non-empty and shorter than the unit (C07_blocks_aligned); units dominate native alignment and field units (range-free types); returned count = bytes written; full-copy consumes exactly the stream. "
             "Tie to the code: block offsets/units/paddings are read from serialize_with_schema of the real crate on every generated case, counts and chunk lengths from a recording writer, consumed positions from both deserializers, and compared with the model. Known finding D10 (non power-of-two unit of RangeTo over odd-sized index types) is listed in known_findings.json and proved as a refutation lemma.",
        note=TRUST + "The eps-copy consumption count is observed (theorem for it is part of C02). D10 class excluded by the hypothesis units_pow2 and reported as KNOWN-FINDING.",
        tech="Coq proofs (bit-level arithmetic lemma; induction over types on the event list) + differential correspondence check", ref="DESIGN.md section 7 C07"),
    "C19": dict(
        text="Refinement theorem in Coq: for every unit size and every feasible history of write/read/seek/set_position, the model of AlignedCursor returns the same results and has the same position, length and contents after every operation as the model of std::io::Cursor<Vec<u8>>, plus the storage invariant (whole units, zero beyond len). Both models are tied to the code on every run by executing ~8k (quick) / ~150k (thorough) histories on the real AlignedCursor<T>, the real std cursor and the extracted models.",
        note=TRUST + "Modelled, not verified: Rust's Vec<T> (resize zero-fills with T::default(), storage address aligned to T: observed on every history, not proved). Feasible histories only (no write ending beyond isize::MAX).",
        tech="Coq refinement proof (induction over operation lists) + differential correspondence check", ref="DESIGN.md section 7 C19"),
}


def main():
    props = [json.loads(l) for l in open(os.path.join(VERIF, "properties.jsonl"))]
    checks = []
    for pid in sorted(CLAIMS):
        c = CLAIMS[pid]
        checks.append({
            "property_id": pid,
            "quick_cmd": "./check %s --tier quick" % pid,
            "thorough_cmd": "./check %s --tier thorough" % pid,
            "evidence_file": "/verif/evidence/%s.json" % pid,
            "replay_cmd_template": "./check %s --replay {path}" % pid,
            "engine": "coq-model+correspondence",
            "level_claimed": {"category": "proof", "text": c["text"], "design_ref": c["ref"]},
            "level_note": c["note"],
            "technique": c["tech"],
        })
    m = {
        "version": 1,
        "setup_cmd": "./setup.sh",
        "hooks": {"guard": "--cfg epserde_verif",
                  "enable": "RUSTFLAGS=\"--cfg epserde_verif\" (set in the .cargo/config.toml of /verif/harness and of the generated crates)",
                  "baseline_off_cmd": "cd /repo && cargo test --workspace --no-fail-fast --offline",
                  "source_commits": [], "add_only": True},
        "engines": [{"name": "coq-model+correspondence", "path": "/verif/check", "serves_properties": sorted(CLAIMS),
                     "kind_free_text": "Coq 8.16 theorems about a hand-written Gallina model; model tied to /repo by differential execution (extracted OCaml model vs generated Rust harness)"}],
        "checks": checks,
        "not_applicable": [{"property_id": p["id"], "reason": "check under construction in this session (model/proofs not yet registered); planned per DESIGN.md section 7"}
                           for p in props if p["id"] not in CLAIMS],
        "notes": "See DESIGN.md. Fix commits in /repo and known findings are recorded in /verif/known_findings.json.",
    }
    with open(os.path.join(VERIF, "MANIFEST.json"), "w") as f:
        json.dump(m, f, indent=1)


if __name__ == "__main__":
    main()
