"""Checks of the properties decided on the codec campaign (shared generated cases)."""
import json, os, re
from .common import *
from .codec import *
from .proofcommon import run_proof_stage, proof_failure

CODEC_ASSUMPTIONS = [
    "target x86-64 little-endian, usize = 64 bits, rustc 1.95; every case is run by two builds of the crate: the dev profile and the dev profile without debug assertions and overflow checks (opt-level 0 in both)",
    "type-name strings (core::any::type_name), the two 64-bit header hash words and buffer base addresses are inputs taken from the implementation run",
    "padding bytes of zero-copy structs are unspecified: theorems quantify over them, the comparison masks them",
    "length fields are never corrupted (outside the property)",
]


def tinfo(c, x):
    s = c.mobs.get((x.cid, "tinfo"), "")
    return dict(y.split("=") for y in s.split(" ") if "=" in y)


def describe(c, x):
    return {"case": x.cid, "rust_type": rust_ty(c.U, x.t, "'_"), "deser_type": rust_ty(c.U, sertype(c.U, x.t)),
            "model_type": model_ty(c.U, x.t), "value": model_val(x.v),
            "rust_value": rust_val(c.U, x.t, x.v, RustCtx())[:2000],
            "definitions": [rust_def(c.U, c.U.defs[n]).split("\nimpl")[0] for n in sorted(used_defs(c.U, x.t))]}


def used_defs(U, t, acc=None):
    acc = acc if acc is not None else set()
    if t[0] == "adt":
        if t[1] not in acc:
            acc.add(t[1])
            d = U.defs[t[1]]
            b = inst_fields(U, t)
            fl = b if d.kind == "struct" else [f for (_, _, fs) in b for f in fs]
            for (_, _, ft) in fl:
                used_defs(U, ft, acc)
        for a in t[2]:
            used_defs(U, a, acc)
    else:
        for y in t[1:]:
            if isinstance(y, tuple):
                used_defs(U, y, acc)
    return acc


def case_weight(x):
    return len(repr(x.t)) + len(repr(x.v))


# operations of the implementation run whose abort is a violation of the property
CRASH_OPS = {
    "C01": ("ser", "hdr", "full"), "C02": ("eps",), "C03": ("eps", "alloc", "place"), "C04": ("feed", "cross"),
    "C05": ("ser", "full", "eps", "dty"), "C06": ("ser", "feed", "full", "gold"), "C07": ("ser", "schema", "full", "eps", "place"),
    "C08": ("load",), "C09": ("load",), "C10": ("flips",), "C11": ("cuts",), "C12": ("place",), "C13": ("wfault", "schema"),
    "C14": ("rfault",), "C15": ("tags",), "C16": ("ser",), "C17": ("ser", "schema"), "C18": ("schema",),
}


def run_codec_property(v, prop, ops, oracle, rule_extra="", known=None):
    """oracle(c, x) -> None (holds) | str (violation) | ('known', text)."""
    info = run_proof_stage(v, prop)
    c = campaign(v.tier)
    v.assumptions += CODEC_ASSUMPTIONS
    cov = v.coverage
    if c.errors:
        cov.update({"evaluations": 0, "distinct_nontrivial": 0})
        # a campaign given up because the implementation kept hanging still names the cases it hung
        # on: when the operation that was running belongs to this property, that case is the failing input
        if all(" hung " in e for e in c.errors):
            hung = []
            for x in c.cases:
                for obs in (c.iobs, getattr(c, "iobs2", None) or {}):
                    crash = obs.get((x.cid, "crash"))
                    if crash and "rc=124" in crash:
                        durings = re.findall(r"during=([\w?]+)", crash) or ["?"]
                        if any(d == "?" or d in CRASH_OPS.get(prop, ()) for d in durings):
                            hung.append((x, crash))
            if hung:
                hung.sort(key=lambda p: case_weight(p[0]))
                x, crash = hung[0]
                d = describe(c, x)
                d.update({"kind": "failing-input", "why": "the implementation did not return within the time budget on this case (the model returns at once): %s" % crash,
                          "failing_cases_in_run": len(hung), "seed": seed(), "tier": v.tier, "campaign_errors": c.errors[:3]})
                v.violation("case", d)
                return
        v.violation("campaign", {"kind": "correspondence", "correspondence": "the generated harness or the model driver could not be built/run against the current tree",
                                 "detail": [e[-3000:] for e in c.errors[:3]]}, no_input=True)
        return
    failing, corr_bad, known_hit = [], [], {}
    distinct = set()
    # the same cases were run by two builds of the crate: the dev profile and one without debug
    # assertions and overflow checks; the oracle and the correspondence are evaluated on both
    views = [(c, "")]
    if getattr(c, "iobs2", None):
        import copy as _copy
        c2 = _copy.copy(c)
        c2.iobs = c.iobs2
        views.append((c2, "[build without debug assertions and overflow checks] "))
    for x in c.cases:
        if getattr(x, "scaled_of", None) and prop != "C03":
            continue                     # scaled twins carry only the observations C03 needs
        if getattr(x, "liar", False) and prop != "C17":
            continue                     # wrongly declared types: outside every other property
        if getattr(x, "ser_ops_only", False) and prop != "C16":
            continue                     # nested slices: only their streams are compared (C16)
        if getattr(x, "pair_only", False) and prop not in ("C01", "C02", "C04", "C05", "C06", "C07"):
            continue                     # near-miss partners carry only ser / feed / cross / full / eps / schema
        for (cc, label) in views:
            if label and tinfo(c, x).get("pow2") == "0":
                # a unit that is not a power of two (known class D10) makes the outcome depend on the
                # absolute base address, which differs between the two runs; the model was run with
                # the addresses of the first
                continue
            crash = cc.iobs.get((x.cid, "crash"))
            if crash:
                # an abort of the harness (double free, failed huge allocation, ...) is blamed on the
                # properties that depend on the operation that was running
                durings = re.findall(r"during=([\w?]+)", crash) or ["?"]
                during = next((d for d in durings if d == "?" or d in CRASH_OPS.get(prop, ())), None)
                if during is not None:
                    r = "the process aborted during operation '%s' on this case: %s" % (during, crash)
                else:
                    r = oracle(cc, x) if all((x.cid, op) in cc.iobs for op in ops if op in ("ser", "full", "eps:0")) else None
            else:
                r = oracle(cc, x)
            if isinstance(r, tuple) and r[0] == "known":
                # r = ('known', finding id, what failed): suppressed only when the finding is listed
                if known_listed(prop, r[1]):
                    if not label:
                        known_hit.setdefault(r[1], []).append(x.cid)
                else:
                    failing.append((x, label + r[2]))
            elif r:
                failing.append((x, label + r))
            d10 = tinfo(c, x).get("pow2") == "0"
            for op in ops:
                if d10 and op in ("eps:0", "place", "load", "alloc:0", "tags", "cuts", "flips"):
                    # known class D10 (a unit that is not a power of two): the outcome of eps-copy depends on
                    # the absolute address modulo that unit, where the model is not meant to be faithful
                    # (its theorems exclude the class by the hypothesis units_pow2)
                    continue
                if not agree(cc, x, op):
                    corr_bad.append((x, op) if not label else (x, op, cc))
        if nontrivial(c, x):
            distinct.add((repr(x.t), repr(x.v)))
    hist = type_histogram(c)
    lens = [len(split_ser(c.iobs.get((x.cid, "ser"), "")).get("bytes", "")) // 2 for x in c.cases]
    cov.update({
        "evaluations": len(c.cases),
        "distinct_nontrivial": len(distinct),
        "rule": "seeded random types (every generated struct/enum definition instantiated, then random compositions of all built-in constructors, depth <= %d) x up to 3 distinct random values each; "
                "non-trivial = composite type or non-zero scalar; distinct by (type, value). %s" % (3 if v.tier == "quick" else 5, rule_extra),
        "types": len(c.types),
        "definitions": len(c.U.order),
        "constructor_histogram": hist,
        "stream_length_min_max": [min(lens or [0]), max(lens or [0])],
        "name_length_residues_mod16": sorted(set((len(c.hdrs[x.cid][2]) // 2) % 16 for x in c.cases if x.cid in c.hdrs)),
        "correspondence_observations": ops,
        "traces_validated_against_impl": len(c.cases) - len(set(p[0].cid for p in corr_bad)),
        "builds_compared": ["dev profile"] + (["dev profile without debug assertions and overflow checks"] if len(views) > 1 else []),
        "disagreements_checked": len(corr_bad),
        "campaign_wall_s": round(c.wall, 1),
        "samples": [describe(c, x) for x in c.cases[5:6] + c.cases[-1:]],
    })
    for fid, cids in known_hit.items():
        f = known_listed(prop, fid)
        v.known("%s: %s [%d generated cases in the class, e.g. %s: %s]" % (
            fid, f["identified_by"], len(cids), cids[0], rust_ty(c.U, [x for x in c.cases if x.cid == cids[0]][0].t, "'_")))
    if failing:
        failing.sort(key=lambda p: case_weight(p[0]))
        x, why = failing[0]
        d = describe(c, x)
        d.update({"kind": "failing-input", "why": why, "failing_cases_in_run": len(failing),
                  "observed": {op: (c.iobs.get((x.cid, op)) or "")[:3000] for op in set(ops) | {"ser", "full", "eps:0"}},
                  "expected_value": canon_of(c.U, x.t, x.v)[:3000], "seed": seed(), "tier": v.tier})
        v.violation("case", d)
        return
    if corr_bad:
        corr_bad.sort(key=lambda p: case_weight(p[0]))
        x, op = corr_bad[0][0], corr_bad[0][1]
        cv = corr_bad[0][2] if len(corr_bad[0]) > 2 else c
        d = describe(c, x)
        d.update({"kind": "correspondence", "correspondence": "model vs implementation on observation '%s'%s" % (op, " (build without debug assertions and overflow checks)" if cv is not c else ""),
                  "model": (c.mobs.get((x.cid, mkey(c, x, op))) or "")[:3000], "impl": (cv.iobs.get((x.cid, op)) or "")[:3000],
                  "disagreeing_observations": len(corr_bad),
                  "searched": "direct oracle of %s on all %d generated cases: no failing input" % (prop, len(c.cases)),
                  "seed": seed(), "tier": v.tier})
        v.violation("correspondence", d, no_input=True)
        return
    if not info["ok"]:
        proof_failure(v, info)


def replay_codec(v, path, prop, oracle):
    r = json.load(open(path))
    if "case" not in r:
        print(json.dumps(r, indent=1)[:4000])
        return 1
    os.environ["VERIF_SEED"] = str(r.get("seed", seed()))
    c = campaign(r.get("tier", "quick"))
    xs = [x for x in c.cases if x.cid == r["case"]]
    if not xs:
        print("case not found")
        return 1
    x = xs[0]
    print(json.dumps(describe(c, x), indent=1)[:3000])
    for op in ("ser", "full", "eps:0"):
        print(op, "impl :", (c.iobs.get((x.cid, op)) or "")[:1500])
        print(op, "model:", (c.mobs.get((x.cid, mkey(c, x, op))) or "")[:1500])
    res = oracle(c, x)
    print("verdict:", res or "holds on this case")
    return 1 if (res and not isinstance(res, tuple)) else 0


# ------------------------------------------------------------------ oracles

def ser_status(c, x):
    return split_ser(c.iobs.get((x.cid, "ser"), ""))


def lying_iter(U, t, v):
    k = t[0]
    if k == "siter":
        return v[1] != len(v[2])
    if k == "adt":
        d = U.defs[t[1]]
        b = inst_fields(U, t)
        if d.kind == "struct":
            return any(lying_iter(U, ft, y) for (_, _, ft), y in zip(b, v[1]))
        return any(lying_iter(U, ft, y) for (_, _, ft), y in zip(b[v[1]][2], v[2]))
    if k in ("opt", "bound"):
        return any(lying_iter(U, t[1], y) for y in v[2])
    if k == "cf":
        return lying_iter(U, t[1 + v[1]], v[2][0])
    return False


def oracle_c01(c, x):
    st = ser_status(c, x)
    if lying_iter(c.U, x.t, x.v):
        return None
    if st.get("status") != "OK":
        return "serialization did not succeed: %s" % st.get("status")
    if tinfo(c, x).get("exh") == "1":
        f = c.iobs.get((x.cid, "full"), "")
        return None if f.startswith("PANIC") else "exhausted inclusive range was not refused: %s" % f[:200]
    exp = "OK %s pos=%s rest=0" % (canon_of(c.U, x.t, x.v), st.get("n"))
    got = c.iobs.get((x.cid, "full"), "")
    if got != exp:
        return "full-copy deserialization did not return the serialized value"
    return None


def oracle_c07(c, x):
    st = ser_status(c, x)
    if st.get("status") != "OK":
        return None
    n = int(st["n"], 16)
    data = bytes.fromhex(st.get("bytes", ""))
    if n != len(data):
        return "returned count %d differs from the %d bytes handed to the writer" % (n, len(data))
    if sum(int(k) for k in norm_chunks(st.get("chunks", "")) if k != "F") != n:
        return "sum of write_all chunk lengths differs from the returned count"
    f = c.iobs.get((x.cid, "full"), "")
    if f.startswith("OK") and not f.endswith("pos=%x rest=0" % n):
        return "full-copy deserialization did not consume exactly the %d bytes written" % n
    e = c.iobs.get((x.cid, "eps:0"), "")
    if e.startswith("OK") and not e.endswith("pos=%x rest=0" % n):
        return "eps-copy deserialization did not consume exactly the %d bytes written" % n
    pl = re.match(r"(.*) misaligned=(\d+)", c.iobs.get((x.cid, "place"), ""))
    if pl and impl_need(c, x) is not None and tinfo(c, x).get("exh") != "1":
        if int(pl.group(2)):
            return "the unit of a zero-copy block is smaller than the native alignment of its type: from some base address eps-copy returns a misaligned reference"
        r = 0
        for code, cnt in parse_rle(pl.group(1)):
            if code in ("P", "PANIC"):
                return "the unit of a zero-copy block is smaller than the native alignment of its type: at base residue %d eps-copy hits the alignment assertion instead of returning AlignmentError" % r
            r += cnt
    sch = c.iobs.get((x.cid, "schema"), "")
    m = re.search(r"rows=(\S*)", sch)
    if not m:
        return None
    rows = [r.split("|") for r in m.group(1).split(";") if r]
    known = None
    for i, (field, off, size, align) in enumerate(rows):
        off, size, align = int(off, 16), int(size, 16), int(align, 16)
        if field.endswith("zero") or field == "zero":
            if align & (align - 1) or align == 0:
                known = ("known", "D10", "alignment unit %d of a zero-copy block is not a power of two" % align)
                continue
            if off % align:
                # items of a SerIter are consecutive writes of one block: only the first is aligned
                prev = rows[i - 1] if i else None
                if not (prev and prev[0] == field and int(prev[1], 16) + int(prev[2], 16) == off):
                    return "zero-copy block at offset %d is not a multiple of its unit %d" % (off, align)
        if field == "PADDING":
            if any(data[off:off + size]):
                return "padding at offset %d is not all zeros" % off
            nxt = rows[i + 1] if i + 1 < len(rows) else None
            if nxt is not None:
                a = int(nxt[3], 16)
                if a and not (a & (a - 1)):
                    if size != (-off) % a or size == 0:
                        return "padding of %d bytes at offset %d is not the smallest gap for unit %d" % (size, off, a)
    return known


def oracle_c15(c, x):
    if not c.tagc.get(x.cid):
        return None
    st = ser_status(c, x)
    if st.get("status") != "OK":
        return None
    line = c.iobs.get((x.cid, "tags"), "")
    if "TAGROWS-MISMATCH" in line:
        return "the tags recorded in the schema do not match the tags the type writes: %s" % line[:200]
    d10 = impl_need(c, x) is None
    for part in line.split(" "):
        if not part.startswith("@"):
            continue
        pos, codes = part.split(":", 1)
        for code in codes.split(","):
            val, res = code.split(">", 1)
            if d10 and res == "E:InvalidTag:%s//E:AlignmentError" % val:
                continue     # known class D10: eps-copy is refused on alignment before the tag is read
            if res != "E:InvalidTag:%s" % val:
                return "foreign tag %s at %s gave %s instead of InvalidTag(%s)" % (val, pos, res[:120], val)
    # every written tag maps back to its variant (both modes)
    exp = canon_of(c.U, x.t, x.v)
    f = c.iobs.get((x.cid, "full"), "")
    if tinfo(c, x).get("exh") != "1" and not f.startswith("OK " + exp + " "):
        return "the written variant was not read back by full-copy deserialization"
    e = c.iobs.get((x.cid, "eps:0"), "")
    if e.startswith("OK") and not erase_refs(e).startswith("OK " + exp + " "):
        return "the written variant was not read back by eps-copy deserialization"
    return None


def expected_flip(i, data, body_code):
    """the outcome C10 requires for flipping bit i of a valid stream [data]"""
    b = bytearray(data)
    b[i // 8] ^= 1 << (i % 8)
    byte = i // 8
    if byte < 8:
        return "E:MagicCookieError:%x" % int.from_bytes(b[0:8], "little")
    if byte < 10:
        return "E:MajorVersionMismatch:%x" % int.from_bytes(b[8:10], "little")
    if byte < 12:
        m = int.from_bytes(b[10:12], "little")
        return ("E:MinorVersionMismatch:%x" % m) if m > 1 else body_code
    if byte == 12:
        return "E:UsizeSizeMismatch:%x" % b[12]
    if byte < 21:
        return "E:WrongTypeHash:%x" % int.from_bytes(b[13:21], "little")
    return "E:WrongAlignHash:%x" % int.from_bytes(b[21:29], "little")


def oracle_c10(c, x):
    st = ser_status(c, x)
    if st.get("status") != "OK":
        return None
    data = bytes.fromhex(st.get("bytes", ""))
    line = c.iobs.get((x.cid, "flips"), "")
    res = dict(p.split("=", 1) for p in line.split(" ") if "=" in p)
    # what the unaltered stream gives (full // eps when they differ, e.g. an alignment-class type)
    f = c.iobs.get((x.cid, "full"), "")
    e = c.iobs.get((x.cid, "eps:0"), "")

    def code(s, erase):
        if s.startswith("OK "):
            v = s[3:].split(" pos=")[0]
            return "OK:" + (erase_refs(v) if erase else v)
        if s.startswith("ERR "):
            return "E:" + s[4:]
        return "P"
    fc, ec = code(f, False), code(e, True)
    body = fc if fc == ec else fc + "//" + ec
    for i in range(29 * 8):
        want = expected_flip(i, data, body)
        got = res.get(str(i))
        if got != want:
            return "flipping bit %d of header byte %d gave %s, required %s" % (i % 8, i // 8, (got or "nothing")[:120], want[:120])
    if res.get("rev") != "E:EndiannessError":
        return "the byte-reversed cookie gave %s, required EndiannessError" % res.get("rev")
    for m in (0, 1):
        if res.get("minor%d" % m) != body:
            return "minor version %d was not accepted with the same value: %s" % (m, (res.get("minor%d" % m) or "")[:120])
    for m in (2, 255, 256, 65535):
        if res.get("minor%d" % m) != "E:MinorVersionMismatch:%x" % m:
            return "minor version %d gave %s" % (m, (res.get("minor%d" % m) or "")[:120])
    return None


def sampled(n, step, inclusive):
    top = n + 1 if inclusive else n
    return [k for k in range(top) if step <= 1 or k < 48 or k + 48 >= n or k % step == 0]


def rle_positions(s, positions):
    """[(position, code)] of a run-length encoded observation over the sampled positions"""
    out, i = [], 0
    for code, cnt in parse_rle(s):
        for _ in range(cnt):
            out.append((positions[i] if i < len(positions) else -1, code))
            i += 1
    return out


def parse_rle(s):
    out = []
    for p in s.split(" "):
        if "*" in p:
            code, n = p.rsplit("*", 1)
            out.append((code, int(n)))
    return out


def oracle_c11(c, x):
    st = ser_status(c, x)
    if st.get("status") != "OK":
        return None
    line = c.iobs.get((x.cid, "cuts"), "")
    m = re.match(r"full=(.*) eps=(.*)$", line)
    if not m:
        return "no truncation observation"
    n = int(st["n"], 16)
    pos = sampled(n, c.steps.get(x.cid, 1), False)
    fl = rle_positions(m.group(1), pos)
    for k, code in fl:
        if code != "ReadError":
            return "full-copy deserialization of the prefix of length %d (of %d) gave %s, required ReadError" % (k, n, code)
    if len(fl) != len(pos):
        return "truncation observation covers %d cut points, expected %d" % (len(fl), len(pos))
    whole_ok = c.iobs.get((x.cid, "eps:0"), "").startswith("OK")
    for k, code in rle_positions(m.group(2), pos):
        if code == "OK":
            return "eps-copy deserialization of the prefix of length %d (of %d) produced a value" % (k, n)
        # when the whole stream deserializes at this address a prefix can only fail for lack of input
        if whole_ok and code not in ("ReadError", "P"):
            return "eps-copy deserialization of the prefix of length %d (of %d) gave %s, required ReadError or a bounds-check panic" % (k, n, code)
    return None


def schema_rows(c, x):
    sch = c.iobs.get((x.cid, "schema"), "")
    m = re.search(r"rows=(\S*)", sch)
    if not m:
        return []
    out = []
    for r in m.group(1).split(";"):
        p = r.split("|")
        if len(p) == 4:
            out.append((p[0], int(p[1], 16), int(p[2], 16), int(p[3], 16)))
    return out


def impl_need(c, x):
    """largest unit among the zero-copy blocks recorded by serialize_with_schema (None if some unit is not a power of two)"""
    if tinfo(c, x).get("pow2") == "0":
        # the type holds a range whose unit is not a power of two (class D10); an empty sequence of
        # it records no block, so the rows alone would not show it
        return None
    nd = 1
    for (field, off, size, align) in schema_rows(c, x):
        if field.endswith("zero") and align > 0:
            if align & (align - 1):
                return None
            nd = max(nd, align)
    return nd


def oracle_c02(c, x):
    st = ser_status(c, x)
    if st.get("status") != "OK":
        return None
    if tinfo(c, x).get("exh") == "1":
        return None
    nd = impl_need(c, x)
    e = c.iobs.get((x.cid, "eps:0"), "")
    exp = canon_of(c.U, x.t, x.v)
    if nd is None:
        if erase_refs(e).startswith("OK " + exp + " "):
            return None
        return ("known", "D10", "eps-copy deserialization from an aligned buffer gave %s" % e[:80])
    if "MISALIGNED" in e or "OUTSIDE" in e:
        return "eps-copy result holds a reference that is misaligned or outside the buffer"
    if not erase_refs(e).startswith("OK " + exp + " pos=%s rest=0" % st.get("n")):
        return "eps-copy deserialization from a buffer aligned to the largest unit did not return the serialized value"
    f = c.iobs.get((x.cid, "full"), "")
    if f.startswith("OK") and erase_refs(e) != f:
        return "eps-copy and full-copy deserialization of the same bytes describe different values"
    return None


def oracle_c12(c, x):
    st = ser_status(c, x)
    if st.get("status") != "OK":
        return None
    if tinfo(c, x).get("exh") == "1":
        return None
    nd = impl_need(c, x)
    if nd is not None and ser_only(x.t):
        # an empty SerIter records no block although its reader (the Vec) aligns: take the model's requirement
        nd = max(nd, int(tinfo(c, x).get("need", "1"), 16))
    line = c.iobs.get((x.cid, "place"), "")
    m = re.match(r"(.*) misaligned=(\d+)(?: diffrefs=\d+)?$", line)
    if not m:
        return "no placement observation"
    if nd is None:
        return ("known", "D10", "a block unit is not a power of two: placements %s" % m.group(1)[:80])
    if int(m.group(2)):
        return "a returned reference is misaligned for its type"
    base = c.bases.get(x.cid, 0)
    r = 0
    for code, cnt in parse_rle(m.group(1)):
        for _ in range(cnt):
            want = "OK" if (base + r) % nd == 0 else "AlignmentError"
            if code != want:
                return "placement at residue %d (largest unit met: %d) gave %s, required %s" % (r, nd, code, want)
            r += 1
    if r != 128:
        return "placement observation covers %d residues" % r
    return None


def oracle_c16(c, x):
    """twin comparison: the stream of a value with slices/iterators equals the stream with vectors"""
    if not ser_only(x.t):
        return None
    st = ser_status(c, x)
    if lying_iter(c.U, x.t, x.v):
        # announced != actual: the length-mismatch error with both counts
        k, n = find_lie(c.U, x.t, x.v)
        want = "ERR IteratorLengthMismatch:%x:%x" % (n, k)
        if st.get("status") != want:
            return "a lying iterator (announced %d, produced %d) gave %s, required %s" % (k, n, st.get("status"), want)
        return None
    nested = getattr(x, "ser_ops_only", False)
    tw = [y for y in c.cases if getattr(y, "outer_twin_of" if nested else "twin_of", None) == x.cid]
    if not tw:
        return None if getattr(x, "outer_twin_of", None) else "no vector twin generated"
    tst = ser_status(c, tw[0])
    if st.get("status") != "OK" or tst.get("status") != "OK":
        return "serialization did not succeed (slice/iterator: %s, vector: %s)" % (st.get("status"), tst.get("status"))
    a, b = st.get("bytes", ""), tst.get("bytes", "")
    # padding bytes of zero-copy structs are unspecified: mask them with the model's mask
    mm = split_ser(c.mobs.get((x.cid, "ser"), "")).get("bytes", "")
    if len(a) != len(b):
        return "stream lengths differ: %d bytes with the slice/iterator, %d with the vector" % (len(a) // 2, len(b) // 2)
    for i in range(0, len(a), 2):
        if a[i:i + 2] != b[i:i + 2] and mm[i:i + 2] != "xx":
            return "streams differ at byte %d: %s (slice/iterator) vs %s (vector)" % (i // 2, a[i:i + 2], b[i:i + 2])
    if st.get("chunks") is None or nested:
        return None
    # and it deserializes as the vector type to the items, in both modes
    exp = canon_of(c.U, x.t, x.v)
    f = c.iobs.get((x.cid, "full"), "")
    if not f.startswith("OK " + exp + " "):
        return "the stream did not deserialize (full-copy) as the vector type to the items"
    e = c.iobs.get((x.cid, "eps:0"), "")
    if impl_need(c, x) is not None and not erase_refs(e).startswith("OK " + exp + " "):
        return "the stream did not deserialize (eps-copy) as the vector type to the items"
    return None


def find_lie(U, t, v):
    k = t[0]
    if k == "siter":
        return (v[1], len(v[2])) if v[1] != len(v[2]) else None
    if k == "adt":
        d = U.defs[t[1]]
        b = inst_fields(U, t)
        pairs = zip(b, v[1]) if d.kind == "struct" else zip(b[v[1]][2], v[2])
        for (_, _, ft), y in pairs:
            r = find_lie(U, ft, y)
            if r:
                return r
    if k in ("opt", "bound"):
        for y in v[2]:
            r = find_lie(U, t[1], y)
            if r:
                return r
    if k == "cf":
        return find_lie(U, t[1 + v[1]], v[2][0])
    return None


def wfault_parts(c, x):
    line = c.iobs.get((x.cid, "wfault"), "")
    d = {}
    for p in line.split(" "):
        if "=" in p:
            k, val = p.split("=", 1)
            d[k] = val
    return line, d


def oracle_c13(c, x):
    st = ser_status(c, x)
    if st.get("status") != "OK":
        return None
    n = int(st["n"], 16)
    line, d = wfault_parts(c, x)
    if not d:
        return "no writer-fault observation"
    m = re.match(r"fails=(.*?)  ?flush=", line)
    pos = sampled(n, c.steps.get(x.cid, 1), True)
    fl = rle_positions(m.group(1) if m else "", pos)
    for k, code in fl:
        if code != "ok":
            return "writer failing after %d of %d bytes: result/accepted = %s, required WriteError with exactly the first %d bytes accepted" % (k, n, code, k)
    if len(fl) != len(pos):
        return "writer-fault observation covers %d failure positions, expected %d" % (len(fl), len(pos))
    if d.get("flush") != "WriteError/p%d" % n:
        return "flush failure gave %s" % d.get("flush")
    for name in ("short1", "short3", "short7intr2", "bigintr3", "file"):
        if d.get(name) != "OK/p%d" % n:
            return "a writer that only splits or retries (%s) gave %s, required success with exactly the fault-free bytes" % (name, d.get(name))
    if d.get("sflush") != "WriteError/p%d" % n:
        return "serialize_with_schema with a failing flush gave %s, required WriteError" % d.get("sflush")
    if d.get("smid") != "WriteError/p%d" % (n // 2):
        return "serialize_with_schema to a writer failing after %d bytes gave %s" % (n // 2, d.get("smid"))
    if d.get("zero") != "WriteError/p%d" % (n // 2):
        return "a writer returning Ok(0) gave %s" % d.get("zero")
    if "devfull" in d and d["devfull"] != "WriteError":
        return "/dev/full gave %s" % d["devfull"]
    if "again" in d and d["again"] != "same":
        return "the value no longer serializes to the same bytes after failed serializations (source damaged)"
    return None


def oracle_c14(c, x):
    st = ser_status(c, x)
    if st.get("status") != "OK":
        return None
    n = int(st["n"], 16)
    line = c.iobs.get((x.cid, "rfault"), "")
    if not line:
        return "no reader-fault observation"
    for p in line.split(" "):
        if "=" in p and not p.startswith("fails="):
            name, val = p.split("=", 1)
            if val != "same":
                return "fragmented reader '%s' changed the result of full-copy deserialization" % name
    m = re.search(r"fails=(.*)$", line)
    pos = sampled(n, c.steps.get(x.cid, 1), False)
    fl = rle_positions(m.group(1) if m else "", pos)
    for k, code in fl:
        if code != "ReadError":
            return "reader failing after %d of %d bytes gave %s, required ReadError" % (k, n, code)
    if len(fl) != len(pos):
        return "reader-fault observation covers %d failure positions, expected %d" % (len(fl), len(pos))
    return None


def oracle_c18(c, x):
    sch = c.iobs.get((x.cid, "schema"), "")
    st = ser_status(c, x)
    if st.get("status") != "OK":
        return None
    if not sch.startswith("OK"):
        return "serialize_with_schema did not succeed: %s" % sch[:100]
    if " same=y" not in sch:
        return "serialize_with_schema wrote different bytes than serialize"
    if "csv=ok" not in sch or "debug=ok" not in sch:
        return "rendering the schema failed: %s" % re.sub(r"rows=\S*", "", sch)
    rows = schema_rows(c, x)
    data = bytes.fromhex(st.get("bytes", ""))
    n = len(data)
    # pre-order: offsets never decrease; every row within the stream
    prev = 0
    for (f, off, size, al) in rows:
        if off < prev:
            return "rows are not in pre-order: %s at offset %d after offset %d" % (f, off, prev)
        prev = off
        if off + size > n:
            return "row %s [%d, %d) lies outside the stream of %d bytes" % (f, off, off + size, n)
    # rebuild the tree from the dotted paths and check the tiling
    def is_leaf(f):
        return f == "PADDING" or f.endswith(".zero") or f == "zero"
    def depth(f):
        return f.count(".") + 1
    # top-level rows (fields of depth 1, and PADDING rows between them)
    stack = []  # (field, off, size, children_end or None, has_children)
    def close(upto_depth):
        while stack and stack[-1][4] >= upto_depth:
            f, off, size, cur, d, kids = stack.pop()
            if kids and cur != off + size:
                return "children of %s end at %d, the row ends at %d" % (f, cur, off + size)
        return None
    top_cur = 0
    for (f, off, size, al) in rows:
        leaf = is_leaf(f)
        # PADDING/zero rows belong to the innermost open composite whose extent contains them
        if f == "PADDING":
            d = (stack[-1][4] + 1) if stack and off + size <= stack[-1][1] + stack[-1][2] and off >= stack[-1][1] else 1
            while stack and not (off >= stack[-1][1] and off + size <= stack[-1][1] + stack[-1][2] and (size > 0 or off < stack[-1][1] + stack[-1][2])):
                e = close(stack[-1][4])
                if e:
                    return e
            d = (stack[-1][4] + 1) if stack else 1
        else:
            d = depth(f)
            e = close(d)
            if e:
                return e
        if stack:
            pf_, poff, psize, pcur, pd, pk = stack[-1]
            if off != pcur:
                return "row %s starts at %d but the previous sibling ended at %d (gap or overlap inside %s)" % (f, off, pcur, pf_)
            stack[-1] = (pf_, poff, psize, off + size, pd, True)
        else:
            if off != top_cur:
                return "top-level row %s starts at %d but the previous one ended at %d" % (f, off, top_cur)
            top_cur = off + size
        if not leaf:
            stack.append((f, off, size, off, d, False))
        if f == "PADDING" and any(data[off:off + size]):
            return "padding row at %d covers non-zero bytes" % off
        if leaf and f != "PADDING" and al and not (al & (al - 1)) and off % al:
            prev_same = [r for r in rows if r[0] == f and r[1] + r[2] == off]
            if not prev_same:
                return "zero-copy bytes %s at offset %d are not at a multiple of the recorded alignment %d" % (f, off, al)
    e = close(0)
    if e:
        return e
    if top_cur != n:
        return "top-level rows end at %d, the stream has %d bytes" % (top_cur, n)
    return None


def oracle_c04(c, x):
    st = ser_status(c, x)
    fd = c.iobs.get((x.cid, "feed"), "")
    if fd and "hdr=n" in fd:
        return "the hash words in the header are not xxh3-64 of the recorded TypeHash/AlignHash feeds"
    # documented equivalents share both hashes
    tw = getattr(x, "twin_of", None)
    if tw and x.cid in c.hdrs and tw in c.hdrs:
        if c.hdrs[x.cid][:2] != c.hdrs[tw][:2]:
            return "a slice reference / iterator wrapper and the corresponding vector do not share both hashes"
    if st.get("status") != "OK" or x.cid not in c.hdrs:
        return None
    th, ah = c.hdrs[x.cid][0], c.hdrs[x.cid][1]
    known = None
    for (tidu, kind) in getattr(x, "cross", []):
        line = c.iobs.get((x.cid, "cross:" + tidu), "")
        m = re.match(r"full=(\S+) eps=(\S+)", line)
        if not m:
            return "no cross-read observation for target %s" % tidu
        ok = ("E:WrongTypeHash:" + th, "E:WrongAlignHash:" + ah)
        if m.group(1) in ok and m.group(2) in ok:
            continue
        tu = next((y.t for y in c.cases if y.tid == tidu), None)
        what = "bytes of %s read as %s (near-miss: %s): full-copy %s, eps-copy %s" % (
            rust_ty(c.U, x.t, "'_"), rust_ty(c.U, tu, "'_") if tu else tidu, kind, m.group(1)[:60], m.group(2)[:60])
        if kind.startswith("known:"):
            known = ("known", kind.split(":")[1], what)
            continue
        return what + " -- required a type-hash or alignment-hash error"
    return known


def block_rows(c, x):
    """(offset, size) of the zero-copy blocks written by the serializer; the items written one by
    one by an iterator wrapper form one block (they are read back as one slice)"""
    rows = [(off, size) for (field, off, size, align) in schema_rows(c, x) if field.endswith("zero")]
    out = set(rows)
    if contains_siter(x.t):
        for i in range(len(rows)):
            off, end = rows[i][0], rows[i][0] + rows[i][1]
            for j in range(i + 1, len(rows)):
                if rows[j][0] != end:
                    break
                end += rows[j][1]
                out.add((off, end - off))
    return out


def oracle_c03(c, x):
    """every borrowed part lies in the buffer, at a block written by the serializer, with the
    written length, aligned; allocation independent of the borrowed lengths (scaled twins)"""
    st = ser_status(c, x)
    if st.get("status") != "OK" or tinfo(c, x).get("exh") == "1":
        return None
    e = c.iobs.get((x.cid, "eps:0"), "")
    if not e.startswith("OK"):
        return None                      # C02 / C12 decide whether that is legitimate
    if "OUTSIDE" in e:
        return "a borrowed part of the eps-copy result points outside the input buffer"
    if "MISALIGNED" in e:
        return "a borrowed part of the eps-copy result is misaligned for its element type"
    n = int(st.get("n", "0"), 16)
    exp = canon_of(c.U, x.t, x.v)
    if impl_need(c, x) is not None or getattr(x, "scaled_of", None):
        if not erase_refs(e).startswith("OK " + exp + " "):
            return "the borrowed parts of the eps-copy result do not hold the data that was written (lengths or contents differ)"
        if not erase_refs(e).startswith("OK " + exp + " pos=%s rest=0" % st.get("n")):
            return "eps-copy deserialization did not end where the serializer ended (%s, %s bytes written)" % (e[e.rfind(" pos="):], st.get("n"))
    blocks = block_rows(c, x)
    if (x.cid, "schema") in c.iobs and not getattr(x, "scaled_of", None):
        for (kind, off, nb, cnt) in refs_of(e):
            if off + nb > n:
                return "a borrowed part (offset %d, %d bytes) extends beyond the %d bytes of the stream" % (off, nb, n)
            if (off, nb) not in blocks:
                return "a borrowed part (offset %d, %d bytes, %d items) is not one of the zero-copy blocks written by the serializer (%s...)" % (
                    off, nb, cnt, sorted(blocks)[:6])
    pl = re.search(r" misaligned=(\d+) diffrefs=(\d+)$", c.iobs.get((x.cid, "place"), ""))
    if pl and int(pl.group(1)):
        return "from some base address the eps-copy result holds a reference that is misaligned for its element type"
    if pl and int(pl.group(2)):
        return "from %s of the 128 base addresses tried, eps-copy deserialization succeeds with borrowed parts at other offsets (or other contents) than from the aligned buffer" % pl.group(2)
    # borrowed, not copied: a sequence of zero-copy items / a string on the eps path must come back as a reference
    want = desertype(c.U, sertype(c.U, x.t))
    if want[0] in ("slice", "str", "ref") and not re.match(r"OK &[STO]", e):
        return "the eps-copy result of a %s is not a reference into the buffer" % want[0]
    so = getattr(x, "scaled_of", None)
    if so:
        a0, a1 = c.iobs.get((so, "alloc:0")), c.iobs.get((x.cid, "alloc:0"))
        m0, m1 = c.mobs.get((so, "alloc:%x" % c.bases.get(so, 0))), c.mobs.get((x.cid, "alloc:%x" % c.bases.get(x.cid, 0)))
        if a0 and a1 and a0.startswith("calls") and a1.startswith("calls"):
            # the generator's scaling is refereed by the model: same skeleton <=> same request list
            if m0 and m1 and alloc_parts(m0).get("counts") == alloc_parts(m1).get("counts") and a0 != a1:
                return "eps-copy deserialization allocates differently when only the borrowed sequences get longer: %s with the original lengths, %s with them scaled" % (a0, a1)
    return None


def oracle_c05(c, x):
    """derived types: round trips in both modes (C01/C02 oracles) and the eps-copy type"""
    if "adt" not in constructors(c.U, x.t):
        return None                      # no derived type involved
    r = oracle_c01(c, x) or oracle_c02(c, x)
    if isinstance(r, tuple):
        return None                      # the known class of C02/C07/C12 (range units) is not about the derive
    if r:
        return r
    d = c.iobs.get((x.cid, "dty"))
    if d and d != "same":
        return "the eps-copy type differs from the type given by the rule (parameters that are the type of a field replaced by their eps-copy type): %s" % d[:600]
    return None
