"""C12: misplaced buffers. Proof: Props/C12.v. Correspondence: O-eps at every base residue 0..127
('place' observation) for every generated stream; block units read from serialize_with_schema."""
from .codecprops import *


def check(v):
    run_codec_property(v, "C12", ["ser", "eps:0", "schema", "place"], oracle_c12,
                       rule_extra="Per case: the stream is placed at the 128 residues 0..127 of a 64 KiB aligned arena and eps-copy deserialized.")
    c = campaign(v.tier)
    needs = {}
    for x in c.cases:
        nd = impl_need(c, x)
        needs[str(nd)] = needs.get(str(nd), 0) + 1
    v.coverage["largest_unit_histogram"] = needs
    v.coverage["placements_tried"] = 128 * len(c.cases)
    v.coverage.setdefault("samples", []).append({"theorem": "C12_placement: ... (base mod need t v = 0 -> exists e, deser_eps_top base h t (bytes_of evs) = Ok (e, [], evs_len evs) /\\ erase e = v) /\\ (base mod need t v <> 0 -> deser_eps_top base h t (bytes_of evs) = Err AlignmentError)"})


def replay(v, path):
    return replay_codec(v, path, "C12", oracle_c12)
