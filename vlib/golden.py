"""Golden corpus (C06): files written by the PINNED build (commit 709c463) for a fixed set of generated
(type, value) cases, stored under corpus/golden with the Rust source needed to read them back.

  python3 -m vlib.golden make     (development time only; needs a worktree of the pinned commit at /tmp/pinned
                                   and a copy of the harness at /tmp/pinned_harness pointing to it)
"""
import json, os, sys
from .common import *
from . import codec as C
from .tygen import *

GDIR = os.path.join(VERIF, "corpus", "golden")
GOLD_SEED = 20260930


def make():
    os.environ["VERIF_SEED"] = str(GOLD_SEED)
    U, types, cases = C.make_cases(GOLD_SEED, "quick", ndefs=36, ntypes=150, nvals=2)
    cases = [c for c in cases if not getattr(c, "twin_of", None)]
    for c in cases:
        c.cross = []
    gdir = "/tmp/pinned_gen"
    saved = (C.REPO, C.HARNESS)
    C.REPO, C.HARNESS = "/tmp/pinned", "/tmp/pinned_harness"
    try:
        parts = C.write_gen_workspace(U, cases, gdir)
        ok, log = C.build_gen(gdir, "/tmp/pinned_gen_target")
        if not ok:
            print(log[-3000:])
            return 1
        obs, bases, errs = C.run_impl(parts, lambda c: ["ser"], gdir, "/tmp/pinned_gen_target", "gold", binprefix="gen_s")
    finally:
        C.REPO, C.HARNESS = saved
    out = []
    shard_of = {c.cid: k for k, part in enumerate(parts) for c in part}
    for c in cases:
        st = C.split_ser(obs.get((c.cid, "ser"), ""))
        if st.get("status") != "OK":
            continue     # the pinned build cannot write this value (e.g. sequences of zero-sized types): no such file exists
        cx = RustCtx()
        expr = rust_val(U, c.t, c.v, cx)
        out.append({
            "cid": c.cid, "tid": c.tid, "shard": shard_of[c.cid],
            "rust_type": rust_ty(U, c.t, "'_"), "deser_type": rust_ty(U, sertype(U, c.t), "'static"),
            "lets": cx.lets, "expr": expr,
            "model_type": model_ty(U, c.t), "model_value": model_val(c.v),
            "canon": C.canon_of(U, c.t, c.v), "bytes": st["bytes"],
            "exhausted": has_exhausted(U, c.t, c.v),
        })
    os.makedirs(GDIR, exist_ok=True)
    with open(os.path.join(GDIR, "defs.rs"), "w") as f:
        f.write("\n".join(rust_def(U, U.defs[n]) for n in U.order) + "\n")
    with open(os.path.join(GDIR, "cases.json"), "w") as f:
        json.dump({"pinned_commit": "709c463", "seed": GOLD_SEED, "cases": out}, f, indent=0)
    print("golden cases:", len(out), "of", len(cases), "errors", errs[:2])
    return 0


def has_exhausted(U, t, v):
    k = t[0]
    if k == "range":
        return t[1] == "incl" and v[1][2][1] != 0
    if k in ("vec", "bslice", "sref"):
        return (not C.is_zc(U, t[1])) and any(has_exhausted(U, t[1], x) for x in v[1])
    if k == "arr":
        return (not C.is_zc(U, t[2])) and any(has_exhausted(U, t[2], x) for x in v[1])
    if k in ("opt", "bound"):
        return any(has_exhausted(U, t[1], x) for x in v[2])
    if k == "cf":
        return has_exhausted(U, t[1 + v[1]], v[2][0])
    if k == "adt":
        d = U.defs[t[1]]
        if d.copy == "zero":
            return False
        b = inst_fields(U, t)
        if d.kind == "struct":
            return any(has_exhausted(U, ft, x) for (_, _, ft), x in zip(b, v[1]))
        return any(has_exhausted(U, ft, x) for (_, _, ft), x in zip(b[v[1]][2], v[2]))
    return False


def load():
    with open(os.path.join(GDIR, "cases.json")) as f:
        return json.load(f)


def write_gold_workspace(g, gdir, shards=8):
    """A generated workspace (like the campaign's) from the stored sources."""
    os.makedirs(gdir, exist_ok=True)
    defs_src = open(os.path.join(GDIR, "defs.rs")).read()
    cases = g["cases"]
    # the same crates as when the files were written: type names in the header contain the crate name
    nsh = 1 + max(c["shard"] for c in cases)
    parts = [[c for c in cases if c["shard"] == k] for k in range(nsh)]
    members = []
    for k, part in enumerate(parts):
        if not part:
            continue
        cdir = os.path.join(gdir, "s%d" % k)
        os.makedirs(os.path.join(cdir, "src"), exist_ok=True)
        members.append("s%d" % k)
        with open(os.path.join(cdir, "Cargo.toml"), "w") as f:
            f.write('[package]\nname = "gen_s%d"\nversion = "0.1.0"\nedition = "2021"\n\n[dependencies]\n'
                    'epserde = { path = "%s/epserde" }\nevharness = { path = "%s" }\n' % (k, REPO, HARNESS))
        body = [C.PRELUDE, defs_src, ""]
        arms = []
        for c in part:
            body.append("fn case_%s(ops: &[String], arena: &mut Arena, out: &mut String) {\n    %s\n    let mk = || -> %s { %s };\n    run_case::<%s, %s>(\"%s\", &mk, ops, arena, out);\n}" % (
                c["cid"], "\n    ".join(c["lets"]), c["rust_type"], c["expr"], c["rust_type"], c["deser_type"], c["cid"]))
            arms.append('        "%s" => case_%s(ops, arena, out),' % (c["cid"], c["cid"]))
        body.append("fn dispatch(cid: &str, ops: &[String], arena: &mut Arena, out: &mut String) {\n    match cid {\n%s\n        _ => {}\n    }\n}" % "\n".join(arms))
        body.append(C_MAIN)
        src = "\n".join(body) + "\n"
        p = os.path.join(cdir, "src", "main.rs")
        if not os.path.exists(p) or open(p).read() != src:
            with open(p, "w") as f:
                f.write(src)
    with open(os.path.join(gdir, "Cargo.toml"), "w") as f:
        f.write('[workspace]\nresolver = "2"\nmembers = [%s]\n\n[profile.dev]\nopt-level = 0\ndebug = false\nincremental = false\n\n'
                '[patch.crates-io]\nepserde-derive = { path = "%s/epserde-derive" }\n' % (", ".join('"%s"' % m for m in members), REPO))
    os.makedirs(os.path.join(gdir, ".cargo"), exist_ok=True)
    with open(os.path.join(gdir, ".cargo", "config.toml"), "w") as f:
        f.write('[net]\noffline = true\n[build]\nrustflags = ["--cfg", "epserde_verif"]\n')
    import shutil
    shutil.copy(os.path.join(HARNESS, "Cargo.lock"), os.path.join(gdir, "Cargo.lock"))
    return [p for p in parts if p]


C_MAIN = """fn main() {
    std::panic::set_hook(Box::new(|_| {}));
    let path = std::env::args().nth(1).expect("ops file");
    let text = std::fs::read_to_string(path).unwrap();
    let mut arena = Arena::new(1 << 20);
    println!("base {:x}", arena.base());
    println!("flags {}", flags_obs());
    let mut out = String::new();
    for line in text.lines() {
        let mut it = line.split(' ');
        let cid = match it.next() { Some(c) if !c.is_empty() => c, _ => continue };
        let ops: Vec<String> = it.map(|s| s.to_string()).collect();
        dispatch(cid, &ops, &mut arena, &mut out);
        out.push_str(&format!("{} done\\n", cid));
        { use std::io::Write; let so = std::io::stdout(); let mut l = so.lock(); l.write_all(out.as_bytes()).unwrap(); l.flush().unwrap(); }
        out.clear();
    }
}"""


def run_gold():
    """Reads every golden file with the current build (both modes) and with the reference decoder; also
    serializes the value again with the current build. Returns (cases, impl obs, model obs, errors)."""
    from .coqstage import build as coq_build
    g = load()
    gdir = os.path.join(CACHE, "gen", "golden")
    # its own target directory: the crates have the same names as the campaign's (the type names in
    # the stored headers contain them), so sharing one would let either build overwrite the other's binaries
    tdir = os.path.join(CACHE, "gen-target-golden")
    parts = write_gold_workspace(g, gdir)
    errs = []
    okc, logc = coq_build()
    if not okc:
        errs.append("coq/driver build failed: " + logc[-1000:])
    ok, log = C.build_gen(gdir, tdir)
    if not ok:
        return g["cases"], {}, {}, ["the golden reader does not compile against the current tree:\n" + log[-3000:]]

    class X:
        pass
    xs = []
    for part in parts:
        px = []
        for c in part:
            x = X()
            x.cid, x.tid, x.g = c["cid"], c["tid"], c
            px.append(x)
        xs.append(px)
    iobs, bases, e2 = C.run_impl(xs, lambda x: ["ser", "feed", "gold:" + x.g["bytes"]], gdir, tdir, "gold", binprefix="gen_s")
    errs += e2
    # model: one file per shard
    cmds = []
    for k, px in enumerate(xs):
        lines = []
        seen = set()
        for x in px:
            b = bytes.fromhex(x.g["bytes"])
            nl = int.from_bytes(b[29:37], "little")
            th, ah, nm = "%x" % int.from_bytes(b[13:21], "little"), "%x" % int.from_bytes(b[21:29], "little"), b[37:37 + nl].hex()
            if x.tid not in seen:
                seen.add(x.tid)
                lines.append("T %s %s" % (x.tid, x.g["model_type"]))
            lines.append("C %s %s %s %s %s %s ser feed gold:%x:%s" % (x.cid, x.tid, th, ah, nm or "-", x.g["model_value"], bases.get(x.cid, 0), x.g["bytes"]))
        p = os.path.join(gdir, "gold_model_%d.txt" % k)
        write_lines(p, lines)
        cmds.append([os.path.join(DRIVER, "_build", "model_run"), "codec", p])
    mobs = {}
    if okc:
        for k, (rc, out, err) in enumerate(run_parallel(cmds, timeout=1800)):
            if rc != 0:
                errs.append("model driver exited with %d: %s" % (rc, err[-300:]))
            mobs.update(parse_obs(out))
    return g["cases"], iobs, mobs, errs


if __name__ == "__main__":
    if len(sys.argv) > 1 and sys.argv[1] == "make":
        sys.exit(make())
