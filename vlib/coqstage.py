"""Proof stage: build the Coq development, reject forbidden vernacular, check assumptions."""
import glob, os, re
from .common import COQ, DRIVER, NPROC, run, sha

FORBIDDEN = re.compile(
    r"\b(Admitted|admit|Axiom|Axioms|Parameter|Parameters|Conjecture|Conjectures|Abort All|"
    r"Admit Obligations|bypass_check|Unset Guard Checking|Unset Positivity Checking|"
    r"Unset Universe Checking|Guard Checking|type-in-type|impredicative-set)\b")
SECTIONLESS = re.compile(r"^\s*(Variable|Variables|Hypothesis|Hypotheses|Context)\b")

# axioms of the standard library a property theorem may depend on (named in DESIGN.md section 9)
ALLOWED_AXIOMS = set()

_built = {}


def strip_comments(src):
    out, depth, i = [], 0, 0
    while i < len(src):
        if src.startswith("(*", i):
            depth += 1
            i += 2
        elif src.startswith("*)", i) and depth > 0:
            depth -= 1
            i += 2
        else:
            if depth == 0:
                out.append(src[i])
            elif src[i] == "\n":
                out.append("\n")
            i += 1
    return "".join(out)


def scan_sources():
    """Return a list of 'file:line: text' for forbidden vernacular in the development."""
    bad = []
    for path in sorted(glob.glob(os.path.join(COQ, "**", "*.v"), recursive=True)):
        if os.path.basename(path).startswith("_tmp_"):
            continue
        src = strip_comments(open(path).read())
        in_section = 0
        for ln, line in enumerate(src.splitlines(), 1):
            if re.match(r"^\s*Section\b", line):
                in_section += 1
            if re.match(r"^\s*End\b", line) and in_section > 0:
                in_section -= 1
            if FORBIDDEN.search(line):
                bad.append("%s:%d: %s" % (os.path.relpath(path, COQ), ln, line.strip()))
            if in_section == 0 and SECTIONLESS.match(line):
                bad.append("%s:%d: %s" % (os.path.relpath(path, COQ), ln, line.strip()))
    return bad


def build():
    """make the whole development (cached .vo); returns (ok, log)."""
    if "build" in _built:
        return _built["build"]
    if not os.path.exists(os.path.join(COQ, "Makefile")) or \
            os.path.getmtime(os.path.join(COQ, "Makefile")) < os.path.getmtime(os.path.join(COQ, "_CoqProject")):
        rc, out, err = run(["coq_makefile", "-f", "_CoqProject", "-o", "Makefile"], cwd=COQ)
        if rc != 0:
            _built["build"] = (False, out + err)
            return _built["build"]
    rc, out, err = run(["make", "-j%d" % NPROC], cwd=COQ, timeout=3000)
    ok = rc == 0
    log = out + err
    if ok:
        rc2, out2, err2 = run(["bash", "build.sh"], cwd=DRIVER, timeout=600)
        if rc2 != 0:
            ok = False
            log += "\nDRIVER BUILD FAILED\n" + out2 + err2
    _built["build"] = (ok, log)
    return _built["build"]


def theorems_of(prop):
    path = os.path.join(COQ, "Props", "%s.v" % prop)
    src = strip_comments(open(path).read())
    return re.findall(r"^\s*Theorem\s+(\w+)", src, flags=re.M)


def assumptions(prop):
    """Print Assumptions for every theorem of Props/<prop>.v; returns dict name -> list of axioms."""
    names = theorems_of(prop)
    tmp = os.path.join(COQ, "Props", "_tmp_assum_%s.v" % prop)
    with open(tmp, "w") as f:
        f.write("Require Import EV.Props.%s.\n" % prop)
        for n in names:
            f.write('Goal True. idtac "@@BEGIN %s". Abort.\nPrint Assumptions %s.\n' % (n, n))
        f.write('Goal True. idtac "@@END". Abort.\n')
    rc, out, err = run(["coqc", "-Q", ".", "EV", "-w", "-notation-overridden", tmp], cwd=COQ, timeout=600)
    for ext in (".v", ".vo", ".glob", ".vok", ".vos"):
        try:
            os.remove(tmp[:-2] + ext)
        except OSError:
            pass
    try:
        os.remove(os.path.join(COQ, "Props", "._tmp_assum_%s.aux" % prop))
    except OSError:
        pass
    res = {}
    if rc != 0:
        return None, out + err
    cur = None
    for line in out.splitlines():
        m = re.match(r"@@BEGIN (\w+)", line)
        if m:
            cur = m.group(1)
            res[cur] = []
            continue
        if line.startswith("@@END"):
            cur = None
            continue
        if cur is None:
            continue
        if "Closed under the global context" in line or line.strip() == "Axioms:" or not line.strip():
            continue
        m = re.match(r"^(\S+)\s*:", line)
        if m:
            res[cur].append(m.group(1))
    return res, out


def proof_stage(prop):
    """Returns dict(ok, obligations, discharged, detail, broken=[names], statements_sha)."""
    bad = scan_sources()
    ok, log = build()
    names = theorems_of(prop)
    info = {"obligations": len(names), "discharged": 0, "broken": [], "forbidden": bad,
            "theorems": names, "axioms": {}, "ok": False,
            "checker_cmd": "make -C /verif/coq -j%d (coqc 8.16.1, full .vo build) ; coqc Print Assumptions per theorem" % NPROC}
    src = open(os.path.join(COQ, "Props", "%s.v" % prop)).read()
    info["statements_sha256"] = sha(strip_comments(src))
    if not ok:
        tail = "\n".join(log.splitlines()[-25:])
        info["broken"] = names
        info["detail"] = "coq build failed:\n" + tail
        return info
    ax, raw = assumptions(prop)
    if ax is None:
        info["broken"] = names
        info["detail"] = "Print Assumptions failed:\n" + raw[-2000:]
        return info
    for n in names:
        extra = [a for a in ax.get(n, ["?"]) if a not in ALLOWED_AXIOMS]
        info["axioms"][n] = ax.get(n, ["?"])
        if extra or n not in ax:
            info["broken"].append(n)
        else:
            info["discharged"] += 1
    if bad:
        info["detail"] = "forbidden vernacular: " + "; ".join(bad[:5])
    info["ok"] = (not info["broken"]) and not bad and info["discharged"] == len(names) and len(names) > 0
    return info
