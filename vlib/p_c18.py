"""C18: schema. Proof: Props/C18.v. Correspondence: the rows recorded by serialize_with_schema of the real crate against the rows the
model computes from the writer events; render outcomes; same bytes as plain serialization."""
from .codecprops import *

OPS = {"C13": ["ser", "wfault"], "C14": ["ser", "full"], "C18": ["ser", "schema"]}
ORACLE = {"C13": oracle_c13, "C14": oracle_c14, "C18": oracle_c18}


EXTRA = "Rows (field path, offset, size, alignment) of every case; type-name strings are rustc's and are not compared."


def extra_coverage(v, c):
    v.coverage["rows_checked"] = sum(len(schema_rows(c, x)) for x in c.cases)
    v.coverage.setdefault("samples", []).append({"theorem": "C18_tiling: forall pf h t v evs, ser_top pf h t v = (evs, SDone) -> span (forest_of evs) 0 = Some (evs_len evs) /\\ Forall tiled (forest_of evs)"})


def check(v):
    run_codec_property(v, "C18", OPS["C18"], ORACLE["C18"], rule_extra=EXTRA)
    c = campaign(v.tier)
    extra_coverage(v, c)


def replay(v, path):
    return replay_codec(v, path, "C18", ORACLE["C18"])
