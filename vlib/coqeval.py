"""Validation of the extraction and of the driver's parsers: a sample of the campaign's cases is
rendered as Coq terms by an independent path (Python -> Gallina source), evaluated INSIDE Coq with
vm_compute (serialization bytes, outcome, eps-copy result flattened to numbers), and compared with
what the extracted OCaml model printed for the same cases."""
import os, re
from .common import *
from .tygen import *

IPRIM = {"u8": "U8", "u16": "U16", "u32": "U32", "u64": "U64", "u128": "U128", "usize": "USize",
         "i8": "I8", "i16": "I16", "i32": "I32", "i64": "I64", "i128": "I128", "isize": "ISize"}
RK = {"range": "RRange", "from": "RFrom", "incl": "RIncl", "to": "RTo", "toincl": "RToIncl"}


def cname(b):
    return "[" + "; ".join(str(x) for x in b) + "]"


def coq_info(d):
    consts = "; ".join("{| c_name := %s; c_feed := %s |}" % (cname(n.encode()), cname(const_feed(ct, cv))) for (n, ct, cv) in d.cparams)
    return "{| a_name := %s; a_zc := %s; a_deep := %s; a_reprs := [%s]; a_align := %d; a_consts := [%s] |}" % (
        cname(d.name.encode()), "true" if d.copy == "zero" else "false", "true" if d.copy == "deep" else "false",
        "; ".join(cname(r.encode()) for r in d.reprs), d.align, consts)


def coq_ty(U, t):
    k = t[0]
    if k == "prim":
        p = t[1]
        if p in IPRIM:
            return "(TPrim (PInt %s))" % IPRIM[p]
        if p.startswith("nz"):
            return "(TPrim (PNZ %s))" % IPRIM[p[2:]]
        return "(TPrim %s)" % {"f32": "PF32", "f64": "PF64", "bool": "PBool", "char": "PChar"}[p]
    if k == "unit":
        return "TUnit"
    if k == "string":
        return "TString"
    if k == "boxstr":
        return "TBoxStr"
    if k == "rfull":
        return "TRangeFull"
    one = {"ph": "TPhantom", "vec": "TVec", "bslice": "TBoxSlice", "sref": "TSliceRef", "siter": "TSerIter", "opt": "TOption", "bound": "TBound"}
    if k in one:
        return "(%s %s)" % (one[k], coq_ty(U, t[1]))
    if k == "arr":
        return "(TArray %d %s)" % (t[1], coq_ty(U, t[2]))
    if k == "tup":
        return "(TTuple %d %s)" % (t[1], coq_ty(U, t[2]))
    if k == "cf":
        return "(TCF %s %s)" % (coq_ty(U, t[1]), coq_ty(U, t[2]))
    if k == "range":
        return "(TRange %s %s)" % (RK[t[1]], coq_ty(U, t[2]))
    if k == "adt":
        d = U.defs[t[1]]
        b = inst_fields(U, t)

        def fs(l):
            s = "FNil"
            for (n, isp, ft) in reversed(l):
                s = "(FCons %s %s %s %s)" % (cname(n.encode()), "true" if isp else "false", coq_ty(U, ft), s)
            return s
        if d.kind == "struct":
            return "(TStruct %s %s)" % (coq_info(d), fs(b))
        s = "VNil"
        for (vn, st, l) in reversed(b):
            s = "(VCons %s %s %s %s)" % (cname(vn.encode()), "true" if st != "tuple" else "false", fs(l), s)
        return "(TEnum %s %s)" % (coq_info(d), s)
    raise ValueError(t)


def coq_val(v):
    k = v[0]
    if k == "n":
        return "(VN %d)" % v[1]
    if k == "b":
        return "(VBytes %s)" % cname(v[1])
    if k == "s":
        return "(VSeq [%s])" % "; ".join(coq_val(x) for x in v[1])
    if k == "t":
        return "(VTag %d [%s])" % (v[1], "; ".join(coq_val(x) for x in v[2]))
    raise ValueError(v)


FLAT = """
Fixpoint flat (v : val) : list N :=
  match v with
  | VN n => [0; n]
  | VBytes l => 1 :: nlen l :: l
  | VSeq l => 2 :: nlen l :: flat_map flat l
  | VTag k l => 3 :: k :: nlen l :: flat_map flat l
  | VRef k off nb cnt x => 4 :: (match k with RSlice => 0 | RStr => 1 | ROne => 2 end) :: off :: nb :: cnt :: flat x
  end.
Definition outc (o : sout) : N := match o with SDone => 0 | SPanic _ => 1 | SErr _ => 2 end.
Definition run1 (base : N) (h : hdr) (t : ty) (v : val) : N * N * list byte * list N :=
  let '(evs, o) := ser_top (fun _ => 0) h t v in
  let b := bytes_of evs in
  (outc o, evs_len evs, b,
   match o with
   | SDone => match deser_eps_top base h (sertype t) b with
              | Ok (e, _, p) => 9 :: p :: flat e
              | Err _ => [8]
              | Panic _ => [7]
              end
   | _ => []
   end).
"""


def flat_canon(s):
    """token list of a canonical value text printed by the drivers (see harness/src/obs.rs)"""
    pos = [0]

    def val():
        c = s[pos[0]]
        if c == "n":
            m = re.match(r"n([0-9a-f]+)", s[pos[0]:])
            pos[0] += m.end()
            return [0, int(m.group(1), 16)]
        if c == "b":
            m = re.match(r"b((?:[0-9a-f]{2})*)", s[pos[0]:])
            pos[0] += m.end()
            b = bytes.fromhex(m.group(1))
            return [1, len(b)] + list(b)
        if c == "[":
            items = seq()
            out = [2, len(items)]
            for it in items:
                out += it
            return out
        if c == "t":
            m = re.match(r"t([0-9a-f]+)", s[pos[0]:])
            pos[0] += m.end()
            items = seq()
            out = [3, int(m.group(1), 16), len(items)]
            for it in items:
                out += it
            return out
        if c == "&":
            m = re.match(r"&([STO])(?:([0-9a-f]+)\+([0-9a-f]+)x([0-9a-f]+)|zst\+0x([0-9a-f]+)):", s[pos[0]:])
            pos[0] += m.end()
            kind = {"S": 0, "T": 1, "O": 2}[m.group(1)]
            if m.group(5) is not None:
                hdr = [4, kind, None, 0, int(m.group(5), 16)]
            else:
                hdr = [4, kind, int(m.group(2), 16), int(m.group(3), 16), int(m.group(4), 16)]
            return hdr + val()
        raise ValueError(s[pos[0]:pos[0] + 20])

    def seq():
        assert s[pos[0]] == "["
        pos[0] += 1
        items = []
        while s[pos[0]] != "]":
            items.append(val())
            if s[pos[0]] == ",":
                pos[0] += 1
        pos[0] += 1
        return items
    return val()


def evaluate(c, sample, workdir):
    """sample: list of cases. Returns (number compared, first disagreement or None)."""
    os.makedirs(workdir, exist_ok=True)
    lines = ["Require Import EV.Base.Tac EV.Base.Bytes EV.Base.Res EV.Base.ListX.",
             "Require Import EV.Model.Arith64 EV.Model.Types EV.Model.Layout EV.Model.Ser EV.Model.Deser EV.Model.Header.",
             FLAT]
    used = []
    for x in sample:
        if x.cid not in c.hdrs:
            continue
        th, ah, nm = c.hdrs[x.cid]
        h = "{| h_type_hash := %d; h_align_hash := %d; h_name := %s |}" % (int(th, 16), int(ah, 16), cname(bytes.fromhex(nm)))
        lines.append("Eval vm_compute in (run1 %d %s %s %s)." % (c.bases.get(x.cid, 0), h, coq_ty(c.U, x.t), coq_val(x.v)))
        used.append(x)
    path = os.path.join(workdir, "cases.v")
    write_lines(path, lines)
    rc, out, err = run(["coqc", "-noglob", "-Q", COQ, "EV", path], timeout=1200, cwd=workdir)
    if rc != 0:
        return 0, {"error": (out + err)[-1500:]}
    chunks = re.split(r"^\s*= ", out, flags=re.M)[1:]
    if len(chunks) != len(used):
        return 0, {"error": "coqc printed %d results for %d cases" % (len(chunks), len(used))}
    n = 0
    for x, ch in zip(used, chunks):
        body = ch.split("\n     : ")[0]
        m = re.match(r"\((\d+), (\d+),\s*(\[[^\]]*\]),\s*(\[[^\]]*\])\)", " ".join(body.split()))
        if not m:
            return n, {"case": x.cid, "error": "cannot parse Coq output", "output": body[:500]}
        oc, ln = int(m.group(1)), int(m.group(2))
        byts = [int(z) for z in re.findall(r"\d+", m.group(3))]
        eps = [int(z) for z in re.findall(r"\d+", m.group(4))]
        ms = c.mobs.get((x.cid, "ser"), "")
        mm = dict(p.split("=", 1) for p in ms.split(" ") if "=" in p)
        want_oc = 0 if ms.startswith("OK") else (1 if ms.startswith("PANIC") else 2)
        hexb = mm.get("bytes", "")
        ok = (oc == want_oc and ln == int(mm.get("n", "0"), 16) and len(hexb) == 2 * len(byts)
              and all(hexb[2 * i:2 * i + 2] in ("xx", "%02x" % b) for i, b in enumerate(byts)))
        if ok and oc == 0:
            me = c.mobs.get((x.cid, "eps:%x" % c.bases.get(x.cid, 0)), "")
            if me.startswith("OK "):
                mv = re.match(r"OK (\S+) pos=([0-9a-f]+)", me)
                want = [9, int(mv.group(2), 16)] + flat_canon(mv.group(1))
                ok = len(want) == len(eps) and all(w is None or w == e for w, e in zip(want, eps))
            elif me.startswith("ERR"):
                ok = eps == [8]
            elif me.startswith("PANIC"):
                ok = eps == [7]
        if not ok:
            return n, {"case": x.cid, "coq": body[:800], "extracted_ser": ms[:800], "extracted_eps": c.mobs.get((x.cid, "eps:%x" % c.bases.get(x.cid, 0)), "")[:800]}
        n += 1
    return n, None
