"""Regenerates seeded/README.md and the table of DESIGN.md section 9 from seeded/*/meta.json."""
import json, os, re, glob

VERIF = os.path.dirname(os.path.dirname(os.path.abspath(__file__)))


def first_sentence(s, n=230):
    s = " ".join(s.split())
    m = re.match(r"(.{40,%d}?[.;:])\s" % n, s)
    return (m.group(1) if m else s[:n]).replace("|", "/")


def main():
    rows = []
    for d in sorted(glob.glob(os.path.join(VERIF, "seeded", "C*-*"))):
        mid = os.path.basename(d)
        m = json.load(open(os.path.join(d, "meta.json")))
        cw = m.get("checked_with", {})
        rows.append("| %s | %s | %s | %s |" % (mid, first_sentence(m.get("summary", "")), cw.get("result", "not yet run").replace("|", "/"),
                                             ", ".join(cw.get("also_caught_by", [])) or "-"))
    table = "| seeded change | what it does | its property's check (quick) | other checks that also report it (of those run) |\n|---|---|---|---|\n" + "\n".join(rows)
    with open(os.path.join(VERIF, "seeded", "README.md"), "w") as f:
        f.write("# Seeded changes\n\nEach directory holds patch.diff (apply with `git -C /repo apply`), the demonstration test and meta.json "
                "(what the change is, what it needs to manifest, what was run). Never committed to /repo.\n\n" + table + "\n")
    p = os.path.join(VERIF, "DESIGN.md")
    s = open(p).read()
    if "SEEDED_TABLE_PLACEHOLDER" in s:
        s = s.replace("SEEDED_TABLE_PLACEHOLDER", "<!-- seeded-table-begin -->\n" + table + "\n<!-- seeded-table-end -->")
    else:
        s = re.sub(r"<!-- seeded-table-begin -->.*<!-- seeded-table-end -->", lambda _: "<!-- seeded-table-begin -->\n" + table + "\n<!-- seeded-table-end -->", s, flags=re.S)
    open(p, "w").write(s)
    print(len(rows), "rows")


if __name__ == "__main__":
    main()
