"""C10: header corruption. Proof: Props/C10.v. Correspondence: the 'flips' observation (every
single-bit flip of the 29 fixed header bytes, the reversed cookie, minor versions 0,1,2,255,256,65535),
both modes, on every generated stream."""
from .codecprops import *


def check(v):
    run_codec_property(v, "C10", ["ser", "full", "eps:0", "flips"], oracle_c10,
                       rule_extra="Per case: 232 single-bit flips + reversed cookie + 6 minor versions, each through deserialize_full and deserialize_eps.")
    c = campaign(v.tier)
    v.coverage["header_variants_tried"] = sum(c.iobs.get((x.cid, "flips"), "").count("=") for x in c.cases)
    v.coverage["exhaustive"] = False
    v.coverage.setdefault("samples", []).append({"theorem": "C10_eps_copy_verdict: forall base h t magic major minor us sth sah nm body, fields_in_range ... -> deser_eps_top base h t (header_bytes ... ++ body) = match header_verdict h magic major minor us sth sah with Some e => Err e | None => deser_eps base t body (37 + nlen nm) end"})


def replay(v, path):
    return replay_codec(v, path, "C10", oracle_c10)
