"""C04: bytes of one type are never accepted as another. Proof: Props/C04.v (refusal whenever the hash separates the
feeds; the feeds separate the listed near-misses; equivalents share feeds; two refutations).
Correspondence: O-feed (exact bytes fed to TypeHash/AlignHash, recorded by a Hasher) for every generated type against the
model's feeds; hash words = xxh3-64(feed); O-cross: bytes of T read as every near-miss mutant U, both modes, both directions."""
from .codecprops import *


def check(v):
    c = campaign(v.tier)
    cross_ops = sorted(set("cross:" + tidu for x in c.cases for (tidu, _) in getattr(x, "cross", [])))
    ops = ["ser", "feed", "sfeed"]
    # pairs whose second type has no value that could be written down (array lengths that differ only
    # above a narrower integer width, zero-sized items): run by the harness on the real API
    fam = hash_family(c)
    bad = [(name, res) for (name, res) in fam if not all(part.split("=")[1] in ("E:WrongTypeHash", "E:WrongAlignHash") for part in res.split(","))]
    if bad:
        run_proof_stage(v, "C04")
        name, res = bad[0]
        v.coverage.update({"evaluations": len(fam), "distinct_nontrivial": len(fam), "rule": "fixed family of array-length pairs only: one of them is accepted, the campaign was not evaluated",
                           "hash_family": dict(fam)})
        v.violation("hash_family", {"kind": "failing-input", "why": "bytes of a value of the first type read as the second type (%s): %s -- required a type-hash or alignment-hash error in both modes" % (name, res),
                                    "pair": name, "observed": res, "failing_pairs_in_run": len(bad),
                                    "replay": "serialize the value of the first type ([(); n] / [PhantomData; n] of n items) and call deserialize_eps / deserialize_full for the second type (harness/src/codec.rs hash_family_obs)"})
        return
    run_codec_property(v, "C04", ops, oracle_c04,
                       rule_extra="Pairs: every chosen generated definition against its mutants (type name, field renamed, fields swapped, field type of the same size, copy kind, repr attribute, const value, const name, variant renamed, variants reordered) and built-in near-misses (sequence kind, array length, tuple arity, sum kind, element type, generic argument).")
    # the cross observations are compared here (their names depend on the pair)
    kinds, dis = {}, 0
    for x in c.cases:
        for (tidu, kind) in getattr(x, "cross", []):
            kinds[kind] = kinds.get(kind, 0) + 1
            i = (c.iobs.get((x.cid, "cross:" + tidu)) or "").strip()
            m = (c.mobs.get((x.cid, "cross:" + tidu)) or "").strip()
            if i != m and not v.violations:
                dis += 1
                d = describe(c, x)
                d.update({"kind": "correspondence", "correspondence": "model vs implementation on the cross read into %s" % tidu, "model": m[:500], "impl": i[:500],
                          "searched": "direct oracle of C04 on all cross reads: no failing input"})
                v.violation("correspondence", d, no_input=True)
    v.coverage["cross_reads"] = sum(kinds.values())
    v.coverage["hash_family"] = dict(fam)
    v.coverage["near_miss_kinds"] = kinds
    v.coverage["feeds_compared"] = sum(1 for x in c.cases if (x.cid, "feed") in c.iobs)
    v.assumptions.append("64-bit collision-freeness of xxh3 on the compared feeds is not provable: theorems carry H f1 <> H f2 as a hypothesis; the check confirms with the real hash that every generated pair with different feeds has different hash words (they are refused)")
    v.coverage.setdefault("samples", []).append({"theorem": "C04_cross_read_refused: forall H pf tw tu nmw nmu v evs base, ... (H (tfeed tw) <> H (tfeed tu) \\/ ...) -> exists e, (e = WrongTypeHash .. \\/ e = WrongAlignHash ..) /\\ deser_full_top .. = Err e /\\ deser_eps_top .. = Err e"})


def hash_family(c):
    """[(pair, 'full=..,eps=..')] from the harness (both builds)"""
    out = []
    for obs, label in ((c.iobs, ""), (getattr(c, "iobs2", None) or {}, "[build without debug assertions] ")):
        line = obs.get(("_", "hashfam"), "")
        for ent in line.split("|"):
            if "~" in ent:
                name, res = ent.split("~", 1)
                out.append((label + name, res))
    return out


def replay(v, path):
    return replay_codec(v, path, "C04", oracle_c04)
