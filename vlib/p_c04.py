"""C04: bytes of one type are never accepted as another. Proof: Props/C04.v (refusal whenever the hash separates the
feeds; the feeds separate the listed near-misses; equivalents share feeds; two refutations).
Correspondence: O-feed (exact bytes fed to TypeHash/AlignHash, recorded by a Hasher) for every generated type against the
model's feeds; hash words = xxh3-64(feed); O-cross: bytes of T read as every near-miss mutant U, both modes, both directions."""
from .codecprops import *


def check(v):
    c = campaign(v.tier)
    cross_ops = sorted(set("cross:" + tidu for x in c.cases for (tidu, _) in getattr(x, "cross", [])))
    ops = ["ser", "feed", "sfeed"]
    run_codec_property(v, "C04", ops, oracle_c04,
                       rule_extra="Pairs: every chosen generated definition against its mutants (type name, field renamed, fields swapped, field type of the same size, copy kind, repr attribute, const value, const name, variant renamed, variants reordered) and built-in near-misses (sequence kind, array length, tuple arity, sum kind, element type, generic argument).")
    # the cross observations are compared here (their names depend on the pair)
    kinds, dis = {}, 0
    for x in c.cases:
        for (tidu, kind) in getattr(x, "cross", []):
            kinds[kind] = kinds.get(kind, 0) + 1
            i = (c.iobs.get((x.cid, "cross:" + tidu)) or "").strip()
            m = (c.mobs.get((x.cid, "cross:" + tidu)) or "").strip()
            if i != m and not v.violations:
                dis += 1
                d = describe(c, x)
                d.update({"kind": "correspondence", "correspondence": "model vs implementation on the cross read into %s" % tidu, "model": m[:500], "impl": i[:500],
                          "searched": "direct oracle of C04 on all cross reads: no failing input"})
                v.violation("correspondence", d, no_input=True)
    v.coverage["cross_reads"] = sum(kinds.values())
    v.coverage["near_miss_kinds"] = kinds
    v.coverage["feeds_compared"] = sum(1 for x in c.cases if (x.cid, "feed") in c.iobs)
    v.assumptions.append("64-bit collision-freeness of xxh3 on the compared feeds is not provable: theorems carry H f1 <> H f2 as a hypothesis; the check confirms with the real hash that every generated pair with different feeds has different hash words (they are refused)")
    v.coverage.setdefault("samples", []).append({"theorem": "C04_cross_read_refused: forall H pf tw tu nmw nmu v evs base, ... (H (tfeed tw) <> H (tfeed tu) \\/ ...) -> exists e, (e = WrongTypeHash .. \\/ e = WrongAlignHash ..) /\\ deser_full_top .. = Err e /\\ deser_eps_top .. = Err e"})


def replay(v, path):
    return replay_codec(v, path, "C04", oracle_c04)
