"""C05: derived implementations. Proof: Props/C05.v.
Tie to the code: every generated definition (random shape, arity, attributes, parameterisation, nesting of previously generated
definitions) is compiled by rustc through the real derive and round-trips its values in both modes (campaign); the concrete
DeserType of every generated type is compared (type_name) with the type given by the rule of the property, and with the model's
field-level dty_of; boundary probes pin the edge of the grammar."""
from .codecprops import *
from . import deriveprobes as dp


def run_probes(v):
    """the grammar probes; returns True when a violation was reported"""
    probes = dp.c05_probes()
    res = dp.judge("C05", probes, "", "c05")
    table = []
    for p in probes:
        r = res[p.pid]
        table.append({"id": p.pid, "what": p.what, "expected": p.expect, "observed": r["class"], "run": r.get("run", ""), "diagnostic": (r.get("diagnostics") or [""])[0][:140]})
    v.coverage["grammar_probes"] = table
    # the grammar boundary of the model (wf_gdef of Model/Generic.v) on the same definitions: inside
    # for every probe that must compile, outside for the boundary probes
    from .coqstage import build
    build()
    gp = dp.generic_predictions(os.path.join(CACHE, "probes", "c05"))
    v.coverage["grammar_boundary_model_vs_probes"] = {"compared": len([k for k in gp if k != "_error"]), "model_outside": sorted(k for k, w in gp.items() if w == "0")}
    for p in probes:
        if p.pid in gp and gp[p.pid] != ("1" if p.expect == "compiles" else "0") or "_error" in gp:
            v.violation("boundary", {"kind": "correspondence", "correspondence": "wf_gdef (Model/Generic.v) vs the classification of the grammar probes that rustc judges",
                                     "probe": p.pid, "model_wf": gp.get(p.pid), "expected": p.expect, "error": gp.get("_error"),
                                     "searched": "every grammar probe was compiled and run: see coverage.grammar_probes"}, no_input=True)
            return True
    for p in probes:
        r = res[p.pid]
        ok_run = (r.get("run") or "").startswith("full=true eps=true")
        if p.expect == "compiles":
            if r["class"] == "compiles" and ok_run:
                continue
            why = ("the derived code does not compile for a definition in the grammar (%s): %s" % (p.what, (r.get("diagnostics") or [""])[0][:200])
                   if r["class"] != "compiles" else "a derived definition (%s) does not round-trip: %s" % (p.what, r.get("run")))
            if p.known and known_listed("C05", p.known):
                v.known("%s: %s [probe %s: %s]" % (p.known, known_listed("C05", p.known)["identified_by"], p.pid, r["class"]))
                continue
            v.violation("probe_" + p.pid, {"kind": "failing-input", "why": why, "program": p.src, "observed": r})
            return True
        else:
            if r["class"] == "compiles":
                # a boundary shape that now compiles is not a violation: the recorded classification is stale
                v.coverage.setdefault("boundary_shapes_now_accepted", []).append(p.pid)
    return False


def check(v):
    # the probes first: when a definition of the grammar does not compile, the probe is the failing input
    # (the generated harness of the campaign would not build either)
    if run_probes(v):
        run_proof_stage(v, "C05")
        v.coverage.update({"evaluations": len(v.coverage.get("grammar_probes", [])), "distinct_nontrivial": len(v.coverage.get("grammar_probes", [])),
                           "rule": "grammar probes only: a probe inside the grammar failed, the campaign was not evaluated"})
        return
    run_codec_property(v, "C05", ["ser", "full", "eps:0", "dty"], oracle_c05,
                       rule_extra="Derived definitions: named/tuple/unit structs, unit/tuple/struct variants, type / const / defaulted parameters, phantom parameters, inline bounds, where-clauses, zero_copy / deep_copy / no attribute (zero-copy definitions with ZeroCopy-bounded parameters included), repr(C) with and without align.")
    if v.violations:
        return
    c = campaign(v.tier)
    adts = [c.U.defs[k] for k in c.U.order if not getattr(c.U.defs[k], "liar", False)]
    v.coverage["definitions_by_shape"] = {
        "struct:named": sum(1 for d in adts if d.kind == "struct" and d.style == "named"),
        "struct:tuple": sum(1 for d in adts if d.kind == "struct" and d.style == "tuple"),
        "struct:unit": sum(1 for d in adts if d.kind == "struct" and d.style == "unit"),
        "enum": sum(1 for d in adts if d.kind == "enum"),
        "with_type_params": sum(1 for d in adts if d.tparams),
        "zero_copy_with_type_params": sum(1 for d in adts if d.tparams and d.copy == "zero"),
        "with_const_params": sum(1 for d in adts if d.cparams),
        "with_defaults": sum(1 for d in adts if d.defaults),
        "with_inline_bounds": sum(1 for d in adts if d.bounds),
        "with_where_clauses": sum(1 for d in adts if d.where),
        "zero_copy": sum(1 for d in adts if d.copy == "zero"),
        "deep_copy": sum(1 for d in adts if d.copy == "deep"),
        "no_attribute": sum(1 for d in adts if d.copy == "none"),
    }
    v.coverage["desertype_comparisons"] = sum(1 for x in c.cases if c.iobs.get((x.cid, "dty")) == "same")
    # the definitions before instantiation (Model/Generic.v), run on every generic deep-copy definition
    # of the campaign: inside the grammar boundary (wf_gdef; rustc compiled them all), inst_def equal to
    # the instantiated type the rest of the model was run on, deser_args equal to the rule of the
    # property at the level of parameters (which rustc's type_name confirmed, observation 'dty')
    from .tygen import gdef_sexp, gen_expected
    seen, bad, skipped = set(), [], 0
    for x in c.cases:
        t = x.t
        if x.tid in seen or t[0] != "adt" or getattr(x, "liar", False):
            continue
        d = c.U.defs[t[1]]
        if not d.tparams or d.copy == "zero" or getattr(d, "liar", False):
            continue
        seen.add(x.tid)
        if gdef_sexp(c.U, d) is None:
            skipped += 1
            continue
        from .tygen import ser_only
        if ser_only(t):
            # serialize-only arguments (&[T], SerIter) have no eps-copy type: wf and inst only
            got = c.mobs.get(("g" + x.tid, "gen")) or ""
            if not got.startswith("wf=1 inst=same "):
                bad.append((x, got, "wf=1 inst=same ..."))
            continue
        got, want = c.mobs.get(("g" + x.tid, "gen")), gen_expected(c.U, t)
        if got != want:
            bad.append((x, got, want))
    v.coverage["generic_level_comparisons"] = {"instances": len(seen) - skipped, "outside_texp_language": skipped, "disagreements": len(bad)}
    if bad:
        x, got, want = bad[0]
        d = describe(c, x)
        d.update({"kind": "correspondence", "correspondence": "Model/Generic.v (wf_gdef, inst_def, deser_args) vs the generated definition, its instantiation and the parameter-level rule confirmed by rustc",
                  "model": got, "expected": want, "searched": "direct oracle of C05 on all %d generated cases: no failing input" % len(c.cases)})
        v.violation("generic", d, no_input=True)
        return
    v.assumptions.append("PARTIAL: 'the derived code compiles' is rustc's verdict on generated programs: observed on every generated definition and probe, not proved; the model states which definitions are accepted (derive_check, wf) and what they compute")
    v.coverage.setdefault("samples", []).append({"theorem": "C05_eps_results_have_the_eps_type: forall base h t buf e rest n, deser_eps_top base h t buf = Ok (e, rest, n) -> eps_ok base buf (dty_of t) e"})


def replay(v, path):
    return replay_codec(v, path, "C05", oracle_c05)
