"""C05: derived implementations. Proof: Props/C05.v.
Tie to the code: every generated definition (random shape, arity, attributes, parameterisation, nesting of previously generated
definitions) is compiled by rustc through the real derive and round-trips its values in both modes (campaign); the concrete
DeserType of every generated type is compared (type_name) with the type given by the rule of the property, and with the model's
field-level dty_of; boundary probes pin the edge of the grammar."""
from .codecprops import *
from . import deriveprobes as dp


def run_probes(v):
    """the grammar probes; returns True when a violation was reported"""
    probes = dp.c05_probes()
    res = dp.judge("C05", probes, "", "c05")
    table = []
    for p in probes:
        r = res[p.pid]
        table.append({"id": p.pid, "what": p.what, "expected": p.expect, "observed": r["class"], "run": r.get("run", ""), "diagnostic": (r.get("diagnostics") or [""])[0][:140]})
    v.coverage["grammar_probes"] = table
    for p in probes:
        r = res[p.pid]
        ok_run = (r.get("run") or "").startswith("full=true eps=true")
        if p.expect == "compiles":
            if r["class"] == "compiles" and ok_run:
                continue
            why = ("the derived code does not compile for a definition in the grammar (%s): %s" % (p.what, (r.get("diagnostics") or [""])[0][:200])
                   if r["class"] != "compiles" else "a derived definition (%s) does not round-trip: %s" % (p.what, r.get("run")))
            if p.known and known_listed("C05", p.known):
                v.known("%s: %s [probe %s: %s]" % (p.known, known_listed("C05", p.known)["identified_by"], p.pid, r["class"]))
                continue
            v.violation("probe_" + p.pid, {"kind": "failing-input", "why": why, "program": p.src, "observed": r})
            return True
        else:
            if r["class"] == "compiles":
                # a boundary shape that now compiles is not a violation: the recorded classification is stale
                v.coverage.setdefault("boundary_shapes_now_accepted", []).append(p.pid)
    return False


def check(v):
    # the probes first: when a definition of the grammar does not compile, the probe is the failing input
    # (the generated harness of the campaign would not build either)
    if run_probes(v):
        run_proof_stage(v, "C05")
        v.coverage.update({"evaluations": len(v.coverage.get("grammar_probes", [])), "distinct_nontrivial": len(v.coverage.get("grammar_probes", [])),
                           "rule": "grammar probes only: a probe inside the grammar failed, the campaign was not evaluated"})
        return
    run_codec_property(v, "C05", ["ser", "full", "eps:0", "dty"], oracle_c05,
                       rule_extra="Derived definitions: named/tuple/unit structs, unit/tuple/struct variants, type / const / defaulted parameters, phantom parameters, inline bounds, where-clauses, zero_copy / deep_copy / no attribute (zero-copy definitions with ZeroCopy-bounded parameters included), repr(C) with and without align.")
    if v.violations:
        return
    c = campaign(v.tier)
    adts = [c.U.defs[k] for k in c.U.order if not getattr(c.U.defs[k], "liar", False)]
    v.coverage["definitions_by_shape"] = {
        "struct:named": sum(1 for d in adts if d.kind == "struct" and d.style == "named"),
        "struct:tuple": sum(1 for d in adts if d.kind == "struct" and d.style == "tuple"),
        "struct:unit": sum(1 for d in adts if d.kind == "struct" and d.style == "unit"),
        "enum": sum(1 for d in adts if d.kind == "enum"),
        "with_type_params": sum(1 for d in adts if d.tparams),
        "zero_copy_with_type_params": sum(1 for d in adts if d.tparams and d.copy == "zero"),
        "with_const_params": sum(1 for d in adts if d.cparams),
        "with_defaults": sum(1 for d in adts if d.defaults),
        "with_inline_bounds": sum(1 for d in adts if d.bounds),
        "with_where_clauses": sum(1 for d in adts if d.where),
        "zero_copy": sum(1 for d in adts if d.copy == "zero"),
        "deep_copy": sum(1 for d in adts if d.copy == "deep"),
        "no_attribute": sum(1 for d in adts if d.copy == "none"),
    }
    v.coverage["desertype_comparisons"] = sum(1 for x in c.cases if c.iobs.get((x.cid, "dty")) == "same")
    v.assumptions.append("PARTIAL: 'the derived code compiles' is rustc's verdict on generated programs: observed on every generated definition and probe, not proved; the model states which definitions are accepted (derive_check, wf) and what they compute")
    v.coverage.setdefault("samples", []).append({"theorem": "C05_eps_results_have_the_eps_type: forall base h t buf e rest n, deser_eps_top base h t buf = Ok (e, rest, n) -> eps_ok base buf (dty_of t) e"})


def replay(v, path):
    return replay_codec(v, path, "C05", oracle_c05)
