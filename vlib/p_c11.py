"""C11: truncated streams. Proof: Props/C11.v. Correspondence: the 'cuts' observation (every
strict prefix of every generated stream, both modes; the valid continuation is left in memory
behind each prefix, so a read past the prefix would succeed and be reported)."""
from .codecprops import *


def check(v):
    run_codec_property(v, "C11", ["ser", "full", "eps:0", "cuts"], oracle_c11,
                       rule_extra="Per case: every cut point k in [0, len), deserialize_full (reader implementing only read) and deserialize_eps.")
    c = campaign(v.tier)
    tot = 0
    for x in c.cases:
        st = ser_status(c, x)
        if st.get("status") == "OK":
            tot += int(st["n"], 16)
    v.coverage["cut_points_tried"] = tot
    v.assumptions.append("'without reading outside the prefix' is observed (valid continuation bytes left behind every prefix), not proved: the model reads lists")
    v.assumptions.append("load_full / mmap of truncated files are the same functions over a file (observed by the loaders campaign of C08)")
    v.coverage.setdefault("samples", []).append({"theorem": "C11_truncated_full: forall h t bs v, deser_full_top h t bs = Ok (v, [], nlen bs) -> forall k, k < nlen bs -> deser_full_top h t (ntake k bs) = Err ReadError"})


def replay(v, path):
    return replay_codec(v, path, "C11", oracle_c11)
