"""C07: padding, alignment units, exact byte counts. Proof: Props/C07.v.
Correspondence: O-ser (bytes, chunks, count), O-full/O-eps (positions), O-schema (block offsets, units)."""
from .codecprops import *


def check(v):
    run_codec_property(v, "C07", ["ser", "full", "eps:0", "schema"], oracle_c07,
                       rule_extra="Block offsets, units and paddings are read from the rows recorded by serialize_with_schema on the implementation.")
    c = campaign(v.tier)
    res = {}
    for x in c.cases:
        sch = c.iobs.get((x.cid, "schema"), "")
        m = re.search(r"rows=(\S*)", sch)
        if not m:
            continue
        for r in m.group(1).split(";"):
            p = r.split("|")
            if len(p) == 4 and p[0].endswith("zero") and int(p[3], 16) > 1:
                a = int(p[3], 16)
                res.setdefault(a, set()).add(int(p[1], 16) % a if a else 0)
    v.coverage["block_units_seen"] = sorted(res.keys())
    v.coverage.setdefault("samples", []).append({"theorem": "C07_blocks_aligned: forall pf h t v, units_pow2 t = true -> layout_ok 0 (fst (ser_top pf h t v))"})


def replay(v, path):
    return replay_codec(v, path, "C07", oracle_c07)
