"""developer helper: python3 -m vlib.codec_try [seed] [tier]"""
import sys, time
from .codec import *

def main():
    seed = int(sys.argv[1]) if len(sys.argv) > 1 else 1
    tier = sys.argv[2] if len(sys.argv) > 2 else "quick"
    t0 = time.time()
    U, types, cases = make_cases(seed, tier)
    gdir = os.path.join(CACHE, "gen", "try")
    tdir = os.path.join(CACHE, "gen-target")
    parts = write_gen_workspace(U, cases, gdir)
    print("generated", len(types), "types", len(cases), "cases", time.time() - t0)
    ok, log = build_gen(gdir, tdir)
    print("build", ok, time.time() - t0)
    if not ok:
        print(log[-6000:])
        return
    ops = lambda c: ["hdr", "ser", "full", "eps:0"]
    iobs, bases, errs = run_impl(parts, ops, gdir, tdir, "try")
    print("impl", len(iobs), errs, time.time() - t0)
    hdrs = {}
    for c in cases:
        h = iobs.get((c.cid, "hdr"))
        if h:
            d = dict(x.split("=") for x in h.split(" "))
            hdrs[c.cid] = (d["th"], d["ah"], d["name"])
    from .coqstage import build
    print(build()[0])
    mops = lambda c: ["ser", "full", "eps:%x" % bases[c.cid]]
    mobs, merrs = run_model(U, cases, hdrs, mops, gdir, "try")
    print("model", len(mobs), merrs, time.time() - t0)
    bad = 0
    stats = {}
    for c in cases:
        ms, is_ = mobs.get((c.cid, "ser")), iobs.get((c.cid, "ser"))
        if not ser_agree(ms, is_):
            bad += 1
            if bad < 6:
                print("SER DISAGREE", c.cid, model_ty(U, c.t)[:300], model_val(c.v)[:200], "\n  M:", (ms or "")[:600], "\n  I:", (is_ or "")[:600])
            continue
        st = split_ser(is_)["status"]
        stats[st] = stats.get(st, 0) + 1
        if st != "OK":
            continue
        for k, mk in (("full", "full"), ("eps:0", "eps:%x" % bases[c.cid])):
            m, i = mobs.get((c.cid, mk)), iobs.get((c.cid, k))
            if m != i:
                bad += 1
                if bad < 12:
                    print("DISAGREE", k, c.cid, model_ty(U, c.t)[:400], "\n  M:", (m or "")[:500], "\n  I:", (i or "")[:500])
        exp = canon_of(U, c.t, c.v)
        f = iobs.get((c.cid, "full"), "")
        if not f.startswith("OK " + exp + " "):
            stats["full-not-roundtrip"] = stats.get("full-not-roundtrip", 0) + 1
            if stats["full-not-roundtrip"] < 4:
                print("C01?", c.cid, rust_ty(U, c.t), "\n exp", exp[:300], "\n got", f[:300])
        e = iobs.get((c.cid, "eps:0"), "")
        if not erase_refs(e).startswith("OK " + exp + " "):
            stats["eps-not-roundtrip"] = stats.get("eps-not-roundtrip", 0) + 1
            if stats["eps-not-roundtrip"] < 4:
                print("C02?", c.cid, rust_ty(U, c.t), "\n exp", exp[:300], "\n got", e[:300])
    print("cases", len(cases), "disagreements", bad, stats, time.time() - t0)

main()
