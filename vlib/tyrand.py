"""Random (seeded) construction of the type universe, of types and of values."""
from .tygen import *

ZC_PRIMS = PRIMS
IDENTS = ["a", "b", "c", "d", "e", "f", "g", "val", "data", "len", "x", "y", "z", "left", "right", "item_count", "k", "m"]
VNAMES = ["A", "B", "C", "D", "E", "Unit", "Tup", "Rec", "Leaf", "Node", "First", "Second"]


def rand_zc_type(U, rng, depth):
    """a type T with T: ZeroCopy (usable in sequences, arrays, tuples, zero-copy structs)"""
    r = rng.random()
    if depth <= 0 or r < 0.45:
        return ("prim", rng.choice(ZC_PRIMS))
    if r < 0.50:
        return rng.choice([("unit",), ("rfull",), ("ph", rand_any_hash_type(U, rng))])
    if r < 0.62:
        return ("arr", rng.choice([0, 1, 2, 3, 5]), rand_zc_type(U, rng, depth - 1))
    if r < 0.74:
        return ("tup", rng.choice([1, 2, 3, 4, 12]), rand_zc_type(U, rng, depth - 1))
    if r < 0.80:
        return ("range", rng.choice(["to", "toincl"]), rand_zc_type(U, rng, depth - 1))
    zs = [n for n in U.order if U.defs[n].copy == "zero" and not U.defs[n].tparams]
    if zs:
        return ("adt", rng.choice(zs), ())
    return ("prim", rng.choice(ZC_PRIMS))


def rand_any_hash_type(U, rng):
    return rng.choice([("prim", "u8"), ("string",), ("vec", ("prim", "u16")), ("unit",), ("prim", "f64")])


def rand_type(U, rng, depth, allow_ser_only=False):
    """any deserializable type (ser-only wrappers only when allowed, at the root or as a type argument)"""
    r = rng.random()
    if depth <= 0:
        return rng.choice([("prim", rng.choice(PRIMS)), ("string",), ("unit",), ("boxstr",)])
    if r < 0.18:
        return ("prim", rng.choice(PRIMS))
    if r < 0.24:
        return rng.choice([("string",), ("boxstr",), ("unit",), ("rfull",), ("ph", rand_any_hash_type(U, rng))])
    if r < 0.36:
        k = rng.choice(["vec", "bslice"])
        return (k, rand_zc_type(U, rng, depth - 1)) if rng.random() < 0.6 else (k, rand_deep_type(U, rng, depth - 1))
    if r < 0.42:
        n = rng.choice([0, 1, 2, 3])
        return ("arr", n, rand_zc_type(U, rng, depth - 1) if rng.random() < 0.5 else rand_deep_type(U, rng, depth - 1))
    if r < 0.47:
        return ("tup", rng.choice([1, 2, 3, 5]), rand_zc_type(U, rng, depth - 1))
    if r < 0.55:
        return ("opt", rand_type(U, rng, depth - 1))
    if r < 0.59:
        return ("bound", rand_type(U, rng, depth - 1))
    if r < 0.63:
        return ("cf", rand_type(U, rng, depth - 1), rand_type(U, rng, depth - 1))
    if r < 0.69:
        return ("range", rng.choice(RKINDS), rand_zc_type(U, rng, depth - 1))
    if allow_ser_only and r < 0.75:
        return (rng.choice(["sref", "siter"]), rand_zc_type(U, rng, depth - 1)) if rng.random() < 0.7 else (
            "sref", rand_deep_type(U, rng, depth - 1))
    if U.order:
        name = rng.choice(U.order)
        d = U.defs[name]
        args = tuple(rand_arg(U, rng, d, p, depth - 1, allow_ser_only) for p in d.tparams)
        return ("adt", name, args)
    return ("vec", ("prim", "u64"))


def rand_arg(U, rng, d, p, depth, allow_ser_only):
    if p in d.defaults and rng.random() < 0.3:
        return d.defaults[p]
    need_zc = getattr(d, "zc_params", set())
    if p in need_zc:
        return rand_zc_type(U, rng, depth)
    bare = any(te[0] == "param" and te[1] == p for (_, te) in all_fields(d))
    for _ in range(50):
        t = rand_type(U, rng, depth, allow_ser_only=allow_ser_only and bare)
        # a parameter used as a sequence/array element must be ZeroCopy when its copy kind is Zero
        if bare or getattr(d, "usage", {}).get(p) == "phantom" or valid_elem(U, t):
            return t
    return ("string",)


def valid_elem(U, t):
    return zc_ok(U, t) if is_zc(U, t) else True


def all_fields(d):
    return d.body if d.kind == "struct" else [f for (_, _, fs) in d.body for f in fs]


def rand_deep_type(U, rng, depth):
    """a type with CopyType = Deep"""
    for _ in range(20):
        t = rand_type(U, rng, depth)
        if not is_zc(U, t):
            return t
    return ("string",)


def rand_field_texpr(U, rng, d_tparams, depth, zero):
    if zero:
        return rand_zc_type(U, rng, depth)
    return rand_type(U, rng, depth)


def make_def(U, rng, idx):
    name = rng.choice(["S", "T", "Node", "Rec", "Pair", "Wrapper", "Data", "E", "Msg", "Shape"]) + str(idx)
    kind = "struct" if rng.random() < 0.65 else "enum"
    copy = rng.choice(["zero", "zero", "deep", "deep", "none"])
    reprs, align = [], 0
    if copy == "zero":
        reprs = ["C"]
        if rng.random() < 0.2:
            align = rng.choice([8, 16, 32])
            reprs.append("align(%d)" % align)
    elif rng.random() < 0.15:
        reprs = ["C"]
    tparams, cparams, bounds, defaults, where = [], [], {}, {}, []
    zc_params = set()
    if copy != "zero" and rng.random() < 0.5:
        tparams = rng.sample(["A", "B", "P"], rng.choice([1, 1, 2]))
    elif copy == "zero" and rng.random() < 0.3:
        # a generic zero-copy type: its parameters are bounded by ZeroCopy and instantiated with
        # zero-copy types (primitives, arrays, tuples, other zero-copy definitions)
        tparams = rng.sample(["A", "B"], rng.choice([1, 1, 2]))
        zc_params = set(tparams)
    if rng.random() < 0.2:
        ct = rng.choice(["usize", "u8", "bool", "char", "i32", "u64", "u128", "i128"])
        cv = {"bool": rng.choice([0, 1]), "char": rng.choice([0x41, 0x3b1, 0x1F600])}.get(ct, rng.choice([0, 1, 3, 7, 200]))
        if ct in ("u128", "i128") and rng.random() < 0.6:
            cv = rng.choice([(1 << 64) + 5, (1 << 100) + 1, (1 << 126) + 9])
        if ct in ("i32", "i128") and rng.random() < 0.5:
            cv = -cv
        cparams = [(rng.choice(["N", "K", "FLAG"]), ct, cv)]
    # how each type parameter is used: 'bare' (fields of exactly that type), 'inside' (mentioned
    # inside other field types), 'phantom' (only in PhantomData)
    usage = {p: rng.choice(["bare", "bare", "inside", "phantom"]) for p in tparams}
    nf = rng.choice([0, 1, 2, 3, 4])

    def field_types(n):
        out = []
        for _ in range(n):
            if copy == "zero":
                out.append(rand_zc_type(U, rng, 2))
            else:
                out.append(rand_type(U, rng, 2))
        return out

    def with_params(ftypes):
        ftypes = list(ftypes)
        for p in tparams:
            u = usage[p]
            if u == "bare":
                for _ in range(rng.choice([1, 1, 2])):
                    ftypes.insert(rng.randrange(len(ftypes) + 1), ("param", p))
            elif u == "inside" and p in zc_params:
                w = rng.choice([("arr", 2, ("param", p)), ("tup", 2, ("param", p)), ("arr", 0, ("param", p)), ("tup", 1, ("param", p))])
                ftypes.insert(rng.randrange(len(ftypes) + 1), w)
                continue
            elif u == "inside":
                w = rng.choice([("vec", ("param", p)), ("opt", ("vec", ("param", p))), ("arr", 2, ("param", p)),
                                ("bslice", ("param", p))])
                ftypes.insert(rng.randrange(len(ftypes) + 1), w)
            else:
                ftypes.insert(rng.randrange(len(ftypes) + 1), ("ph", ("param", p)))
        return ftypes

    if kind == "struct":
        ft = with_params(field_types(nf))
        style = "unit" if not ft else rng.choice(["named", "named", "tuple"])
        names = rng.sample(IDENTS, len(ft)) if style == "named" else [str(i) for i in range(len(ft))]
        body = list(zip(names, ft))
    else:
        style = "named"
        nv = rng.choice([1, 2, 3, 4])
        body = []
        vnames = rng.sample(VNAMES, nv)
        placed = False
        for i, vn in enumerate(vnames):
            st = rng.choice(["unit", "tuple", "named"])
            ft = field_types(rng.choice([1, 2])) if st != "unit" else []
            if tparams and not placed and st != "unit":
                ft = with_params(ft)
                placed = True
            names = rng.sample(IDENTS, len(ft)) if st == "named" else [str(j) for j in range(len(ft))]
            body.append((vn, st if ft else "unit", list(zip(names, ft))))
        if tparams and not placed:
            ft = with_params([])
            body.append(("Gen", "tuple", [(str(j), t) for j, t in enumerate(ft)]))
    # 'inside' parameters used as sequence/array elements must name their copy kind: they are
    # instantiated with zero-copy types or deep types according to the impls available; we
    # instantiate them with any type (Vec<A> picks its impl from A::Copy).
    for p in tparams:
        # (bounds on a field-typed parameter of an enum, and where-clauses on field-typed parameters,
        # compile since the fix c64641c of the derive)
        if usage[p] != "phantom" and rng.random() < 0.25:
            bounds[p] = rng.choice(["Clone", "core::fmt::Debug", "Clone + core::fmt::Debug"])
        if usage[p] != "phantom" and rng.random() < 0.3 and p not in bounds:
            where.append("%s: %s" % (p, rng.choice(["Clone", "core::fmt::Debug + Clone"])))
    for p in zc_params:
        bounds[p] = "ZeroCopy" + ((" + " + bounds[p]) if p in bounds else "")
    if tparams and not cparams and rng.random() < 0.25:
        p = tparams[-1]
        defaults[p] = ("prim", rng.choice(["u32", "u64", "i16"])) if usage[p] != "inside" or True else ("prim", "u8")
    d = Def(name, kind, copy, reprs, tparams, cparams, body, style=style, bounds=bounds,
            defaults=defaults, where=where, align=align)
    d.usage = usage
    d.zc_params = zc_params
    return d


def build_universe(rng, ndefs):
    U = Universe()
    for i in range(ndefs):
        U.add(make_def(U, rng, i))
    return U


# ------------------------------------------------------------------ values

def rand_prim_val(p, rng):
    sz = PSIZE[p]
    M = (1 << (8 * sz)) - 1
    if p == "bool":
        return rng.choice([0, 1])
    if p == "char":
        return rng.choice([0, 0x41, 0x7f, 0x80, 0x3b1, 0xd7ff, 0xe000, 0xffff, 0x10000, 0x1F600, 0x10ffff])
    if p in ("f32", "f64"):
        specials32 = [0, 0x80000000, 0x7fc00000, 0x7fc00001, 0xffc12345, 0x7f800000, 0xff800000, 0x3f800000, 1]
        specials64 = [0, 1 << 63, 0x7ff8000000000000, 0x7ff8000000000001, 0xfff123456789abcd, 0x7ff0000000000000, 0x3ff0000000000000, 1]
        return rng.choice(specials32 if p == "f32" else specials64) if rng.random() < 0.6 else rng.randrange(M + 1)
    if p.startswith("nz"):
        return rng.choice([1, M, 1 << (8 * sz - 1), rng.randrange(1, M + 1)])
    return rng.choice([0, 1, M, M >> 1, (M >> 1) + 1, rng.randrange(M + 1), rng.randrange(M + 1)])


STRINGS = [b"", b"a", b"hello", "héllo wörld".encode(), "日本語".encode(), "🦀 ε-serde".encode(),
           b"0123456789abcdef", b"x" * 37, "\u0000nul".encode(), "é".encode() * 9]


def rand_len(rng, big=False):
    return rng.choice([0, 0, 1, 2, 3, 5] + ([17, 40] if big else []))


def rand_value(U, t, rng, depth=0):
    k = t[0]
    if k == "prim":
        return ("n", rand_prim_val(t[1], rng))
    if k in ("unit", "ph", "rfull"):
        return ("s", [])
    if k in ("string", "boxstr"):
        return ("b", rng.choice(STRINGS))
    if k in ("vec", "bslice", "sref"):
        n = rand_len(rng, big=(depth == 0))
        return ("s", [rand_value(U, t[1], rng, depth + 1) for _ in range(n)])
    if k == "siter":
        n = rand_len(rng, big=(depth == 0))
        return ("t", n, [rand_value(U, t[1], rng, depth + 1) for _ in range(n)])
    if k in ("arr", "tup"):
        return ("s", [rand_value(U, t[2], rng, depth + 1) for _ in range(t[1])])
    if k == "opt":
        if rng.random() < 0.35:
            return ("t", 0, [])
        return ("t", 1, [rand_value(U, t[1], rng, depth + 1)])
    if k == "bound":
        j = rng.choice([0, 1, 2])
        return ("t", j, [] if j == 0 else [rand_value(U, t[1], rng, depth + 1)])
    if k == "cf":
        j = rng.choice([0, 1])
        return ("t", j, [rand_value(U, t[1 + j], rng, depth + 1)])
    if k == "range":
        rk = t[1]
        if rk in ("range",):
            return ("s", [rand_value(U, t[2], rng, depth + 1), rand_value(U, t[2], rng, depth + 1)])
        if rk == "incl":
            return ("s", [rand_value(U, t[2], rng, depth + 1), rand_value(U, t[2], rng, depth + 1), ("n", 0)])
        return ("s", [rand_value(U, t[2], rng, depth + 1)])
    if k == "adt":
        d = U.defs[t[1]]
        b = inst_fields(U, t)
        if d.kind == "struct":
            return ("s", [rand_value(U, ft, rng, depth + 1) for (_, _, ft) in b])
        j = rng.randrange(len(b))
        return ("t", j, [rand_value(U, ft, rng, depth + 1) for (_, _, ft) in b[j][2]])
    raise ValueError(t)


def type_size(t):
    if t[0] in ("prim", "unit", "string", "boxstr", "rfull"):
        return 1
    if t[0] == "adt":
        return 1 + sum(type_size(a) for a in t[2])
    return 1 + sum(type_size(x) for x in t[1:] if isinstance(x, tuple))


def constructors(U, t, acc=None):
    """set of constructor names used by a type (for coverage histograms)"""
    acc = acc if acc is not None else set()
    k = t[0]
    acc.add(k if k != "prim" else "prim")
    if k == "adt":
        d = U.defs[t[1]]
        acc.add("adt:%s:%s" % (d.kind, d.copy))
        for a in t[2]:
            constructors(U, a, acc)
        b = inst_fields(U, t)
        fl = b if d.kind == "struct" else [f for (_, _, fs) in b for f in fs]
        for (_, _, ft) in fl:
            constructors(U, ft, acc)
    else:
        for x in t[1:]:
            if isinstance(x, tuple):
                constructors(U, x, acc)
    return acc
