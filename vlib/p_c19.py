"""C19: the aligned cursor behaves like std::io::Cursor<Vec<u8>>.

Proof: Props/C19.v (refinement for every feasible history and every unit size).
Correspondence: the model's ac_step against AlignedCursor<T>, the model's std_step against
std::io::Cursor<Vec<u8>>, on the same histories.  Direct oracle: AlignedCursor<T> against
std::io::Cursor<Vec<u8>> and the address of as_bytes() modulo the alignment."""
import itertools, json, os, random
from .common import *
from .proofcommon import run_proof_stage, proof_failure

UNITS = [2, 16, 64, 512]
ALPHABET = ["W:", "W:01", "W:020304", "W:" + "".join("%02x" % (i + 0x10) for i in range(17)),
            "R:0", "R:1", "R:5", "SS:0", "SS:3", "SS:14", "SC:-2", "SC:3", "SE:-1", "SE:2",
            "P:0", "P:12", "P:23"]
LIMIT = 3000   # writes are generated only while position + length stays below this bound


class Sim:
    """position/length bookkeeping of the standard cursor, used only to keep histories feasible"""

    def __init__(self):
        self.pos = 0
        self.len = 0

    def ok(self, op):
        k, a = op.split(":")
        if k == "W":
            return self.pos + len(a) // 2 <= LIMIT
        return True

    def step(self, op):
        k, a = op.split(":")
        M = (1 << 64) - 1
        if k == "W":
            n = len(a) // 2
            self.len = max(self.len, self.pos + n) if (n > 0 or self.pos > self.len) else self.len
            if n == 0 and self.pos > self.len:
                self.len = self.pos
            self.pos += n
        elif k == "R":
            n = int(a, 16)
            self.pos += min(n, max(0, self.len - self.pos))
        elif k == "SS" or k == "P":
            self.pos = int(a, 16)
        elif k in ("SC", "SE"):
            z = -int(a[1:], 16) if a.startswith("-") else int(a, 16)
            base = self.pos if k == "SC" else self.len
            t = base + z
            if 0 <= t <= M:
                self.pos = t


def random_history(rng, maxlen):
    sim = Sim()
    ops = []
    for _ in range(rng.randint(1, maxlen)):
        for _try in range(20):
            r = rng.random()
            if r < 0.35:
                n = rng.choice([0, 1, 2, 3, 7, 8, 15, 16, 17, 31, 33, 64, 100])
                op = "W:" + "".join("%02x" % rng.randrange(256) for _ in range(n))
            elif r < 0.55:
                op = "R:%x" % rng.choice([0, 1, 2, 5, 16, 40, 1000])
            elif r < 0.65:
                op = "SS:%x" % rng.choice([0, 1, 15, 16, 17, 63, 64, 200, rng.randrange(0, 600), (1 << 63), (1 << 64) - 1])
            elif r < 0.77:
                z = rng.choice([0, 1, -1, 5, -5, 40, -40, rng.randrange(-300, 300), (1 << 63) - 1, -(1 << 63)])
                op = "SC:%s" % (("-%x" % -z) if z < 0 else "%x" % z)
            elif r < 0.89:
                z = rng.choice([0, 1, -1, 7, -7, 40, -40, rng.randrange(-300, 300), (1 << 63) - 1, -(1 << 63)])
                op = "SE:%s" % (("-%x" % -z) if z < 0 else "%x" % z)
            else:
                op = "P:%x" % rng.choice([0, 1, 16, 17, 40, 100, rng.randrange(0, 600), (1 << 64) - 1])
            if sim.ok(op):
                break
        else:
            op = "SS:0"
        sim.step(op)
        ops.append(op)
    return ops


def gen_cases(tier, rng):
    cases = []
    depth = 3 if tier == "quick" else 4
    for L in range(1, depth + 1):
        for combo in itertools.product(ALPHABET, repeat=L):
            cases.append((16, list(combo)))
    if tier == "thorough":
        for L in range(1, 4):
            for combo in itertools.product(ALPHABET, repeat=L):
                cases.append((64, list(combo)))
                cases.append((2, list(combo)))
    nrand = 3000 if tier == "quick" else 60000
    for _ in range(nrand):
        cases.append((rng.choice(UNITS), random_history(rng, 30)))
    return cases


def run_cases(cases, workdir, tag):
    """Returns (model_obs, impl_obs) dicts keyed by (id, kind)."""
    os.makedirs(workdir, exist_ok=True)
    lines = ["c%d %x %s" % (i, u, ";".join(ops)) for i, (u, ops) in enumerate(cases)]
    parts = shards(lines, NPROC)
    files = []
    for k, part in enumerate(parts):
        p = os.path.join(workdir, "%s_%d.txt" % (tag, k))
        write_lines(p, part)
        files.append(p)
    mres = run_parallel([[os.path.join(DRIVER, "_build", "model_run"), "cursor", f] for f in files])
    ires = run_parallel([[bin_path("cursor_drv"), f] for f in files])
    mobs, iobs = {}, {}
    errs = []
    for rc, out, err in mres:
        if rc != 0:
            errs.append("model driver rc=%d %s" % (rc, err[-300:]))
        mobs.update(parse_obs(out))
    for rc, out, err in ires:
        if rc != 0:
            errs.append("harness rc=%d %s" % (rc, err[-300:]))
        iobs.update(parse_obs(out))
    return mobs, iobs, errs


def oracle_fails(iobs, cid):
    """Direct oracle on the implementation: aligned cursor == std cursor, storage aligned."""
    a, s = iobs.get((cid, "ac")), iobs.get((cid, "std"))
    if a is None or s is None:
        return "missing observation"
    if a != s:
        return "aligned cursor and std cursor differ"
    if iobs.get((cid, "aligned")) != "y":
        return "as_bytes() not aligned to the alignment type"
    return None


def first_diff(a, s):
    xa, xs = a.split(";"), s.split(";")
    for i in range(max(len(xa), len(xs))):
        ea = xa[i] if i < len(xa) else "<none>"
        es = xs[i] if i < len(xs) else "<none>"
        if ea != es:
            return {"step": i, "aligned_cursor": ea[:200], "std_cursor": es[:200]}
    return None


def shrink(case, workdir):
    """Greedy minimisation of a failing history (drop ops, shorten writes)."""
    u, ops = case
    budget = 60

    def fails(c):
        _, iobs, _ = run_cases([c], workdir, "shrink")
        return oracle_fails(iobs, "c0") is not None

    changed = True
    while changed and budget > 0:
        changed = False
        for i in range(len(ops)):
            cand = ops[:i] + ops[i + 1:]
            budget -= 1
            if cand and fails((u, cand)):
                ops = cand
                changed = True
                break
            if budget <= 0:
                break
    return (u, ops)


def known_class(case):
    return None


def check(v):
    rng = random.Random(seed())
    info = run_proof_stage(v, "C19")
    ok, log = cargo_build(["cursor_drv"])
    work = os.path.join(CACHE, "c19")
    if not ok:
        v.violation("build", {"kind": "harness-build", "detail": log[-3000:]}, no_input=True)
        v.coverage.update({"evaluations": 0, "distinct_nontrivial": 0})
        return
    cases = gen_cases(v.tier, rng)
    # the regression corpus runs first
    corpus = os.path.join(VERIF, "corpus", "regress", "c19.txt")
    if os.path.exists(corpus):
        pre = []
        for line in open(corpus):
            line = line.strip()
            if line and not line.startswith("#"):
                u, ops = line.split(" ", 1)
                pre.append((int(u, 16), ops.split(";")))
        cases = pre + cases
    mobs, iobs, errs = ([], [], []) if not info["ok"] and False else run_cases(cases, work, "cases")
    failing, corr_bad = [], []
    kinds = {}
    distinct = set()
    for i, (u, ops) in enumerate(cases):
        cid = "c%d" % i
        why = oracle_fails(iobs, cid)
        if why:
            failing.append((i, why))
        if mobs.get((cid, "ac")) != iobs.get((cid, "ac")):
            corr_bad.append((i, "ac_step vs AlignedCursor"))
        if mobs.get((cid, "std")) != iobs.get((cid, "std")):
            corr_bad.append((i, "std_step vs std::io::Cursor"))
        for op in ops:
            k = op.split(":")[0]
            kinds[k] = kinds.get(k, 0) + 1
        if len(ops) >= 2 and any(o.startswith("W:") and len(o) > 2 for o in ops):
            distinct.add((u, tuple(ops)))
    v.coverage.update({
        "evaluations": len(cases),
        "distinct_nontrivial": len(distinct),
        "rule": "histories: all sequences up to length %d over a %d-op alphabet (unit 16%s) + seeded random histories of length <= 30 over units %s; "
                "non-trivial = at least 2 ops including a non-empty write; distinct by (unit, op sequence)" % (
                    3 if v.tier == "quick" else 4, len(ALPHABET), "" if v.tier == "quick" else ", length<=3 for units 2 and 64", UNITS),
        "exhaustive": False,
        "op_kind_histogram": kinds,
        "traces_validated_against_impl": len(cases) - len(set(i for i, _ in corr_bad)),
        "disagreements_checked": len(corr_bad),
        "samples": [{"unit": u, "ops": ops} for (u, ops) in (cases[200:201] + cases[-2:])] +
                   [{"theorem": "C19_refines_std_cursor: forall U ops, 0 < U -> U <= 2^32 -> feasible sc_init ops -> ac_run U ac_init ops = std_run sc_init ops"}],
    })
    v.assumptions += ["target x86-64, usize = 64 bits, dev profile (the cursor campaign runs one build)", "std::io::Cursor<Vec<u8>> of rustc 1.95 is the specification (std_step), validated against the real one on every history",
                      "histories are feasible: no write ends beyond isize::MAX", "storage address alignment is Vec<T>'s guarantee: observed, not proved"]
    if errs:
        v.violation("driver", {"kind": "machinery", "detail": errs[:5]}, no_input=True)
        return
    if failing:
        i, why = failing[0]
        small = shrink(cases[i], work)
        _, iobs2, _ = run_cases([small], work, "final")
        v.violation("history", {
            "kind": "failing-input", "why": why, "unit": small[0], "ops": small[1],
            "first_difference": first_diff(iobs2.get(("c0", "ac"), ""), iobs2.get(("c0", "std"), "")),
            "failing_histories_in_run": len(failing),
            "replay": "./check C19 --replay <this file>",
        })
        return
    if corr_bad:
        i, what = corr_bad[0]
        u, ops = cases[i]
        v.violation("correspondence", {
            "kind": "correspondence", "correspondence": what, "unit": u, "ops": ops,
            "model": mobs.get(("c%d" % i, "ac" if "ac_step" in what else "std"), "")[:2000],
            "impl": iobs.get(("c%d" % i, "ac" if "ac_step" in what else "std"), "")[:2000],
            "searched": "direct oracle (aligned cursor == std cursor) on all %d histories: no failing input" % len(cases),
        }, no_input=True)
        return
    if not info["ok"]:
        proof_failure(v, info)


def replay(v, path):
    r = json.load(open(path))
    if "ops" not in r:
        print("replay names a broken obligation, not an input: %s" % r.get("kind"))
        print(json.dumps(r, indent=1)[:3000])
        return 1
    ok, log = cargo_build(["cursor_drv"])
    from .coqstage import build
    build()
    mobs, iobs, errs = run_cases([(r["unit"], r["ops"])], os.path.join(CACHE, "c19"), "replay")
    why = oracle_fails(iobs, "c0")
    print("aligned:", iobs.get(("c0", "ac")))
    print("std    :", iobs.get(("c0", "std")))
    print("model  :", mobs.get(("c0", "ac")))
    print("verdict:", why or "holds on this history")
    return 1 if why else 0
