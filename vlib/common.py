"""Shared plumbing of the checks: paths, subprocesses, builds, evidence, verdict lines."""
import hashlib, json, os, subprocess, sys, time, random

VERIF = os.path.dirname(os.path.dirname(os.path.abspath(__file__)))
REPO = os.environ.get("EV_REPO", "/repo")
CACHE = os.path.join(VERIF, ".cache")
TARGET = os.path.join(CACHE, "target")
COQ = os.path.join(VERIF, "coq")
DRIVER = os.path.join(VERIF, "driver")
HARNESS = os.path.join(VERIF, "harness")
EVIDENCE = os.path.join(VERIF, "evidence")
REPLAYS = os.path.join(VERIF, "replays")
NPROC = os.cpu_count() or 4

ENV = dict(os.environ)
ENV.update({"CARGO_NET_OFFLINE": "true", "CARGO_TARGET_DIR": TARGET, "RUST_BACKTRACE": "0"})
# temporary files of the harness (stored values, probe files) stay under /verif/.cache, not /tmp
os.makedirs(os.path.join(CACHE, "tmp"), exist_ok=True)
ENV["TMPDIR"] = os.path.join(CACHE, "tmp")


def seed():
    try:
        return int(os.environ.get("VERIF_SEED", "1"))
    except ValueError:
        return 1


def run(cmd, cwd=None, timeout=3600, env=None, stdin=None):
    """Run a command, return (rc, stdout, stderr); never raises on non-zero exit."""
    try:
        p = subprocess.run(cmd, cwd=cwd, env=env or ENV, timeout=timeout, input=stdin,
                           stdout=subprocess.PIPE, stderr=subprocess.PIPE, text=True)
        return p.returncode, p.stdout, p.stderr
    except subprocess.TimeoutExpired as e:
        return 124, (e.stdout or b"").decode() if isinstance(e.stdout, bytes) else (e.stdout or ""), "TIMEOUT"


def sha(s):
    return hashlib.sha256(s.encode() if isinstance(s, str) else s).hexdigest()


_cargo_built = {}


def cargo_build(bins, profile="dev", features=None, crate=HARNESS, extra_env=None):
    """(Re)build harness binaries against /repo's current working tree. Returns (ok, log)."""
    key = (tuple(bins), profile, crate, tuple(features or ()))
    if key in _cargo_built:
        return _cargo_built[key]
    cmd = ["cargo", "build", "--offline", "--quiet"]
    if profile == "release":
        cmd.append("--release")
    for b in bins:
        cmd += ["--bin", b]
    if features is not None:
        cmd += ["--no-default-features", "--features", ",".join(features)]
    env = dict(ENV)
    if extra_env:
        env.update(extra_env)
    rc, out, err = run(cmd, cwd=crate, timeout=1800, env=env)
    res = (rc == 0, out + err)
    _cargo_built[key] = res
    return res


def bin_path(name, profile="dev"):
    return os.path.join(TARGET, "release" if profile == "release" else "debug", name)


class Verdict:
    """Collects violations / known findings for one property and writes the evidence file."""

    def __init__(self, prop, tier):
        self.prop = prop
        self.tier = tier
        self.t0 = time.time()
        self.violations = []      # (replay_path, suffix)
        self.known_hit = []
        self.coverage = {}
        self.assumptions = []
        self.notes = []

    def replay_path(self, tag):
        d = os.path.join(REPLAYS, self.prop)
        os.makedirs(d, exist_ok=True)
        return os.path.join(d, "%s.json" % tag)

    def violation(self, tag, payload, no_input=False):
        path = self.replay_path(tag)
        payload = dict(payload)
        payload["property"] = self.prop
        with open(path, "w") as f:
            json.dump(payload, f, indent=1, sort_keys=True)
        self.violations.append((path, no_input))

    def known(self, what):
        if what not in self.known_hit:
            self.known_hit.append(what)

    def finish(self):
        wall = time.time() - self.t0
        cov = dict(self.coverage)
        cov["known_findings_hit"] = list(self.known_hit)
        ev = {
            "property_id": self.prop,
            "tier": self.tier,
            "seed": seed(),
            "level": "proof",
            "coverage": cov,
            "assumptions": self.assumptions,
            "wall_s": round(wall, 2),
            "violations": len(self.violations),
        }
        os.makedirs(EVIDENCE, exist_ok=True)
        with open(os.path.join(EVIDENCE, "%s.json" % self.prop), "w") as f:
            json.dump(ev, f, indent=1, sort_keys=True)
        for k in self.known_hit:
            print("KNOWN-FINDING: property=%s %s" % (self.prop, k))
        for path, no_input in self.violations:
            print("VIOLATION property=%s replay=%s%s" % (self.prop, path, " no-failing-input-found" if no_input else ""))
        sys.stdout.flush()
        return 1 if self.violations else 0


def load_known_findings():
    p = os.path.join(VERIF, "known_findings.json")
    if not os.path.exists(p):
        return {"findings": [], "fixed": []}
    with open(p) as f:
        return json.load(f)


def known_listed(prop, fid):
    """the listed finding [fid] when it is listed for property [prop], else None"""
    for f in load_known_findings().get("findings", []):
        if f.get("id") == fid and prop in f.get("properties", []):
            return f
    return None


def write_lines(path, lines):
    os.makedirs(os.path.dirname(path), exist_ok=True)
    with open(path, "w") as f:
        for l in lines:
            f.write(l)
            f.write("\n")


def parse_obs(text):
    """Lines '<id> <kind> <rest>' -> dict[(id, kind)] = rest."""
    d = {}
    for line in text.splitlines():
        if not line:
            continue
        parts = line.split(" ", 2)
        if len(parts) < 2:
            continue
        kind = parts[1]
        # flags passed to an operation are not part of the observation's name
        for base in ("schema", "wfault", "rfault"):
            if kind.startswith(base + ":"):
                kind = base
        d[(parts[0], kind)] = parts[2] if len(parts) > 2 else ""
    return d


def shards(items, n):
    n = max(1, min(n, len(items)))
    return [items[i::n] for i in range(n)]


def run_parallel(cmds, timeout=3600):
    """Run several commands concurrently; returns list of (rc, out, err) in order.  Outputs go to
    temporary files: with pipes a process whose pipe is full would block until its turn to be read."""
    import tempfile, time
    # a cap for development-time sweeps over mutated trees, where the harness may run away
    timeout = min(timeout, int(os.environ.get("EV_RUN_TIMEOUT", timeout)))
    tdir = os.path.join(CACHE, "tmp")
    os.makedirs(tdir, exist_ok=True)
    procs = []
    for c in cmds:
        fo = tempfile.TemporaryFile(mode="w+", dir=tdir)
        fe = tempfile.TemporaryFile(mode="w+", dir=tdir)
        procs.append((subprocess.Popen(c, env=ENV, stdout=fo, stderr=fe, text=True), fo, fe))
    deadline = time.time() + timeout
    res = []
    for p, fo, fe in procs:
        try:
            p.wait(timeout=max(1, deadline - time.time()))
            rc, timed = p.returncode, False
        except subprocess.TimeoutExpired:
            p.kill()
            p.wait()
            rc, timed = 124, True
        fo.seek(0)
        fe.seek(0)
        out, err = fo.read(), fe.read()
        fo.close()
        fe.close()
        res.append((rc, out, "TIMEOUT" if timed else err))
    return res
