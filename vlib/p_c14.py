"""C14: reader fragmentation and failure. Proof: Props/C14.v. Correspondence: the 'rfault' observation: deserialize_full of the
real crate over readers delivering 1-byte, 3-byte, prime-sized, mixed fragments with interleaved Interrupted, and failing after
every byte count k in [0, len); the model runs the full-copy deserializer as a program over read_exact against the same readers (Model/Prog.v, run_io)."""
from .codecprops import *

OPS = {"C13": ["ser", "wfault"], "C14": ["ser", "full", "rfault"], "C18": ["ser", "schema"]}
ORACLE = {"C13": oracle_c13, "C14": oracle_c14, "C18": oracle_c18}


EXTRA = "Per case: 5 fragmentation patterns and len failure positions through deserialize_full."


def extra_coverage(v, c):
    tot = 0
    for x in c.cases:
        st = ser_status(c, x)
        if st.get("status") == "OK":
            tot += int(st["n"], 16)
    v.coverage["failure_positions_tried"] = tot
    v.assumptions.append("'without corrupting memory through partially built values' is not expressible in the value-level model: observed only (a crash of the harness process is reported as a violation)")
    v.coverage.setdefault("samples", []).append({"theorem": "C14_full_copy_fragmentation_invariance: run_io (stream_reader data cut intr None) fuel (prog_full_top h t) = deser_full_top h t data, for every cut / intr / type / stream"})


def check(v):
    run_codec_property(v, "C14", OPS["C14"], ORACLE["C14"], rule_extra=EXTRA)
    c = campaign(v.tier)
    extra_coverage(v, c)


def replay(v, path):
    return replay_codec(v, path, "C14", ORACLE["C14"])
