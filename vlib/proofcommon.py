"""Glue between the proof stage and a property's verdict."""
from .coqstage import proof_stage

TRUSTED_BASE = [
    "Coq 8.16.1 kernel (coqc, full .vo build; vm_compute used for finite-domain lemmas and witnesses; no native_compute)",
    "no axioms: every property theorem is 'Closed under the global context' (Print Assumptions checked on each run)",
    "hand-written Gallina model tied to /repo by differential execution (correspondence check), not by translation",
    "extraction: ExtrOcamlBasic only (bool/option/unit/list/prod/sumbool/sumor, andb/orb); no Extract Constant of ours; OCaml 4.13.1",
    "OCaml driver (parser/printer), Python generators/renderers, Rust observation harness, rustc/cargo 1.95",
]


def run_proof_stage(v, prop):
    """Runs the proof stage, fills coverage; returns info. On failure the caller decides the verdict."""
    info = proof_stage(prop)
    v.coverage.update({
        "obligations": info["obligations"],
        "discharged": info["discharged"],
        "checker_cmd": info["checker_cmd"],
        "trusted_base": TRUSTED_BASE,
        "theorems": info["theorems"],
        "axioms_per_theorem": info["axioms"],
        "props_file_sha256": info.get("statements_sha256"),
    })
    return info


def proof_failure(v, info):
    """Register the 'proof obligation no longer checks' violation (no failing input)."""
    v.violation("proof", {
        "kind": "proof-obligation",
        "broken_theorems": info["broken"],
        "forbidden": info["forbidden"],
        "detail": info.get("detail", ""),
    }, no_input=True)
