"""C02: eps-copy round trip and agreement with full copy. Proof: Props/C02.v.
Correspondence: O-ser, O-full, O-eps (64 KiB aligned buffer)."""
from .codecprops import *


def check(v):
    run_codec_property(v, "C02", ["ser", "full", "eps:0"], oracle_c02)
    v.coverage.setdefault("samples", []).append({"theorem": "C02_eps_roundtrip: forall base pf h t v evs, hdr_ok h -> wf t -> units_pow2 t -> units_cover t -> deserializable t -> wt t v -> exhausted_in t v = false -> ser_top pf h t v = (evs, SDone) -> base mod max_unit t = 0 -> exists e, deser_eps_top base h t (bytes_of evs) = Ok (e, [], evs_len evs) /\\ erase e = v"})


def replay(v, path):
    return replay_codec(v, path, "C02", oracle_c02)
