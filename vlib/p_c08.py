"""C08: file loaders. Proof: Props/C08.v. Correspondence: the 'load' observation of the campaign (store, load_full, load_mem,
load_mmap, mmap with all 8 flag sets; backing range through the verification hook; tail bytes; moves, boxing, threads) against
the model's loaders; flag translation against the model's table; a second build without the mmap feature."""
from .codecprops import *


def load_parts(c, x):
    line = c.iobs.get((x.cid, "load"), "")
    head, _, fails = line.partition(" fails=")
    d = {}
    for p in head.split(" "):
        if "=" in p:
            k, val = p.split("=", 1)
            d[k] = val
    return line, d, fails


def oracle_c08(c, x):
    line, d, fails = load_parts(c, x)
    if not line:
        return None
    st = ser_status(c, x)
    exp = canon_of(c.U, x.t, x.v)
    exh = tinfo(c, x).get("exh") == "1"
    if d.get("store") != "same":
        return "store did not write exactly the serialized stream: %s" % d.get("store")
    if d.get("restore") != "same":
        return "store over an existing longer file did not leave exactly the serialized stream"
    if not exh and d.get("full") != "OK:" + exp:
        return "load_full did not return the stored value: %s" % (d.get("full") or "")[:100]
    nd = impl_need(c, x)
    mload = dict(p.split("=", 1) for p in (c.mobs.get((x.cid, "load")) or "").split(" ") if "=" in p)
    for k, val in d.items():
        if not (k.startswith(("mem", "lmmap", "mmap")) and k[-1].isdigit()):
            continue
        if nd is not None and k.startswith("mem") and mload.get("mem") == "E:AlignmentError" and mload.get("mmap", "").startswith("OK"):
            # the native alignment of the type exceeds the 64 bytes load_mem guarantees: refused up front
            if not val.startswith("E:AlignmentError"):
                return "load_mem of a type whose native alignment exceeds 64 gave %s, required AlignmentError" % val[:80]
            continue
        if exh:
            if not val.startswith("P"):
                return "loading an exhausted inclusive range via %s gave %s" % (k, val[:80])
            continue
        if nd is None or (k.startswith("mem") and nd > 64):
            if val.startswith("E:AlignmentError"):
                continue
            if nd is None:
                continue
        if "|LEAK" in val:
            return "%s left resources behind after the result was dropped: %s" % (k, val[val.index("|LEAK"):][:60])
        m = re.match(r"OK:(.*)\|region=(.*)\|moves=(\w+)", val)
        if not m:
            return "%s did not succeed: %s" % (k, val[:100])
        if m.group(1) != exp:
            return "%s returned a structure that differs from the stored value (or holds a reference outside the backing region): %s" % (k, m.group(1)[:100])
        if m.group(2) != "ok":
            return "%s: backing region %s" % (k, m.group(2))
        if m.group(3) != "same":
            return "%s: the structure changed after being moved, boxed or handed to another thread" % k
    return None


def check(v):
    run_codec_property(v, "C08", ["ser", "full", "eps:0"], oracle_c08,
                       rule_extra="One value per generated type is stored and loaded with load_full, load_mem, and load_mmap / mmap under all 8 flag sets; file lengths cover the residues reported below.")
    c = campaign(v.tier)
    if v.violations:
        return
    # model vs implementation on the loaders' values, capacities and the flag table
    res, nload, dis = set(), 0, None
    mflags = None
    for x in c.cases:
        line, d, fails = load_parts(c, x)
        if not line:
            continue
        nload += 1
        st = ser_status(c, x)
        n = int(st.get("n", "0"), 16)
        res.add(n % 64)
        m = dict(p.split("=", 1) for p in (c.mobs.get((x.cid, "load")) or "").split(" ") if "=" in p)
        if not m:
            continue
        mflags = m.get("flags")
        if tinfo(c, x).get("exh") == "1" or impl_need(c, x) is None:
            continue
        for ik, mk_ in (("full", "full"), ("mem0", "mem"), ("lmmap0", "lmmap"), ("mmap0", "mmap")):
            iv = (d.get(ik) or "").split("|")[0]
            if iv != m.get(mk_) and dis is None and not (ik == "mem0" and (impl_need(c, x) or 1) > 64):
                dis = (x, ik, iv, m.get(mk_))
    v.coverage["load_cases"] = nload
    v.coverage["file_length_residues_mod64"] = len(res)
    v.coverage["flag_sets"] = 8
    iflags = c.iobs.get(("_", "flags"))
    if dis:
        x, ik, iv, mv = dis
        dd = describe(c, x)
        dd.update({"kind": "correspondence", "correspondence": "model loader vs implementation (%s)" % ik, "impl": (iv or "")[:500], "model": (mv or "")[:500]})
        v.violation("correspondence", dd, no_input=True)
        return
    if mflags and iflags and mflags != iflags:
        v.violation("flags", {"kind": "failing-input", "why": "the translation of a flag set differs from the mmap-rs flag set it denotes",
                              "implementation (flags>mmap-rs bits, hex)": iflags, "required": mflags})
        return
    # the feature configuration without mmap
    ok, log = cargo_build(["evharness_nommap"], crate=os.path.join(VERIF, "harness_nommap"),
                          extra_env={"CARGO_TARGET_DIR": os.path.join(CACHE, "target-nommap")})
    if not ok:
        v.violation("nommap", {"kind": "correspondence", "correspondence": "the crate does not build without the mmap feature", "detail": log[-2000:]}, no_input=True)
        return
    rc, out, err = run([os.path.join(CACHE, "target-nommap", "debug", "evharness_nommap")], timeout=600)
    v.coverage["no_mmap_feature_run"] = out.strip()
    if rc != 0 or "bad=none" not in out:
        v.violation("nommap", {"kind": "failing-input", "why": "without the mmap feature store/load_full/load_mem do not return the stored values", "output": (out + err)[-2000:]})
        return
    v.assumptions.append("PARTIAL: validity after moving, boxing and cross-thread use rests on heap blocks and mappings not moving when their owner moves; the model makes moves the identity, so this facet is observed on every load (value re-read after each hand-off), not proved; unsafe impl Send/Sync is outside the model")
    v.coverage.setdefault("samples", []).append({"theorem": "C08_loaders_return_the_stored_value: forall l base pf h t v evs, ... base mod max_unit t = 0 -> exists e, load l base h t (store_file (evs, SDone)) = Ok (e, ndrop (nlen (bytes_of evs)) (region l (bytes_of evs)), evs_len evs) /\\ erase e = v"})


def replay(v, path):
    return replay_codec(v, path, "C08", oracle_c08)
