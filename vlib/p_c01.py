"""C01: full-copy round trip. Proof: Props/C01.v. Correspondence: O-ser, O-full on the codec campaign."""
from .codecprops import *


def check(v):
    run_codec_property(v, "C01", ["ser", "full"], oracle_c01)
    v.coverage.setdefault("samples", []).append({"theorem": "C01_full_roundtrip: forall pf h t v evs, hdr_ok h -> wf t -> deserializable t -> wt t v -> exhausted_in t v = false -> ser_top pf h t v = (evs, SDone) -> deser_full_top h t (bytes_of evs) = Ok (v, [], evs_len evs)"})


def replay(v, path):
    return replay_codec(v, path, "C01", oracle_c01)
