"""C01: full-copy round trip. Proof: Props/C01.v. Correspondence: O-ser, O-full on the codec campaign."""
from .codecprops import *


def check(v):
    check_main(v)
    if not v.violations:
        validate_extraction(v)


def check_main(v):
    run_codec_property(v, "C01", ["ser", "full"], oracle_c01)
    v.coverage.setdefault("samples", []).append({"theorem": "C01_full_roundtrip: forall pf h t v evs, hdr_ok h -> wf t -> deserializable t -> wt t v -> exhausted_in t v = false -> ser_top pf h t v = (evs, SDone) -> deser_full_top h t (bytes_of evs) = Ok (v, [], evs_len evs)"})


def validate_extraction(v, nsample=40):
    """a sample of the campaign re-evaluated inside Coq (vm_compute) against the extracted model"""
    from . import coqeval
    c = campaign(v.tier)
    small = [x for x in c.cases if not getattr(x, "liar", False) and not getattr(x, "scaled_of", None)
             and approx_len(c.U, x.t, x.v) < 400 and (x.cid, "ser") in c.mobs]
    import random
    rng = random.Random(seed() * 131 + 7)
    # every constructor family at least once, then random
    sample, seen = [], set()
    for x in small:
        ks = frozenset(k.split(":")[0] for k in constructors(c.U, x.t))
        if not ks <= seen:
            seen |= ks
            sample.append(x)
    rest = [x for x in small if x not in sample]
    rng.shuffle(rest)
    sample = (sample + rest)[:nsample]
    n, bad = coqeval.evaluate(c, sample, os.path.join(CACHE, "coqeval"))
    v.coverage["extraction_validated_in_coq"] = n
    if bad:
        bad.update({"kind": "correspondence", "correspondence": "the model evaluated inside Coq (vm_compute) vs the extracted OCaml model on the same case"})
        v.violation("extraction", bad, no_input=True)


def replay(v, path):
    return replay_codec(v, path, "C01", oracle_c01)
