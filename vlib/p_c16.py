"""C16: slices and exact-size iterators. Proof: Props/C16.v. Correspondence: O-ser of every case holding
a slice reference / iterator wrapper and of its generated vector twin, O-full, O-eps."""
from .codecprops import *


def check(v):
    run_codec_property(v, "C16", ["ser", "full", "eps:0", "sfeed"], oracle_c16,
                       rule_extra="Every case whose type holds &[T] or SerIter (standalone, under type parameters of generated structs/enums, zero-copy and deep elements, honest and lying iterators) has a twin with vectors in their place.")
    c = campaign(v.tier)
    v.coverage["slice_or_iterator_cases"] = sum(1 for x in c.cases if ser_only(x.t))
    v.coverage["lying_iterator_cases"] = sum(1 for x in c.cases if ser_only(x.t) and lying_iter(c.U, x.t, x.v))
    v.coverage.setdefault("samples", []).append({"theorem": "C16_stream_equals_vector_stream: forall pf h t v, wf t -> wt t v -> honest t v -> bytes_of (fst (ser_top pf h t v)) = bytes_of (fst (ser_top pf h (vecty t) (normv t v))) /\\ snd .. = snd .."})


def replay(v, path):
    return replay_codec(v, path, "C16", oracle_c16)
