"""Compile-outcome probes for the derive macro (C05 grammar and its boundary, C17 wrong declarations).

A probe is a Rust module.  Probes expected to be rejected are compiled together (cargo check,
JSON diagnostics mapped back to the probe by line); a probe that shows no diagnostic there is
re-checked alone for a definitive verdict, and if it really compiles it is built and RUN: the
second defence layer (panic before any byte of the value is written) is then observed.  Probes
expected to compile are built into one binary that round-trips a value of each in both modes.
The model's prediction (derive_check, extracted from Coq) is compared with rustc's verdict."""
import json, os, re, shutil, random
from .common import *
from .tygen import *
from .tyrand import *

PRELUDE = """#![allow(unused_imports, dead_code, non_camel_case_types, non_snake_case, unused_variables, unused_mut, unused_parens)]
use core::marker::PhantomData;
use core::num::*;
use core::ops::*;
use epserde::prelude::*;
"""

RECW = """
#[derive(Default)]
pub struct RecW { pub bytes: Vec<u8> }
impl std::io::Write for RecW {
    fn write(&mut self, b: &[u8]) -> std::io::Result<usize> { self.bytes.extend_from_slice(b); Ok(b.len()) }
    fn flush(&mut self) -> std::io::Result<()> { Ok(()) }
}
pub fn hex(b: &[u8]) -> String { b.iter().map(|x| format!("{:02x}", x)).collect() }
/// serialize: outcome and the bytes that reached the writer
pub fn try_ser<T: Serialize>(v: &T) -> String {
    let mut w = RecW::default();
    let r = std::panic::catch_unwind(std::panic::AssertUnwindSafe(|| v.serialize(&mut w)));
    match r {
        Ok(Ok(n)) => format!("OK n={} bytes={}", n, hex(&w.bytes)),
        Ok(Err(_)) => format!("ERR bytes={}", hex(&w.bytes)),
        Err(_) => format!("PANIC bytes={}", hex(&w.bytes)),
    }
}
"""


class Probe:
    def __init__(self, pid, prop, src, expect, what, model=None, known=None, run=None, mutation=None):
        self.pid, self.prop, self.src, self.expect, self.what = pid, prop, src, expect, what
        self.model = model          # (info sexp, [field type sexps]) for derive_check, or None
        self.known = known          # id of a listed known finding that explains a deviation
        self.run = run              # Rust expression (String) evaluated when the probe compiles
        self.mutation = mutation


# ------------------------------------------------------------------ C17 family

REPLACEMENTS = [
    # (kind, rust type, model type, rust value, is Copy)
    ("vector", "Vec<u8>", "(vec u8)", "vec![1u8, 2, 3]", False),
    ("string", "String", "string", "String::from(\"heap\")", False),
    ("boxed slice", "Box<[u16]>", "(bslice u16)", "vec![1u16, 2].into_boxed_slice()", False),
    ("deep struct", "super::base::DeepS", "(struct (info 4465657053 0 1 () 0 ()) (f 78 0 u32))", "super::base::DeepS { x: 7 }", True),
    ("reference-holding type", "&'static str", "(sref u8)", "\"in the writer's address space\"", True),
    ("type without any copy declaration", "super::base::NoAttr", "(struct (info 4e6f41747472 0 0 () 0 ()) (f 78 0 u32))", "super::base::NoAttr { x: 7 }", True),
    ("deep-copy std type", "Option<u32>", "(opt u32)", "Some(7u32)", True),
]

BASE_EXTRA = """
#[derive(Epserde, Debug, Clone, Copy)]
#[deep_copy]
pub struct DeepS { pub x: u32 }
#[derive(Debug, Clone, Copy)]
pub struct NoAttr { pub x: u32 }
"""


def hand_bases():
    u8, u32, u64 = ("prim", "u8"), ("prim", "u32"), ("prim", "u64")
    return [
        Def("HNamed", "struct", "zero", ["C"], [], [], [("a", u8), ("b", u64), ("c", ("arr", 2, u32))]),
        Def("HTuple", "struct", "zero", ["C"], [], [], [("0", u32), ("1", ("tup", 2, u8))], style="tuple"),
        Def("HEnum", "enum", "zero", ["C"], [], [], [("U", "unit", []), ("T", "tuple", [("0", u64), ("1", u8)]), ("S", "named", [("x", u32), ("y", u8)])]),
        Def("HEnumT", "enum", "zero", ["C"], [], [], [("A", "tuple", [("0", u8)]), ("B", "tuple", [("0", u64)])]),
    ]


def def_src(U, d, derives, with_obs=False):
    """source of a definition with the given derive list (no Obs impl)"""
    attrs = ["#[derive(%s)]" % ", ".join(derives)]
    for r in d.reprs:
        attrs.append("#[repr(%s)]" % r)
    if d.copy == "zero":
        attrs.append("#[zero_copy]")
    if d.copy == "deep" or getattr(d, "also_deep", False):
        attrs.append("#[deep_copy]")
    g = []
    for p in d.tparams:
        s = p + ((": " + d.bounds[p]) if p in d.bounds else "")
        if p in d.defaults:
            s += " = " + rust_texpr(U, d.defaults[p])
        g.append(s)
    for (n, ct, _) in d.cparams:
        g.append("const %s: %s" % (n, ct))
    gd = "<%s>" % ", ".join(g) if g else ""
    where = (" where " + ", ".join(d.where)) if d.where else ""
    if d.kind == "struct":
        if d.style == "named":
            body = "pub struct %s%s%s { %s }" % (d.name, gd, where, ", ".join("pub %s: %s" % (n, rust_texpr(U, te)) for (n, te) in d.body))
        elif d.style == "tuple":
            body = "pub struct %s%s(%s)%s;" % (d.name, gd, ", ".join("pub " + rust_texpr(U, te) for (_, te) in d.body), where)
        else:
            body = "pub struct %s%s%s;" % (d.name, gd, where)
    else:
        vs = []
        for (vn, st, fs) in d.body:
            if st == "named":
                vs.append("%s { %s }" % (vn, ", ".join("%s: %s" % (n, rust_texpr(U, te)) for (n, te) in fs)))
            elif st == "tuple":
                vs.append("%s(%s)" % (vn, ", ".join(rust_texpr(U, te) for (_, te) in fs)))
            else:
                vs.append(vn)
        body = "pub enum %s%s%s { %s }" % (d.name, gd, where, ", ".join(vs))
    return "\n".join(attrs + [body])


def field_slots(d):
    """[(variant index or None, field index)] of a definition"""
    if d.kind == "struct":
        return [(None, i) for i in range(len(d.body))]
    return [(vi, fi) for vi, (_, _, fs) in enumerate(d.body) for fi in range(len(fs))]


def replace_field(d, slot, te):
    import copy
    m = copy.copy(d)
    vi, fi = slot
    if d.kind == "struct":
        m.body = list(d.body)
        m.body[fi] = (d.body[fi][0], te)
    else:
        m.body = []
        for i, (vn, st, fs) in enumerate(d.body):
            fs = list(fs)
            if i == vi:
                fs[fi] = (fs[fi][0], te)
            m.body.append((vn, st, fs))
    return m


def sample_value(U, d, rng):
    t = ("adt", d.key, tuple(("prim", "u8") for _ in d.tparams))
    return t, rand_value(U, t, rng)


def model_of(U, d):
    """(info, [field types]) in the model's syntax, fields of all variants"""
    t = ("adt", d.key, tuple(("prim", "u8") for _ in d.tparams))
    fl = d.body if d.kind == "struct" else [f for (_, _, fs) in d.body for f in fs]
    env = dict(zip(d.tparams, t[2]))
    tys = [model_ty(U, subst(te, env)) if te[0] != "raw" else te[2] for (_, te) in fl]
    return model_info(d), tys


def c17_probes(U, rng, per_def=4):
    """every zero-copy definition of the universe (and a few fixed ones) x {replace one field by a
    non-zero-copy type, drop repr(C), add deep_copy}"""
    probes = []
    bases = [U.defs[k] for k in U.order if U.defs[k].copy == "zero" and not getattr(U.defs[k], "liar", False)
             and not U.defs[k].tparams and not U.defs[k].module and not any(has_liar(U, te) for (_, te) in all_fields(U.defs[k]))]
    hb = hand_bases()
    for d in hb:
        U.add(d)
    n = 0
    for d in hb + bases:
        slots = field_slots(d)
        if d in hb:
            combos = [(s, r) for s in slots for r in REPLACEMENTS]
        else:
            combos = [(s, r) for s in slots for r in REPLACEMENTS]
            rng.shuffle(combos)
            combos = combos[:per_def]
        for (slot, (kind, rty, mty, rval, is_copy)) in combos:
            m = replace_field(d, slot, ("raw", rty, mty, rval))
            derives = ["Epserde", "Debug", "Clone"] + (["Copy"] if is_copy else [])
            pid = "w%d" % n
            n += 1
            # a value for the run-time fallback: a random value of the base with the mutated field's expression
            t, v = sample_value(U, d, rng)
            probes.append(Probe(pid, "C17", def_src(U, m, derives), "rejected",
                                "%s %s: field %s replaced by a %s (%s)" % (d.kind, d.name, slot, kind, rty),
                                model=model_of(U, m), mutation="field:" + kind,
                                run=("try_ser(&%s)" % value_with(U, m, d, slot, rval, rng))))
        # drop repr(C)
        import copy
        m = copy.copy(d)
        m.reprs = [r for r in d.reprs if r != "C"]
        t, v = sample_value(U, d, rng)
        probes.append(Probe("w%d" % n, "C17", def_src(U, m, ["Epserde", "Debug", "Clone", "Copy"]), "rejected",
                            "%s %s: repr(C) dropped" % (d.kind, d.name), model=model_of(U, m), mutation="no-repr-c",
                            run="try_ser(&%s)" % rust_val(U, t, v, RustCtx())))
        n += 1
        m = copy.copy(d)
        m.also_deep = True
        m2 = copy.copy(m)
        m2.copy = "zero"
        info = model_info(d).replace("(info %s 1 0" % hx(d.name.encode()), "(info %s 1 1" % hx(d.name.encode()))
        probes.append(Probe("w%d" % n, "C17", def_src(U, m, ["Epserde", "Debug", "Clone", "Copy"]), "rejected",
                            "%s %s: declared both zero_copy and deep_copy" % (d.kind, d.name), model=(info, model_of(U, d)[1]), mutation="both-attributes",
                            run="try_ser(&%s)" % rust_val(U, t, v, RustCtx())))
        n += 1
    return probes


def value_with(U, m, d, slot, rval, rng):
    """a Rust expression of the mutated type: the variant holding the mutated field, other fields random"""
    cx = RustCtx()
    env = {}
    def fv(te):
        if te[0] == "raw":
            return te[3]
        return rust_val(U, te, rand_value(U, te, rng), cx)
    path = "self::" + m.name
    if m.kind == "struct":
        vals = [fv(te) for (_, te) in m.body]
        if m.style == "named":
            return "%s { %s }" % (path, ", ".join("%s: %s" % (n, e) for (n, _), e in zip(m.body, vals)))
        return "%s(%s)" % (path, ", ".join(vals))
    vn, st, fs = m.body[slot[0]]
    vals = [fv(te) for (_, te) in fs]
    if st == "named":
        return "%s::%s { %s }" % (path, vn, ", ".join("%s: %s" % (n, e) for (n, _), e in zip(fs, vals)))
    return "%s::%s(%s)" % (path, vn, ", ".join(vals))


# ------------------------------------------------------------------ C05 boundary / grammar probes

def rt(tyexpr, valexpr):
    """round trip in both modes; the value must implement PartialEq + Debug"""
    return ("{ let v: %s = %s; let mut c = <AlignedCursor<maligned::A16>>::new(); v.serialize(&mut c).unwrap(); c.set_position(0); "
            "let f = <%s>::deserialize_full(&mut c).unwrap(); let e = <%s>::deserialize_eps(c.as_bytes()).unwrap(); "
            "format!(\"full={} eps={}\", f == v, format!(\"{:?}\", e) == format!(\"{:?}\", v)) }" % (tyexpr, valexpr, tyexpr, tyexpr))


C05_PROBES = [
    # ---- inside the grammar named by the property: must compile and round-trip
    ("g_where_inside", "compiles", None, "where-clause bound on a parameter that is only mentioned inside a field type",
     "#[derive(Epserde, Debug, Clone, PartialEq)]\npub struct S<A> where A: Clone { pub v: Vec<A>, pub n: u8 }",
     rt("self::S<u16>", "self::S { v: vec![1u16, 2], n: 3 }")),
    ("g_inline_struct_bare", "compiles", None, "inline bound on a parameter that is the type of a struct field",
     "#[derive(Epserde, Debug, Clone, PartialEq)]\npub struct S<A: Clone + core::fmt::Debug> { pub a: A, pub n: u8 }",
     rt("self::S<Vec<u32>>", "self::S { a: vec![1u32, 2], n: 3 }")),
    ("g_where_struct_bare", "compiles", "D14", "where-clause bound on a parameter that is the type of a struct field",
     "#[derive(Epserde, Debug, Clone, PartialEq)]\npub struct S<A> where A: Clone { pub a: A, pub n: u8 }",
     rt("self::S<Vec<u32>>", "self::S { a: vec![1u32, 2], n: 3 }")),
    ("g_inline_enum_bare", "compiles", "D19", "inline bound on a parameter that is the type of an enum variant field",
     "#[derive(Epserde, Debug, Clone, PartialEq)]\npub enum E<A: Clone> { U, T(A, u8) }",
     rt("self::E<Vec<u32>>", "self::E::T(vec![1u32, 2], 3)")),
    ("g_where_enum_bare", "compiles", "D19", "where-clause bound on a parameter that is the type of an enum variant field",
     "#[derive(Epserde, Debug, Clone, PartialEq)]\npub enum E<A> where A: Clone { U, S { a: A } }",
     rt("self::E<String>", "self::E::S { a: String::from(\"x\") }")),
    ("g_default_param", "compiles", None, "defaulted type parameter",
     "#[derive(Epserde, Debug, Clone, PartialEq)]\npub struct S<A = Vec<u8>> { pub a: A }",
     rt("self::S", "self::S { a: vec![1u8] }")),
    ("g_const_and_type", "compiles", None, "type and const parameters together, const used in an array length",
     "#[derive(Epserde, Debug, Clone, PartialEq)]\npub struct S<A, const N: usize> { pub a: A, pub b: [u16; N] }",
     rt("self::S<String, 3>", "self::S { a: String::from(\"x\"), b: [1u16, 2, 3] }")),
    ("g_phantom_param", "compiles", None, "phantom parameter (not serializable type inside PhantomData)",
     "pub struct NotSer;\n#[derive(Epserde, Debug, Clone, PartialEq)]\npub struct S<P> { pub n: u32, pub p: PhantomData<P> }",
     "{ let v = self::S::<u64> { n: 5, p: PhantomData }; let mut c = <AlignedCursor<maligned::A16>>::new(); v.serialize(&mut c).unwrap(); c.set_position(0); "
     "let f = <self::S<u64>>::deserialize_full(&mut c).unwrap(); format!(\"full={} eps=true\", f == v) }"),
    ("g_zero_generic", "compiles", None, "zero-copy struct with a type parameter bounded by ZeroCopy",
     "#[derive(Epserde, Debug, Clone, Copy, PartialEq)]\n#[repr(C)]\n#[zero_copy]\npub struct Z<A: ZeroCopy> { pub a: A, pub n: u8 }",
     rt("self::Z<u32>", "self::Z { a: 7u32, n: 3 }")),
    ("g_zero_generic_args", "compiles", "D20", "zero-copy struct and enum with ZeroCopy-bounded parameters instantiated with arrays, tuples and zero-copy structs",
     "#[derive(Epserde, Debug, Clone, Copy, PartialEq)]\n#[repr(C)]\n#[zero_copy]\npub struct Z<A: ZeroCopy, B: ZeroCopy>(pub A, pub u8, pub B);\n"
     "#[derive(Epserde, Debug, Clone, Copy, PartialEq)]\n#[repr(C)]\n#[zero_copy]\npub enum E<A: ZeroCopy> { U, T(A, u8), S { x: u16, a: A } }",
     "{ let v = vec![self::E::T(self::Z([1u32, 2], 1, (3u16, 4u16)), 1), self::E::U]; let mut c = <AlignedCursor<maligned::A16>>::new(); v.serialize(&mut c).unwrap(); c.set_position(0); "
     "let f = <Vec<self::E<self::Z<[u32; 2], (u16, u16)>>>>::deserialize_full(&mut c).unwrap(); let e = <Vec<self::E<self::Z<[u32; 2], (u16, u16)>>>>::deserialize_eps(c.as_bytes()).unwrap(); "
     "format!(\"full={} eps={}\", f == v, e == &v[..]) }"),
    ("g_unit_struct", "compiles", None, "unit struct", "#[derive(Epserde, Debug, Clone, PartialEq)]\npub struct S;", rt("self::S", "self::S")),
    ("g_two_bare", "compiles", None, "two parameters, both types of fields, one twice",
     "#[derive(Epserde, Debug, Clone, PartialEq)]\npub struct S<A, B> { pub a: A, pub b: B, pub a2: A }",
     rt("self::S<Vec<u8>, String>", "self::S { a: vec![1u8], b: String::from(\"y\"), a2: vec![] }")),
    ("g_enum_all_kinds", "compiles", None, "enum with unit, tuple and struct variants and a parameter",
     "#[derive(Epserde, Debug, Clone, PartialEq)]\npub enum E<A> { U, T(u8, A), S { x: Vec<u16>, y: u8 } }",
     rt("self::E<Vec<u64>>", "self::E::T(1, vec![5u64])")),
    # ---- boundary of the grammar: recorded outcome (the rule of the property cannot give these a type)
    ("b_bare_and_mentioned_struct", "rejected", None, "a parameter that is both the type of a field and mentioned inside another field (PhantomData)",
     "#[derive(Epserde, Debug, Clone)]\npub struct S<A> { pub a: A, pub p: PhantomData<A> }", None),
    ("b_bare_and_mentioned_enum", "rejected", None, "a parameter that is the type of a field in one variant and mentioned in another",
     "#[derive(Epserde, Debug, Clone)]\npub enum E<A> { T(A, u8), S { x: Vec<A> } }", None),
    ("b_repr_c_align_one_attr", "rejected", None, "repr(C, align(8)) written as one attribute on a zero-copy type (not recognised as repr(C))",
     "#[derive(Epserde, Debug, Clone, Copy)]\n#[repr(C, align(8))]\n#[zero_copy]\npub struct Z { pub a: u32 }", None),
]


def derive_matrix():
    """(shape of the definition) x (how the parameter occurs in the field type): every combination
    is inside the grammar of the property and must compile and round-trip in both modes"""
    uses = [("bare", "A", "Vec<u32>", "vec![1u32, 2]"), ("vec", "Vec<A>", "u32", "vec![1u32, 2]"),
            ("opt", "Option<A>", "String", "Some(String::from(\"x\"))"), ("arr", "[A; 2]", "u16", "[1u16, 2]"),
            ("bslice", "Box<[A]>", "u64", "vec![1u64].into_boxed_slice()"), ("nest", "Vec<Vec<A>>", "u8", "vec![vec![1u8], vec![]]"),
            ("tup", "(A, A)", "u16", "(7u16, 1u16)")]
    shapes = [("struct_named", "pub struct D<A> { pub n: u8, pub f: %s }", "self::D { n: 3, f: %s }"),
              ("struct_tuple", "pub struct D<A>(pub u8, pub %s);", "self::D(3, %s)"),
              ("enum_tuple", "pub enum D<A> { U, T(u8, %s) }", "self::D::T(3, %s)"),
              ("enum_named", "pub enum D<A> { U, N { n: u8, f: %s } }", "self::D::N { n: 3, f: %s }")]
    out = []
    for (sid, decl, val) in shapes:
        for (uid, fty, arg, fval) in uses:
            out.append(("m_%s_%s" % (sid, uid), "compiles", None, "derive matrix: %s whose field has type %s (A := %s)" % (sid.replace("_", " "), fty, arg),
                        "#[derive(Epserde, Debug, Clone, PartialEq)]\n" + decl % fty, rt("self::D<%s>" % arg, val % fval)))
    return out


def probe_gdefs():
    """the definitions of the derive matrix and of the two boundary probes as definitions before
    instantiation of Model/Generic.v: {pid: (gdef sexp, argument type sexp)}"""
    from .tygen import Def, Universe, gdef_sexp
    U = Universe()
    u8, A = ("prim", "u8"), ("param", "A")
    uses = {"bare": (A, "(vec u32)"), "vec": (("vec", A), "u32"), "opt": (("opt", A), "string"), "arr": (("arr", 2, A), "u16"),
            "bslice": (("bslice", A), "u64"), "nest": (("vec", ("vec", A)), "u8")}
    out = {}
    for uid, (F, arg) in uses.items():
        shapes = {
            "struct_named": Def("D", "struct", "none", [], ["A"], [], [("n", u8), ("f", F)]),
            "struct_tuple": Def("D", "struct", "none", [], ["A"], [], [("0", u8), ("1", F)], style="tuple"),
            "enum_tuple": Def("D", "enum", "none", [], ["A"], [], [("U", "unit", []), ("T", "tuple", [("0", u8), ("1", F)])]),
            "enum_named": Def("D", "enum", "none", [], ["A"], [], [("U", "unit", []), ("N", "named", [("n", u8), ("f", F)])]),
        }
        for sid, d in shapes.items():
            out["m_%s_%s" % (sid, uid)] = (gdef_sexp(U, d), arg)
    out["b_bare_and_mentioned_struct"] = (gdef_sexp(U, Def("S", "struct", "none", [], ["A"], [], [("a", A), ("p", ("ph", A))])), "u32")
    out["b_bare_and_mentioned_enum"] = (gdef_sexp(U, Def("E", "enum", "none", [], ["A"], [], [("T", "tuple", [("0", A), ("1", u8)]), ("S", "named", [("x", ("vec", A))])])), "u32")
    out["g_two_bare"] = (gdef_sexp(U, Def("S", "struct", "none", [], ["A", "B"], [], [("a", A), ("b", ("param", "B")), ("a2", A)])), "(vec u8) string")
    return out


def generic_predictions(workdir):
    """wf_gdef of the extracted model on the probe definitions: {pid: '1' | '0'}"""
    g = probe_gdefs()
    path = os.path.join(workdir, "generic_cases.txt")
    os.makedirs(workdir, exist_ok=True)
    write_lines(path, ["G %s - %s %s" % (pid, gd, arg) for pid, (gd, arg) in g.items()])
    rc, out, err = run([os.path.join(DRIVER, "_build", "model_run"), "codec", path], timeout=600)
    res = {}
    for l in out.splitlines():
        ps = l.split(" ")
        if len(ps) >= 3 and ps[1] == "gen":
            res[ps[0]] = ps[2].split("=")[1]
    if rc != 0:
        res["_error"] = err[-500:]
    return res


def c05_probes():
    out = []
    for (pid, expect, known, what, src, run) in derive_matrix():
        out.append(Probe(pid, "C05", src, expect, what, known=known, run=run))
    for (pid, expect, known, what, src, run) in C05_PROBES:
        out.append(Probe(pid, "C05", src, expect, what, known=known, run=run))
    return out


# ------------------------------------------------------------------ building and judging

def write_crate(root, name, base_src, probes, with_main):
    d = os.path.join(root, name)
    os.makedirs(os.path.join(d, "src"), exist_ok=True)
    with open(os.path.join(d, "Cargo.toml"), "w") as f:
        f.write('[package]\nname = "%s"\nversion = "0.1.0"\nedition = "2021"\n\n[dependencies]\nepserde = { path = "%s/epserde" }\nmaligned = "0.2.1"\n' % (name, REPO))
    lines = (PRELUDE + RECW + "pub mod base {\nuse super::*;\n" + base_src + "\n}\n").split("\n")
    spans = {}
    for p in probes:
        start = len(lines) + 1
        lines.append("pub mod %s {" % p.pid)
        lines.append("use super::*;")
        lines += p.src.split("\n")
        if with_main and p.run:
            lines.append("pub fn run() -> String { %s }" % p.run)
        lines.append("}")
        spans[p.pid] = (start, len(lines))
    if with_main:
        lines.append("fn main() {")
        lines.append("    std::panic::set_hook(Box::new(|_| {}));")
        for p in probes:
            if p.run:
                lines.append("    println!(\"%s {}\", std::panic::catch_unwind(|| %s::run()).unwrap_or_else(|_| \"RUN-PANIC\".to_string()));" % (p.pid, p.pid))
        lines.append("}")
    else:
        lines.append("fn main() {}")
    src = "\n".join(lines) + "\n"
    mp = os.path.join(d, "src", "main.rs")
    if not os.path.exists(mp) or open(mp).read() != src:
        with open(mp, "w") as f:
            f.write(src)
    return spans


def write_workspace(root, members):
    with open(os.path.join(root, "Cargo.toml"), "w") as f:
        f.write('[workspace]\nresolver = "2"\nmembers = [%s]\n\n[profile.dev]\nopt-level = 0\ndebug = false\nincremental = false\n\n[patch.crates-io]\nepserde-derive = { path = "%s/epserde-derive" }\n' % (
            ", ".join('"%s"' % m for m in members), REPO))
    os.makedirs(os.path.join(root, ".cargo"), exist_ok=True)
    with open(os.path.join(root, ".cargo", "config.toml"), "w") as f:
        f.write('[net]\noffline = true\n')
    shutil.copy(os.path.join(HARNESS, "Cargo.lock"), os.path.join(root, "Cargo.lock"))


def cargo_json(root, name, cmd="check"):
    env = dict(ENV)
    env["CARGO_TARGET_DIR"] = os.path.join(CACHE, "probes-target")
    rc, so, se = run(["cargo", cmd, "--offline", "--quiet", "--message-format=json", "-p", name], cwd=root, timeout=1800, env=env)
    diags = []
    for line in so.splitlines():
        try:
            m = json.loads(line)
        except Exception:
            continue
        if m.get("reason") == "compiler-message" and m["message"].get("level") == "error":
            msg = m["message"]
            ls = [s["line_start"] for s in msg.get("spans", []) if s.get("file_name", "").endswith("main.rs")]
            # errors inside macro expansions: follow the expansion chain to main.rs
            for s in msg.get("spans", []):
                e = s.get("expansion")
                while e:
                    sp = e.get("span", {})
                    if sp.get("file_name", "").endswith("main.rs"):
                        ls.append(sp["line_start"])
                    e = sp.get("expansion")
            text = msg.get("message", "") + " " + " ".join(ch.get("message", "") for ch in msg.get("children", []))
            diags.append({"code": (msg.get("code") or {}).get("code"), "message": text, "lines": ls})
    return rc, diags, se


def classify(diags):
    """class of the diagnostics of one probe"""
    if not diags:
        return "compiles"
    txt = " ".join(d["message"] for d in diags)
    if "is declared as zero copy, but it is not repr(C)" in txt:
        return "derive-panic:not-repr-c"
    if "is declared as both zero copy and deep copy" in txt:
        return "derive-panic:both"
    codes = set(d["code"] for d in diags if d["code"])
    if codes & {"E0277", "E0204", "E0599", "E0080"}:
        return "bound-error"
    return "rejected:" + ",".join(sorted(codes)) if codes else "rejected"


MODEL_CLASS = {"DAccept": "compiles", "DPanicNotReprC": "derive-panic:not-repr-c", "DPanicBoth": "derive-panic:both", "DBoundError": "bound-error"}


def model_predictions(probes, workdir):
    """derive_check of the extracted model on every probe that carries a model rendering"""
    lines = []
    for p in probes:
        if p.model:
            lines.append("D %s %s %s" % (p.pid, p.model[0], " ".join(p.model[1])))
    if not lines:
        return {}
    path = os.path.join(workdir, "derive_cases.txt")
    write_lines(path, lines)
    rc, out, err = run([os.path.join(DRIVER, "_build", "model_run"), "codec", path], timeout=600)
    res = {}
    for l in out.splitlines():
        ps = l.split(" ")
        if len(ps) >= 3 and ps[1] == "derive":
            res[ps[0]] = ps[2]
    if rc != 0:
        res["_error"] = err[-500:]
    return res


def judge(prop, probes, base_src, tag):
    """returns {pid: dict(observed class, runtime observation, diagnostics)}"""
    root = os.path.join(CACHE, "probes", tag)
    os.makedirs(root, exist_ok=True)
    neg = [p for p in probes if p.expect == "rejected"]
    pos = [p for p in probes if p.expect == "compiles"]
    members = ["%s_neg" % tag, "%s_pos" % tag, "%s_one" % tag]
    spans_n = write_crate(root, members[0], base_src, neg, False)
    spans_p = write_crate(root, members[1], base_src, pos, True)
    write_crate(root, members[2], base_src, [], False)
    write_workspace(root, members)
    res = {}

    def attribute(diags, spans):
        per = {pid: [] for pid in spans}
        other = []
        for d in diags:
            hit = False
            for pid, (a, b) in spans.items():
                if any(a <= l <= b for l in d["lines"]):
                    per[pid].append(d)
                    hit = True
            if not hit:
                other.append(d)
        return per, other

    def alone(p, with_main):
        write_crate(root, members[2], base_src, [p], with_main)
        rc, diags, se = cargo_json(root, members[2], "build" if with_main else "check")
        return rc, diags

    # rejected-expected probes, together
    rc, diags, se = cargo_json(root, members[0])
    per, other = attribute(diags, spans_n)
    base_broken = [d for d in other if d["lines"]]
    for p in neg:
        ds = per[p.pid]
        if not ds:
            # no diagnostic seen in the joint build: definitive verdict alone
            rc1, ds = alone(p, False)
            if rc1 == 0:
                ds = []
        r = {"class": classify(ds), "diagnostics": [("%s %s" % (d["code"] or "", d["message"]))[:160] for d in ds[:3]]}
        if r["class"] == "compiles" and p.run:
            # first layer absent: build and run, the second layer must stop it before any byte of the value
            rc2, ds2 = alone(p, True)
            if rc2 == 0:
                rr, out, err = run([os.path.join(CACHE, "probes-target", "debug", members[2])], timeout=120)
                r["run"] = out.strip()[:4000]
            else:
                r["run"] = "build-failed"
        res[p.pid] = r
    # compiles-expected probes: together, failing ones removed and judged alone
    cur = list(pos)
    for _ in range(3):
        spans_p = write_crate(root, members[1], base_src, cur, True)
        rc, diags, se = cargo_json(root, members[1], "build")
        if rc == 0:
            break
        per, other = attribute(diags, spans_p)
        bad = [p for p in cur if per[p.pid]]
        if not bad:
            for p in cur:
                res[p.pid] = {"class": "build-failed", "diagnostics": [(d["message"])[:200] for d in diags[:3]] or [se[-300:]]}
            cur = []
            break
        for p in bad:
            res[p.pid] = {"class": classify(per[p.pid]), "diagnostics": [("%s %s" % (d["code"] or "", d["message"]))[:160] for d in per[p.pid][:3]]}
        cur = [p for p in cur if p not in bad]
    if cur:
        rr, out, err = run([os.path.join(CACHE, "probes-target", "debug", members[1])], timeout=300)
        o = {}
        for l in out.splitlines():
            a, _, b = l.partition(" ")
            o[a] = b
        for p in cur:
            res[p.pid] = {"class": "compiles", "run": o.get(p.pid, "no-output"), "diagnostics": []}
    return res
