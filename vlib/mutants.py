"""Near-miss mutants of generated definitions and of built-in types (C04): every mutant differs
from its original in something the property lists (names, order, field types, copy kind, const
names/values, variant names/order, repr attributes, sequence kind, array length, tuple arity,
generic arguments), so bytes of one must be refused as the other."""
import copy
from .tygen import *
from .tyrand import all_fields

SAME_SIZE = {"u8": "i8", "i8": "u8", "u16": "i16", "i16": "u16", "u32": "i32", "i32": "f32", "f32": "u32",
             "u64": "i64", "i64": "f64", "f64": "u64", "u128": "i128", "i128": "u128", "usize": "u64",
             "isize": "i64", "bool": "u8", "char": "u32", "nzu8": "u8", "nzu16": "u16", "nzu32": "u32", "nzu64": "u64",
             "nzu128": "u128", "nzusize": "usize", "nzi8": "i8", "nzi16": "i16", "nzi32": "i32", "nzi64": "i64",
             "nzi128": "i128", "nzisize": "isize"}


def _clone(d, k, kind):
    m = copy.deepcopy(d)
    m.module = "mu%d" % k
    m.key = "%s::%s" % (m.module, d.name)
    m.mutation = kind
    m.origin = d.key
    return m


def mutants_of(d, counter):
    """[(kind, Def)] -- each a separate definition with the same identifier in its own module"""
    out = []

    def new(kind):
        counter[0] += 1
        return _clone(d, counter[0], kind)

    fl = d.body if d.kind == "struct" else None
    # type name changed
    m = new("type-name")
    m.name = d.name + "x"
    m.key = "%s::%s" % (m.module, m.name)
    out.append(m)
    if d.kind == "struct" and d.style == "named" and len(d.body) >= 1:
        m = new("field-renamed")
        n, te = m.body[0]
        m.body[0] = (n + "_r", te)
        out.append(m)
    if d.kind == "struct" and len(d.body) >= 2 and d.body[0][1] != d.body[1][1]:
        m = new("fields-swapped")
        if d.style == "named":
            m.body[0], m.body[1] = m.body[1], m.body[0]
        else:   # tuple struct: swap the types, the names are the indices
            m.body[0], m.body[1] = (m.body[0][0], m.body[1][1]), (m.body[1][0], m.body[0][1])
        out.append(m)
    # one field type replaced by a same-size type
    fields = d.body if d.kind == "struct" else [f for (_, _, fs) in d.body for f in fs]
    for idx, (n, te) in enumerate(fields):
        if te[0] == "prim" and te[1] in SAME_SIZE:
            m = new("field-type")
            rep = ("prim", SAME_SIZE[te[1]])
            if m.kind == "struct":
                m.body[idx] = (n, rep)
            else:
                j = 0
                for vi, (vn, st, fs) in enumerate(m.body):
                    for fi in range(len(fs)):
                        if j == idx:
                            fs[fi] = (fs[fi][0], rep)
                        j += 1
            out.append(m)
            break
    # copy kind toggled
    if d.copy == "zero":
        if not getattr(d, "zc_params", None):
            # (a generic zero-copy definition keeps its ZeroCopy bounds, which a deep-copy type cannot
            # satisfy for the eps-copy type of its parameters)
            m = new("copy-kind")
            m.copy = "deep"
            out.append(m)
        m = new("repr-attribute")
        if m.align:
            m.align = m.align * 2
            m.reprs = ["C", "align(%d)" % m.align]
        else:
            m.align = 16
            m.reprs = ["C", "align(16)"]
        out.append(m)
    # const value / const name
    if d.cparams:
        m = new("const-value")
        n, ct, cv = m.cparams[0]
        m.cparams[0] = (n, ct, (0 if cv else 1) if ct == "bool" else (cv + 1 if ct != "char" else 0x42 if cv != 0x42 else 0x43))
        m.const_only = True
        out.append(m)
        n0, ct0, cv0 = d.cparams[0]
        if ct0 in INTS and INTS[ct0] >= 2:
            # a value that differs only in its top bit (a truncated hash of the value would not see it)
            m = new("const-value-high")
            half = 1 << (8 * INTS[ct0] - 1)
            if ct0.startswith("u"):
                nv = cv0 ^ half
            else:
                nv = cv0 - half if cv0 >= 0 else cv0 + half
            m.cparams[0] = (n0, ct0, nv)
            m.const_only = True
            out.append(m)
        m = new("const-name")
        n, ct, cv = m.cparams[0]
        m.cparams[0] = (n + "X", ct, cv)
        out.append(m)
    if d.kind == "enum":
        # a named field inside a variant renamed; two named fields of a variant swapped
        for vi, (vn, st, fs) in enumerate(d.body):
            if st == "named" and len(fs) >= 1:
                m = new("variant-field-renamed")
                vfs = list(m.body[vi][2])
                vfs[0] = (vfs[0][0] + "_r", vfs[0][1])
                m.body[vi] = (vn, st, vfs)
                out.append(m)
                if len(fs) >= 2:
                    m = new("variant-fields-swapped")
                    vfs = list(m.body[vi][2])
                    vfs[0], vfs[1] = vfs[1], vfs[0]
                    m.body[vi] = (vn, st, vfs)
                    out.append(m)
                break
        m = new("variant-renamed")
        vn, st, fs = m.body[0]
        m.body[0] = (vn + "R", st, fs)
        out.append(m)
        if len(d.body) >= 2:
            m = new("variants-reordered")
            m.body[0], m.body[1] = m.body[1], m.body[0]
            out.append(m)
    return out


def builtin_near_misses(U, t):
    """[(kind, type)] for built-in constructors at the root of t"""
    k = t[0]
    out = []
    if k == "vec":
        out.append(("sequence-kind", ("bslice", t[1])))
    if k == "bslice":
        out.append(("sequence-kind", ("vec", t[1])))
    if k == "arr":
        out.append(("array-length", ("arr", t[1] + 1, t[2])))
    if k == "tup" and t[1] < 12:
        out.append(("tuple-arity", ("tup", t[1] + 1, t[2])))
    if k == "opt":
        out.append(("sum-kind", ("bound", t[1])))
    if k == "string":
        out.append(("string-kind", ("boxstr",)))
    if k in ("vec", "bslice", "opt", "bound") and t[1][0] == "prim" and t[1][1] in SAME_SIZE:
        out.append(("element-type", (k, ("prim", SAME_SIZE[t[1][1]]))))
    if k == "adt":
        # a generic argument changed
        d = U.defs[t[1]]
        for i, a in enumerate(t[2]):
            if a[0] == "prim" and a[1] in SAME_SIZE:
                args = list(t[2])
                args[i] = ("prim", SAME_SIZE[a[1]])
                out.append(("generic-argument", ("adt", t[1], tuple(args))))
                break
    return out
