//! Feature configuration without `mmap`: store, load_full and load_mem of a few values, for file
//! lengths of every residue modulo 64.
use epserde::prelude::*;

#[derive(Epserde, Debug, PartialEq, Clone)]
struct Rec<A> {
    id: u32,
    data: A,
    name: String,
}

fn main() {
    let dir = std::env::temp_dir().join(format!("evn_{}", std::process::id()));
    std::fs::create_dir_all(&dir).unwrap();
    let path = dir.join("v.bin");
    let mut bad = vec![];
    let mut residues = std::collections::BTreeSet::new();
    for n in 0..130usize {
        let v: Vec<u8> = (0..n).map(|i| (i * 7 + 1) as u8).collect();
        v.store(&path).unwrap();
        let len = std::fs::metadata(&path).unwrap().len() as usize;
        residues.insert(len % 64);
        let f = <Vec<u8>>::load_full(&path).unwrap();
        let m = <Vec<u8>>::load_mem(&path).unwrap();
        let (addr, rlen) = m.verif_backing_range().unwrap();
        let tail = unsafe { core::slice::from_raw_parts((addr + len) as *const u8, rlen - len) };
        if f != v || *m != &v[..] || addr % 64 != 0 || rlen != (len + 63) / 64 * 64 || tail.iter().any(|b| *b != 0) {
            bad.push(format!("vecu8:{}", n));
        }
        let r = Rec { id: n as u32, data: vec![n as u64; n % 5], name: "x".repeat(n % 9) };
        r.store(&path).unwrap();
        let f = <Rec<Vec<u64>>>::load_full(&path).unwrap();
        let m = <Rec<Vec<u64>>>::load_mem(&path).unwrap();
        if f != r || m.id != r.id || m.data != &r.data[..] || m.name != r.name {
            bad.push(format!("rec:{}", n));
        }
    }
    let _ = std::fs::remove_dir_all(&dir);
    println!("nommap residues={} bad={}", residues.len(), if bad.is_empty() { "none".to_string() } else { bad.join(",") });
}
