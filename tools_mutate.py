#!/usr/bin/env python3
"""Development-time mutation sweep (not a registered check): syntactic mutants of epserde/src are
applied to /repo one at a time, the quick checks are run until one reports a violation, the
mutant is reverted.  Survivors point at gaps of the generators/oracles.
usage: tools_mutate.py <n> <seed> [file-regex]"""
import os, re, random, subprocess, sys, json, time

REPO = "/repo"
SRC = os.path.join(REPO, os.environ.get("MUT_CRATE", "epserde"), "src")
PKG = os.environ.get("MUT_CRATE", "epserde")
ORDER = ["C01", "C02", "C06", "C07", "C04", "C15", "C11", "C12", "C13", "C14", "C16", "C18", "C08", "C09", "C10", "C03", "C05", "C17", "C19"]


def sites():
    out = []
    for root, _, files in os.walk(SRC):
        for f in sorted(files):
            if not f.endswith(".rs"):
                continue
            p = os.path.join(root, f)
            lines = open(p).read().split("\n")
            in_fmt = False
            for i, l in enumerate(lines):
                s = l.strip()
                if not s or s.startswith("//") or s.startswith("#[") or s.startswith("use ") or s.startswith("///") or s.startswith("*") or s.startswith("/*"):
                    continue
                if "fn fmt" in l:
                    in_fmt = True
                if in_fmt:
                    if l.startswith("    }"):
                        in_fmt = False
                    continue
                if "debug_assert" in l or "panic!" in l or "write!(" in l or "format!" in l or "assert_eq!" in l or "assert!" in l:
                    continue
                # statement deletion
                if s.endswith("?;") and not s.startswith("let ") and "return" not in s:
                    out.append((p, i, "delete", l, re.sub(r"\S.*", "// (deleted)", l, count=1)))
                for m in re.finditer(r"(?<![<>=!\-+*/&|])(<=|>=|==|!=|<|>)(?![<>=])", l):
                    if "->" in l[max(0, m.start() - 1):m.end() + 1] or "::<" in l or re.search(r"<[A-Za-z_'&\[(]", l[m.start():m.start() + 3]) and m.group(1) == "<":
                        continue
                    if m.group(1) in ("<", ">") and ("<" in l and ">" in l and ("::" in l or "impl" in l or "fn " in l or "Vec" in l or "Result" in l or "Option" in l)):
                        continue
                    rep = {"<=": "<", ">=": ">", "==": "!=", "!=": "==", "<": "<=", ">": ">="}[m.group(1)]
                    out.append((p, i, "cmp", l, l[:m.start()] + rep + l[m.end():]))
                for m in re.finditer(r"(?<=[\w)\]]) \+ (?=[\w(])", l):
                    out.append((p, i, "plus", l, l[:m.start()] + " - " + l[m.end():]))
                for m in re.finditer(r"(?<![\w.])(0|1|2|8|16|64)(?![\w.])", l):
                    if "[" in l[max(0, m.start() - 1):m.start()] and "]" in l[m.end():m.end() + 1]:
                        pass
                    rep = {"0": "1", "1": "0", "2": "1", "8": "4", "16": "8", "64": "32"}[m.group(1)]
                    out.append((p, i, "const", l, l[:m.start()] + rep + l[m.end():]))
    return out


def sh(cmd, timeout=1800, cwd=None):
    import signal
    p = subprocess.Popen(cmd, shell=True, stdout=subprocess.PIPE, stderr=subprocess.STDOUT, text=True, cwd=cwd, start_new_session=True)
    try:
        out, _ = p.communicate(timeout=timeout)
        return p.returncode, out
    except subprocess.TimeoutExpired:
        os.killpg(p.pid, signal.SIGKILL)
        p.wait()
        return 124, "VIOLATION (sweep) timeout: the check did not finish"


def main():
    n, seed = int(sys.argv[1]), int(sys.argv[2])
    flt = sys.argv[3] if len(sys.argv) > 3 else None
    rng = random.Random(seed)
    ss = [s for s in sites() if not flt or re.search(flt, s[0])]
    rng.shuffle(ss)
    log = open("/verif/.cache/mutation_sweep%s.log" % ("" if PKG == "epserde" else "_derive"), "a")
    done = 0
    for (p, i, kind, old, new) in ss:
        if done >= n:
            break
        if sh("git -C /repo diff --quiet")[0] != 0:
            print("repo not clean", file=log, flush=True)
            return
        lines = open(p).read().split("\n")
        if lines[i] != old:
            continue
        lines[i] = new
        open(p, "w").write("\n".join(lines))
        rc, out = sh("cargo check --offline --quiet -p %s" % PKG, cwd=REPO, timeout=600)
        rel = os.path.relpath(p, SRC)
        if rc != 0:
            sh("git -C /repo checkout -- .")
            continue
        done += 1
        t0 = time.time()
        killed = None
        for c in ORDER:
            rc, out = sh("EV_RUN_TIMEOUT=240 ./check %s --tier quick" % c, cwd="/verif", timeout=1200)
            m = re.search(r"^VIOLATION.*$", out, re.M)
            if m:
                killed = (c, "no-failing-input" in m.group(0))
                break
        sh("git -C /repo checkout -- .")
        print(json.dumps({"file": rel, "line": i + 1, "kind": kind, "old": old.strip(), "new": new.strip(),
                          "killed_by": killed[0] if killed else None, "without_input": killed[1] if killed else None,
                          "secs": round(time.time() - t0)}), file=log, flush=True)
    print("sweep done", file=log, flush=True)


if __name__ == "__main__":
    main()
