#!/bin/bash
# usage: tools_try_mutant.sh <dir with patch.diff> <property> [more properties...]
# applies the patch to /repo, runs the given checks (quick), reverts; prints one line per check.
set -u
d=$1; shift
cd /verif
git -C /repo diff --quiet || { echo "repo not clean"; exit 2; }
git -C /repo apply "$d/patch.diff" || { echo "patch does not apply"; exit 2; }
for p in "$@"; do
  out=$(./check $p --tier quick 2>&1 | grep -E "^VIOLATION" | head -1)
  if [ -n "$out" ]; then echo "$p CAUGHT $out"; else echo "$p silent"; fi
done
git -C /repo checkout -- .
git -C /repo diff --quiet && echo "reverted"
