(* Minimal S-expressions for the case files *)
type t = A of string | L of t list

let parse (s : string) : t =
  let n = String.length s in
  let pos = ref 0 in
  let rec skip () = while !pos < n && (s.[!pos] = ' ' || s.[!pos] = '\t') do incr pos done
  and item () : t =
    skip ();
    if !pos >= n then failwith "sexp: eof"
    else if s.[!pos] = '(' then begin
      incr pos;
      let items = ref [] in
      let continue = ref true in
      while !continue do
        skip ();
        if !pos >= n then failwith "sexp: unclosed"
        else if s.[!pos] = ')' then (incr pos; continue := false)
        else items := item () :: !items
      done;
      L (List.rev !items)
    end else begin
      let st = !pos in
      while !pos < n && s.[!pos] <> ' ' && s.[!pos] <> '(' && s.[!pos] <> ')' do incr pos done;
      A (String.sub s st (!pos - st))
    end in
  item ()
