let () =
  match Array.to_list Sys.argv with
  | [_; "cursor"; file] -> let ic = open_in file in Cursor_drv.run ic; close_in ic
  | [_; "codec"; file] -> let ic = open_in file in Codec_drv.run ic; close_in ic
  | _ -> prerr_endline "usage: model_run <campaign> <casefile>"; exit 2
