(* Cursor campaign: run the extracted [ac_run]/[std_run] on histories.
   Input line:  <id> <U hex> <op>;<op>;...      ops: W:<hexbytes> R:<hex> SS:<hex> SC:<shex> SE:<shex> P:<hex>
   Output line: <id> ac|std <ret>|<pos>|<len>|<hexcontents>;...                                   *)
open Model
type string = Stdlib.String.t
open Util

let parse_op (s : string) : op =
  match String.index_opt s ':' with
  | None -> failwith ("bad op " ^ s)
  | Some i ->
    let k = String.sub s 0 i and a = String.sub s (i+1) (String.length s - i - 1) in
    (match k with
     | "W" -> OWrite (bytes_of_hex a)
     | "R" -> ORead (n_of_hex a)
     | "SS" -> OSeekStart (n_of_hex a)
     | "SC" -> OSeekCur (z_of_shex a)
     | "SE" -> OSeekEnd (z_of_shex a)
     | "P" -> OSetPos (n_of_hex a)
     | _ -> failwith ("bad op " ^ s))

let show_out = function
  | OutN x -> "n" ^ hex_of_n x
  | OutData l -> "d" ^ hex_of_bytes l
  | OutErr -> "err"
  | OutUnit -> "u"
  | OutPanic -> "PANIC"

let show_step (o, ((pos, len), bytes)) =
  Printf.sprintf "%s|%s|%s|%s" (show_out o) (hex_of_n pos) (hex_of_n len) (hex_of_bytes bytes)

let run ic =
  List.iter (fun line ->
    match String.split_on_char ' ' line with
    | [id; u; ops] ->
      let ops = List.map parse_op (split_on ';' ops) in
      let a = ac_run (n_of_hex u) ac_init ops and s = std_run sc_init ops in
      Printf.printf "%s ac %s\n" id (String.concat ";" (List.map show_step a));
      Printf.printf "%s std %s\n" id (String.concat ";" (List.map show_step s))
    | [id; u] ->
      ignore u; Printf.printf "%s ac \n%s std \n" id id
    | _ -> if line <> "" then failwith ("bad line " ^ line)) (read_lines ic)
