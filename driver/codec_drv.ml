(* Codec campaign, model side.
   Lines:  T <tid> <type>          declares a type
           C <cid> <tid> <th> <ah> <namehex> <val> <op> <op> ...
   Types and values are S-expressions (see gen/).  Output: one line per (case, op). *)
open Model
type string = Stdlib.String.t
open Util
open Sexp

let iprim_of = function
  | "u8" -> U8 | "u16" -> U16 | "u32" -> U32 | "u64" -> U64 | "u128" -> U128 | "usize" -> USize
  | "i8" -> I8 | "i16" -> I16 | "i32" -> I32 | "i64" -> I64 | "i128" -> I128 | "isize" -> ISize
  | s -> failwith ("iprim " ^ s)

let rkind_of = function
  | "range" -> RRange | "from" -> RFrom | "incl" -> RIncl | "to" -> RTo | "toincl" -> RToIncl
  | s -> failwith ("rkind " ^ s)

let name_of_hex h = if h = "-" then [] else bytes_of_hex h
let bool_of = function "1" -> true | "0" -> false | s -> failwith ("bool " ^ s)

let info_of = function
  | L [A "info"; A nm; A zc; A deep; L reprs; A al; L consts] ->
    { a_name = name_of_hex nm; a_zc = bool_of zc; a_deep = bool_of deep;
      a_reprs = List.map (function A r -> name_of_hex r | _ -> failwith "repr") reprs;
      a_align = n_of_hex al;
      a_consts = List.map (function L [A cn; A cf] -> { c_name = name_of_hex cn; c_feed = name_of_hex cf }
                                  | _ -> failwith "const") consts }
  | _ -> failwith "info"

let rec ty_of (s : Sexp.t) : ty =
  match s with
  | A "unit" -> TUnit | A "string" -> TString | A "boxstr" -> TBoxStr | A "rfull" -> TRangeFull
  | A "f32" -> TPrim PF32 | A "f64" -> TPrim PF64 | A "bool" -> TPrim PBool | A "char" -> TPrim PChar
  | A a when String.length a > 2 && String.sub a 0 2 = "nz" -> TPrim (PNZ (iprim_of (String.sub a 2 (String.length a - 2))))
  | A a -> TPrim (PInt (iprim_of a))
  | L [A "ph"; t] -> TPhantom (ty_of t)
  | L [A "vec"; t] -> TVec (ty_of t)
  | L [A "bslice"; t] -> TBoxSlice (ty_of t)
  | L [A "sref"; t] -> TSliceRef (ty_of t)
  | L [A "siter"; t] -> TSerIter (ty_of t)
  | L [A "arr"; A n; t] -> TArray (n_of_hex n, ty_of t)
  | L [A "tup"; A n; t] -> TTuple (n_of_hex n, ty_of t)
  | L [A "opt"; t] -> TOption (ty_of t)
  | L [A "bound"; t] -> TBound (ty_of t)
  | L [A "cf"; b; c] -> TCF (ty_of b, ty_of c)
  | L [A "range"; A k; t] -> TRange (rkind_of k, ty_of t)
  | L (A "struct" :: i :: fs) -> TStruct (info_of i, fields_of fs)
  | L (A "enum" :: i :: vs) -> TEnum (info_of i, variants_of vs)
  | _ -> failwith "ty"
and fields_of = function
  | [] -> FNil
  | L [A "f"; A nm; A isp; t] :: r -> FCons (name_of_hex nm, bool_of isp, ty_of t, fields_of r)
  | _ -> failwith "field"
and variants_of = function
  | [] -> VNil
  | L (A "v" :: A nm :: A named :: fs) :: r -> VCons (name_of_hex nm, bool_of named, fields_of fs, variants_of r)
  | _ -> failwith "variant"

let rec val_of (s : Sexp.t) : val0 =
  match s with
  | L [A "n"; A h] -> VN (n_of_hex h)
  | L [A "b"; A h] -> VBytes (name_of_hex h)
  | L (A "s" :: l) -> VSeq (List.map val_of l)
  | L (A "t" :: A k :: l) -> VTag (n_of_hex k, List.map val_of l)
  | _ -> failwith "val"

let rec show_val (v : val0) : string =
  match v with
  | VN x -> "n" ^ hex_of_n x
  | VBytes l -> "b" ^ hex_of_bytes l
  | VSeq l -> "[" ^ String.concat "," (List.map show_val l) ^ "]"
  | VTag (k, l) -> "t" ^ hex_of_n k ^ "[" ^ String.concat "," (List.map show_val l) ^ "]"
  | VRef (k, off, nb, cnt, x) ->
    let kc = (match k with RSlice -> "S" | RStr -> "T" | ROne -> "O") in
    if nb = N0 then Printf.sprintf "&%szst+0x%s:%s" kc (hex_of_n cnt) (show_val x)
    else Printf.sprintf "&%s%s+%sx%s:%s" kc (hex_of_n off) (hex_of_n nb) (hex_of_n cnt) (show_val x)

(* canonical text of an ε-copy type (vlib/tygen.py dty_sexp prints the same) *)
let iprim_name = function
  | U8 -> "u8" | U16 -> "u16" | U32 -> "u32" | U64 -> "u64" | U128 -> "u128" | USize -> "usize"
  | I8 -> "i8" | I16 -> "i16" | I32 -> "i32" | I64 -> "i64" | I128 -> "i128" | ISize -> "isize"
let rkind_name = function RRange -> "range" | RFrom -> "from" | RIncl -> "incl" | RTo -> "to" | RToIncl -> "toincl"
let hexname l = if l = [] then "-" else hex_of_bytes l
let rec show_own (t : ty) : string =
  match t with
  | TPrim (PInt i) -> iprim_name i
  | TPrim (PNZ i) -> "nz" ^ iprim_name i
  | TPrim PF32 -> "f32" | TPrim PF64 -> "f64" | TPrim PBool -> "bool" | TPrim PChar -> "char"
  | TUnit -> "unit" | TString -> "string" | TBoxStr -> "boxstr" | TRangeFull -> "rfull"
  | TPhantom t -> "(ph " ^ show_own t ^ ")"
  | TVec t -> "(vec " ^ show_own t ^ ")"
  | TBoxSlice t -> "(bslice " ^ show_own t ^ ")"
  | TSliceRef t -> "(sref " ^ show_own t ^ ")"
  | TSerIter t -> "(siter " ^ show_own t ^ ")"
  | TArray (n, t) -> "(arr " ^ hex_of_n n ^ " " ^ show_own t ^ ")"
  | TTuple (n, t) -> "(tup " ^ hex_of_n n ^ " " ^ show_own t ^ ")"
  | TOption t -> "(opt " ^ show_own t ^ ")"
  | TBound t -> "(bound " ^ show_own t ^ ")"
  | TCF (b, c) -> "(cf " ^ show_own b ^ " " ^ show_own c ^ ")"
  | TRange (k, t) -> "(range " ^ rkind_name k ^ " " ^ show_own t ^ ")"
  | TStruct (i, fs) -> "(struct " ^ hexname i.a_name ^ show_own_fields fs ^ ")"
  | TEnum (i, vs) -> "(enum " ^ hexname i.a_name ^ show_own_variants vs ^ ")"
and show_own_fields = function
  | FNil -> ""
  | FCons (_, _, t, r) -> " " ^ show_own t ^ show_own_fields r
and show_own_variants = function
  | VNil -> ""
  | VCons (_, _, fs, r) -> " (v" ^ show_own_fields fs ^ ")" ^ show_own_variants r
let rec show_dty (d : dty) : string =
  match d with
  | DOwn t -> show_own t
  | DRef t -> "(ref " ^ show_own t ^ ")"
  | DSliceOf t -> "(slice " ^ show_own t ^ ")"
  | DStr -> "str"
  | DVec d -> "(vec " ^ show_dty d ^ ")"
  | DBox d -> "(bslice " ^ show_dty d ^ ")"
  | DArr (n, d) -> "(arr " ^ hex_of_n n ^ " " ^ show_dty d ^ ")"
  | DOpt d -> "(opt " ^ show_dty d ^ ")"
  | DBnd d -> "(bound " ^ show_dty d ^ ")"
  | DCtl (b, c) -> "(cf " ^ show_dty b ^ " " ^ show_dty c ^ ")"
  | DRng (k, d) -> "(range " ^ rkind_name k ^ " " ^ show_dty d ^ ")"
  | DStruct (i, fs) -> "(struct " ^ hexname i.a_name ^ show_dfields fs ^ ")"
  | DEnum (i, vs) -> "(enum " ^ hexname i.a_name ^ show_dvariants vs ^ ")"
and show_dfields = function
  | DFNil -> ""
  | DFCons (d, r) -> " " ^ show_dty d ^ show_dfields r
and show_dvariants = function
  | DVNil -> ""
  | DVCons (fs, r) -> " (v" ^ show_dfields fs ^ ")" ^ show_dvariants r

let show_err = function
  | ReadError -> "ReadError" | AlignmentError -> "AlignmentError"
  | InvalidTag x -> "InvalidTag:" ^ hex_of_n x
  | MagicCookieError x -> "MagicCookieError:" ^ hex_of_n x
  | EndiannessError -> "EndiannessError"
  | MajorVersionMismatch x -> "MajorVersionMismatch:" ^ hex_of_n x
  | MinorVersionMismatch x -> "MinorVersionMismatch:" ^ hex_of_n x
  | UsizeSizeMismatch x -> "UsizeSizeMismatch:" ^ hex_of_n x
  | WrongTypeHash x -> "WrongTypeHash:" ^ hex_of_n x
  | WrongAlignHash x -> "WrongAlignHash:" ^ hex_of_n x

let show_res show = function
  | Ok ((v, rest), pos) -> Printf.sprintf "OK %s pos=%s rest=%d" (show v) (hex_of_n pos) (List.length rest)
  | Err e -> "ERR " ^ show_err e
  | Panic _ -> "PANIC"

let pf0 : n -> n = fun _ -> N0
let pfff : n -> n = fun _ -> n_of_int 255

let chunks_of (evs : event list) : string =
  let b = Buffer.create 64 in
  List.iter (function
      | EWrite l | EBlock (_, l) | EItem (_, l) -> Buffer.add_string b (string_of_int (List.length l)); Buffer.add_char b ','
      | EPad (_, k) -> Buffer.add_string b ("p" ^ string_of_int (int_of_n k)); Buffer.add_char b ','
      | EFlush -> Buffer.add_string b "F,"
      | _ -> ()) evs;
  Buffer.contents b

let masked_hex (b0 : n list) (b1 : n list) : string =
  let b = Buffer.create 256 in
  List.iter2 (fun x y -> if x = y then Buffer.add_string b (Printf.sprintf "%02x" (int_of_n x)) else Buffer.add_string b "xx") b0 b1;
  Buffer.contents b

let show_sout = function
  | SDone -> "OK"
  | SPanic _ -> "PANIC"
  | SErr (IteratorLengthMismatch (a, e)) -> Printf.sprintf "ERR IteratorLengthMismatch:%s:%s" (hex_of_n a) (hex_of_n e)

let show_rows (rs : row list) : string =
  String.concat ";" (List.map (fun r ->
      Printf.sprintf "%s|%s|%s|%s"
        (String.concat "." (List.map (fun nm -> String.concat "" (List.map (fun c -> String.make 1 (Char.chr (int_of_n c))) nm)) r.r_path))
        (hex_of_n r.r_off) (hex_of_n r.r_size) (hex_of_n r.r_align)) rs)

(* run-length encoded sequence of outcome codes *)
let rle (codes : string list) : string =
  let b = Buffer.create 64 in
  let rec go cur n = function
    | [] -> if n > 0 then Buffer.add_string b (Printf.sprintf "%s*%d " cur n)
    | c :: r -> if c = cur then go cur (n + 1) r
      else begin (if n > 0 then Buffer.add_string b (Printf.sprintf "%s*%d " cur n)); go c 1 r end in
  go "" 0 codes;
  Buffer.contents b

let code_of show = function
  | Ok ((v, _), _) -> "OK:" ^ show v
  | Err e -> "E:" ^ show_err e
  | Panic _ -> "P"

let rec take n l = if n = 0 then [] else match l with [] -> [] | x :: r -> x :: take (n - 1) r

let flip_bit (bytes : n list) (i : int) : n list =
  List.mapi (fun j b -> if j = i / 8 then n_of_int ((int_of_n b) lxor (1 lsl (i mod 8))) else b) bytes

let set_bytes (bytes : n list) (off : int) (nw : n list) : n list =
  let k = List.length nw in
  List.mapi (fun j b -> if j >= off && j < off + k then List.nth nw (j - off) else b) bytes

let sampled n step inclusive =
  let top = if inclusive then n + 1 else n in
  List.filter (fun k -> step <= 1 || k < 48 || k + 48 >= n || k mod step = 0) (List.init top (fun k -> k))

let types : (string, ty) Hashtbl.t = Hashtbl.create 256

let run_case cid t h v ops =
  let (evs, out) = ser_top pf0 h t v in
  let (evs1, _) = ser_top pfff h t v in
  let bytes = bytes_of evs in
  let dt = sertype t in
  List.iter (fun op ->
      match String.split_on_char ':' op with
      | ["ser"] ->
        Printf.printf "%s ser %s n=%s bytes=%s chunks=%s\n" cid (show_sout out) (hex_of_n (evs_len evs))
          (masked_hex bytes (bytes_of evs1)) (chunks_of evs)
      | ["full"] ->
        if out = SDone then
          Printf.printf "%s full %s\n" cid (show_res show_val (deser_full_top h dt bytes))
      | ["eps"; r] ->
        if out = SDone then
          Printf.printf "%s eps:%s %s\n" cid r (show_res show_val (deser_eps_top (n_of_hex r) h dt bytes))
      | ["dty"] ->
        Printf.printf "%s dty %s\n" cid (show_dty (dty_of dt))
      | ["alloc"; r] ->
        if out = SDone then
          (match deser_eps_top (n_of_hex r) h dt bytes with
           | Ok ((e, _), _) ->
             let skel_same = (alloc_eps dt (skel e) = alloc_eps dt e) in
             Printf.printf "%s alloc:%s counts=%s refs_in_blocks=%s skel=%s\n" cid r
               (String.concat "," (List.map hex_of_n (alloc_eps dt e)))
               (if not (deserializable t) then "na" else if List.for_all (fun x -> List.mem x (blocks_at N0 evs)) (refs e) then "y" else "n")
               (if skel_same then "y" else "n")
           | _ -> Printf.printf "%s alloc:%s none\n" cid r)
      | ["tinfo"] ->
        let b x = if x then "1" else "0" in
        Printf.printf "%s tinfo pow2=%s wf=%s wt=%s deser=%s exh=%s unit=%s need=%s cover=%s\n" cid (b (units_pow2 t)) (b (wf t)) (b (wt t v))
          (b (deserializable dt)) (b (exhausted_in t v)) (hex_of_n (unit_of dt)) (hex_of_n (need t v)) (b (units_cover t))
      | ["gold"; base; hexb] ->
        (* a stored file: decoded by the reference decoder with the header found in the file *)
        let b = bytes_of_hex hexb in
        let f = code_of show_val (deser_full_top h dt b)
        and e = code_of (fun v -> show_val (erase v)) (deser_eps_top (n_of_hex base) h dt b) in
        Printf.printf "%s gold full=%s eps=%s\n" cid f e
      | ["load"] ->
        (* the four loaders on the stored file, regions based at a page-aligned address *)
        if out = SDone then begin
          let b0 = n_of_hex "10000" in
          let one l = code_of (fun v -> show_val (erase v)) (load l b0 h dt bytes) in
          let cap l = hex_of_n (capacity l (evs_len evs)) in
          Printf.printf "%s load full=%s mem=%s lmmap=%s mmap=%s capmem=%s caplmmap=%s flags=%s\n" cid (one LFull) (one LMem) (one LMmap) (one LMap)
            (cap LMem) (cap LMmap)
            (String.concat "," (List.map (fun f -> Printf.sprintf "%d>%s" f (hex_of_n (mmap_flag_bits (n_of_int f)))) [0;1;2;3;4;5;6;7]))
        end
      | ["feed"] ->
        let hx l = if l = [] then "-" else hex_of_bytes l in
        Printf.printf "%s feed t=%s a=%s\n" cid (hx (tfeed dt)) (hx (align_feed dt))
      | ["sfeed"] ->
        let hx l = if l = [] then "-" else hex_of_bytes l in
        Printf.printf "%s sfeed t=%s a=%s\n" cid (hx (tfeed t)) (hx (align_feed t))
      | ["schema"] ->
        let rs = schema_of evs in
        if out = SDone then
          Printf.printf "%s schema %s rows=%s flush=%d csv=ok debug=%s\n" cid (show_sout out) (show_rows rs)
            (List.length (List.filter (fun e -> e = EFlush) evs))
            (if debug_ok (evs_len evs) rs then "ok" else "panic")
        else Printf.printf "%s schema %s\n" cid (show_sout out)
      | ["cuts"; base; step] ->
        (* every strict prefix, both modes: only the outcome class is kept *)
        if out = SDone then begin
          let nb = List.length bytes in
          let fc = ref [] and ec = ref [] in
          List.iter (fun k ->
            let pre = take k bytes in
            fc := (match deser_full_top h dt pre with Ok _ -> "OK" | Err e -> show_err e | Panic _ -> "P") :: !fc;
            ec := (match deser_eps_top (n_of_hex base) h dt pre with Ok _ -> "OK" | Err e -> show_err e | Panic _ -> "P") :: !ec)
            (List.rev (sampled nb (int_of_string step) false));
          Printf.printf "%s cuts:%s full=%s eps=%s\n" cid base (rle !fc) (rle !ec)
        end
      | ["flips"; base] ->
        (* every single-bit flip of the 29 fixed header bytes, reversed cookie, minor versions *)
        if out = SDone then begin
          let res = ref [] in
          let test tag bs =
            let f = code_of show_val (deser_full_top h dt bs) and e = code_of (fun v -> show_val (erase v)) (deser_eps_top (n_of_hex base) h dt bs) in
            res := (tag ^ "=" ^ (if f = e then f else f ^ "//" ^ e)) :: !res in
          for i = 0 to 29 * 8 - 1 do test (string_of_int i) (flip_bit bytes i) done;
          test "rev" (set_bytes bytes 0 (List.rev (take 8 bytes)));
          List.iter (fun m -> test ("minor" ^ string_of_int m) (set_bytes bytes 10 [n_of_int (m land 255); n_of_int (m lsr 8)]))
            [0; 1; 2; 255; 256; 65535];
          Printf.printf "%s flips:%s %s\n" cid base (String.concat " " (List.rev !res))
        end
      | ["tags"; base; counts] ->
        if out = SDone then begin
          let counts = List.map int_of_string (List.filter (fun x -> x <> "") (String.split_on_char ',' counts)) in
          let rs = schema_of evs in
          let last_is nm (r : row) = (match List.rev r.r_path with x :: _ -> x = nm | [] -> false) in
          let tagrows = List.filter (fun r -> (last_is n_Tag r && int_of_n r.r_size = 1) || (last_is n_tag r && int_of_n r.r_size = 8)) rs in
          if List.length tagrows <> List.length counts then
            Printf.printf "%s tags:%s TAGROWS-MISMATCH rows=%d expected=%d\n" cid base (List.length tagrows) (List.length counts)
          else begin
            let parts = List.map2 (fun (r : row) n ->
                let off = int_of_n r.r_off and size = int_of_n r.r_size in
                let nn = n_of_int n in
                let vals : n list =
                  if size = 1 then List.init (256 - n) (fun i -> n_of_int (n + i))
                  else List.filter (fun x -> Model.N.leb nn x)
                      [nn; n_of_int (n + 1); n_of_int 255; n_of_int 256; n_of_hex "100000000"; n_of_hex "8000000000000000"; n_of_hex "ffffffffffffffff"] in
                let codes = List.map (fun x ->
                    let m = set_bytes bytes off (le_bytes (if size = 1 then S O else S (S (S (S (S (S (S (S O)))))))) x) in
                    let f = code_of show_val (deser_full_top h dt m) and e = code_of (fun v -> show_val (erase v)) (deser_eps_top (n_of_hex base) h dt m) in
                    hex_of_n x ^ ">" ^ (if f = e then f else f ^ "//" ^ e)) vals in
                Printf.sprintf "@%x/%d:%s" off size (String.concat "," codes)) tagrows counts in
            Printf.printf "%s tags:%s %s\n" cid base (String.concat " " parts)
          end
        end
      | ["cross"; base; tidu; thu; ahu] ->
        if out = SDone then begin
          let tu = sertype (Hashtbl.find types tidu) in
          let hu = { h_type_hash = n_of_hex thu; h_align_hash = n_of_hex ahu; h_name = [] } in
          let f = code_of show_val (deser_full_top hu tu bytes)
          and e = code_of (fun v -> show_val (erase v)) (deser_eps_top (n_of_hex base) hu tu bytes) in
          Printf.printf "%s cross:%s full=%s eps=%s\n" cid tidu f e
        end
      | "wfault" :: wargs ->
        if out = SDone then begin
          let nb = List.length bytes in
          let rec nat_of i = if i = 0 then O else S (nat_of (i - 1)) in
          let fuel = nat_of (2 * nb + 64) in
          let is_prefix got = (List.length got <= nb) && (take (List.length got) bytes = got) in
          let code (got, r) =
            let pre = if is_prefix got then Printf.sprintf "p%d" (List.length got) else "NOTPREFIX" in
            (match r with
             | SROk _ -> "OK" | SRWriteError -> "WriteError" | SRPanic -> "PANIC"
             | SRIterMismatch (a, e) -> Printf.sprintf "IteratorLengthMismatch:%s:%s" (hex_of_n a) (hex_of_n e)
             | SRNoOutcome -> "NOOUTCOME") ^ "/" ^ pre in
          let step = (match List.rev wargs with st :: _ -> (try int_of_string st with _ -> 1) | [] -> 1) in
          let codes = List.map (fun k ->
              let c = code (run_fail_after (n_of_int k) fuel (evs, out)) in
              let want = if k < nb then Printf.sprintf "WriteError/p%d" k else Printf.sprintf "OK/p%d" nb in
              if c = want then "ok" else c) (sampled nb step true) in
          let extra = [
            "flush=" ^ code (run_flush_fail fuel (evs, out));
            "short1=" ^ code (run_short (n_of_int 1) N0 fuel (evs, out));
            "short3=" ^ code (run_short (n_of_int 3) N0 fuel (evs, out));
            "short7intr2=" ^ code (run_short (n_of_int 7) (n_of_int 2) fuel (evs, out));
            "bigintr3=" ^ code (run_short (n_of_int 1048576) (n_of_int 3) fuel (evs, out));
            "zero=" ^ code (run_zero_after (n_of_int (nb / 2)) fuel (evs, out)) ] in
          Printf.printf "%s wfault fails=%s %s\n" cid (rle codes) (String.concat " " extra)
        end
      | ["rfault"; stepstr] ->
        (* Deserialize::deserialize_full as a program over read_exact, run against the same
           fragmenting / interrupting / failing readers as the harness's FragReader *)
        if out = SDone then begin
          let nb = List.length bytes in
          let rec nat_of i = if i = 0 then O else S (nat_of (i - 1)) in
          let fuel = nat_of (2 * nb + 64) in
          let prog = prog_full_top h dt in
          let plain = (match deser_full_top h dt bytes with
              | Ok ((v, _), p) -> "OK " ^ show_val v ^ " pos=" ^ hex_of_n p
              | Err e -> "ERR " ^ show_err e | Panic _ -> "PANIC") in
          let reader sizes intr failat =
            let len = List.length sizes in
            let cut calls _ = n_of_int (List.nth sizes ((int_of_n calls + 1) mod len)) in
            let intrf calls = intr <> 0 && (int_of_n calls + 1) mod intr = 0 in
            stream_reader bytes cut intrf failat in
          let run sizes intr failat =
            let r = reader sizes intr failat in
            snd (run_io r fuel prog (Obj.magic (N0, N0)) N0) in
          let parts = List.map (fun (name, sizes, intr) ->
              let s = (match run sizes intr None with
                  | IOk (v, p) -> "OK " ^ show_val v ^ " pos=" ^ hex_of_n p
                  | IErr e -> "ERR " ^ show_err e | IPanic _ -> "PANIC" | INoOutcome -> "NOOUTCOME") in
              name ^ "=" ^ (if s = plain then "same" else "DIFFERENT"))
              [("one", [1], 0); ("three", [3], 0); ("primes", [2; 3; 5; 7; 11; 13], 0); ("mixintr", [1; 64; 2; 9], 2); ("bigintr", [1048576], 3)] in
          let step = (try int_of_string stepstr with _ -> 1) in
          let codes = List.map (fun k ->
              match run [5; 1; 9] 0 (Some (n_of_int k)) with
              | IOk _ -> "OK" | IErr e -> show_err e | IPanic _ -> "P" | INoOutcome -> "NOOUTCOME") (sampled nb step false) in
          Printf.printf "%s rfault %s fails=%s\n" cid (String.concat " " parts) (rle codes)
        end
      | ["place"; base] ->
        (* base address residues 0..127 *)
        if out = SDone then begin
          let b0 = n_of_hex base in
          let codes = List.init 128 (fun r ->
              match deser_eps_top (Model.N.add b0 (n_of_int r)) h dt bytes with
              | Ok _ -> "OK" | Err e -> show_err e | Panic _ -> "P") in
          Printf.printf "%s place:%s %s\n" cid base (rle codes)
        end
      | _ -> failwith ("op " ^ op)) ops

(* definitions before instantiation (Model/Generic.v): type expressions over the parameters *)
let rec nat_of_int i = if i <= 0 then O else S (nat_of_int (i - 1))
let rec texp_of (s : Sexp.t) : texp =
  match s with
  | L [A "p"; A i] -> EParam (nat_of_int (int_of_string i))
  | L [A "c"; t] -> EClosed (ty_of t)
  | L [A "ph"; e] -> EPhantom (texp_of e)
  | L [A "vec"; e] -> EVec (texp_of e)
  | L [A "bslice"; e] -> EBoxSlice (texp_of e)
  | L [A "arr"; A n; e] -> EArr (n_of_hex n, texp_of e)
  | L [A "opt"; e] -> EOpt (texp_of e)
  | _ -> failwith "texp"
let gfields_of l = List.map (function L [A "f"; A nm; e] -> (name_of_hex nm, texp_of e) | _ -> failwith "gfield") l
let gdef_of = function
  | L [A "gdef"; i; A n; A st; L fs; L vs] ->
    { g_info = info_of i; g_n = nat_of_int (int_of_string n); g_struct = bool_of st; g_fields = gfields_of fs;
      g_variants = List.map (function L (A "v" :: A nm :: A named :: fs) -> ((name_of_hex nm, bool_of named), gfields_of fs)
                                    | _ -> failwith "gvariant") vs }
  | _ -> failwith "gdef"

let run ic =
  List.iter (fun line ->
      if line <> "" then
        match String.split_on_char ' ' line with
        | "T" :: tid :: rest -> Hashtbl.replace types tid (ty_of (Sexp.parse (String.concat " " rest)))
        | "D" :: pid :: rest ->
          (* derive-time decision: D <pid> <info> <field type> ... *)
          (match Sexp.parse ("(" ^ String.concat " " rest ^ ")") with
           | L (i :: tys) ->
             let o = (match derive_check (info_of i) (List.map ty_of tys) with
                 | DAccept -> "DAccept" | DPanicNotReprC -> "DPanicNotReprC" | DPanicBoth -> "DPanicBoth" | DBoundError -> "DBoundError") in
             Printf.printf "%s derive %s\n" pid o
           | _ -> failwith "D line")
        | "G" :: gid :: tid :: rest ->
          (* G <gid> <tid of the instance, or - > <gdef> <argument type> ...: the grammar boundary, the
             instantiation and the parameter-level eps-copy arguments of Model/Generic.v *)
          (match Sexp.parse ("(" ^ String.concat " " rest ^ ")") with
           | L (g :: args) ->
             let d = gdef_of g and args = List.map ty_of args in
             let inst = if tid = "-" then "-" else if inst_def d args = Hashtbl.find types tid then "same" else "DIFFERS" in
             Printf.printf "%s gen wf=%s inst=%s dargs=%s\n" gid (if wf_gdef d then "1" else "0") inst
               (String.concat ";" (List.map show_dty (deser_args d args)))
           | _ -> failwith "G line")
        | "C" :: cid :: tid :: th :: ah :: nm :: rest ->
          let rest = String.concat " " rest in
          (* the value is the first S-expression, the ops follow *)
          let depth = ref 0 and i = ref 0 and fin = ref (-1) in
          while !fin < 0 do
            (match rest.[!i] with '(' -> incr depth | ')' -> decr depth; if !depth = 0 then fin := !i | _ -> ());
            incr i
          done;
          let vs = String.sub rest 0 (!fin + 1) in
          let ops = List.filter (fun s -> s <> "") (String.split_on_char ' ' (String.sub rest (!fin + 1) (String.length rest - !fin - 1))) in
          let t = Hashtbl.find types tid in
          let h = { h_type_hash = n_of_hex th; h_align_hash = n_of_hex ah; h_name = name_of_hex nm } in
          (try run_case cid t h (val_of (Sexp.parse vs)) ops
           with Stack_overflow -> Printf.printf "%s error stack-overflow\n" cid)
        | _ -> failwith ("bad line " ^ line)) (read_lines ic)
