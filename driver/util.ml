(* Conversions between OCaml data and the extracted inductive numbers; line/field parsing. *)
open Model
type string = Stdlib.String.t

let rec pos_of_int (i : int) : positive =
  if i = 1 then XH else if i land 1 = 1 then XI (pos_of_int (i lsr 1)) else XO (pos_of_int (i lsr 1))
let n_of_int (i : int) : n = if i = 0 then N0 else Npos (pos_of_int i)
let rec int_of_pos = function XH -> 1 | XO p -> 2 * int_of_pos p | XI p -> 2 * int_of_pos p + 1
let int_of_n = function N0 -> 0 | Npos p -> int_of_pos p

(* bits, least significant first *)
let rec bits_of_pos = function XH -> [true] | XO p -> false :: bits_of_pos p | XI p -> true :: bits_of_pos p
let bits_of_n = function N0 -> [] | Npos p -> bits_of_pos p
let rec pos_of_bits = function
  | [] -> None
  | b :: rest -> (match pos_of_bits rest with
                  | None -> if b then Some XH else None
                  | Some p -> Some (if b then XI p else XO p))
let n_of_bits bs = match pos_of_bits bs with None -> N0 | Some p -> Npos p

let hexdigit c = match c with
  | '0'..'9' -> Char.code c - 48 | 'a'..'f' -> Char.code c - 87 | 'A'..'F' -> Char.code c - 55
  | _ -> failwith ("bad hex digit " ^ String.make 1 c)

(* arbitrary-size hexadecimal *)
let n_of_hex (s : string) : n =
  let bits = ref [] in
  for i = String.length s - 1 downto 0 do
    let d = hexdigit s.[i] in
    bits := !bits @ [d land 1 = 1; d land 2 = 2; d land 4 = 4; d land 8 = 8]
  done;
  n_of_bits !bits

let hex_of_n (x : n) : string =
  let bs = Array.of_list (bits_of_n x) in
  let nb = Array.length bs in
  if nb = 0 then "0" else begin
    let nd = (nb + 3) / 4 in
    let b = Buffer.create nd in
    for d = nd - 1 downto 0 do
      let v = ref 0 in
      for k = 3 downto 0 do
        let i = 4 * d + k in
        v := 2 * !v + (if i < nb && bs.(i) then 1 else 0)
      done;
      Buffer.add_char b "0123456789abcdef".[!v]
    done;
    Buffer.contents b
  end

let z_of_shex (s : string) : z =
  if String.length s > 0 && s.[0] = '-' then
    (match n_of_hex (String.sub s 1 (String.length s - 1)) with N0 -> Z0 | Npos p -> Zneg p)
  else (match n_of_hex s with N0 -> Z0 | Npos p -> Zpos p)

let bytes_of_hex (s : string) : n list =
  let l = String.length s / 2 in
  List.init l (fun i -> n_of_int (16 * hexdigit s.[2*i] + hexdigit s.[2*i+1]))

let hex_of_bytes (l : n list) : string =
  let b = Buffer.create 64 in
  List.iter (fun x -> Buffer.add_string b (Printf.sprintf "%02x" (int_of_n x))) l;
  Buffer.contents b

let split_on c s = if s = "" then [] else String.split_on_char c s

let read_lines ic =
  let rec go acc = match input_line ic with
    | l -> go (l :: acc)
    | exception End_of_file -> List.rev acc in
  go []
