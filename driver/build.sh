#!/bin/bash
# Build the model driver from the freshly extracted model.ml (written by coq/Extract/Extract.v)
set -e
cd "$(dirname "$0")"
mkdir -p _build
cp model.ml model.mli util.ml sexp.ml cursor_drv.ml codec_drv.ml main.ml _build/
cd _build
ocamlfind ocamlopt -O3 -w -a model.mli model.ml util.ml sexp.ml cursor_drv.ml codec_drv.ml main.ml -o model_run 2>/dev/null || \
ocamlfind ocamlopt -w -a model.mli model.ml util.ml sexp.ml cursor_drv.ml codec_drv.ml main.ml -o model_run
