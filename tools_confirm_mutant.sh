#!/bin/bash
# usage: tools_confirm_mutant.sh Cxx   -- confirms /tmp/mut2/Cxx_out in a fresh scratch worktree:
# the patch applies to a clean checkout, the suite still passes (84), the demo fails with and passes without.
set -u
id=$1
out=${MUTDIR:-/tmp/mut2}/${id}_out
wt=/tmp/conf_$id
rm -rf $wt; git -C /repo worktree prune
git -C /repo worktree add -q --detach $wt HEAD || exit 2
cd $wt
git apply --check $out/patch.diff || { echo "$id: patch does not apply"; exit 2; }
git apply $out/patch.diff
files=$(git diff --name-only | tr '\n' ' ')
cp $out/seeded_demo.rs epserde/tests/seeded_demo.rs
if echo "$files" | grep -q epserde-derive; then printf '\n[patch.crates-io]\nepserde-derive = { path = "epserde-derive" }\n' >> Cargo.toml; fi
export CARGO_NET_OFFLINE=true CARGO_TARGET_DIR=${MUTDIR:-/tmp/mut2}/${id}_target
res=$(cargo test --workspace --no-fail-fast --offline 2>&1 | grep -E "^test result" | awk '{p+=$4; f+=$6} END {print p" passed "f" failed"}')
git checkout -q -- epserde/src epserde-derive/src
res2=$(cargo test --offline -p epserde --test seeded_demo 2>&1 | grep -E "^test result" | awk '{p+=$4; f+=$6} END {print p" passed "f" failed"}')
echo "$id files=[$files] with-change: $res | demo without change: $res2"
cd /; git -C /repo worktree remove --force $wt
