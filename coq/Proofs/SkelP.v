(* C03, allocation part, at the level of the serialized values: the allocation requests of an
   eps-copy deserialization are a function of the value with every sequence that is returned as a
   borrowed slice / str / reference forgotten. *)
Require Import EV.Base.Tac EV.Base.Bytes EV.Base.Res EV.Base.ListX.
Require Import EV.Model.Arith64 EV.Model.Types EV.Model.Layout EV.Model.Ser EV.Model.Deser EV.Model.Header EV.Model.Typing EV.Model.Need EV.Model.Derive.
Require Import EV.Proofs.Monads EV.Proofs.RoundTrip EV.Proofs.HeaderRT EV.Proofs.EpsRT EV.Proofs.EpsTop EV.Proofs.DeriveP.

Definition ref_hole (k : refkind) : val := VRef k 0 0 0 (VSeq []).

(* the deep-copy skeleton of a value of type [t]: what the eps-copy type borrows is forgotten *)
Fixpoint skel_of (t : ty) (v : val) {struct t} : val :=
  match t with
  | TString | TBoxStr => ref_hole RStr
  | TVec t' | TBoxSlice t' =>
      if is_zc t' then ref_hole RSlice else VSeq (List.map (skel_of t') (vseq_items v))
  | TArray _ t' => if is_zc t' then ref_hole ROne else VSeq (List.map (skel_of t') (vseq_items v))
  | TTuple _ _ => ref_hole ROne
  | TOption t' | TBound t' => VTag (vtag v) (List.map (skel_of t') (vseq_items v))
  | TCF b c => VTag (vtag v) (List.map (skel_of (if vtag v =? 0 then b else c)) (vseq_items v))
  | TRange k t' =>
      match k, vseq_items v with
      | RIncl, [s; e; x] => VSeq [skel_of t' s; skel_of t' e; x]
      | _, l => VSeq (List.map (skel_of t') l)
      end
  | TStruct i fs => if a_zc i then ref_hole ROne else VSeq (skel_of_fields fs (vseq_items v))
  | TEnum i vs => if a_zc i then ref_hole ROne else VTag (vtag v) (skel_of_variants vs (vtag v) (vseq_items v))
  | _ => v
  end
with skel_of_fields (fs : fields) (l : list val) {struct fs} : list val :=
  match fs, l with
  | FCons _ isp t r, x :: l' => (if isp then skel_of t x else x) :: skel_of_fields r l'
  | _, _ => []
  end
with skel_of_variants (vs : variants) (k : N) (l : list val) {struct vs} : list val :=
  match vs with
  | VNil => []
  | VCons _ _ fs r => if k =? 0 then skel_of_fields fs l else skel_of_variants r (k - 1) l
  end.

Lemma skel_noref : forall v, noref v = true -> skel v = v.
Proof.
  fix IH 1. intros v; destruct v as [n|b|l|k l|k o nb c x]; cbn [noref skel]; intros H; try reflexivity.
  - f_equal. induction l as [|a l IHl]; [reflexivity|].
    cbn [forallb] in H. apply andb_true_iff in H. destruct H as [H1 H2].
    cbn [List.map]. f_equal; [apply IH; exact H1 | apply IHl; exact H2].
  - f_equal. induction l as [|a l IHl]; [reflexivity|].
    cbn [forallb] in H. apply andb_true_iff in H. destruct H as [H1 H2].
    cbn [List.map]. f_equal; [apply IH; exact H1 | apply IHl; exact H2].
  - discriminate H.
Qed.

Lemma erase_noref : forall v, noref v = true -> erase v = v.
Proof.
  fix IH 1. intros v; destruct v as [n|b|l|k l|k o nb c x]; cbn [noref erase]; intros H; try reflexivity.
  - f_equal. induction l as [|a l IHl]; [reflexivity|].
    cbn [forallb] in H. apply andb_true_iff in H. destruct H as [H1 H2].
    cbn [List.map]. f_equal; [apply IH; exact H1 | apply IHl; exact H2].
  - f_equal. induction l as [|a l IHl]; [reflexivity|].
    cbn [forallb] in H. apply andb_true_iff in H. destruct H as [H1 H2].
    cbn [List.map]. f_equal; [apply IH; exact H1 | apply IHl; exact H2].
  - discriminate H.
Qed.

Lemma skel_erase_noref v : noref v = true -> skel v = erase v.
Proof. intros H. now rewrite skel_noref, erase_noref. Qed.

Lemma ref_at_skel base buf k t e : ref_at base buf k t e -> skel e = ref_hole k.
Proof.
  destruct e as [n|b|l|k' l|k' o nb c x]; cbn [ref_at]; intros H; try contradiction.
  destruct H as [-> _]. reflexivity.
Qed.

Lemma All_skel_map (P : val -> Prop) (f : val -> val) l :
  (forall x, P x -> skel x = f (erase x)) -> All P l ->
  List.map skel l = List.map f (List.map erase l).
Proof.
  intros Hf. induction l as [|a l IHl]; intros H; [reflexivity|].
  destruct H as [H1 H2]. cbn [List.map]. f_equal; [apply Hf; exact H1 | apply IHl; exact H2].
Qed.

Lemma skel_of_eps_all :
  (forall t base buf e, eps_ok base buf (dty_of t) e -> skel e = skel_of t (erase e)) /\
  (forall fs base buf l, eps_ok_fields base buf (dty_fields fs) l ->
     List.map skel l = skel_of_fields fs (List.map erase l)) /\
  (forall vs base buf k l, eps_ok_variants base buf (dty_variants vs) k l ->
     List.map skel l = skel_of_variants vs k (List.map erase l)).
Proof.
  apply ty_fields_variants_ind.
  - (* TPrim *) intros p base buf e H. cbn [dty_of eps_ok] in H. cbn [skel_of]. now apply skel_erase_noref.
  - (* TUnit *) intros base buf e H. cbn [dty_of eps_ok] in H. cbn [skel_of]. now apply skel_erase_noref.
  - (* TPhantom *) intros t IH base buf e H. cbn [dty_of eps_ok] in H. cbn [skel_of]. now apply skel_erase_noref.
  - (* TString *) intros base buf e H. cbn [dty_of eps_ok] in H. cbn [skel_of]. exact (ref_at_skel _ _ _ _ _ H).
  - (* TBoxStr *) intros base buf e H. cbn [dty_of eps_ok] in H. cbn [skel_of]. exact (ref_at_skel _ _ _ _ _ H).
  - (* TVec *) intros t IH base buf e H. cbn [dty_of] in H. cbn [skel_of].
    destruct (is_zc t) eqn:Ez; cbn [eps_ok] in H.
    + exact (ref_at_skel _ _ _ _ _ H).
    + destruct e as [n|b|l|k' l|k' o nb c x]; try contradiction.
      cbn [skel erase vseq_items]. f_equal.
      apply (All_skel_map (eps_ok base buf (dty_of t))); [intros x Hx; exact (IH _ _ _ Hx) | exact H].
  - (* TBoxSlice *) intros t IH base buf e H. cbn [dty_of] in H. cbn [skel_of].
    destruct (is_zc t) eqn:Ez; cbn [eps_ok] in H.
    + exact (ref_at_skel _ _ _ _ _ H).
    + destruct e as [n|b|l|k' l|k' o nb c x]; try contradiction.
      cbn [skel erase vseq_items]. f_equal.
      apply (All_skel_map (eps_ok base buf (dty_of t))); [intros x Hx; exact (IH _ _ _ Hx) | exact H].
  - (* TSliceRef *) intros t IH base buf e H. cbn [dty_of eps_ok] in H. cbn [skel_of]. now apply skel_erase_noref.
  - (* TSerIter *) intros t IH base buf e H. cbn [dty_of eps_ok] in H. cbn [skel_of]. now apply skel_erase_noref.
  - (* TArray *) intros n t IH base buf e H. cbn [dty_of] in H. cbn [skel_of].
    destruct (is_zc t) eqn:Ez; cbn [eps_ok] in H.
    + exact (ref_at_skel _ _ _ _ _ H).
    + destruct e as [n'|b|l|k' l|k' o nb c x]; try contradiction.
      destruct H as [_ H].
      cbn [skel erase vseq_items]. f_equal.
      apply (All_skel_map (eps_ok base buf (dty_of t))); [intros x Hx; exact (IH _ _ _ Hx) | exact H].
  - (* TTuple *) intros n t IH base buf e H. cbn [dty_of eps_ok] in H. cbn [skel_of]. exact (ref_at_skel _ _ _ _ _ H).
  - (* TOption *) intros t IH base buf e H. cbn [dty_of eps_ok] in H. cbn [skel_of].
    destruct e as [n'|b|l|k' l|k' o nb c x]; try contradiction.
    destruct k' as [|[p|p|]]; try contradiction.
    + destruct l as [|x l]; [reflexivity|contradiction].
    + destruct l as [|x [|y l]]; try contradiction.
      cbn [skel erase vseq_items vtag List.map]. now rewrite (IH _ _ _ H).
  - (* TBound *) intros t IH base buf e H. cbn [dty_of eps_ok] in H. cbn [skel_of].
    destruct e as [n'|b|l|k' l|k' o nb c x]; try contradiction.
    destruct k' as [|[p|[p|p|]|]]; try contradiction.
    + destruct l as [|x l]; [reflexivity|contradiction].
    + destruct l as [|x [|y l]]; try contradiction.
      cbn [skel erase vseq_items vtag List.map]. now rewrite (IH _ _ _ H).
    + destruct l as [|x [|y l]]; try contradiction.
      cbn [skel erase vseq_items vtag List.map]. now rewrite (IH _ _ _ H).
  - (* TCF *) intros b IHb c IHc base buf e H. cbn [dty_of eps_ok] in H. cbn [skel_of].
    destruct e as [n'|b'|l|k' l|k' o nb c' x]; try contradiction.
    destruct k' as [|[p|p|]]; try contradiction.
    + destruct l as [|x [|y l]]; try contradiction.
      cbn [skel erase vseq_items vtag List.map]. change (0 =? 0) with true. cbv iota.
      now rewrite (IHb _ _ _ H).
    + destruct l as [|x [|y l]]; try contradiction.
      cbn [skel erase vseq_items vtag List.map]. change (1 =? 0) with false. cbv iota.
      now rewrite (IHc _ _ _ H).
  - (* TRange *) intros k t IH base buf e H. cbn [dty_of eps_ok] in H. cbn [skel_of].
    destruct k; destruct e as [n'|b'|l|k' l|k' o nb c' x]; try contradiction.
    + destruct l as [|s [|x [|y l]]]; try contradiction. destruct H as [H1 H2].
      cbn [skel erase vseq_items List.map]. now rewrite (IH _ _ _ H1), (IH _ _ _ H2).
    + destruct l as [|s [|y l]]; try contradiction.
      cbn [skel erase vseq_items List.map]. now rewrite (IH _ _ _ H).
    + destruct l as [|s [|x [|y [|z l]]]]; try contradiction. destruct H as (H1 & H2 & H3).
      cbn [skel erase vseq_items List.map].
      now rewrite (IH _ _ _ H1), (IH _ _ _ H2), (skel_noref _ H3), (erase_noref _ H3).
    + destruct l as [|s [|y l]]; try contradiction.
      cbn [skel erase vseq_items List.map]. now rewrite (IH _ _ _ H).
    + destruct l as [|s [|y l]]; try contradiction.
      cbn [skel erase vseq_items List.map]. now rewrite (IH _ _ _ H).
  - (* TRangeFull *) intros base buf e H. cbn [dty_of eps_ok] in H. cbn [skel_of]. now apply skel_erase_noref.
  - (* TStruct *) intros i fs IH base buf e H. cbn [dty_of] in H. cbn [skel_of].
    destruct (a_zc i) eqn:Ez; cbn [eps_ok] in H.
    + exact (ref_at_skel _ _ _ _ _ H).
    + destruct e as [n'|b|l|k' l|k' o nb c x]; try contradiction.
      cbn [skel erase vseq_items]. f_equal. exact (IH _ _ _ H).
  - (* TEnum *) intros i vs IH base buf e H. cbn [dty_of] in H. cbn [skel_of].
    destruct (a_zc i) eqn:Ez; cbn [eps_ok] in H.
    + exact (ref_at_skel _ _ _ _ _ H).
    + destruct e as [n'|b|l|k' l|k' o nb c x]; try contradiction.
      cbn [skel erase vseq_items vtag]. f_equal. exact (IH _ _ _ _ H).
  - (* FNil *) intros base buf l H. cbn [dty_fields eps_ok_fields] in H.
    destruct l; [reflexivity|contradiction].
  - (* FCons *) intros nm isp t IHt r IHr base buf l H. cbn [dty_fields eps_ok_fields] in H.
    destruct l as [|x l]; [contradiction|]. destruct H as [H1 H2].
    cbn [List.map skel_of_fields]. f_equal; [|exact (IHr _ _ _ H2)].
    destruct isp; [exact (IHt _ _ _ H1)|]. cbn [eps_ok] in H1. now apply skel_erase_noref.
  - (* VNil *) intros base buf k l H. cbn [dty_variants eps_ok_variants] in H. contradiction.
  - (* VCons *) intros nm named fs IHf r IHr base buf k l H. cbn [dty_variants eps_ok_variants] in H.
    cbn [skel_of_variants]. destruct (k =? 0) eqn:Ek; [exact (IHf _ _ _ H) | exact (IHr _ _ _ _ H)].
Qed.

(* the skeleton of a typed eps-copy result is the skeleton of the value it describes *)
Theorem skel_of_eps_result : forall t base buf e,
  eps_ok base buf (dty_of t) e -> skel e = skel_of t (erase e).
Proof. exact (proj1 skel_of_eps_all). Qed.

(* two eps-copy results (of any two buffers) describing values with the same deep-copy skeleton
   request the same allocations *)
Theorem alloc_eps_same_value_skeleton : forall t base buf e base' buf' e',
  eps_ok base buf (dty_of t) e -> eps_ok base' buf' (dty_of t) e' ->
  skel_of t (erase e) = skel_of t (erase e') ->
  alloc_eps t e = alloc_eps t e'.
Proof.
  intros t base buf e base' buf' e' H H' Hs.
  apply alloc_eps_same_skeleton.
  now rewrite (skel_of_eps_result _ _ _ _ H), (skel_of_eps_result _ _ _ _ H').
Qed.

(* for serialized values: same skeleton, any lengths and contents of the borrowed sequences =>
   the two deserializations request exactly the same allocations *)
Theorem alloc_independent_of_borrowed_lengths :
  forall (base base' : N) (pf pf' : padfill) (h : hdr) (t : ty) (v v' : val) (evs evs' : list event),
    hdr_ok h ->
    wf t = true -> units_pow2 t = true -> units_cover t = true -> deserializable t = true ->
    wt t v = true -> exhausted_in t v = false -> wt t v' = true -> exhausted_in t v' = false ->
    ser_top pf h t v = (evs, SDone) -> ser_top pf' h t v' = (evs', SDone) ->
    base mod max_unit t = 0 -> base' mod max_unit t = 0 ->
    skel_of t v = skel_of t v' ->
    exists e e', deser_eps_top base h t (bytes_of evs) = Ok (e, [], evs_len evs) /\
                 deser_eps_top base' h t (bytes_of evs') = Ok (e', [], evs_len evs') /\
                 alloc_eps t e = alloc_eps t e'.
Proof.
  intros base base' pf pf' h t v v' evs evs' Hh Hw Hu Hc Hd Ht He Ht' He' Hs Hs' Hb Hb' Hsk.
  destruct (eps_roundtrip_top base pf h t v evs Hh Hw Hu Hc Hd Ht He Hs Hb) as (e & D & E).
  destruct (eps_roundtrip_top base' pf' h t v' evs' Hh Hw Hu Hc Hd Ht' He' Hs' Hb') as (e' & D' & E').
  exists e, e'. split; [exact D|]. split; [exact D'|].
  destruct (eps_top_ok _ _ _ _ _ _ _ D) as (T & _).
  destruct (eps_top_ok _ _ _ _ _ _ _ D') as (T' & _).
  apply (alloc_eps_same_value_skeleton t _ _ e _ _ e' T T').
  now rewrite E, E'.
Qed.
