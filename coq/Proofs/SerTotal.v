(* Serialization of a well-typed value of a well-formed type never panics and never errs. *)
Require Import EV.Base.Tac EV.Base.Bytes EV.Base.Res EV.Base.ListX.
Require Import EV.Model.Arith64 EV.Model.Types EV.Model.Layout EV.Model.Ser EV.Model.Deser EV.Model.Header EV.Model.Typing.
Require Import EV.Proofs.Pad EV.Proofs.Monads EV.Proofs.LayoutRT EV.Proofs.RoundTrip.

Definition SOK (w : Wr) : Prop := forall pos, snd (w pos) = SDone.

Lemma SOK_done : SOK wdone. Proof. intros pos. reflexivity. Qed.
Lemma SOK_ev e : SOK (wev e). Proof. intros pos. reflexivity. Qed.
Lemma SOK_seq a b : SOK a -> SOK b -> SOK (a ;; b).
Proof.
  intros Ha Hb pos. unfold wseq. specialize (Ha pos). destruct (a pos) as [ea oa]. cbn [snd] in Ha. subst oa.
  specialize (Hb (pos + evs_len ea)). destruct (b (pos + evs_len ea)) as [eb ob]. exact Hb.
Qed.
Lemma SOK_field nm t w : SOK w -> SOK (wfield nm t w).
Proof. intros H. unfold wfield. repeat apply SOK_seq; auto using SOK_ev. Qed.
Local Opaque wfield.

Lemma SOK_align u : u <> 0 -> SOK (walign u).
Proof.
  intros Hu pos. unfold walign. destruct (N.eqb_spec u 0); [contradiction|].
  destruct (pad_align_to pos u =? 0); reflexivity.
Qed.
Lemma SOK_fun f : (forall pos, snd (f pos) = SDone) -> SOK f.
Proof. auto. Qed.
Lemma SOK_usize nm n : SOK (wusize nm n).
Proof. apply SOK_field, SOK_ev. Qed.
Lemma SOK_u8 nm n : SOK (wu8 nm n).
Proof. apply SOK_field, SOK_ev. Qed.
Lemma SOK_list f nm t l : (forall x, In x l -> SOK (f x)) -> SOK (wlist f nm t l).
Proof.
  induction l as [|x l IH]; intros H; cbn [wlist]; [apply SOK_done|].
  apply SOK_seq; [apply SOK_field, H; now left|apply IH; intros y Hy; apply H; now right].
Qed.
Lemma SOK_items pf t l : SOK (witems pf t l).
Proof.
  induction l as [|x l IH]; cbn [witems]; [apply SOK_done|].
  apply SOK_seq; [intros pos; reflexivity|exact IH].
Qed.

Lemma is_pow2_nz n : is_pow2 n = true -> n <> 0.
Proof. unfold is_pow2. intros H. split_and. lia. Qed.

Lemma SOK_zero pf t v : zc_ok t = true -> wf t = true -> SOK (wzero pf t v).
Proof.
  intros Hz Hw. unfold wzero. rewrite (proj1 zc_const_of_ok t Hz Hw).
  apply SOK_seq; [apply SOK_align, unit_of_nz|intros pos; reflexivity].
Qed.

Lemma SOK_slice_zero pf t l : zc_ok t = true -> wf t = true -> SOK (wslice_zero pf t l).
Proof.
  intros Hz Hw. unfold wslice_zero. rewrite (proj1 zc_const_of_ok t Hz Hw).
  repeat apply SOK_seq; [apply SOK_usize|apply SOK_align, unit_of_nz|intros pos; reflexivity].
Qed.

Lemma SOK_bytes l : SOK (wbytes_zero l).
Proof. unfold wbytes_zero. repeat apply SOK_seq; [apply SOK_usize|apply SOK_align; lia|apply SOK_ev]. Qed.

(* an honest SerIter: the announced length is the number of items *)
Fixpoint honest (t : ty) (v : val) {struct t} : bool :=
  match t with
  | TSerIter _ => nlen (vseq_items v) =? vtag v
  | TVec t' | TBoxSlice t' | TSliceRef t' | TArray _ t' =>
      if is_zc t' then true else forallb (honest t') (vseq_items v)
  | TOption t' | TBound t' => forallb (honest t') (vseq_items v)
  | TCF b c => if vtag v =? 0 then forallb (honest b) (vseq_items v) else forallb (honest c) (vseq_items v)
  | TStruct i fs => if a_zc i then true else honest_fields fs (vseq_items v)
  | TEnum i vs => if a_zc i then true else honest_variants vs (vtag v) (vseq_items v)
  | _ => true
  end
with honest_fields (fs : fields) (l : list val) {struct fs} : bool :=
  match fs with
  | FNil => true
  | FCons _ _ t r => honest t (hd (VSeq []) l) && honest_fields r (tl l)
  end
with honest_variants (vs : variants) (k : N) (l : list val) {struct vs} : bool :=
  match vs with
  | VNil => true
  | VCons _ _ fs r => if k =? 0 then honest_fields fs l else honest_variants r (k - 1) l
  end.

Theorem ser_total :
  (forall t pf v, wf t = true -> wt t v = true -> honest t v = true -> SOK (ser pf t v)) /\
  (forall fs pf named vals, wf_fields fs = true -> wt_fields fs vals = true ->
     honest_fields fs vals = true -> SOK (ser_fields pf named fs vals)) /\
  (forall vs pf k vals, wf_variants vs = true -> wt_variants vs k vals = true ->
     honest_variants vs k vals = true -> SOK (ser_variants pf vs k vals)).
Proof.
  apply ty_fields_variants_ind.
  - intros p pf v Hw Ht Hh. cbn [ser]. apply SOK_ev.
  - intros pf v Hw Ht Hh. cbn [ser]. apply SOK_done.
  - intros t IH pf v Hw Ht Hh. cbn [ser]. apply SOK_done.
  - intros pf v Hw Ht Hh. cbn [wt] in Ht. destruct v; try discriminate. cbn [ser]. apply SOK_bytes.
  - intros pf v Hw Ht Hh. cbn [wt] in Ht. destruct v; try discriminate. cbn [ser]. apply SOK_bytes.
  - (* Vec *)
    intros t IH pf v Hw Ht Hh. cbn [wt] in Ht. destruct v as [| |l| |]; try discriminate.
    cbn [wf honest vseq_items] in Hw, Hh. split_and. cbn [ser vseq_items].
    destruct (is_zc t) eqn:Ez.
    + apply SOK_slice_zero; assumption.
    + apply SOK_seq; [apply SOK_usize|]. apply SOK_list. intros x Hx.
      apply IH; try assumption; eapply forallb_In; eassumption.
  - (* BoxSlice *)
    intros t IH pf v Hw Ht Hh. cbn [wt] in Ht. destruct v as [| |l| |]; try discriminate.
    cbn [wf honest vseq_items] in Hw, Hh. split_and. cbn [ser vseq_items].
    destruct (is_zc t) eqn:Ez.
    + apply SOK_slice_zero; assumption.
    + apply SOK_seq; [apply SOK_usize|]. apply SOK_list. intros x Hx.
      apply IH; try assumption; eapply forallb_In; eassumption.
  - (* SliceRef *)
    intros t IH pf v Hw Ht Hh. cbn [wt] in Ht. destruct v as [| |l| |]; try discriminate.
    cbn [wf honest vseq_items] in Hw, Hh. split_and. cbn [ser vseq_items].
    apply SOK_seq; [apply SOK_seq; [apply SOK_ev|]|apply SOK_ev].
    destruct (is_zc t) eqn:Ez.
    + apply SOK_slice_zero; assumption.
    + apply SOK_seq; [apply SOK_usize|]. apply SOK_list. intros x Hx.
      apply IH; try assumption; eapply forallb_In; eassumption.
  - (* SerIter *)
    intros t IH pf v Hw Ht Hh. cbn [wt] in Ht. destruct v as [| | |k l|]; try discriminate.
    cbn [wf honest vseq_items vtag] in Hw, Hh. split_and. cbn [ser vseq_items vtag].
    rewrite (proj1 zc_const_of_ok t) by assumption.
    repeat apply SOK_seq; [apply SOK_usize|apply SOK_align, unit_of_nz|apply SOK_items|].
    intros pos. rewrite Hh. reflexivity.
  - (* Array *)
    intros n t IH pf v Hw Ht Hh.
    pose proof Hw as Hw0. cbn [wt] in Ht. destruct v as [| |l| |]; try discriminate.
    cbn [wf honest vseq_items] in Hw, Hh. split_and. cbn [ser vseq_items].
    destruct (is_zc t) eqn:Ez.
    + apply SOK_zero; try assumption.
    + apply SOK_list. intros x Hx. apply IH; try assumption; eapply forallb_In; eassumption.
  - (* Tuple *)
    intros n t IH pf v Hw Ht Hh. pose proof Hw as Hw0.
    cbn [wf] in Hw. split_and. cbn [ser].
    apply SOK_zero; try assumption.
  - (* Option *)
    intros t IH pf v Hw Ht Hh. cbn [wt] in Ht. destruct v as [| | |k l|]; try discriminate.
    cbn [wf honest vseq_items vtag] in Hw, Hh. split_and. cbn [ser vseq_items vtag].
    destruct l as [|x [|y l]]; try discriminate.
    + apply N.eqb_eq in Ht. subst k. apply SOK_u8.
    + split_and. match goal with H : (k =? 1) = true |- _ => apply N.eqb_eq in H; subst k end.
      cbn [forallb hd] in *. split_and.
      apply SOK_seq; [apply SOK_u8|apply SOK_field, IH; assumption].
  - (* Bound *)
    intros t IH pf v Hw Ht Hh. cbn [wt] in Ht. destruct v as [| | |k l|]; try discriminate.
    cbn [wf honest vseq_items vtag] in Hw, Hh. split_and. cbn [ser vseq_items vtag].
    destruct l as [|x [|y l]]; try discriminate.
    + apply N.eqb_eq in Ht. subst k. apply SOK_u8.
    + split_and. cbn [forallb hd] in *. split_and.
      match goal with H : (k =? 1) || (k =? 2) = true |- _ => apply orb_true_iff in H; destruct H as [H|H]; apply N.eqb_eq in H; subst k end;
        (apply SOK_seq; [apply SOK_u8|apply SOK_field, IH; assumption]).
  - (* CF *)
    intros b IHb c IHc pf v Hw Ht Hh. cbn [wt] in Ht.
    destruct v as [| | |k [|x [|y l]]|]; try discriminate.
    cbn [wf honest vseq_items vtag] in Hw, Hh. split_and. cbn [ser vseq_items vtag hd].
    destruct (N.eqb_spec k 0) as [->|Hk].
    + cbn [forallb] in Hh. split_and. apply SOK_seq; [apply SOK_u8|apply SOK_field, IHb; assumption].
    + split_and. match goal with H : (k =? 1) = true |- _ => apply N.eqb_eq in H; subst k end.
      cbn [forallb] in Hh. split_and. apply SOK_seq; [apply SOK_u8|apply SOK_field, IHc; assumption].
  - (* Range *)
    intros k t IH pf v Hw Ht Hh. cbn [wt] in Ht. destruct v as [| |l| |]; try discriminate.
    cbn [wf] in Hw. split_and.
    assert (Hh' : forall x, honest t x = true).
    { intros x.
      match goal with H : zc_ok t = true |- _ => rename H into Hzc end.
      clear - Hzc. destruct t; cbn [zc_ok honest] in *; try reflexivity; try discriminate.
      - now rewrite (zc_ok_is_zc _ Hzc).
      - apply andb_true_iff in Hzc. destruct Hzc as [-> _]. reflexivity.
      - apply andb_true_iff in Hzc. destruct Hzc as [-> _]. reflexivity. }
    cbn [ser vseq_items].
    destruct k.
    + destruct l as [|s [|e [|z l]]]; try discriminate. split_and. cbn [hd tl].
      apply SOK_seq; apply SOK_field, IH; auto.
    + destruct l as [|s [|e l]]; try discriminate. cbn [hd tl]. apply SOK_field, IH; auto.
    + destruct l as [|s [|e [|z l]]]; try discriminate.
      destruct z as [x| | | |]; try (destruct l; discriminate). destruct l; try discriminate.
      split_and. cbn [hd tl].
      repeat apply SOK_seq; try (apply SOK_field, IH; auto). apply SOK_field, SOK_ev.
    + destruct l as [|e [|z l]]; try discriminate. cbn [hd tl]. apply SOK_field, IH; auto.
    + destruct l as [|e [|z l]]; try discriminate. cbn [hd tl]. apply SOK_field, IH; auto.
  - intros pf v Hw Ht Hh. cbn [ser]. apply SOK_done.
  - (* Struct *)
    intros i fs IH pf v Hw Ht Hh. pose proof Hw as Hw0.
    cbn [wt] in Ht. destruct v as [| |l| |]; try discriminate.
    cbn [wf honest vseq_items] in Hw, Hh. split_and. cbn [ser vseq_items].
    destruct (a_zc i) eqn:Ez.
    + split_and. apply SOK_zero; try assumption. cbn [zc_ok]. rewrite Ez. assumption.
    + apply IH; assumption.
  - (* Enum *)
    intros i vs IH pf v Hw Ht Hh. pose proof Hw as Hw0.
    cbn [wt] in Ht. destruct v as [| | |k l|]; try discriminate.
    cbn [wf honest vseq_items vtag] in Hw, Hh. split_and. cbn [ser vseq_items vtag].
    destruct (a_zc i) eqn:Ez.
    + split_and. apply SOK_zero; try assumption. cbn [zc_ok]. rewrite Ez. assumption.
    + apply SOK_seq; [apply SOK_usize|apply IH; assumption].
  - intros pf named vals Hw Ht Hh. cbn [ser_fields]. apply SOK_done.
  - intros nm isp t IHt r IHr pf named vals Hw Ht Hh.
    cbn [wt_fields] in Ht. destruct vals as [|x vals]; try discriminate.
    cbn [wf_fields honest_fields hd tl] in Hw, Hh. split_and.
    cbn [ser_fields hd tl]. apply SOK_seq; [apply SOK_field, IHt; assumption|apply IHr; assumption].
  - intros pf k vals Hw Ht Hh. cbn [ser_variants]. apply SOK_done.
  - intros nm named fs IHf r IHr pf k vals Hw Ht Hh.
    cbn [wt_variants honest_variants] in Ht, Hh.
    cbn [wf_variants] in Hw. split_and. cbn [ser_variants].
    destruct (k =? 0); [apply IHf|apply IHr]; assumption.
Qed.

Theorem ser_top_total pf h t v :
  wf t = true -> wt t v = true -> honest t v = true ->
  snd (ser_top pf h t v) = SDone.
Proof.
  intros Hw Ht Hh. unfold ser_top, header_w.
  repeat apply SOK_seq; try apply SOK_field; try apply SOK_ev; try apply SOK_bytes.
  now apply (proj1 ser_total).
Qed.
