(* C13 / C14: serialization against an arbitrary writer, read_exact against fragmenting and
   failing readers. *)
Require Import EV.Base.Tac EV.Base.Bytes EV.Base.Res EV.Base.ListX.
Require Import EV.Model.Arith64 EV.Model.Types EV.Model.Layout EV.Model.Ser EV.Model.Deser EV.Model.IO.
Require Import EV.Proofs.Monads.

Definition is_prefix {A} (a b : list A) : Prop := exists c, b = a ++ c.

(* ------------------------------------------------------------------ C13 *)

(* write_all extends the accepted bytes by a prefix of the buffer, by all of it exactly when it
   returns Ok *)
Lemma wspec_stay (acc buf : list byte) (o : wout) :
  o <> WOk ->
  exists taken, acc = acc ++ taken /\ is_prefix taken buf /\ (o = WOk -> taken = buf).
Proof.
  intros Ho. exists []. split; [now rewrite app_nil_r|]. split; [now exists buf|].
  intros E. now destruct Ho.
Qed.

Lemma wspec_seq (acc acc1 acc2 b1 b2 : list byte) (o : wout) :
  (exists t1, acc1 = acc ++ t1 /\ is_prefix t1 b1 /\ (WOk = WOk -> t1 = b1)) ->
  (exists t2, acc2 = acc1 ++ t2 /\ is_prefix t2 b2 /\ (o = WOk -> t2 = b2)) ->
  exists t, acc2 = acc ++ t /\ is_prefix t (b1 ++ b2) /\ (o = WOk -> t = b1 ++ b2).
Proof.
  intros (t1 & E1 & _ & F1) (t2 & E2 & (c & P2) & F2).
  specialize (F1 eq_refl). subst t1.
  exists (b1 ++ t2). split; [subst; now rewrite app_assoc|]. split.
  - exists c. subst b2. now rewrite app_assoc.
  - intros Ho. now rewrite (F2 Ho).
Qed.

Lemma wspec_stop (acc acc1 b1 b2 : list byte) (o : wout) :
  o <> WOk ->
  (exists t1, acc1 = acc ++ t1 /\ is_prefix t1 b1 /\ (o = WOk -> t1 = b1)) ->
  exists t, acc1 = acc ++ t /\ is_prefix t (b1 ++ b2) /\ (o = WOk -> t = b1 ++ b2).
Proof.
  intros Ho (t1 & E1 & (c & P1) & _). exists t1. split; [exact E1|]. split.
  - exists (c ++ b2). subst b1. now rewrite app_assoc.
  - intros E. now destruct Ho.
Qed.

Theorem write_all_spec w fuel s buf acc s' acc' o :
  write_all w fuel s buf acc = (s', acc', o) ->
  exists taken, acc' = acc ++ taken /\ is_prefix taken buf /\ (o = WOk -> taken = buf).
Proof.
  revert s buf acc. induction fuel as [|f IH]; intros s buf acc H.
  - destruct buf as [|x buf]; cbn [write_all] in H; inv H.
    + exists []. split; [now rewrite app_nil_r|]. split; [now exists []|reflexivity].
    + apply wspec_stay. discriminate.
  - destruct buf as [|x buf]; cbn [write_all] in H.
    + inv H. exists []. split; [now rewrite app_nil_r|]. split; [now exists []|reflexivity].
    + destruct (w_write w s (x :: buf)) as [s1 r]. destruct r as [k| |].
      * destruct (N.eqb_spec k 0) as [Ek|Ek].
        { inv H. apply wspec_stay. discriminate. }
        apply IH in H.
        pose proof (ntake_ndrop k (x :: buf)) as Hs. revert Hs H.
        generalize (ntake k (x :: buf)). generalize (ndrop k (x :: buf)). generalize (x :: buf).
        intros b b2 b1 Hs H. subst b.
        apply wspec_seq with (acc1 := acc ++ b1); [|exact H].
        exists b1. split; [reflexivity|]. split; [exists []; now rewrite app_nil_r|reflexivity].
      * apply IH in H. exact H.
      * inv H. apply wspec_stay. discriminate.
Qed.

Lemma write_zeros_spec w fuel s n acc s' acc' o :
  write_zeros w fuel s n acc = (s', acc', o) ->
  exists taken, acc' = acc ++ taken /\ is_prefix taken (repeat 0 n) /\ (o = WOk -> taken = repeat 0 n).
Proof.
  revert s acc. induction n as [|n IH]; intros s acc H; cbn [write_zeros] in H.
  - inv H. exists []. split; [now rewrite app_nil_r|]. split; [now exists []|reflexivity].
  - destruct (write_all w fuel s [0] acc) as [[s1 acc1] o1] eqn:E1.
    apply write_all_spec in E1. change (repeat 0 (S n)) with ([0] ++ repeat 0 n).
    destruct o1.
    + apply IH in H. eapply wspec_seq; eassumption.
    + inv H. apply wspec_stop; [discriminate|exact E1].
    + inv H. apply wspec_stop; [discriminate|exact E1].
Qed.

Definition ev_step (w : writer) (fuel : nat) (s : wst w) (e : event) (acc : list byte)
  : wst w * list byte * wout :=
  match e with
  | EWrite b | EBlock _ b | EItem _ b => write_all w fuel s b acc
  | EPad _ n => write_zeros w fuel s (N.to_nat n) acc
  | EFlush => let '(s1, ok) := w_flush w s in (s1, acc, if ok then WOk else WErr)
  | _ => (s, acc, WOk)
  end.

Lemma run_events_cons w fuel s e r acc :
  run_events w fuel s (e :: r) acc =
  let '(s', acc', o) := ev_step w fuel s e acc in
  match o with WOk => run_events w fuel s' r acc' | _ => (s', acc', o) end.
Proof. reflexivity. Qed.

Theorem run_events_spec w fuel s evs acc s' acc' o :
  run_events w fuel s evs acc = (s', acc', o) ->
  exists taken, acc' = acc ++ taken /\ is_prefix taken (bytes_of evs) /\ (o = WOk -> taken = bytes_of evs).
Proof.
  revert s acc. induction evs as [|e r IH]; intros s acc H; [cbn [run_events] in H|rewrite run_events_cons in H].
  - inv H. exists []. split; [now rewrite app_nil_r|]. split; [now exists []|reflexivity].
  - cbn [bytes_of].
    destruct (ev_step w fuel s e acc) as [[s1 acc1] o1] eqn:E1; unfold ev_step in E1.
    assert (S1 : exists t1, acc1 = acc ++ t1 /\ is_prefix t1 (ev_bytes e) /\ (o1 = WOk -> t1 = ev_bytes e)).
    { destruct e; cbn [ev_bytes];
        try (apply write_all_spec in E1; exact E1);
        try (inv E1; exists []; split; [now rewrite app_nil_r|]; split; [now exists []|reflexivity]).
      - apply write_zeros_spec in E1. exact E1.
      - destruct (w_flush w s) as [s2 ok]. inv E1. exists [].
        split; [now rewrite app_nil_r|]. split; [now exists []|reflexivity]. }
    destruct o1.
    + apply IH in H. eapply wspec_seq; eassumption.
    + inv H. apply wspec_stop; [discriminate|exact S1].
    + inv H. apply wspec_stop; [discriminate|exact S1].
Qed.

(* For EVERY writer: the bytes the writer accepted are a prefix of the fault-free stream *)
Theorem accepted_is_prefix w fuel s (run : sres) :
  is_prefix (fst (serialize_io w fuel s run)) (bytes_of (fst run)).
Proof.
  destruct run as [evs so]. unfold serialize_io.
  destruct (run_events w fuel s evs []) as [[s1 acc1] o1] eqn:E. cbn [fst].
  apply run_events_spec in E. destruct E as (t & E & P & _). subst acc1. exact P.
Qed.

(* For EVERY writer: success is reported only when every byte and the flush were accepted, with
   the exact count; otherwise the result is WriteError (or no outcome when the writer interrupts
   forever) -- never a panic, never another error *)
Theorem serialize_io_result w fuel s evs :
  let '(acc, r) := serialize_io w fuel s (evs, SDone) in
  (r = SROk (evs_len evs) /\ acc = bytes_of evs) \/ r = SRWriteError \/ r = SRNoOutcome.
Proof.
  unfold serialize_io.
  destruct (run_events w fuel s evs []) as [[s1 acc1] o1] eqn:E.
  apply run_events_spec in E. destruct E as (t & E & _ & F).
  destruct o1; [left|right; left; reflexivity|right; right; reflexivity].
  split; [reflexivity|]. subst acc1. now rewrite (F eq_refl).
Qed.

(* a writer that only splits or retries writes (never fails, never returns Ok(0), flush ok) *)
Definition benign (w : writer) : Prop :=
  (forall s buf, buf <> [] ->
     match snd (w_write w s buf) with
     | WAccept k => 0 < k
     | WInterrupted => True
     | WFail => False
     end) /\
  (forall s, snd (w_flush w s) = true).

Lemma write_all_benign w fuel s buf acc s' acc' o :
  benign w -> write_all w fuel s buf acc = (s', acc', o) -> o <> WErr.
Proof.
  intros [Hb _]. revert s buf acc. induction fuel as [|f IH]; intros s buf acc H.
  - destruct buf as [|x buf]; cbn [write_all] in H; inv H; discriminate.
  - destruct buf as [|x buf]; cbn [write_all] in H; [inv H; discriminate|].
    assert (Hne : x :: buf <> []) by discriminate.
    specialize (Hb s (x :: buf) Hne).
    destruct (w_write w s (x :: buf)) as [s1 r]. cbn [snd] in Hb. destruct r as [k| |].
    + destruct (N.eqb_spec k 0) as [Ek|Ek]; [lia|]. eapply IH; exact H.
    + eapply IH; exact H.
    + destruct Hb.
Qed.

Lemma write_zeros_benign w fuel s n acc s' acc' o :
  benign w -> write_zeros w fuel s n acc = (s', acc', o) -> o <> WErr.
Proof.
  intros Hb. revert s acc. induction n as [|n IH]; intros s acc H; cbn [write_zeros] in H.
  - inv H. discriminate.
  - destruct (write_all w fuel s [0] acc) as [[s1 acc1] o1] eqn:E1.
    apply (write_all_benign _ _ _ _ _ _ _ _ Hb) in E1.
    destruct o1; [eapply IH; exact H|now destruct E1|inv H; discriminate].
Qed.

Lemma run_events_benign w fuel s evs acc s' acc' o :
  benign w -> run_events w fuel s evs acc = (s', acc', o) -> o <> WErr.
Proof.
  intros Hb. revert s acc. induction evs as [|e r IH]; intros s acc H; [cbn [run_events] in H|rewrite run_events_cons in H].
  - inv H. discriminate.
  - destruct (ev_step w fuel s e acc) as [[s1 acc1] o1] eqn:E1; unfold ev_step in E1.
    assert (S1 : o1 <> WErr).
    { destruct e;
        try (apply (write_all_benign _ _ _ _ _ _ _ _ Hb) in E1; exact E1);
        try (inv E1; discriminate).
      - apply (write_zeros_benign _ _ _ _ _ _ _ _ Hb) in E1. exact E1.
      - destruct Hb as [_ Hf]. specialize (Hf s).
        destruct (w_flush w s) as [s2 ok]. cbn [snd] in Hf. subst ok. inv E1. discriminate. }
    destruct o1; [eapply IH; exact H|now destruct S1|inv H; discriminate].
Qed.

Theorem benign_writer_gets_everything w fuel s evs :
  benign w ->
  snd (serialize_io w fuel s (evs, SDone)) <> SRNoOutcome ->
  serialize_io w fuel s (evs, SDone) = (bytes_of evs, SROk (evs_len evs)).
Proof.
  intros Hb. unfold serialize_io.
  destruct (run_events w fuel s evs []) as [[s1 acc1] o1] eqn:E. cbn [snd]. intros Hn.
  pose proof (run_events_benign _ _ _ _ _ _ _ _ Hb E) as Hne.
  apply run_events_spec in E. destruct E as (t & E & _ & F).
  destruct o1; [|now destruct Hne|now destruct Hn].
  subst acc1. now rewrite (F eq_refl).
Qed.

(* a writer that accepts everything up to [k] bytes in total and fails afterwards *)
Definition fail_after (k : N) : writer :=
  {| wst := N;
     w_write := fun taken buf =>
       if taken + nlen buf <=? k then (taken + nlen buf, WAccept (nlen buf))
       else if taken <? k then (k, WAccept (k - taken))
       else (taken, WFail);
     w_flush := fun taken => (taken, true) |}.

(* the effect of one chunk [b] against [fail_after k] in state [taken <= k] *)
Definition fa_step (k taken : N) (acc b : list byte) : N * list byte * wout :=
  if taken + nlen b <=? k then (taken + nlen b, acc ++ b, WOk)
  else (k, acc ++ ntake (k - taken) b, WErr).

Ltac case_leb :=
  match goal with |- context [?a <=? ?b] => destruct (N.leb_spec a b) end.

Lemma nlen_nil {A} : nlen (@nil A) = 0.
Proof. reflexivity. Qed.

Lemma nlen_one {A} (x : A) : nlen [x] = 1.
Proof. reflexivity. Qed.

Lemma nlen_cons {A} (x : A) l : nlen (x :: l) = 1 + nlen l.
Proof. unfold nlen. cbn [length]. lia. Qed.

Lemma ntake_cons {A} n (x : A) l : 1 <= n -> ntake n (x :: l) = x :: ntake (n - 1) l.
Proof. intros H. apply (ntake_app_ge n [x] l). rewrite nlen_one. exact H. Qed.

Lemma fa_step_nil k taken acc : taken <= k -> fa_step k taken acc [] = (taken, acc, WOk).
Proof.
  intros Ht. unfold fa_step. rewrite nlen_nil.
  destruct (N.leb_spec (taken + 0) k) as [L|L]; [|lia].
  now rewrite N.add_0_r, app_nil_r.
Qed.

Lemma write_all_fail_after k fuel taken buf acc :
  (2 <= fuel)%nat -> taken <= k ->
  write_all (fail_after k) fuel taken buf acc = fa_step k taken acc buf.
Proof.
  intros Hf Ht. unfold fa_step.
  destruct fuel as [|[|f]]; [lia|lia|].
  destruct buf as [|x buf].
  - cbn [write_all]. fold (fa_step k taken acc []). symmetry. now apply fa_step_nil.
  - set (b := x :: buf).
    assert (Hb : 1 <= nlen b) by (unfold b, nlen; cbn [length]; lia).
    change (write_all (fail_after k) (S (S f)) taken b acc) with
      (let '(s', r) := w_write (fail_after k) taken b in
       match r with
       | WAccept k0 =>
           if k0 =? 0 then (s', acc, WErr)
           else write_all (fail_after k) (S f) s' (ndrop k0 b) (acc ++ ntake k0 b)
       | WInterrupted => write_all (fail_after k) (S f) s' b acc
       | WFail => (s', acc, WErr)
       end).
    cbn [fail_after w_write].
    destruct (N.leb_spec (taken + nlen b) k) as [L|L].
    + destruct (N.eqb_spec (nlen b) 0) as [E|E]; [lia|].
      rewrite ndrop_all, ntake_all by lia. reflexivity.
    + destruct (N.ltb_spec taken k) as [L2|L2].
      * destruct (N.eqb_spec (k - taken) 0) as [E|E]; [lia|].
        assert (Hd : 1 <= nlen (ndrop (k - taken) b)) by (rewrite nlen_ndrop; lia).
        destruct (ndrop (k - taken) b) as [|y b'] eqn:Eb.
        { rewrite nlen_nil in Hd. lia. }
        cbn [write_all fail_after w_write].
        destruct (N.leb_spec (k + nlen (y :: b')) k) as [L3|L3]; [lia|].
        destruct (N.ltb_spec k k) as [L4|L4]; [lia|]. reflexivity.
      * replace taken with k by lia. rewrite N.sub_diag, ntake_0, app_nil_r. reflexivity.
Qed.

Lemma write_zeros_fail_after k fuel n : (2 <= fuel)%nat -> forall taken acc,
  taken <= k ->
  write_zeros (fail_after k) fuel taken n acc = fa_step k taken acc (repeat 0 n).
Proof.
  intros Hf. induction n as [|n IH]; intros taken acc Ht; cbn [write_zeros].
  - cbn [repeat]. symmetry. now apply fa_step_nil.
  - rewrite write_all_fail_after by assumption. unfold fa_step at 1.
    rewrite nlen_one.
    destruct (N.leb_spec (taken + 1) k) as [L|L].
    + rewrite IH by lia. unfold fa_step. cbn [repeat]. rewrite nlen_cons.
      case_leb; case_leb; try lia.
      * rewrite <- app_assoc. f_equal. f_equal. lia.
      * rewrite <- app_assoc. f_equal. f_equal. f_equal.
        rewrite ntake_cons by lia. cbn [app]. f_equal. f_equal. lia.
    + unfold fa_step. cbn [repeat]. rewrite nlen_cons.
      case_leb; [lia|].
      replace (k - taken) with 0 by lia. now rewrite !ntake_0.
Qed.

Lemma nlen_ev_bytes e : nlen (ev_bytes e) = ev_len e.
Proof. destruct e; cbn [ev_bytes ev_len]; try reflexivity. apply nlen_zeros. Qed.

Lemma ev_step_fail_after k fuel taken e acc :
  (2 <= fuel)%nat -> taken <= k ->
  ev_step (fail_after k) fuel taken e acc = fa_step k taken acc (ev_bytes e).
Proof.
  intros Hf Ht.
  assert (Hnil : (taken, acc, WOk) = fa_step k taken acc []).
  { symmetry. now apply fa_step_nil. }
  destruct e; cbn [ev_step ev_bytes];
    try (apply write_all_fail_after; assumption); try exact Hnil.
  - unfold zeros. apply write_zeros_fail_after; assumption.
Qed.

Lemma run_events_fail_after k fuel evs : (2 <= fuel)%nat -> forall taken acc,
  taken <= k ->
  run_events (fail_after k) fuel taken evs acc = fa_step k taken acc (bytes_of evs).
Proof.
  intros Hf. induction evs as [|e r IH]; intros taken acc Ht.
  - cbn [run_events bytes_of]. symmetry. now apply fa_step_nil.
  - rewrite run_events_cons, ev_step_fail_after by assumption.
    cbn [bytes_of]. unfold fa_step at 1 2. rewrite nlen_app.
    destruct (N.leb_spec (taken + nlen (ev_bytes e)) k) as [L|L].
    + rewrite IH by lia. unfold fa_step.
      destruct (N.leb_spec (taken + nlen (ev_bytes e) + nlen (bytes_of r)) k) as [L2|L2];
        destruct (N.leb_spec (taken + (nlen (ev_bytes e) + nlen (bytes_of r))) k) as [L3|L3]; try lia.
      * rewrite <- app_assoc. f_equal. f_equal. lia.
      * rewrite <- app_assoc. f_equal. f_equal. f_equal.
        rewrite ntake_app_ge by lia. f_equal. f_equal. lia.
    + destruct (N.leb_spec (taken + (nlen (ev_bytes e) + nlen (bytes_of r))) k) as [L3|L3]; [lia|].
      rewrite ntake_app_le by lia. reflexivity.
Qed.

(* ... receives exactly the first k bytes and serialization reports WriteError *)
Theorem fail_after_k k evs fuel :
  k < evs_len evs -> (N.to_nat (evs_len evs) < fuel)%nat ->
  serialize_io (fail_after k) fuel 0 (evs, SDone) = (ntake k (bytes_of evs), SRWriteError).
Proof.
  intros Hk Hf. unfold serialize_io.
  rewrite run_events_fail_after by lia. unfold fa_step. rewrite nlen_bytes_of.
  destruct (N.leb_spec (0 + evs_len evs) k) as [L|L]; [lia|].
  now rewrite N.sub_0_r.
Qed.

(* ------------------------------------------------------------------ C14 *)

(* read_exact over a reader that fragments, interrupts and possibly fails: same bytes as
   read_exact on the stream as one slice, as long as the requested bytes lie before the
   failure point; ReadError otherwise (never a panic). [out <> RFuel]: the reader does not
   interrupt forever. *)
Definition rx_post (data : list byte) (failat : option N) (pos n : N) (got : list byte)
  (s' : N * N) (out : rout) : Prop :=
  if (pos + n <=? nlen data) && (match failat with Some k => pos + n <=? k | None => true end)
  then out = ROk (got ++ ntake n (ndrop pos data)) /\ fst s' = pos + n
  else out = RErr.

Lemma ntake_nlen_self {A} m (l : list A) : ntake (nlen (ntake m l)) l = ntake m l.
Proof.
  rewrite nlen_ntake. destruct (N.le_ge_cases m (nlen l)) as [L|L].
  - now rewrite N.min_l by exact L.
  - rewrite N.min_r by exact L. now rewrite !ntake_all by lia.
Qed.

Lemma rx_post_zero data failat pos calls got :
  pos <= nlen data -> (match failat with Some k => pos <= k | None => True end) ->
  rx_post data failat pos 0 got (pos, calls) (ROk got).
Proof.
  intros Hp Hk. unfold rx_post. rewrite N.add_0_r.
  destruct (N.leb_spec pos (nlen data)) as [L|L]; [|lia]. cbn [andb].
  assert (E : match failat with Some k => pos <=? k | None => true end = true).
  { destruct failat as [k|]; [|reflexivity]. destruct (N.leb_spec pos k); [reflexivity|lia]. }
  rewrite E. rewrite ntake_0, app_nil_r. split; reflexivity.
Qed.

(* one data-delivering call of the stream reader, with fragment size [m] *)
Lemma rx_step data cut intr failat f pos calls n got s' out m :
  (forall pos calls n got s' out,
     read_exact_io (stream_reader data cut intr failat) f (pos, calls) n got = (s', out) ->
     out <> RFuel -> pos <= nlen data ->
     (match failat with Some k => pos <= k | None => True end) ->
     rx_post data failat pos n got s' out) ->
  n <> 0 -> 1 <= m -> m <= n -> pos <= nlen data ->
  (match failat with Some k => pos + m <= k | None => True end) ->
  (if nlen (ntake m (ndrop pos data)) =? 0 then ((pos + nlen (ntake m (ndrop pos data)), calls + 1), RErr)
   else if n <? nlen (ntake m (ndrop pos data)) then ((pos + nlen (ntake m (ndrop pos data)), calls + 1), RErr)
   else read_exact_io (stream_reader data cut intr failat) f
          (pos + nlen (ntake m (ndrop pos data)), calls + 1)
          (n - nlen (ntake m (ndrop pos data))) (got ++ ntake m (ndrop pos data))) = (s', out) ->
  out <> RFuel ->
  rx_post data failat pos n got s' out.
Proof.
  intros IH Hn Hm1 Hmn Hp Hk H Ho.
  pose proof (ntake_nlen_self m (ndrop pos data)) as Hself.
  assert (Hlen : nlen (ntake m (ndrop pos data)) = N.min m (nlen data - pos))
    by (now rewrite nlen_ntake, nlen_ndrop).
  revert H Hself Hlen. generalize (ntake m (ndrop pos data)). intros b H Hself Hlen.
  destruct (N.eqb_spec (nlen b) 0) as [E0|E0].
  - inv H. unfold rx_post.
    destruct (N.leb_spec (pos + n) (nlen data)) as [L|L]; [lia|]. reflexivity.
  - destruct (N.ltb_spec n (nlen b)) as [L1|L1]; [lia|].
    apply IH in H; [|exact Ho|lia|destruct failat; [lia|exact I]].
    unfold rx_post in *.
    replace (pos + nlen b + (n - nlen b)) with (pos + n) in H by lia.
    destruct ((pos + n <=? nlen data) &&
              match failat with Some k => pos + n <=? k | None => true end); [|exact H].
    destruct H as [H1 H2]. split; [|exact H2].
    rewrite H1. f_equal. rewrite <- app_assoc. f_equal.
    rewrite (ntake_ndrop_split (nlen b) n (ndrop pos data)) by exact L1.
    rewrite Hself, ndrop_ndrop. reflexivity.
Qed.

Lemma read_exact_io_stream_gen data cut intr failat fuel : forall pos calls n got s' out,
  read_exact_io (stream_reader data cut intr failat) fuel (pos, calls) n got = (s', out) ->
  out <> RFuel -> pos <= nlen data ->
  (match failat with Some k => pos <= k | None => True end) ->
  rx_post data failat pos n got s' out.
Proof.
  induction fuel as [|f IH]; intros pos calls n got s' out H Ho Hp Hk.
  - cbn [read_exact_io] in H. destruct (N.eqb_spec n 0) as [En|En].
    + inv H. apply rx_post_zero; assumption.
    + inv H. now destruct Ho.
  - cbn [read_exact_io] in H. destruct (N.eqb_spec n 0) as [En|En].
    + inv H. apply rx_post_zero; assumption.
    + cbn [stream_reader r_read] in H.
      destruct (intr calls).
      { apply IH in H; assumption. }
      destruct failat as [k|].
      * destruct (N.leb_spec k pos) as [Lk|Lk].
        { inv H. unfold rx_post.
          destruct (pos + n <=? nlen data); cbn [andb]; [|reflexivity].
          destruct (N.leb_spec (pos + n) k) as [L|L]; [lia|reflexivity]. }
        cbv zeta in H.
        eapply (rx_step data cut intr (Some k) f pos calls n got s' out _ IH En);
          [| | exact Hp | | exact H | exact Ho]; lia.
      * cbv zeta in H.
        eapply (rx_step data cut intr None f pos calls n got s' out _ IH En);
          [| | exact Hp | | exact H | exact Ho]; lia.
Qed.

Theorem read_exact_io_stream data cut intr failat fuel pos calls n s' out :
  read_exact_io (stream_reader data cut intr failat) fuel (pos, calls) n [] = (s', out) ->
  out <> RFuel -> pos <= nlen data ->
  (match failat with Some k => pos <= k | None => True end) ->
  if (pos + n <=? nlen data) && (match failat with Some k => pos + n <=? k | None => true end)
  then out = ROk (ntake n (ndrop pos data)) /\ fst s' = pos + n
  else out = RErr.
Proof.
  intros H. exact (read_exact_io_stream_gen data cut intr failat fuel pos calls n [] s' out H).
Qed.

(* which is exactly the list-level read_exact of the model used by deser_full *)
Theorem read_exact_io_matches_model data cut intr fuel pos calls n s' out :
  read_exact_io (stream_reader data cut intr None) fuel (pos, calls) n [] = (s', out) ->
  out <> RFuel -> pos <= nlen data ->
  match read_exact n (ndrop pos data) pos with
  | Ok (b, rest, p') => out = ROk b /\ fst s' = p' /\ rest = ndrop p' data
  | Err e => out = RErr /\ e = ReadError
  | Panic _ => False
  end.
Proof.
  intros H Ho Hp.
  pose proof (read_exact_io_stream data cut intr None fuel pos calls n s' out H Ho Hp I) as R.
  rewrite read_exact_eq. rewrite nlen_ndrop. rewrite andb_true_r in R.
  destruct (N.leb_spec (pos + n) (nlen data)) as [L|L];
    destruct (N.leb_spec n (nlen data - pos)) as [L2|L2]; try lia.
  - destruct R as [R1 R2]. split; [exact R1|]. split; [exact R2|]. apply ndrop_ndrop.
  - split; [exact R|reflexivity].
Qed.
