(* C08 / C09: the loaders agree with eps-copy deserialization of the file bytes, own a sound
   region, and hold exactly one backend released exactly once. *)
Require Import EV.Base.Tac EV.Base.Bytes EV.Base.Res EV.Base.ListX.
Require Import EV.Model.Arith64 EV.Model.Types EV.Model.Layout EV.Model.Ser EV.Model.Deser EV.Model.Header EV.Model.Typing EV.Model.Need EV.Model.Loader.
Require Import EV.Proofs.Pad EV.Proofs.Monads EV.Proofs.RoundTrip EV.Proofs.HeaderRT EV.Proofs.Prefix EV.Proofs.EpsRT EV.Proofs.EpsTop.


Lemma pad_spec6 n : (n + pad_align_to n 64) mod 64 = 0 /\ pad_align_to n 64 < 64.
Proof. destruct (pad_align_to_spec n 6 ltac:(lia)) as (H & H' & _). split; assumption. Qed.
Lemma pad_spec4 n : (n + pad_align_to n 16) mod 16 = 0 /\ pad_align_to n 16 < 16.
Proof. destruct (pad_align_to_spec n 4 ltac:(lia)) as (H & H' & _). split; assumption. Qed.

(* the region: starts with the file, has the rounded-up length, and is zero beyond the file *)
Theorem region_facts l file :
  ntake (nlen file) (region l file) = file /\
  nlen (region l file) = capacity l (nlen file) /\
  ndrop (nlen file) (region l file) = zeros (capacity l (nlen file) - nlen file) /\
  nlen file <= capacity l (nlen file) /\
  (l = LMem -> capacity l (nlen file) mod 64 = 0 /\ capacity l (nlen file) < nlen file + 64) /\
  (l = LMmap -> capacity l (nlen file) mod 16 = 0 /\ capacity l (nlen file) < nlen file + 16).
Proof.
  unfold region.
  assert (Hc : nlen file <= capacity l (nlen file)) by (destruct l; cbn [capacity]; lia).
  repeat split.
  - rewrite ntake_app_le by lia. apply ntake_all. lia.
  - rewrite nlen_app, nlen_zeros. lia.
  - rewrite ndrop_app_ge by lia. rewrite N.sub_diag. apply ndrop_0.
  - exact Hc.
  - subst l. cbn [capacity]. apply pad_spec6.
  - subst l. cbn [capacity]. pose proof (pad_spec6 (nlen file)). lia.
  - subst l. cbn [capacity]. apply pad_spec4.
  - subst l. cbn [capacity]. pose proof (pad_spec4 (nlen file)). lia.
Qed.

(* loading the file written by store gives the stored value: full-copy for load_full, and for
   the three loaders with a region an eps-copy value that describes it, consuming exactly the
   file and leaving the zero tail untouched -- whenever the region's base address is a multiple
   of the largest unit of the type (64 for load_mem, the page size for the two mappings) *)
Theorem load_stored_file l base pf h t v evs :
  hdr_ok h ->
  wf t = true -> units_pow2 t = true -> units_cover t = true -> deserializable t = true ->
  wt t v = true -> exhausted_in t v = false ->
  ser_top pf h t v = (evs, SDone) ->
  base mod max_unit t = 0 ->
  (l = LMem -> rust_align t <= 64) ->
  exists e, load l base h t (store_file (evs, SDone)) =
              Ok (e, ndrop (nlen (bytes_of evs)) (region l (bytes_of evs)), evs_len evs) /\
            erase e = v.
Proof.
  intros Hh Hw Hu Hc Hd Ht He Hs Hb Hpre. unfold store_file. cbn [fst].
  destruct l; cbn [load]; [| unfold mem_precheck; destruct (N.ltb_spec 64 (rust_align t)) as [Hgt|_]; [specialize (Hpre eq_refl); lia|] | |].
  - exists v. rewrite (full_roundtrip_top pf h t v evs Hh Hw Hd Ht He Hs).
    unfold region. cbn [capacity]. rewrite N.sub_diag. cbn. rewrite app_nil_r.
    rewrite ndrop_all by lia. split; [reflexivity|]. now apply (proj1 erase_wt t).
  - destruct (eps_roundtrip_top base pf h t v evs Hh Hw Hu Hc Hd Ht He Hs Hb) as (e & Hr & Hex).
    exists e. split; [|exact Hex]. unfold region.
    rewrite <- nlen_bytes_of in Hr.
    rewrite (eps_extension base h t (bytes_of evs) e Hr).
    rewrite ndrop_app_ge by lia.
    replace (nlen (bytes_of evs) - nlen (bytes_of evs)) with 0 by lia.
    rewrite ndrop_0, nlen_bytes_of. reflexivity.
  - destruct (eps_roundtrip_top base pf h t v evs Hh Hw Hu Hc Hd Ht He Hs Hb) as (e & Hr & Hex).
    exists e. split; [|exact Hex]. unfold region.
    rewrite <- nlen_bytes_of in Hr.
    rewrite (eps_extension base h t (bytes_of evs) e Hr).
    rewrite ndrop_app_ge by lia.
    replace (nlen (bytes_of evs) - nlen (bytes_of evs)) with 0 by lia.
    rewrite ndrop_0, nlen_bytes_of. reflexivity.
  - destruct (eps_roundtrip_top base pf h t v evs Hh Hw Hu Hc Hd Ht He Hs Hb) as (e & Hr & Hex).
    exists e. split; [|exact Hex]. unfold region.
    rewrite <- nlen_bytes_of in Hr.
    rewrite (eps_extension base h t (bytes_of evs) e Hr).
    rewrite ndrop_app_ge by lia.
    replace (nlen (bytes_of evs) - nlen (bytes_of evs)) with 0 by lia.
    rewrite ndrop_0, nlen_bytes_of. reflexivity.
Qed.

(* a truncated file is never loaded into a value by the two entry points that do not zero-extend *)
Theorem load_truncated h t bs v k base :
  k < nlen bs ->
  (deser_full_top h t bs = Ok (v, [], nlen bs) -> load LFull base h t (ntake k bs) = Err ReadError) /\
  (forall e, deser_eps_top base h t bs = Ok (e, [], nlen bs) ->
     load LMap base h t (ntake k bs) = Err ReadError \/ exists w, load LMap base h t (ntake k bs) = Panic w).
Proof.
  intros Hk. split.
  - intros H. cbn [load]. now apply (truncated_full h t bs v).
  - intros e H. cbn [load]. unfold region. cbn [capacity]. rewrite N.sub_diag. cbn [zeros]. 
    change (zeros 0) with (@nil byte). rewrite app_nil_r. now apply (truncated_eps base h t bs e).
Qed.

(* the flag translation maps each of the 8 flag sets to the corresponding mmap-rs set *)
Theorem flags_translation :
  forallb (fun f => (mmap_flag_bits f =? (N.shiftl (N.land f 1) 7) + (N.shiftl (N.land (N.shiftr f 1) 1) 8) + (N.shiftl (N.land (N.shiftr f 2) 1) 9)))
          [0; 1; 2; 3; 4; 5; 6; 7] = true /\
  List.map mmap_flag_bits [0; 1; 2; 3; 4; 5; 6; 7] = [0; 128; 256; 384; 512; 640; 768; 896].
Proof. vm_compute. split; reflexivity. Qed.

(* the ledger: a successful load leaves exactly the backend live, owned by the returned case;
   dropping the case releases it, once; a load that stops anywhere leaves the ledger unchanged *)
Theorem ledger_success l n h live :
  l <> LFull ->
  exists b, load_ledger l n SNone h live = (b :: live, true) /\ drop_case l n (b :: live) = live.
Proof.
  intros Hl. destruct l; try contradiction; destruct h; vm_compute; eauto.
Qed.

Theorem ledger_failure l n s h live :
  can_stop l s = true -> load_ledger l n s h live = (live, false).
Proof.
  intros H. destruct l, s; try discriminate H; destruct h; reflexivity.
Qed.

Theorem ledger_full n s h live : fst (load_ledger LFull n s h live) = live.
Proof. destruct s, h; reflexivity. Qed.

(* every stop tag other than SNone that a loader does not contain is simply not a way to fail *)
Theorem can_stop_table :
  List.map (fun l => List.map (can_stop l) [SMetadata; SOpen; SAcquire; SReadFile; SFreeze; SDeser; SNone]) [LFull; LMem; LMmap; LMap] =
  [[false; true; false; false; false; true; false];
   [true; true; true; true; false; true; false];
   [true; true; true; true; true; true; false];
   [true; true; true; false; false; true; false]].
Proof. reflexivity. Qed.

(* the code of the pinned tree (no guard): a failing deserialization leaves the backend behind *)
Theorem ledger_pinned_leaks n h live :
  ledger_of (loader_steps_pinned LMem n) SDeser h live = (RHeap (capacity LMem n) :: live, false) /\
  ledger_of (loader_steps_pinned LMmap n) SDeser h live = (RMapping (capacity LMmap n) :: live, false) /\
  ledger_of (loader_steps_pinned LMap n) SDeser h live = (RMapping n :: live, false).
Proof. destruct h; repeat split. Qed.

(* moving the disarming of the guard before the fallible step re-creates the leak (seeded change C09-a) *)
Theorem ledger_early_disarm_leaks n h live :
  ledger_of [LTry SMetadata; LAcquire RFile SOpen; LAcquire (RMapping n) SAcquire; LPublish (RMapping n); LArm; LDisarm; LTry SDeser] SDeser h live
  = (RMapping n :: live, false).
Proof. destruct h; reflexivity. Qed.

(* replacing the drop guard by an error handler on the Result (seeded change C09-d) keeps every
   stop by error clean and every success intact, and leaks the backend exactly when
   deserialization panics (a file truncated inside a zero-copy payload does that) *)
Theorem ledger_map_err l n live :
  l <> LFull ->
  (forall s, can_stop l s = true -> ledger_of (loader_steps_map_err l n) s ByErr live = (live, false)) /\
  (forall h, ledger_of (loader_steps_map_err l n) SNone h live = ledger_of (loader_steps l n) SNone h live) /\
  (forall s, can_stop l s = true -> s <> SDeser -> ledger_of (loader_steps_map_err l n) s ByPanic live = (live, false)) /\
  exists b, ledger_of (loader_steps_map_err l n) SDeser ByPanic live = (b :: live, false).
Proof.
  intros Hl. destruct l; try contradiction; repeat split.
  all: try (intros s Hs; destruct s; try discriminate Hs; reflexivity).
  all: try (intros h; destruct h; reflexivity).
  all: try (intros s Hs Hn; destruct s; try discriminate Hs; try reflexivity; contradiction).
  all: eexists; reflexivity.
Qed.
