(* AlignedCursor refines std::io::Cursor<Vec<u8>>: same results, same observable state,
   for every feasible history. *)
Require Import EV.Base.Tac EV.Base.Bytes EV.Base.ListX EV.Model.Arith64 EV.Model.Cursor.

(* Representation invariant of the aligned cursor: the logical length fits in the storage,
   the storage is a whole number of units, and the storage beyond the length is zero
   (this is what makes writing past the end zero-fill the gap). *)
Record inv (U : N) (s : ac) : Prop := {
  inv_len : alen s <= nlen (avec s);
  inv_units : nlen (avec s) mod U = 0;
  inv_zero : ndrop (alen s) (avec s) = zeros (nlen (avec s) - alen s);
  inv_cap : nlen (avec s) <= USIZE_MAX
}.

Definition abs (s : ac) : sc := {| svec := ntake (alen s) (avec s); spos := apos s |}.

Lemma inv_init U : 0 < U -> inv U ac_init.
Proof.
  intros HU. constructor; cbn.
  - lia.
  - apply N.mod_0_l. lia.
  - reflexivity.
  - vm_compute. discriminate.
Qed.

Lemma avec_split U s : inv U s -> avec s = ntake (alen s) (avec s) ++ zeros (nlen (avec s) - alen s).
Proof. intros [_ _ Hz _]. rewrite <- Hz. symmetry. apply ntake_ndrop. Qed.

Lemma div_ceil_ge a U : 0 < U -> a <= div_ceil a U * U.
Proof.
  intros HU. unfold div_ceil.
  pose proof (N.div_mod (a + U - 1) U ltac:(lia)) as H.
  pose proof (N.mod_lt (a + U - 1) U ltac:(lia)) as H'. nia.
Qed.

Lemma div_ceil_lt a U : 0 < U -> div_ceil a U * U < a + U.
Proof.
  intros HU. unfold div_ceil.
  pose proof (N.div_mod (a + U - 1) U ltac:(lia)) as H.
  pose proof (N.mod_lt (a + U - 1) U ltac:(lia)) as H'. nia.
Qed.

Lemma nlen_overwrite {A} (l : list A) pos buf :
  pos + nlen buf <= nlen l -> nlen (overwrite l pos buf) = nlen l.
Proof.
  intros H. unfold overwrite. rewrite !nlen_app, nlen_ntake, nlen_ndrop. lia.
Qed.

(* The storage after the (possible) resize, as a function of the old storage *)
Lemma write_core (A : list byte) (L1 pos : N) (buf : list byte) :
  nlen A <= L1 -> pos + nlen buf <= L1 ->
  let a1 := A ++ zeros (L1 - nlen A) in
  let v1 := if nlen A <? pos then A ++ zeros (pos - nlen A) else A in
  let len' := N.max (nlen A) (pos + nlen buf) in
  ntake len' (overwrite a1 pos buf) = overwrite v1 pos buf /\
  ndrop len' (overwrite a1 pos buf) = zeros (L1 - len').
Proof.
  intros HL Hfit a1 v1 len'. subst a1 v1 len'.
  set (n := nlen buf) in *. set (len := nlen A) in *.
  assert (HA : nlen A = len) by reflexivity.
  unfold overwrite. fold n.
  destruct (N.ltb_spec len pos) as [Hgap|Hnogap].
  - (* writing past the end: the gap is zero-filled on both sides *)
    rewrite N.max_r by lia.
    rewrite (ntake_app_ge pos A) by lia. rewrite HA, ntake_zeros.
    replace (N.min (pos - len) (L1 - len)) with (pos - len) by lia.
    rewrite (ndrop_app_ge (pos + n) A) by lia. rewrite HA, ndrop_zeros.
    rewrite (ntake_all pos (A ++ zeros (pos - len))) by (rewrite nlen_app, nlen_zeros; lia).
    rewrite (ndrop_all (pos + n) (A ++ zeros (pos - len))) by (rewrite nlen_app, nlen_zeros; lia).
    rewrite app_nil_r.
    split.
    + rewrite app_assoc.
      rewrite ntake_app_ge by (rewrite !nlen_app, nlen_zeros; fold n; lia).
      rewrite !nlen_app, nlen_zeros. fold n. rewrite HA.
      replace (pos + n - (len + (pos - len) + n)) with 0 by lia.
      rewrite ntake_0, app_nil_r. reflexivity.
    + rewrite app_assoc.
      rewrite ndrop_app_ge by (rewrite !nlen_app, nlen_zeros; fold n; lia).
      rewrite !nlen_app, nlen_zeros. fold n. rewrite HA.
      replace (pos + n - (len + (pos - len) + n)) with 0 by lia.
      rewrite ndrop_0. f_equal. lia.
  - (* writing inside or at the end *)
    rewrite (ntake_app_le pos A) by lia.
    destruct (N.le_gt_cases (pos + n) len) as [Hin|Hext].
    + (* entirely inside the current contents *)
      rewrite N.max_l by lia.
      rewrite (ndrop_app_le (pos + n) A) by lia.
      split.
      * rewrite !app_assoc.
        rewrite ntake_app_le by (rewrite !nlen_app, nlen_ntake, nlen_ndrop; fold n; lia).
        apply ntake_all. rewrite !nlen_app, nlen_ntake, nlen_ndrop. fold n. lia.
      * rewrite !app_assoc.
        rewrite ndrop_app_ge by (rewrite !nlen_app, nlen_ntake, nlen_ndrop; fold n; lia).
        rewrite !nlen_app, nlen_ntake, nlen_ndrop. fold n. rewrite HA.
        replace (len - (N.min pos len + n + (len - (pos + n)))) with 0 by lia.
        apply ndrop_0.
    + (* extends the contents *)
      rewrite N.max_r by lia.
      rewrite (ndrop_app_ge (pos + n) A) by lia. rewrite HA, ndrop_zeros.
      rewrite (ndrop_all (pos + n) A) by lia. rewrite app_nil_r.
      split.
      * rewrite app_assoc.
        rewrite ntake_app_le by (rewrite !nlen_app, nlen_ntake; fold n; lia).
        apply ntake_all. rewrite !nlen_app, nlen_ntake. fold n. lia.
      * rewrite app_assoc.
        rewrite ndrop_app_ge by (rewrite !nlen_app, nlen_ntake; fold n; lia).
        rewrite !nlen_app, nlen_ntake. fold n. rewrite HA.
        replace (pos + n - (N.min pos len + n)) with 0 by lia.
        rewrite ndrop_0. f_equal. lia.
Qed.

Theorem refine_step U s o :
  0 < U -> U <= 2 ^ 32 -> inv U s ->
  (match o with OWrite buf => apos s + nlen buf <= ISIZE_MAX | _ => True end) ->
  fst (std_step (abs s) o) = abs (fst (ac_step U s o)) /\
  snd (std_step (abs s) o) = snd (ac_step U s o) /\
  inv U (fst (ac_step U s o)).
Proof.
  intros HU HU2 Hinv Hfeas.
  pose proof Hinv as [Hlen Hunits Hzero Hcap].
  assert (Hnl : nlen (ntake (alen s) (avec s)) = alen s) by (rewrite nlen_ntake; lia).
  destruct o as [buf|n|n|z|z|n]; cbn [std_step ac_step abs svec spos].
  - (* write *)
    assert (HI : ISIZE_MAX = 2 ^ 63 - 1) by reflexivity.
    assert (HM : USIZE_MAX = 2 ^ 64 - 1) by reflexivity.
    assert (H64 : 2 ^ 64 = 2 * 2 ^ 63) by reflexivity.
    assert (H63 : 2 ^ 63 = 2 ^ 31 * 2 ^ 32) by reflexivity.
    assert (H32 : 0 < 2 ^ 32) by reflexivity.
    assert (H31 : 0 < 2 ^ 31) by reflexivity.
    set (blen := nlen buf) in *.
    replace (N.min blen (USIZE_MAX - apos s)) with blen by lia.
    replace (negb (blen =? 0) && (blen =? 0)) with false
      by (destruct (N.eqb_spec blen 0); reflexivity).
    rewrite N.ltb_irrefl.
    replace (N.min (nlen (avec s)) USIZE_MAX) with (nlen (avec s)) by lia.
    cbn [fst snd avec apos alen].
    rewrite Hnl.
    set (L1 := if nlen (avec s) <? apos s + blen then div_ceil (apos s + blen) U * U else nlen (avec s)).
    assert (HL1 : apos s + blen <= L1 /\ nlen (avec s) <= L1 /\ L1 mod U = 0 /\ L1 <= USIZE_MAX).
    { subst L1. destruct (N.ltb_spec (nlen (avec s)) (apos s + blen)) as [Hlt|Hge].
      - pose proof (div_ceil_ge (apos s + blen) U HU).
        pose proof (div_ceil_lt (apos s + blen) U HU).
        repeat split; try lia; try (apply N.mod_mul; lia); try nia.
      - repeat split; try lia. }
    destruct HL1 as (Hfit & HLL & HLU & HLM).
    (* the storage after the resize is (old contents) ++ zeros *)
    assert (Hv1 : (if nlen (avec s) <? apos s + blen
                   then avec s ++ zeros (div_ceil (apos s + blen) U * U - nlen (avec s))
                   else avec s) = ntake (alen s) (avec s) ++ zeros (L1 - alen s)).
    { pose proof (avec_split U s Hinv) as Hsplit. subst L1.
      destruct (N.ltb_spec (nlen (avec s)) (apos s + blen)) as [Hlt|Hge].
      - etransitivity; [apply (f_equal (fun v => v ++ zeros _)); exact Hsplit|].
        rewrite <- app_assoc, zeros_app. f_equal. f_equal. lia.
      - exact Hsplit. }
    rewrite Hv1.
    pose proof (write_core (ntake (alen s) (avec s)) L1 (apos s) buf) as Hcore.
    rewrite Hnl in Hcore. fold blen in Hcore.
    specialize (Hcore ltac:(lia) ltac:(lia)). cbn zeta in Hcore.
    destruct Hcore as [Htake Hdrop].
    assert (Hnlw : nlen (overwrite (ntake (alen s) (avec s) ++ zeros (L1 - alen s)) (apos s) buf) = L1).
    { rewrite nlen_overwrite; rewrite nlen_app, nlen_zeros, Hnl; fold blen; lia. }
    split; [|split].
    + unfold abs. cbn [avec apos alen]. rewrite Htake. reflexivity.
    + reflexivity.
    + constructor; cbn [avec apos alen]; rewrite ?Hnlw; try lia; try assumption.
  - (* read *)
    rewrite Hnl. cbn [fst snd].
    destruct (N.leb_spec (alen s) (apos s)) as [Hle|Hgt]; cbn [fst snd].
    + replace (N.min (apos s) (alen s)) with (alen s) by lia.
      rewrite (ndrop_all (alen s)) by lia.
      change (nlen (@nil byte)) with 0. replace (N.min n 0) with 0 by lia.
      rewrite N.add_0_r. split; [|split]; try reflexivity; try assumption.
    + replace (N.min (apos s) (alen s)) with (apos s) by lia.
      rewrite nlen_ndrop, Hnl.
      split; [|split]; try reflexivity.
      constructor; cbn [avec apos alen]; assumption.
  - split; [|split]; try reflexivity. constructor; cbn [avec apos alen]; assumption.
  - destruct (seek_target (apos s) z); cbn [fst snd]; split; try split; try reflexivity; try assumption.
    constructor; cbn [avec apos alen]; assumption.
  - rewrite Hnl. destruct (seek_target (alen s) z); cbn [fst snd]; split; try split; try reflexivity; try assumption.
    constructor; cbn [avec apos alen]; assumption.
  - split; [|split]; try reflexivity. constructor; cbn [avec apos alen]; assumption.
Qed.

Lemma abs_obs s : sc_obs (abs s) = (apos s, nlen (ntake (alen s) (avec s)), ntake (alen s) (avec s)).
Proof. reflexivity. Qed.

Theorem refine_run U : 0 < U -> U <= 2 ^ 32 ->
  forall ops s, inv U s -> feasible (abs s) ops -> ac_run U s ops = std_run (abs s) ops.
Proof.
  intros HU HU2. induction ops as [|o ops IH]; intros s Hinv Hfeas; [reflexivity|].
  cbn [ac_run std_run]. destruct Hfeas as [Hf Hrest].
  pose proof (refine_step U s o HU HU2 Hinv) as Hstep.
  assert (Hf' : match o with OWrite buf => apos s + nlen buf <= ISIZE_MAX | _ => True end)
    by (destruct o; exact Hf || exact I).
  specialize (Hstep Hf'). destruct Hstep as (Hs & Ho & Hi).
  destruct (ac_step U s o) as [s' r] eqn:Eac. destruct (std_step (abs s) o) as [t' r'] eqn:Estd.
  cbn [fst snd] in *. subst t' r'.
  f_equal.
  - f_equal. rewrite abs_obs. unfold ac_obs.
    destruct Hi as [Hl _ _ _]. rewrite nlen_ntake. f_equal. f_equal. lia.
  - apply IH; assumption.
Qed.

Lemma abs_init : abs ac_init = sc_init.
Proof. reflexivity. Qed.

Theorem refine_from_init U ops :
  0 < U -> U <= 2 ^ 32 -> feasible sc_init ops -> ac_run U ac_init ops = std_run sc_init ops.
Proof.
  intros HU HU2 Hf. rewrite <- abs_init. apply refine_run; try assumption.
  apply inv_init; assumption.
Qed.

(* reachable states keep the representation invariant *)
Fixpoint ac_final (U : N) (s : ac) (ops : list op) : ac :=
  match ops with [] => s | o :: ops' => ac_final U (fst (ac_step U s o)) ops' end.

Theorem inv_reachable U : 0 < U -> U <= 2 ^ 32 ->
  forall ops s, inv U s -> feasible (abs s) ops -> inv U (ac_final U s ops).
Proof.
  intros HU HU2. induction ops as [|o ops IH]; intros s Hinv Hfeas; [exact Hinv|].
  cbn [ac_final]. destruct Hfeas as [Hf Hrest].
  assert (Hf' : match o with OWrite buf => apos s + nlen buf <= ISIZE_MAX | _ => True end)
    by (destruct o; exact Hf || exact I).
  destruct (refine_step U s o HU HU2 Hinv Hf') as (Hs & _ & Hi).
  apply IH; [exact Hi|]. rewrite <- Hs. exact Hrest.
Qed.

Theorem inv_from_init U ops :
  0 < U -> U <= 2 ^ 32 -> feasible sc_init ops -> inv U (ac_final U ac_init ops).
Proof.
  intros HU HU2 Hf. apply inv_reachable; try assumption.
  apply inv_init; assumption.
Qed.
