(* C14 at the level of whole values: full-copy deserialization over any fragmenting reader. *)
Require Import EV.Base.Tac EV.Base.Bytes EV.Base.Res EV.Base.ListX.
Require Import EV.Model.Arith64 EV.Model.Types EV.Model.Layout EV.Model.Ser EV.Model.Deser EV.Model.Header EV.Model.IO EV.Model.Prog.
Require Import EV.Proofs.Monads EV.Proofs.Prefix EV.Proofs.IOProps.


(* ------------------------------------------------------------------ run_list is a monad morphism *)

Definition peq {A} (p : prog A) (r : R A) : Prop := forall i q, run_list p i q = r i q.

Lemma rbind_ext {A B} (r : R A) (f g : A -> R B) i q :
  (forall a i' q', f a i' q' = g a i' q') -> rbind r f i q = rbind r g i q.
Proof.
  intros H. unfold rbind. destruct (r i q) as [[[a i'] q']|e|w]; [apply H|reflexivity|reflexivity].
Qed.

Lemma run_list_pbind {A B} (p : prog A) (f : A -> prog B) : forall i q,
  run_list (pbind p f) i q = rbind (run_list p) (fun a => run_list (f a)) i q.
Proof.
  induction p as [a|e|w|n k IH|k IH]; intros i q; cbn [pbind run_list].
  - reflexivity.
  - reflexivity.
  - reflexivity.
  - unfold rbind at 1 2 3. destruct (read_exact n i q) as [[[b i'] q']|e|w]; [apply IH|reflexivity|reflexivity].
  - unfold rbind at 1 2 3. unfold rpos. apply IH.
Qed.

Lemma peq_bind {A B} (p : prog A) (f : A -> prog B) (r : R A) (g : A -> R B) :
  peq p r -> (forall a, peq (f a) (g a)) -> peq (pbind p f) (rbind r g).
Proof.
  intros Hp Hf i q. rewrite run_list_pbind. unfold rbind. rewrite Hp.
  destruct (r i q) as [[[a i'] q']|e|w]; [apply Hf|reflexivity|reflexivity].
Qed.

Lemma peq_ret {A} (a : A) : peq (PRet a) (rret a).
Proof. intros i q. reflexivity. Qed.

Lemma peq_err {A} (e : err) : peq (@PErr A e) (rerr e).
Proof. intros i q. reflexivity. Qed.

Lemma peq_panic {A} (w : pwhy) : peq (@PPanic A w) (rpanic w).
Proof. intros i q. reflexivity. Qed.

Lemma peq_read {A} n (k : list byte -> prog A) (g : list byte -> R A) :
  (forall b, peq (k b) (g b)) -> peq (PRead n k) (rbind (read_exact n) g).
Proof.
  intros H i q. cbn [run_list]. apply rbind_ext. intros a i' q'. apply H.
Qed.

Lemma peq_prim p : peq (pprim p) (rprim_full p).
Proof.
  unfold pprim, rprim_full. apply peq_read. intros b i q.
  destruct (decode_prim p (le_val b)); reflexivity.
Qed.

Lemma peq_usize : peq pusize rusize.
Proof. intros i q. reflexivity. Qed.

Lemma peq_u8 : peq pu8 ru8.
Proof. intros i q. reflexivity. Qed.

Lemma peq_read_val n : peq (pread_val n) (rbind (read_exact n) (fun b => rret (le_val b))).
Proof. intros i q. reflexivity. Qed.

Lemma peq_align u : peq (palign u) (ralign None u).
Proof.
  intros i q. unfold palign, ralign. cbn [run_list]. unfold rbind at 1. unfold rpos.
  destruct (u =? 0); [reflexivity|].
  cbn [run_list]. unfold rbind.
  destruct (read_exact (pad_align_to q u) i q) as [[[b i'] q']|e|w]; reflexivity.
Qed.

Lemma peq_read_ret {A} n (f : list byte -> A) :
  peq (PRead n (fun b => PRet (f b))) (rbind (read_exact n) (fun b => rret (f b))).
Proof. intros i q. reflexivity. Qed.

Lemma peq_full_zero t : peq (pfull_zero t) (full_zero None t).
Proof.
  unfold pfull_zero, full_zero. apply peq_bind; [apply peq_align|]. intros _. apply peq_read_ret.
Qed.

Lemma peq_full_vec_zero t : peq (pfull_vec_zero t) (full_vec_zero None t).
Proof.
  unfold pfull_vec_zero, full_vec_zero. apply peq_bind; [apply peq_usize|]. intros len.
  apply peq_bind; [apply peq_align|]. intros _. apply peq_read_ret.
Qed.

Lemma peq_full_string : peq pfull_string (full_string None).
Proof.
  unfold pfull_string, full_string. apply peq_bind; [apply peq_usize|]. intros len.
  apply peq_bind; [apply peq_align|]. intros _. apply peq_read. intros b.
  destruct (utf8_valid b); [apply peq_ret|apply peq_panic].
Qed.

Lemma peq_repeat (p : prog val) (r : R val) : peq p r -> forall k, peq (prepeat p k) (rrepeat r k).
Proof.
  intros H. induction k as [|k IH]; cbn [prepeat rrepeat].
  - apply peq_ret.
  - apply peq_bind; [exact H|]. intros x. apply peq_bind; [exact IH|]. intros xs. apply peq_ret.
Qed.

Ltac peq_step :=
  first
    [ assumption
    | apply peq_ret | apply peq_err | apply peq_panic
    | apply peq_prim | apply peq_usize | apply peq_u8 | apply peq_read_val
    | apply peq_align | apply peq_full_zero | apply peq_full_vec_zero | apply peq_full_string
    | apply peq_read_ret
    | apply peq_repeat
    | match goal with |- peq (if ?c then _ else _) _ => destruct c end
    | apply peq_bind; [|intros ?] ].

Lemma peq_full_all :
  (forall t, peq (prog_full t) (deser_full None t)) /\
  (forall fs, peq (prog_full_fields fs) (deser_full_fields None fs)) /\
  (forall vs, forall k tag, peq (prog_full_variants vs k tag) (deser_full_variants None vs k tag)).
Proof.
  apply ty_fields_variants_ind.
  - (* TPrim *) intros p. cbn [prog_full deser_full]. apply peq_prim.
  - cbn [prog_full deser_full]. apply peq_ret.
  - intros t IH. cbn [prog_full deser_full]. apply peq_ret.
  - cbn [prog_full deser_full]. apply peq_full_string.
  - cbn [prog_full deser_full]. apply peq_full_string.
  - (* TVec *) intros t IH. cbn [prog_full deser_full]. repeat peq_step.
  - intros t IH. cbn [prog_full deser_full]. repeat peq_step.
  - intros t IH. cbn [prog_full deser_full]. apply peq_panic.
  - intros t IH. cbn [prog_full deser_full]. apply peq_panic.
  - (* TArray *) intros n t IH. cbn [prog_full deser_full]. repeat peq_step.
  - (* TTuple *) intros n t IH. cbn [prog_full deser_full]. apply peq_full_zero.
  - (* TOption *) intros t IH. cbn [prog_full deser_full]. apply peq_bind; [apply peq_u8|].
    intros tag. destruct tag as [|[pp|pp|]]; repeat peq_step.
  - (* TBound *) intros t IH. cbn [prog_full deser_full]. apply peq_bind; [apply peq_u8|].
    intros tag. destruct tag as [|[[pp|pp|]|[pp|pp|]|]]; repeat peq_step.
  - (* TCF *) intros b IHb c IHc. cbn [prog_full deser_full]. apply peq_bind; [apply peq_u8|].
    intros tag. destruct tag as [|[pp|pp|]]; repeat peq_step.
  - (* TRange *) intros k t IH. cbn [prog_full deser_full]. destruct k; repeat peq_step.
  - cbn [prog_full deser_full]. apply peq_ret.
  - (* TStruct *) intros i fs IH. cbn [prog_full deser_full]. repeat peq_step.
  - (* TEnum *) intros i vs IH. cbn [prog_full deser_full]. destruct (a_zc i); [apply peq_full_zero|].
    apply peq_bind; [apply peq_usize|]. intros tag. apply IH.
  - cbn [prog_full_fields deser_full_fields]. apply peq_ret.
  - intros nm isp t IHt r IHr. cbn [prog_full_fields deser_full_fields]. repeat peq_step.
  - intros k tag. cbn [prog_full_variants deser_full_variants]. apply peq_err.
  - intros nm named fs IHfs r IHr k tag. cbn [prog_full_variants deser_full_variants].
    destruct (k =? 0); [repeat peq_step|apply IHr].
Qed.

Lemma peq_header h : peq (prog_header h) (check_header None h).
Proof.
  unfold prog_header, check_header. repeat peq_step.
Qed.

(* the program, run on a list, is the full-copy deserializer of Deser.v (reader kind None) *)
Theorem prog_full_is_deser_full :
  forall t i p, run_list (prog_full t) i p = deser_full None t i p.
Proof. intros t. exact (proj1 peq_full_all t). Qed.

Theorem prog_full_top_is_deser_full_top :
  forall h t input, run_list (prog_full_top h t) input 0 = deser_full_top h t input.
Proof.
  intros h t input. unfold prog_full_top, deser_full_top.
  apply (peq_bind (prog_header h) (fun _ => prog_full t) (check_header None h) (fun _ => deser_full None t)).
  - apply peq_header.
  - intros _. exact (proj1 peq_full_all t).
Qed.


(* read_exact on the rest of the stream at [pos] *)
Lemma read_exact_ndrop n pos (data : list byte) :
  pos <= nlen data ->
  read_exact n (ndrop pos data) pos =
  if pos + n <=? nlen data then Ok (ntake n (ndrop pos data), ndrop (pos + n) data, pos + n)
  else Err ReadError.
Proof.
  intros Hp. rewrite read_exact_eq. rewrite nlen_ndrop, ndrop_ndrop.
  destruct (N.leb_spec n (nlen data - pos)) as [L|L];
    destruct (N.leb_spec (pos + n) (nlen data)) as [L2|L2]; try lia; reflexivity.
Qed.

(* any program against a reader that delivers [data] in arbitrary fragments, with arbitrary
   Interrupted interleavings, computes what it computes on the list -- same value, same position,
   same error, same panic -- unless the reader interrupts forever *)
Theorem run_io_fragmenting_reader :
  forall (A : Type) (p : prog A) (data : list byte) (cut : N -> N -> N) (intr : N -> bool) (fuel : nat)
         (pos calls : N) (s' : N * N) (out : iores A),
    pos <= nlen data ->
    run_io (stream_reader data cut intr None) fuel p (pos, calls) pos = (s', out) ->
    out <> INoOutcome ->
    match run_list p (ndrop pos data) pos with
    | Ok (a, rest, p') => out = IOk a p' /\ fst s' = p' /\ rest = ndrop p' data
    | Err e => out = IErr e
    | Panic w => out = IPanic w
    end.
Proof.
  intros A p data cut intr fuel.
  induction p as [a|e|w|n k IH|k IH]; intros pos calls s' out Hp H Ho.
  - cbn [run_io] in H. inv H. cbn [run_list]. unfold rret. repeat split.
  - cbn [run_io] in H. inv H. reflexivity.
  - cbn [run_io] in H. inv H. reflexivity.
  - cbn [run_io] in H.
    destruct (read_exact_io (stream_reader data cut intr None) fuel (pos, calls) n []) as [s1 o] eqn:E.
    assert (Hof : o <> RFuel).
    { intros ->. inv H. now apply Ho. }
    pose proof (read_exact_io_matches_model data cut intr fuel pos calls n s1 o E Hof Hp) as M.
    cbn [run_list]. unfold rbind.
    rewrite (read_exact_ndrop n pos data Hp) in *.
    destruct (N.leb_spec (pos + n) (nlen data)) as [L|L].
    + destruct M as (M1 & M2 & _). subst o. destruct s1 as [p1 c1]. cbn [fst] in M2. subst p1.
      apply (IH _ (pos + n) c1 s' out L H Ho).
    + destruct M as (M1 & _). subst o. inv H. reflexivity.
  - cbn [run_io] in H. cbn [run_list]. unfold rbind, rpos.
    apply (IH pos pos calls s' out Hp H Ho).
Qed.

(* whole values: deserialize_full over a fragmenting reader = deserialize_full over the stream *)
Theorem full_copy_fragmentation_invariance :
  forall (h : hdr) (t : ty) (data : list byte) (cut : N -> N -> N) (intr : N -> bool) (fuel : nat)
         (s' : N * N) (out : iores val),
    run_io (stream_reader data cut intr None) fuel (prog_full_top h t) (0, 0) 0 = (s', out) ->
    out <> INoOutcome ->
    match deser_full_top h t data with
    | Ok (v, rest, p') => out = IOk v p' /\ fst s' = p'
    | Err e => out = IErr e
    | Panic w => out = IPanic w
    end.
Proof.
  intros h t data cut intr fuel s' out H Ho.
  pose proof (run_io_fragmenting_reader val (prog_full_top h t) data cut intr fuel 0 0 s' out
                (N.le_0_l _) H Ho) as M.
  rewrite ndrop_0, prog_full_top_is_deser_full_top in M.
  destruct (deser_full_top h t data) as [[[v rest] p']|e|w]; [|exact M|exact M].
  destruct M as (M1 & M2 & _). split; assumption.
Qed.


Lemma run_io_failing_reader :
  forall (A : Type) (p : prog A) (data : list byte) (cut : N -> N -> N) (intr : N -> bool) (k : N) (fuel : nat)
         (pos calls : N) (s' : N * N) (out : iores A),
    pos <= nlen data -> pos <= k ->
    run_io (stream_reader data cut intr (Some k)) fuel p (pos, calls) pos = (s', out) ->
    out <> INoOutcome ->
    out = IErr ReadError \/
    match run_list p (ndrop pos data) pos with
    | Ok (a, rest, p') => out = IOk a p' /\ p' <= k
    | Err e => out = IErr e
    | Panic w => out = IPanic w
    end.
Proof.
  intros A p data cut intr k fuel.
  induction p as [a|e|w|n kk IH|kk IH]; intros pos calls s' out Hp Hk H Ho.
  - cbn [run_io] in H. inv H. right. cbn [run_list]. unfold rret. split; [reflexivity|exact Hk].
  - cbn [run_io] in H. inv H. right. reflexivity.
  - cbn [run_io] in H. inv H. right. reflexivity.
  - cbn [run_io] in H.
    destruct (read_exact_io (stream_reader data cut intr (Some k)) fuel (pos, calls) n []) as [s1 o] eqn:E.
    assert (Hof : o <> RFuel).
    { intros ->. inv H. now apply Ho. }
    pose proof (read_exact_io_stream data cut intr (Some k) fuel pos calls n s1 o E Hof Hp Hk) as M.
    cbn [run_list]. unfold rbind.
    rewrite (read_exact_ndrop n pos data Hp).
    destruct (N.leb_spec (pos + n) (nlen data)) as [L|L]; cbn [andb] in M.
    + destruct (N.leb_spec (pos + n) k) as [L2|L2].
      * destruct M as (M1 & M2). subst o. destruct s1 as [p1 c1]. cbn [fst] in M2. subst p1.
        apply (IH _ (pos + n) c1 s' out L L2 H Ho).
      * subst o. inv H. left. reflexivity.
    + subst o. inv H. left. reflexivity.
  - cbn [run_io] in H. cbn [run_list]. unfold rbind, rpos.
    apply (IH pos pos calls s' out Hp Hk H Ho).
Qed.

(* a reader that fails once k bytes have been delivered: the result is the one of the stream
   truncated... precisely: either the deserializer never needed a byte at or beyond k and the
   result is unchanged, or it is ReadError -- never a different value, never a new panic *)
Theorem full_copy_failing_reader :
  forall (h : hdr) (t : ty) (data : list byte) (cut : N -> N -> N) (intr : N -> bool) (k : N) (fuel : nat)
         (s' : N * N) (out : iores val),
    run_io (stream_reader data cut intr (Some k)) fuel (prog_full_top h t) (0, 0) 0 = (s', out) ->
    out <> INoOutcome ->
    out = IErr ReadError \/
    match deser_full_top h t data with
    | Ok (v, rest, p') => out = IOk v p' /\ p' <= k
    | Err e => out = IErr e
    | Panic w => out = IPanic w
    end.
Proof.
  intros h t data cut intr k fuel s' out H Ho.
  pose proof (run_io_failing_reader val (prog_full_top h t) data cut intr k fuel 0 0 s' out
                (N.le_0_l _) (N.le_0_l _) H Ho) as M.
  rewrite ndrop_0, prog_full_top_is_deser_full_top in M. exact M.
Qed.
