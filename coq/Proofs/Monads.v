(* Algebra of writers (W) and readers (R), and the round-trip combinators used by the
   induction over the type grammar. *)
Require Import EV.Base.Tac EV.Base.Bytes EV.Base.Res EV.Base.ListX.
Require Import EV.Model.Arith64 EV.Model.Types EV.Model.Layout EV.Model.Ser EV.Model.Deser.
Require Import EV.Proofs.Pad.

(* ------------------------------------------------------------------ events *)

Lemma evs_len_app a b : evs_len (a ++ b) = evs_len a + evs_len b.
Proof. induction a as [|e a IH]; cbn [evs_len app]; [lia|]. rewrite IH. lia. Qed.

Lemma bytes_of_app a b : bytes_of (a ++ b) = bytes_of a ++ bytes_of b.
Proof. induction a as [|e a IH]; cbn [bytes_of app]; [reflexivity|]. now rewrite IH, app_assoc. Qed.

Lemma nlen_bytes_of es : nlen (bytes_of es) = evs_len es.
Proof.
  induction es as [|e es IH]; cbn [bytes_of evs_len]; [reflexivity|].
  rewrite nlen_app, IH. f_equal. destruct e; cbn [ev_bytes ev_len]; try reflexivity. apply nlen_zeros.
Qed.

(* ------------------------------------------------------------------ writers *)

Lemma wseq_done a b pos evs :
  (a ;; b) pos = (evs, SDone) ->
  exists ea eb, a pos = (ea, SDone) /\ b (pos + evs_len ea) = (eb, SDone) /\ evs = ea ++ eb.
Proof.
  unfold wseq. destruct (a pos) as [ea oa]. destruct oa; try discriminate.
  destruct (b (pos + evs_len ea)) as [eb ob] eqn:Eb. intros H. inv H. eauto.
Qed.

Lemma wev_done e pos evs : wev e pos = (evs, SDone) -> evs = [e].
Proof. unfold wev. intros H. now inv H. Qed.

Lemma wdone_done pos evs : wdone pos = (evs, SDone) -> evs = [].
Proof. unfold wdone. intros H. now inv H. Qed.

Lemma wfield_done nm t w pos evs :
  wfield nm t w pos = (evs, SDone) ->
  exists ew, w pos = (ew, SDone) /\ evs = EEnter nm t :: ew ++ [ELeave].
Proof.
  unfold wfield. intros H.
  apply wseq_done in H. destruct H as (e1 & e2 & H1 & H2 & ->).
  apply wseq_done in H1. destruct H1 as (e3 & e4 & H3 & H4 & ->).
  apply wev_done in H3. subst e3. apply wev_done in H2. subst e2.
  cbn [evs_len ev_len] in H4. rewrite N.add_0_l, N.add_0_r in H4.
  exists e4. split; [exact H4|]. reflexivity.
Qed.

(* ------------------------------------------------------------------ readers *)

Lemma rbind_ok {A B} (r : R A) (f : A -> R B) i p b i' p' :
  rbind r f i p = Ok (b, i', p') ->
  exists a i1 p1, r i p = Ok (a, i1, p1) /\ f a i1 p1 = Ok (b, i', p').
Proof.
  unfold rbind. destruct (r i p) as [[[a i1] p1]|e|w]; try discriminate. eauto.
Qed.

Lemma rbind_eq {A B} (r : R A) (f : A -> R B) i p a i1 p1 :
  r i p = Ok (a, i1, p1) -> rbind r f i p = f a i1 p1.
Proof. unfold rbind. now intros ->. Qed.

(* the length tests of [read_exact], [take_slice], [ralign] ([has_len], which only walks the bytes
   it is about to take) in terms of [nlen] *)
Lemma read_exact_eq n i p :
  read_exact n i p = if n <=? nlen i then Ok (ntake n i, ndrop n i, p + n) else Err ReadError.
Proof. unfold read_exact. now rewrite has_len_spec. Qed.

Lemma take_slice_eq n i p :
  take_slice n i p = if n <=? nlen i then Ok (ntake n i, ndrop n i, p + n) else Panic PBounds.
Proof. unfold take_slice. now rewrite has_len_spec. Qed.

Lemma ralign_eq rk u i p :
  ralign rk u i p =
  if u =? 0 then Panic PArith else
  let pad := pad_align_to p u in
  match rk with
  | None => match read_exact pad i p with
            | Ok (_, i', p') => Ok (tt, i', p')
            | Err e => Err e
            | Panic w => Panic w
            end
  | Some base =>
      if pad <=? nlen i then
        if (base + (p + pad)) mod u =? 0 then Ok (tt, ndrop pad i, p + pad) else Err AlignmentError
      else Panic PBounds
  end.
Proof. unfold ralign. now rewrite has_len_spec. Qed.

Lemma read_exact_app b rest p : read_exact (nlen b) (b ++ rest) p = Ok (b, rest, p + nlen b).
Proof.
  rewrite read_exact_eq. rewrite nlen_app.
  destruct (N.leb_spec (nlen b) (nlen b + nlen rest)); [|lia].
  rewrite ntake_app_le, ndrop_app_le by lia.
  rewrite ntake_all, ndrop_all by lia. reflexivity.
Qed.

Lemma take_slice_app b rest p : take_slice (nlen b) (b ++ rest) p = Ok (b, rest, p + nlen b).
Proof.
  rewrite take_slice_eq. rewrite nlen_app.
  destruct (N.leb_spec (nlen b) (nlen b + nlen rest)); [|lia].
  rewrite ntake_app_le, ndrop_app_le by lia.
  rewrite ntake_all, ndrop_all by lia. reflexivity.
Qed.

(* ------------------------------------------------------------------ round-trip combinators *)

(* [RT w r a]: whatever [w] writes (successfully) at any position, [r] reads back as [a] from
   the same position, consuming exactly those bytes and nothing of what follows *)
Definition RT {A} (w : Wr) (r : R A) (a : A) : Prop :=
  forall pos evs rest,
    w pos = (evs, SDone) ->
    r (bytes_of evs ++ rest) pos = Ok (a, rest, pos + evs_len evs).

Lemma RT_ret {A} (a : A) : RT wdone (rret a) a.
Proof.
  intros pos evs rest H. apply wdone_done in H. subst. cbn. unfold rret. now rewrite N.add_0_r.
Qed.

Lemma RT_seq {A B} w1 w2 (r1 : R A) (f : A -> R B) a b :
  RT w1 r1 a -> RT w2 (f a) b -> RT (w1 ;; w2) (rbind r1 f) b.
Proof.
  intros H1 H2 pos evs rest H.
  apply wseq_done in H. destruct H as (ea & eb & Ha & Hb & ->).
  rewrite bytes_of_app, <- app_assoc.
  rewrite (rbind_eq _ _ _ _ _ _ _ (H1 pos ea (bytes_of eb ++ rest) Ha)).
  rewrite (H2 _ eb rest Hb). rewrite evs_len_app. f_equal. f_equal. lia.
Qed.

Lemma RT_field {A} nm t w (r : R A) a : RT w r a -> RT (wfield nm t w) r a.
Proof.
  intros H pos evs rest Hw. apply wfield_done in Hw. destruct Hw as (ew & Hw & ->).
  cbn [bytes_of ev_bytes app evs_len ev_len]. rewrite bytes_of_app, evs_len_app.
  cbn [bytes_of ev_bytes evs_len ev_len]. rewrite app_nil_r, !N.add_0_r, N.add_0_l.
  apply H. exact Hw.
Qed.

Lemma RT_map {A B} w (r : R A) a (f : A -> B) :
  RT w r a -> RT w (let+ x := r in rret (f x)) (f a).
Proof.
  intros H pos evs rest Hw. rewrite (rbind_eq _ _ _ _ _ _ _ (H pos evs rest Hw)). reflexivity.
Qed.

Lemma RT_write b : RT (wev (EWrite b)) (read_exact (nlen b)) b.
Proof.
  intros pos evs rest H. apply wev_done in H. subst.
  cbn [bytes_of ev_bytes evs_len ev_len]. rewrite app_nil_r, N.add_0_r. apply read_exact_app.
Qed.

Lemma RT_ext {A} w (r r' : R A) a : (forall i p, r i p = r' i p) -> RT w r a -> RT w r' a.
Proof. intros He H pos evs rest Hw. rewrite <- He. now apply H. Qed.

(* align: the padding written is the padding skipped (same formula, same position) *)
Lemma RT_align_full u : u <> 0 -> RT (walign u) (ralign None u) tt.
Proof.
  intros Hnz pos evs rest H. unfold walign in H. unfold ralign.
  destruct (N.eqb_spec u 0) as [|_]; [contradiction|].
  destruct (N.eqb_spec (pad_align_to pos u) 0) as [Hz|Hz]; inv H.
  - cbn [bytes_of evs_len app]. rewrite Hz.
    rewrite read_exact_eq. destruct (N.leb_spec 0 (nlen rest)); [|lia].
    rewrite ndrop_0, N.add_0_r. reflexivity.
  - cbn [bytes_of ev_bytes evs_len ev_len]. rewrite app_nil_r, N.add_0_r.
    set (pd := pad_align_to pos u).
    rewrite <- (nlen_zeros pd) at 1.
    rewrite read_exact_app. now rewrite nlen_zeros.
Qed.

Lemma RT_list f (r : R val) nm t l :
  (forall x, In x l -> RT (f x) r x) ->
  RT (wlist f nm t l) (rrepeat r (length l)) l.
Proof.
  induction l as [|x l IH]; intros Hall; cbn [wlist rrepeat length].
  - apply RT_ret.
  - eapply RT_seq.
    + apply RT_field. apply Hall. now left.
    + apply (RT_map _ _ l (cons x)). apply IH. intros y Hy. apply Hall. now right.
Qed.

(* position after a successful writer is the start plus what it wrote: trivial by construction,
   recorded for the exact-count part of C07 *)
Lemma RT_pos {A} w (r : R A) a pos evs rest :
  RT w r a -> w pos = (evs, SDone) ->
  exists v i p, r (bytes_of evs ++ rest) pos = Ok (v, i, p) /\ p = pos + nlen (bytes_of evs) /\ i = rest.
Proof.
  intros H Hw. exists a, rest, (pos + evs_len evs). rewrite nlen_bytes_of. auto.
Qed.

Lemma wseq_assoc a b c pos : ((a ;; b) ;; c) pos = (a ;; (b ;; c)) pos.
Proof.
  unfold wseq. destruct (a pos) as [ea oa]. destruct oa; try reflexivity.
  destruct (b (pos + evs_len ea)) as [eb ob]. destruct ob; try reflexivity.
  rewrite evs_len_app, N.add_assoc.
  destruct (c (pos + evs_len ea + evs_len eb)) as [ec oc]. now rewrite app_assoc.
Qed.

Lemma RT_assoc {A} a b c (r : R A) v : RT (a ;; (b ;; c)) r v -> RT ((a ;; b) ;; c) r v.
Proof. intros H pos evs rest Hw. rewrite wseq_assoc in Hw. now apply H. Qed.
