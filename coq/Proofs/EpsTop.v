(* Top-level eps-copy statements: serialize, place the bytes at address [base], deserialize_eps. *)
Require Import EV.Base.Tac EV.Base.Bytes EV.Base.Res EV.Base.ListX.
Require Import EV.Model.Arith64 EV.Model.Types EV.Model.Layout EV.Model.Ser EV.Model.Deser EV.Model.Header EV.Model.Typing EV.Model.Need.
Require Import EV.Proofs.Pad EV.Proofs.Monads EV.Proofs.LayoutRT EV.Proofs.RoundTrip EV.Proofs.HeaderRT EV.Proofs.HeaderSpec EV.Proofs.EpsRT.

Lemma RT_align_1 rk : RT (walign 1) (ralign rk 1) tt.
Proof.
  intros pos evs rest H. unfold walign in H. cbn [N.eqb] in H.
  change (1 =? 0) with false in H. cbv iota in H.
  rewrite pad_align_to_1, N.eqb_refl in H. inv H.
  cbn [bytes_of evs_len app]. rewrite ralign_1, N.add_0_r. reflexivity.
Qed.

Lemma RT_string_rk rk l :
  utf8_valid l = true -> nlen l < W -> RT (wbytes_zero l) (full_string rk) (VBytes l).
Proof.
  intros Hu Hl. unfold wbytes_zero, full_string.
  apply RT_assoc. eapply RT_seq; [apply RT_usize; exact Hl|].
  eapply RT_seq; [apply RT_align_1|]. cbn beta.
  intros pos evs rest H. apply wev_done in H. subst.
  cbn [bytes_of ev_bytes evs_len ev_len]. rewrite app_nil_r, N.add_0_r.
  rewrite (rbind_eq _ _ _ _ _ _ _ (read_exact_app _ _ _)). rewrite Hu. reflexivity.
Qed.

Local Opaque wfield.

Lemma RT_header_rk h rk : hdr_ok h -> RT (header_w h) (check_header rk h) tt.
Proof.
  intros (Hth & Hah & Hnb & Hnu & Hnl). unfold header_w, check_header.
  repeat apply RT_assoc.
  eapply RT_seq; [apply (RT_le _ _ 8 MAGIC); exact MAGIC_lt|]. cbn beta.
  apply (RT_pure _ _ tt); [intros i p; rewrite N.eqb_refl; reflexivity|].
  eapply RT_seq; [apply (RT_le _ _ 2 VERSION_MAJOR); vm_compute; reflexivity|]. cbn beta.
  rewrite N.eqb_refl. cbn [negb].
  eapply RT_seq; [apply (RT_le _ _ 2 VERSION_MINOR); vm_compute; reflexivity|]. cbn beta.
  rewrite N.ltb_irrefl.
  eapply RT_seq; [apply (RT_le _ _ 1 8); vm_compute; reflexivity|]. cbn beta.
  rewrite N.eqb_refl. cbn [negb].
  eapply RT_seq; [apply (RT_le _ _ 8 (h_type_hash h)); exact Hth|]. cbn beta.
  eapply RT_seq; [apply (RT_le _ _ 8 (h_align_hash h)); exact Hah|]. cbn beta.
  apply (RT_then _ _ (VBytes (h_name h))).
  - apply RT_field. apply RT_string_rk; assumption.
  - intros i p. rewrite !N.eqb_refl. reflexivity.
Qed.

(* The outcome of eps-copy deserialization of a serialized stream placed at address [base] *)
Theorem eps_top base pf h t v evs :
  hdr_ok h ->
  wf t = true -> units_pow2 t = true -> units_cover t = true -> deserializable t = true ->
  wt t v = true -> exhausted_in t v = false ->
  ser_top pf h t v = (evs, SDone) ->
  (base mod need t v = 0 ->
     exists e, deser_eps_top base h t (bytes_of evs) = Ok (e, [], evs_len evs) /\ erase e = v) /\
  (base mod need t v <> 0 -> deser_eps_top base h t (bytes_of evs) = Err AlignmentError).
Proof.
  intros Hh Hw Hu Hc Hd Ht He Hs. unfold ser_top in Hs. unfold deser_eps_top.
  rewrite wseq_assoc in Hs.
  assert (HR : RTE base (header_w h ;; (wfield N_ROOT t (ser pf t v) ;; wev EFlush))
                   (let+ _ := check_header (Some base) h in deser_eps base t) (ER v) (N.max 1 (need t v))).
  { eapply RTE_seq; [reflexivity|apply (proj1 need_pow2); assumption| |].
    - apply (RTE_of_RT base _ _ tt (fun _ => True)); [now apply RT_header_rk|exact I].
    - intros [] _. cbn beta.
      intros pos evs' rest Hw'. apply wseq_done in Hw'. destruct Hw' as (ea & eb & Ha & Hb & ->).
      apply wev_done in Hb. subst eb.
      rewrite bytes_of_app, evs_len_app. cbn [bytes_of ev_bytes evs_len ev_len].
      rewrite app_nil_r, N.add_0_r.
      apply (RTE_field base N_ROOT t _ _ _ _ (proj1 (slice_eps_all base) t pf v Hw Hu Hc Hd Ht He)). exact Ha. }
  assert (Hn : N.max 1 (need t v) = need t v).
  { apply max_1_l, is_pow2_ge1, (proj1 need_pow2). assumption. }
  rewrite Hn in HR.
  destruct (HR 0 evs [] Hs) as [Hok Hbad]. rewrite app_nil_r, N.add_0_l in *. split.
  - intros Hm. destruct (Hok Hm) as (e & Hr & Hex). exists e. split; assumption.
  - exact Hbad.
Qed.

(* the requirement divides the largest unit of the type: a buffer aligned to the largest unit
   always works *)
Lemma need_list_le f l m : (forall x, In x l -> f x <= m) -> 1 <= m -> need_list f l <= m.
Proof.
  induction l as [|x l IH]; intros H Hm; cbn [need_list]; [exact Hm|].
  apply N.max_lub; [apply H; now left|apply IH; auto; intros y Hy; apply H; now right].
Qed.

Lemma max_unit_ge1_all :
  (forall t, 1 <= max_unit t) /\ (forall fs, 1 <= max_unit_fields fs) /\ (forall vs, 1 <= max_unit_variants vs).
Proof.
  apply ty_fields_variants_ind; intros; cbn [max_unit max_unit_fields max_unit_variants]; try lia;
    try (destruct (is_zc t); [apply (proj1 unit_ge1_all)|assumption]);
    try apply (proj1 unit_ge1_all).
  - destruct (a_zc i); [apply (proj1 unit_ge1_all)|assumption].
  - destruct (a_zc i); [apply (proj1 unit_ge1_all)|assumption].
Qed.

Theorem need_le_max_unit :
  (forall t v, need t v <= max_unit t) /\
  (forall fs l, need_fields fs l <= max_unit_fields fs) /\
  (forall vs k l, need_variants vs k l <= max_unit_variants vs).
Proof.
  apply ty_fields_variants_ind; intros; cbn [need need_fields need_variants max_unit max_unit_fields max_unit_variants];
    try lia; try apply (proj1 unit_ge1_all);
    try (destruct (is_zc t); [lia|apply need_list_le; [auto|apply (proj1 max_unit_ge1_all)]]).
  - apply need_list_le; [auto|apply (proj1 max_unit_ge1_all)].
  - apply need_list_le; [auto|apply (proj1 max_unit_ge1_all)].
  - pose proof (proj1 max_unit_ge1_all b). pose proof (proj1 max_unit_ge1_all c).
    destruct (vtag v =? 0); apply need_list_le; try lia.
    + intros x _. specialize (H x). lia.
    + intros x _. specialize (H0 x). lia.
  - apply need_list_le; [auto|apply (proj1 max_unit_ge1_all)].
  - destruct (a_zc i); [lia|auto].
  - destruct (a_zc i); [lia|auto].
  - specialize (H (hd (VSeq []) l)). specialize (H0 (tl l)). lia.
  - destruct (k =? 0); [specialize (H l)|specialize (H0 (k - 1) l)]; lia.
Qed.

Theorem max_unit_pow2 :
  (forall t, units_pow2 t = true -> is_pow2 (max_unit t) = true) /\
  (forall fs, units_pow2_fields fs = true -> is_pow2 (max_unit_fields fs) = true) /\
  (forall vs, units_pow2_variants vs = true -> is_pow2 (max_unit_variants vs) = true).
Proof.
  apply ty_fields_variants_ind; intros; cbn [max_unit max_unit_fields max_unit_variants units_pow2 units_pow2_fields units_pow2_variants] in *;
    try reflexivity; split_and;
    try (destruct (is_zc t); [assumption|auto]); try assumption; auto.
  - apply is_pow2_max; auto.
  - destruct (a_zc i); auto.
  - destruct (a_zc i); auto.
  - apply is_pow2_max; auto.
  - apply is_pow2_max; auto.
Qed.

Lemma pow2_le_divides base a b : is_pow2 a = true -> is_pow2 b = true -> a <= b -> base mod b = 0 -> base mod a = 0.
Proof.
  intros Ha Hb Hab Hm.
  destruct (is_pow2_exp _ Ha) as (ka & _ & ->). destruct (is_pow2_exp _ Hb) as (kb & _ & ->).
  apply (pow2_mod_le base ka kb); [|exact Hm].
  apply N.pow_le_mono_r_iff in Hab; lia.
Qed.

(* C02: from a buffer whose address is a multiple of the largest unit of the type, eps-copy
   deserialization succeeds and describes the serialized value *)
Theorem eps_roundtrip_top base pf h t v evs :
  hdr_ok h ->
  wf t = true -> units_pow2 t = true -> units_cover t = true -> deserializable t = true ->
  wt t v = true -> exhausted_in t v = false ->
  ser_top pf h t v = (evs, SDone) ->
  base mod max_unit t = 0 ->
  exists e, deser_eps_top base h t (bytes_of evs) = Ok (e, [], evs_len evs) /\ erase e = v.
Proof.
  intros Hh Hw Hu Hc Hd Ht He Hs Hb.
  apply (proj1 (eps_top base pf h t v evs Hh Hw Hu Hc Hd Ht He Hs)).
  apply (pow2_le_divides base (need t v) (max_unit t)); try assumption.
  - now apply (proj1 need_pow2).
  - now apply (proj1 max_unit_pow2).
  - apply (proj1 need_le_max_unit).
Qed.

(* ... and whenever both modes return a value on the serialized bytes, they describe the same value *)
Theorem modes_agree base pf h t v evs e f :
  hdr_ok h ->
  wf t = true -> units_pow2 t = true -> units_cover t = true -> deserializable t = true ->
  wt t v = true -> exhausted_in t v = false ->
  ser_top pf h t v = (evs, SDone) ->
  deser_eps_top base h t (bytes_of evs) = Ok e -> deser_full_top h t (bytes_of evs) = Ok f ->
  erase (fst (fst e)) = fst (fst f).
Proof.
  intros Hh Hw Hu Hc Hd Ht He Hs Hes Hfs.
  rewrite (full_roundtrip_top pf h t v evs Hh Hw Hd Ht He Hs) in Hfs. inv Hfs. cbn [fst].
  destruct (eps_top base pf h t v evs Hh Hw Hu Hc Hd Ht He Hs) as [Hok Hbad].
  destruct (N.eq_dec (base mod need t v) 0) as [Hm|Hm].
  - destruct (Hok Hm) as (x & Hr & Hx). rewrite Hr in Hes. injection Hes as <-. exact Hx.
  - rewrite (Hbad Hm) in Hes. discriminate.
Qed.
