(* C10: complete characterisation of check_header on arbitrary header contents, and the
   consequences for single-bit flips of the 29 fixed header bytes. *)
Require Import EV.Base.Tac EV.Base.Bytes EV.Base.Res EV.Base.ListX.
Require Import EV.Model.Arith64 EV.Model.Types EV.Model.Layout EV.Model.Ser EV.Model.Deser EV.Model.Header EV.Model.Typing.
Require Import EV.Proofs.Pad EV.Proofs.Monads.

(* the bytes of a header with arbitrary field values *)
Definition header_bytes (magic major minor us sth sah : N) (nm : list byte) : list byte :=
  le_bytes 8 magic ++ le_bytes 2 major ++ le_bytes 2 minor ++ le_bytes 1 us ++
  le_bytes 8 sth ++ le_bytes 8 sah ++ le_bytes 8 (nlen nm) ++ nm.

Definition fields_in_range (magic major minor us sth sah : N) (nm : list byte) : Prop :=
  magic < 2 ^ 64 /\ major < 2 ^ 16 /\ minor < 2 ^ 16 /\ us < 256 /\ sth < 2 ^ 64 /\ sah < 2 ^ 64 /\
  nlen nm < 2 ^ 64 /\ utf8_valid nm = true.

(* what check_header answers, as a function of the header fields only *)
Definition header_verdict (h : hdr) (magic major minor us sth sah : N) : option err :=
  if negb (magic =? MAGIC) then Some (if magic =? MAGIC_REV then EndiannessError else MagicCookieError magic)
  else if negb (major =? VERSION_MAJOR) then Some (MajorVersionMismatch major)
  else if VERSION_MINOR <? minor then Some (MinorVersionMismatch minor)
  else if negb (us =? 8) then Some (UsizeSizeMismatch us)
  else if negb (sth =? h_type_hash h) then Some (WrongTypeHash sth)
  else if negb (sah =? h_align_hash h) then Some (WrongAlignHash sah)
  else None.

(* ------------------------------------------------------------------ helper lemmas *)

Lemma nlen_le_bytes' k n : nlen (le_bytes k n) = N.of_nat k.
Proof. unfold nlen. now rewrite le_bytes_length. Qed.

(* reading a little-endian field of k bytes *)
Lemma read_le k kn x rest p : kn = N.of_nat k -> x < 256 ^ kn ->
  (let+ b := read_exact kn in rret (le_val b)) (le_bytes k x ++ rest) p = Ok (x, rest, p + kn).
Proof.
  intros -> Hx.
  pose proof (read_exact_app (le_bytes k x) rest p) as H. rewrite nlen_le_bytes' in H.
  rewrite (rbind_eq _ _ _ _ _ _ _ H). unfold rret.
  rewrite le_val_bytes_small by exact Hx. reflexivity.
Qed.

Lemma rbind_ret {A B} (a : A) (f : A -> R B) i p : rbind (rret a) f i p = f a i p.
Proof. reflexivity. Qed.

Lemma rbind_err {A B} e (f : A -> R B) i p : rbind (rerr e) f i p = Err e.
Proof. reflexivity. Qed.

(* aligning to 1 is the identity on both backends *)
Lemma ralign_1 rk i p : ralign rk 1 i p = Ok (tt, i, p).
Proof.
  rewrite ralign_eq; cbv zeta. change (1 =? 0) with false. cbv iota. rewrite pad_align_to_1.
  destruct rk as [base|].
  - destruct (N.leb_spec 0 (nlen i)) as [_|Hc]; [|lia].
    rewrite N.mod_1_r. change (0 =? 0) with true. cbv iota.
    rewrite ndrop_0, N.add_0_r. reflexivity.
  - rewrite read_exact_eq. destruct (N.leb_spec 0 (nlen i)) as [_|Hc]; [|lia].
    rewrite ndrop_0, N.add_0_r. reflexivity.
Qed.

Lemma full_string_app rk nm rest p : nlen nm < 2 ^ 64 -> utf8_valid nm = true ->
  full_string rk (le_bytes 8 (nlen nm) ++ nm ++ rest) p = Ok (VBytes nm, rest, p + 8 + nlen nm).
Proof.
  intros Hl Hu. unfold full_string, rusize.
  rewrite (rbind_eq _ _ _ _ _ _ _ (read_le 8 8 (nlen nm) (nm ++ rest) p eq_refl Hl)).
  rewrite (rbind_eq _ _ _ _ _ _ _ (ralign_1 rk (nm ++ rest) (p + 8))).
  rewrite (rbind_eq _ _ _ _ _ _ _ (read_exact_app nm rest (p + 8))).
  rewrite Hu. reflexivity.
Qed.

(* check_header reads exactly the header and answers [header_verdict], on both backends and for
   every base address *)
Theorem check_header_spec rk h magic major minor us sth sah nm rest :
  fields_in_range magic major minor us sth sah nm ->
  check_header rk h (header_bytes magic major minor us sth sah nm ++ rest) 0 =
    match header_verdict h magic major minor us sth sah with
    | Some e => Err e
    | None => Ok (tt, rest, 37 + nlen nm)
    end.
Proof.
  intros (Hm & Hj & Hn & Hu & Hth & Hah & Hl & Hv).
  unfold header_bytes. rewrite <- !app_assoc.
  unfold check_header, header_verdict, ru8.
  (* magic *)
  rewrite (rbind_eq _ _ _ _ _ _ _ (read_le 8 8 magic _ 0 eq_refl Hm)).
  destruct (magic =? MAGIC) eqn:E1; cbn [negb].
  2:{ destruct (magic =? MAGIC_REV); apply rbind_err. }
  rewrite rbind_ret.
  (* major *)
  rewrite (rbind_eq _ _ _ _ _ _ _ (read_le 2 2 major _ _ eq_refl Hj)).
  destruct (major =? VERSION_MAJOR) eqn:E2; cbn [negb]; [|reflexivity].
  (* minor *)
  rewrite (rbind_eq _ _ _ _ _ _ _ (read_le 2 2 minor _ _ eq_refl Hn)).
  destruct (VERSION_MINOR <? minor) eqn:E3; [reflexivity|].
  (* usize size *)
  rewrite (rbind_eq _ _ _ _ _ _ _ (read_le 1 1 us _ _ eq_refl Hu)).
  destruct (us =? 8) eqn:E4; cbn [negb]; [|reflexivity].
  (* hashes *)
  rewrite (rbind_eq _ _ _ _ _ _ _ (read_le 8 8 sth _ _ eq_refl Hth)).
  rewrite (rbind_eq _ _ _ _ _ _ _ (read_le 8 8 sah _ _ eq_refl Hah)).
  (* name *)
  rewrite (rbind_eq _ _ _ _ _ _ _ (full_string_app rk nm rest _ Hl Hv)).
  destruct (sth =? h_type_hash h) eqn:E5; cbn [negb]; [|reflexivity].
  destruct (sah =? h_align_hash h) eqn:E6; cbn [negb]; [|reflexivity].
  unfold rret.
  replace (0 + 8 + 2 + 2 + 1 + 8 + 8 + 8 + nlen nm) with (37 + nlen nm) by lia. reflexivity.
Qed.

(* consequently the two entry points return that error, never a value and never a panic; when the
   verdict is None the result does not depend on the minor version that was read *)
Theorem deser_full_top_header h t magic major minor us sth sah nm body :
  fields_in_range magic major minor us sth sah nm ->
  deser_full_top h t (header_bytes magic major minor us sth sah nm ++ body) =
    match header_verdict h magic major minor us sth sah with
    | Some e => Err e
    | None => deser_full None t body (37 + nlen nm)
    end.
Proof.
  intros Hr. unfold deser_full_top, rbind.
  rewrite (check_header_spec None h _ _ _ _ _ _ _ body Hr).
  destruct (header_verdict h magic major minor us sth sah); reflexivity.
Qed.

Theorem deser_eps_top_header base h t magic major minor us sth sah nm body :
  fields_in_range magic major minor us sth sah nm ->
  deser_eps_top base h t (header_bytes magic major minor us sth sah nm ++ body) =
    match header_verdict h magic major minor us sth sah with
    | Some e => Err e
    | None => deser_eps base t body (37 + nlen nm)
    end.
Proof.
  intros Hr. unfold deser_eps_top, rbind.
  rewrite (check_header_spec (Some base) h _ _ _ _ _ _ _ body Hr).
  destruct (header_verdict h magic major minor us sth sah); reflexivity.
Qed.

(* [WB w b]: whenever [w] succeeds, at any position, the bytes it emits are [b] *)
Definition WB (w : Wr) (b : list byte) : Prop :=
  forall pos evs, w pos = (evs, SDone) -> bytes_of evs = b.

Lemma WB_seq a b x y : WB a x -> WB b y -> WB (a ;; b) (x ++ y).
Proof.
  intros Ha Hb pos evs H. apply wseq_done in H. destruct H as (ea & eb & H1 & H2 & ->).
  rewrite bytes_of_app. now rewrite (Ha _ _ H1), (Hb _ _ H2).
Qed.

Lemma WB_field nm t w x : WB w x -> WB (wfield nm t w) x.
Proof.
  intros Hw pos evs H. apply wfield_done in H. destruct H as (ew & H1 & ->).
  cbn [bytes_of ev_bytes app]. rewrite bytes_of_app. cbn [bytes_of ev_bytes app].
  rewrite app_nil_r. exact (Hw _ _ H1).
Qed.

Lemma WB_ev e : WB (wev e) (ev_bytes e).
Proof.
  intros pos evs H. apply wev_done in H. subst evs. cbn [bytes_of]. apply app_nil_r.
Qed.

Lemma WB_align_1 : WB (walign 1) [].
Proof.
  intros pos evs H. unfold walign in H. change (1 =? 0) with false in H. cbv iota in H.
  rewrite pad_align_to_1 in H. change (0 =? 0) with true in H. cbv iota in H.
  inv H. reflexivity.
Qed.

Local Opaque wfield.

Lemma WB_header h :
  WB (header_w h)
     (header_bytes MAGIC VERSION_MAJOR VERSION_MINOR 8 (h_type_hash h) (h_align_hash h) (h_name h)).
Proof.
  unfold header_bytes.
  assert (H : WB (header_w h)
    ((((((le_bytes 8 MAGIC ++ le_bytes 2 VERSION_MAJOR) ++ le_bytes 2 VERSION_MINOR) ++ le_bytes 1 8) ++
       le_bytes 8 (h_type_hash h)) ++ le_bytes 8 (h_align_hash h)) ++
     ((le_bytes 8 (nlen (h_name h)) ++ []) ++ h_name h))).
  { unfold header_w, wbytes_zero, wusize.
    apply WB_seq; [apply WB_seq; [apply WB_seq; [apply WB_seq; [apply WB_seq; [apply WB_seq|]|]|]|]|];
      apply WB_field; try (apply (WB_ev (EWrite _))).
    apply WB_seq; [apply WB_seq; [apply WB_field; apply (WB_ev (EWrite _))|apply WB_align_1]|].
    apply (WB_ev (EBlock _ _)). }
  rewrite app_nil_r in H. rewrite <- !app_assoc in H. exact H.
Qed.

(* the stream produced by serialization starts with the header of the serialized type *)
Theorem ser_top_starts_with_header pf h t v evs :
  ser_top pf h t v = (evs, SDone) ->
  exists body, bytes_of evs =
    header_bytes MAGIC VERSION_MAJOR VERSION_MINOR 8 (h_type_hash h) (h_align_hash h) (h_name h) ++ body.
Proof.
  intros H. unfold ser_top in H.
  apply wseq_done in H. destruct H as (e1 & ef & H1 & _ & ->).
  apply wseq_done in H1. destruct H1 as (eh & er & Hh & _ & ->).
  exists (bytes_of er ++ bytes_of ef).
  rewrite !bytes_of_app, <- app_assoc. f_equal. exact (WB_header h _ _ Hh).
Qed.

(* flipping one bit of a w-bit field changes the field *)
Theorem flip_changes x j : N.lxor x (2 ^ j) <> x.
Proof.
  intros H. apply N.bits_inj_iff in H. specialize (H j).
  rewrite N.lxor_spec, N.pow2_bits_true in H.
  destruct (N.testbit x j); discriminate H.
Qed.

Lemma lt_64_in j : j < 64 -> In j (map N.of_nat (seq 0 64)).
Proof.
  intros Hj. apply in_map_iff. exists (N.to_nat j). split; [lia|]. apply in_seq. lia.
Qed.

Lemma flip_magic_not_rev_b :
  forallb (fun j => negb (N.lxor MAGIC (2 ^ j) =? MAGIC_REV)) (map N.of_nat (seq 0 64)) = true.
Proof. vm_compute. reflexivity. Qed.

(* no single-bit flip of the magic cookie gives the byte-reversed cookie *)
Theorem flip_magic_not_rev : forall j, j < 64 -> N.lxor MAGIC (2 ^ j) <> MAGIC_REV.
Proof.
  intros j Hj. pose proof flip_magic_not_rev_b as H.
  rewrite forallb_forall in H. specialize (H j (lt_64_in j Hj)).
  apply negb_true_iff in H. now apply N.eqb_neq in H.
Qed.

(* the verdicts of C10, field by field, for any altered value of the field *)
Theorem verdict_magic h m major minor us sth sah :
  m <> MAGIC -> header_verdict h m major minor us sth sah =
                Some (if m =? MAGIC_REV then EndiannessError else MagicCookieError m).
Proof.
  intros H. unfold header_verdict. apply N.eqb_neq in H. rewrite H. reflexivity.
Qed.
Theorem verdict_major h major minor us sth sah :
  major <> VERSION_MAJOR -> header_verdict h MAGIC major minor us sth sah = Some (MajorVersionMismatch major).
Proof.
  intros H. unfold header_verdict. apply N.eqb_neq in H. rewrite N.eqb_refl, H. reflexivity.
Qed.
Theorem verdict_minor_high h minor us sth sah :
  VERSION_MINOR < minor -> header_verdict h MAGIC VERSION_MAJOR minor us sth sah = Some (MinorVersionMismatch minor).
Proof.
  intros H. unfold header_verdict. apply N.ltb_lt in H. rewrite !N.eqb_refl, H. reflexivity.
Qed.
Theorem verdict_minor_low h minor :
  minor <= VERSION_MINOR ->
  header_verdict h MAGIC VERSION_MAJOR minor 8 (h_type_hash h) (h_align_hash h) = None.
Proof.
  intros H. unfold header_verdict. apply N.ltb_ge in H. rewrite !N.eqb_refl, H. reflexivity.
Qed.
Theorem verdict_usize h us sth sah :
  us <> 8 -> header_verdict h MAGIC VERSION_MAJOR VERSION_MINOR us sth sah = Some (UsizeSizeMismatch us).
Proof.
  intros H. unfold header_verdict. apply N.eqb_neq in H.
  rewrite !N.eqb_refl, N.ltb_irrefl, H. reflexivity.
Qed.
Theorem verdict_type_hash h sth sah :
  sth <> h_type_hash h -> header_verdict h MAGIC VERSION_MAJOR VERSION_MINOR 8 sth sah = Some (WrongTypeHash sth).
Proof.
  intros H. unfold header_verdict. apply N.eqb_neq in H.
  rewrite !N.eqb_refl, N.ltb_irrefl, H. reflexivity.
Qed.
Theorem verdict_align_hash h sah :
  sah <> h_align_hash h ->
  header_verdict h MAGIC VERSION_MAJOR VERSION_MINOR 8 (h_type_hash h) sah = Some (WrongAlignHash sah).
Proof.
  intros H. unfold header_verdict. apply N.eqb_neq in H.
  rewrite !N.eqb_refl, N.ltb_irrefl, H. reflexivity.
Qed.
