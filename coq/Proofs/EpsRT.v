(* C02 / C12: deserialization from a slice placed at address [base] (eps-copy, and the
   full-copy of non-parameter fields inside it) either returns the serialized value -- when
   [base] is a multiple of the alignment requirement [need t v] of the stream -- or returns
   AlignmentError; nothing else, for every type, value, position and padding content. *)
Require Import EV.Base.Tac EV.Base.Bytes EV.Base.Res EV.Base.ListX.
Require Import EV.Model.Arith64 EV.Model.Types EV.Model.Layout EV.Model.Ser EV.Model.Deser EV.Model.Typing EV.Model.Need.
Require Import EV.Proofs.Pad EV.Proofs.Monads EV.Proofs.LayoutRT EV.Proofs.RoundTrip.

(* ------------------------------------------------------------------ powers of two *)

Lemma pow2_mod_le base a b : a <= b -> base mod 2 ^ b = 0 -> base mod 2 ^ a = 0.
Proof.
  intros Hab H.
  assert (Ha : 2 ^ a <> 0) by (apply N.pow_nonzero; lia).
  assert (Hb : 2 ^ b <> 0) by (apply N.pow_nonzero; lia).
  apply N.mod_divide in H; [|assumption]. apply N.mod_divide; [assumption|].
  destruct H as [q Hq]. exists (q * 2 ^ (b - a)).
  rewrite Hq. replace b with ((b - a) + a) at 1 by lia. rewrite N.pow_add_r. lia.
Qed.

Lemma is_pow2_nz' n : is_pow2 n = true -> n <> 0.
Proof. unfold is_pow2. intros H. split_and. lia. Qed.

Lemma is_pow2_1 : is_pow2 1 = true.
Proof. reflexivity. Qed.

Lemma is_pow2_max a b : is_pow2 a = true -> is_pow2 b = true -> is_pow2 (N.max a b) = true.
Proof. intros Ha Hb. destruct (N.max_spec a b) as [[_ ->]|[_ ->]]; assumption. Qed.

Lemma mod_max_pow2 base a b : is_pow2 a = true -> is_pow2 b = true ->
  (base mod N.max a b = 0 <-> base mod a = 0 /\ base mod b = 0).
Proof.
  intros Ha Hb.
  destruct (is_pow2_exp _ Ha) as (ka & _ & ->). destruct (is_pow2_exp _ Hb) as (kb & _ & ->).
  destruct (N.le_ge_cases ka kb) as [Hle|Hle].
  - rewrite N.max_r by (apply N.pow_le_mono_r; lia).
    split; [intros H; split; [eapply pow2_mod_le; eassumption|assumption]|tauto].
  - rewrite N.max_l by (apply N.pow_le_mono_r; lia).
    split; [intros H; split; [assumption|eapply pow2_mod_le; eassumption]|tauto].
Qed.

(* ------------------------------------------------------------------ the combinator *)

Definition RTE {A} (base : N) (w : Wr) (r : R A) (E : A -> Prop) (nd : N) : Prop :=
  forall pos evs rest,
    w pos = (evs, SDone) ->
    (base mod nd = 0 ->
       exists e, r (bytes_of evs ++ rest) pos = Ok (e, rest, pos + evs_len evs) /\ E e) /\
    (base mod nd <> 0 -> r (bytes_of evs ++ rest) pos = Err AlignmentError).

Lemma RTE_of_RT {A} base w (r : R A) a (E : A -> Prop) : RT w r a -> E a -> RTE base w r E 1.
Proof.
  intros H He pos evs rest Hw. split.
  - intros _. exists a. split; [now apply H|exact He].
  - rewrite N.mod_1_r. congruence.
Qed.

Lemma RTE_seq {A B} base w1 w2 (r1 : R A) (f : A -> R B) E1 E2 n1 n2 :
  is_pow2 n1 = true -> is_pow2 n2 = true ->
  RTE base w1 r1 E1 n1 -> (forall x, E1 x -> RTE base w2 (f x) E2 n2) ->
  RTE base (w1 ;; w2) (rbind r1 f) E2 (N.max n1 n2).
Proof.
  intros P1 P2 H1 H2 pos evs rest H.
  apply wseq_done in H. destruct H as (ea & eb & Ha & Hb & ->).
  rewrite bytes_of_app, <- app_assoc, evs_len_app.
  destruct (H1 pos ea (bytes_of eb ++ rest) Ha) as [Hok1 Hbad1].
  pose proof (mod_max_pow2 base n1 n2 P1 P2) as Hmax.
  split.
  - intros Hm. apply Hmax in Hm. destruct Hm as [Hm1 Hm2].
    destruct (Hok1 Hm1) as (x & Hr & Hx).
    rewrite (rbind_eq _ _ _ _ _ _ _ Hr).
    destruct (H2 x Hx _ eb rest Hb) as [Hok2 _].
    destruct (Hok2 Hm2) as (y & Hr2 & Hy). exists y. split; [|exact Hy].
    rewrite Hr2. f_equal. f_equal. lia.
  - intros Hm.
    destruct (N.eq_dec (base mod n1) 0) as [Hm1|Hm1].
    + destruct (Hok1 Hm1) as (x & Hr & Hx).
      rewrite (rbind_eq _ _ _ _ _ _ _ Hr).
      destruct (H2 x Hx _ eb rest Hb) as [_ Hbad2].
      apply Hbad2. intros Hm2. apply Hm. apply Hmax. tauto.
    + unfold rbind. now rewrite (Hbad1 Hm1).
Qed.

Lemma RTE_field {A} base nm t w (r : R A) E nd : RTE base w r E nd -> RTE base (wfield nm t w) r E nd.
Proof.
  intros H pos evs rest Hw. apply wfield_done in Hw. destruct Hw as (ew & Hw & ->).
  cbn [bytes_of ev_bytes app evs_len ev_len]. rewrite bytes_of_app, evs_len_app.
  cbn [bytes_of ev_bytes evs_len ev_len]. rewrite app_nil_r, !N.add_0_r, N.add_0_l.
  apply H. exact Hw.
Qed.

Lemma RTE_map {A B} base w (r : R A) (E : A -> Prop) (E' : B -> Prop) (g : A -> B) nd :
  (forall x, E x -> E' (g x)) ->
  RTE base w r E nd -> RTE base w (let+ x := r in rret (g x)) E' nd.
Proof.
  intros Hg H pos evs rest Hw. destruct (H pos evs rest Hw) as [Hok Hbad]. split.
  - intros Hm. destruct (Hok Hm) as (x & Hr & Hx). exists (g x).
    rewrite (rbind_eq _ _ _ _ _ _ _ Hr). split; [reflexivity|auto].
  - intros Hm. unfold rbind. now rewrite (Hbad Hm).
Qed.

Lemma RTE_weaken {A} base w (r : R A) (E E' : A -> Prop) nd :
  (forall x, E x -> E' x) -> RTE base w r E nd -> RTE base w r E' nd.
Proof.
  intros Hi H pos evs rest Hw. destruct (H pos evs rest Hw) as [Hok Hbad]. split; [|exact Hbad].
  intros Hm. destruct (Hok Hm) as (x & Hr & Hx). eauto.
Qed.

Lemma RTE_need {A} base w (r : R A) (E : A -> Prop) nd nd' : nd = nd' -> RTE base w r E nd -> RTE base w r E nd'.
Proof. now intros ->. Qed.

Lemma RTE_assoc {A} base a b c (r : R A) E nd :
  RTE base (a ;; (b ;; c)) r E nd -> RTE base ((a ;; b) ;; c) r E nd.
Proof. intros H pos evs rest Hw. rewrite wseq_assoc in Hw. now apply H. Qed.

Lemma RTE_then {A B} base w (r : R A) (E : A -> Prop) (f : A -> R B) (E' : B -> Prop) nd :
  RTE base w r E nd ->
  (forall x, E x -> exists y, (forall i p, f x i p = Ok (y, i, p)) /\ E' y) ->
  RTE base w (rbind r f) E' nd.
Proof.
  intros H Hf pos evs rest Hw. destruct (H pos evs rest Hw) as [Hok Hbad]. split.
  - intros Hm. destruct (Hok Hm) as (x & Hr & Hx). destruct (Hf x Hx) as (y & Hy & Ey).
    exists y. rewrite (rbind_eq _ _ _ _ _ _ _ Hr). split; [apply Hy|exact Ey].
  - intros Hm. unfold rbind. now rewrite (Hbad Hm).
Qed.

(* align on a slice: the padding is skipped and the address test is exactly base mod unit *)
Lemma RTE_align base u : is_pow2 u = true ->
  RTE base (walign u) (ralign (Some base) u) (fun _ => True) u.
Proof.
  intros Hu. destruct (is_pow2_exp _ Hu) as (k & Hk & ->).
  intros pos evs rest H. unfold walign in H. rewrite ralign_eq; cbv zeta.
  assert (Hnz : 2 ^ k <> 0) by (apply N.pow_nonzero; lia).
  destruct (N.eqb_spec (2 ^ k) 0) as [|_]; [contradiction|].
  destruct (pad_align_to_spec pos k Hk) as (Hmod & Hlt & _).
  set (pd := pad_align_to pos (2 ^ k)) in *.
  assert (Hev : bytes_of evs = zeros pd /\ evs_len evs = pd).
  { destruct (N.eqb_spec pd 0) as [Hz|Hz]; inv H; cbn [bytes_of ev_bytes evs_len ev_len].
    - rewrite Hz. split; reflexivity.
    - rewrite app_nil_r, N.add_0_r. split; reflexivity. }
  destruct Hev as [-> ->].
  rewrite nlen_app, nlen_zeros.
  destruct (N.leb_spec pd (pd + nlen rest)) as [_|]; [|lia].
  rewrite ndrop_app_ge by (rewrite nlen_zeros; lia). rewrite nlen_zeros, N.sub_diag, ndrop_0.
  (* (base + (pos + pd)) mod 2^k = base mod 2^k *)
  assert (Hb : (base + (pos + pd)) mod 2 ^ k = base mod 2 ^ k).
  { rewrite N.add_mod by assumption. rewrite Hmod, N.add_0_r. apply N.mod_mod; assumption. }
  rewrite Hb. split.
  - intros Hm. rewrite Hm. cbn. exists tt. split; [reflexivity|exact I].
  - intros Hm. destruct (N.eqb_spec (base mod 2 ^ k) 0); [contradiction|reflexivity].
Qed.

(* after a successful align the position is aligned: exposed for the readers that test the
   native alignment of the element type afterwards *)
Lemma ralign_some_ok base u i p i' p' :
  ralign (Some base) u i p = Ok (tt, i', p') -> u <> 0 /\ (base + p') mod u = 0.
Proof.
  rewrite ralign_eq; cbv zeta. destruct (N.eqb_spec u 0) as [|Hu]; [discriminate|].
  destruct (pad_align_to p u <=? nlen i); [|discriminate].
  destruct (N.eqb_spec ((base + (p + pad_align_to p u)) mod u) 0) as [Hz|]; [|discriminate].
  intros H. inv H. auto.
Qed.

Lemma mod_of_multiple x u a : a <> 0 -> u mod a = 0 -> x mod u = 0 -> u <> 0 -> x mod a = 0.
Proof.
  intros Ha Hua Hxu Hu.
  apply N.mod_divide in Hua; [|assumption]. apply N.mod_divide in Hxu; [|assumption].
  apply N.mod_divide; [assumption|]. eapply N.divide_trans; eassumption.
Qed.

(* ------------------------------------------------------------------ aligned continuations *)

Lemma RTE_align_then {B} base u w2 (g : R B) (E : B -> Prop) :
  is_pow2 u = true ->
  (forall pos evs rest, (base + pos) mod u = 0 -> w2 pos = (evs, SDone) ->
     exists e, g (bytes_of evs ++ rest) pos = Ok (e, rest, pos + evs_len evs) /\ E e) ->
  RTE base (walign u ;; w2) (let+ _ := ralign (Some base) u in g) E u.
Proof.
  intros Hu Hg pos evs rest H.
  apply wseq_done in H. destruct H as (ea & eb & Ha & Hb & ->).
  rewrite bytes_of_app, <- app_assoc, evs_len_app.
  destruct (RTE_align base u Hu pos ea (bytes_of eb ++ rest) Ha) as [Hok Hbad]. split.
  - intros Hm. destruct (Hok Hm) as ([] & Hr & _).
    rewrite (rbind_eq _ _ _ _ _ _ _ Hr).
    destruct (ralign_some_ok _ _ _ _ _ _ Hr) as [_ Hal].
    destruct (Hg _ eb rest Hal Hb) as (e & He & Ee). exists e. split; [|exact Ee].
    rewrite He. f_equal. f_equal. lia.
  - intros Hm. unfold rbind. now rewrite (Hbad Hm).
Qed.

Lemma max_unit_1 u : 1 <= u -> N.max u 1 = u.
Proof. lia. Qed.

(* ------------------------------------------------------------------ zero-copy blocks on a slice *)

Lemma RTE_zero_full base pf t v :
  zc_ok t = true -> wf t = true -> wt t v = true -> is_pow2 (unit_of t) = true ->
  RTE base (wzero pf t v) (full_zero (Some base) t) (eq v) (unit_of t).
Proof.
  intros Hz Hw Ht Hu. unfold wzero, full_zero. rewrite (proj1 zc_const_of_ok t Hz Hw).
  apply RTE_align_then; [exact Hu|].
  intros pos evs rest _ Hb. exists v. split; [|reflexivity].
  exact (RT_block pf t v Hz Hw Ht pos evs rest Hb).
Qed.

Lemma RTE_zero_eps base pf t v :
  zc_ok t = true -> wf t = true -> wt t v = true -> is_pow2 (unit_of t) = true -> cover t = true ->
  RTE base (wzero pf t v) (eps_zero base t) (fun e => erase e = v) (unit_of t).
Proof.
  intros Hz Hw Ht Hu Hc. unfold wzero, eps_zero. rewrite (proj1 zc_const_of_ok t Hz Hw).
  apply RTE_align_then; [exact Hu|].
  intros pos evs rest Hal Hb. inv Hb.
  cbn [bytes_of ev_bytes evs_len ev_len]. rewrite app_nil_r, N.add_0_r.
  pose proof (mem_repr_len t pf pos v Hz Hw Ht) as Hlen.
  unfold rbind at 1. unfold rpos.
  destruct (N.eqb_spec (size_of t) 0) as [Hs0|Hs0].
  - (* zero-sized: nothing was written *)
    rewrite Hs0 in Hlen. assert (Hnil : mem_repr pf pos t v = []).
    { destruct (mem_repr pf pos t v); [reflexivity|]. unfold nlen in Hlen. cbn in Hlen. lia. }
    rewrite Hnil. cbn [app nlen length]. unfold rret.
    eexists. split; [rewrite N.add_0_r; reflexivity|]. cbn [erase].
    rewrite <- (mem_decode_repr t pf pos v [] Hz Hw Ht). now rewrite Hnil.
  - assert (Hal' : (base + pos) mod align_of t = 0).
    { unfold cover in Hc. apply orb_true_iff in Hc. destruct Hc as [Hc|Hc]; [apply N.eqb_eq in Hc; contradiction|].
      apply N.eqb_eq in Hc. pose proof (align_of_ge1 t).
      eapply mod_of_multiple; [lia|exact Hc|exact Hal|apply is_pow2_nz'; exact Hu]. }
    rewrite Hal', N.eqb_refl.
    rewrite <- Hlen. rewrite (rbind_eq _ _ _ _ _ _ _ (take_slice_app _ _ _)).
    unfold rret. eexists. split; [reflexivity|]. cbn [erase].
    rewrite <- (app_nil_r (mem_repr pf pos t v)). now apply mem_decode_repr.
Qed.

Lemma RTE_usize base nm n : n < W -> RTE base (wusize nm n) rusize (eq n) 1.
Proof. intros H. apply (RTE_of_RT base _ _ n); [now apply RT_usize|reflexivity]. Qed.

Lemma RTE_u8 base nm n : n < 256 -> RTE base (wu8 nm n) ru8 (eq n) 1.
Proof. intros H. apply (RTE_of_RT base _ _ n); [now apply RT_u8|reflexivity]. Qed.

Lemma max_1_l n : 1 <= n -> N.max 1 n = n.
Proof. lia. Qed.

Lemma RTE_slice_zero_full base pf t l :
  zc_ok t = true -> wf t = true -> forallb (wt t) l = true -> nlen l < W -> is_pow2 (unit_of t) = true ->
  RTE base (wslice_zero pf t l) (full_vec_zero (Some base) t) (eq l) (unit_of t).
Proof.
  intros Hz Hw Ht Hl Hu. unfold wslice_zero, full_vec_zero. rewrite (proj1 zc_const_of_ok t Hz Hw).
  apply RTE_assoc.
  apply (RTE_need base _ _ _ (N.max 1 (unit_of t))); [apply max_1_l; pose proof (proj1 unit_ge1_all t); lia|].
  eapply RTE_seq; [reflexivity|exact Hu|apply RTE_usize; exact Hl|].
  intros len <-. cbn beta.
  apply RTE_align_then; [exact Hu|].
  intros pos evs rest _ Hb. inv Hb.
  cbn [bytes_of ev_bytes evs_len ev_len]. rewrite app_nil_r, N.add_0_r.
  pose proof (mem_repr_list_len t pf pos l Hz Hw Ht) as Hlen.
  eexists. split.
  - rewrite <- Hlen at 1. rewrite (rbind_eq _ _ _ _ _ _ _ (read_exact_app _ _ _)). reflexivity.
  - unfold nlen at 1. rewrite Nat2N.id.
    rewrite <- (app_nil_r (mem_repr_list _ _ _ _)). now rewrite decode_n_repr_list.
Qed.

Lemma repeat_val_unit t (pf : padfill) l :
  zc_ok t = true -> wf t = true -> forallb (wt t) l = true -> size_of t = 0 ->
  repeat_val (mem_decode t []) (length l) = l.
Proof.
  intros Hz Hw Ht Hs. induction l as [|x l IH]; cbn [repeat_val length]; [reflexivity|].
  cbn [forallb] in Ht. apply andb_true_iff in Ht. destruct Ht as [Hx Hl].
  rewrite IH by assumption. f_equal.
  pose proof (mem_repr_len t pf 0 x Hz Hw Hx) as Hlen. rewrite Hs in Hlen.
  assert (Hnil : mem_repr pf 0 t x = []).
  { destruct (mem_repr pf 0 t x); [reflexivity|]. unfold nlen in Hlen. cbn in Hlen. lia. }
  rewrite <- (mem_decode_repr t pf 0 x [] Hz Hw Hx). now rewrite Hnil.
Qed.

Lemma RTE_slice_zero_eps base pf t l :
  zc_ok t = true -> wf t = true -> forallb (wt t) l = true -> nlen l < W -> is_pow2 (unit_of t) = true ->
  cover t = true ->
  RTE base (wslice_zero pf t l) (eps_slice_zero base t) (fun e => erase e = VSeq l) (unit_of t).
Proof.
  intros Hz Hw Ht Hl Hu Hc. unfold wslice_zero, eps_slice_zero. rewrite (proj1 zc_const_of_ok t Hz Hw).
  apply RTE_assoc.
  apply (RTE_need base _ _ _ (N.max 1 (unit_of t))); [apply max_1_l; pose proof (proj1 unit_ge1_all t); lia|].
  eapply RTE_seq; [reflexivity|exact Hu|apply RTE_usize; exact Hl|].
  intros len <-. cbn beta.
  apply RTE_align_then; [exact Hu|].
  intros pos evs rest Hal Hb. inv Hb.
  cbn [bytes_of ev_bytes evs_len ev_len]. rewrite app_nil_r, N.add_0_r.
  pose proof (mem_repr_list_len t pf pos l Hz Hw Ht) as Hlen.
  unfold rbind at 1. unfold rpos.
  destruct (N.eqb_spec (size_of t) 0) as [Hs0|Hs0].
  - assert (Hlen0 : nlen (mem_repr_list (fun p x => mem_repr pf p t x) (size_of t) pos l) = 0)
      by (rewrite Hlen, Hs0; lia).
    assert (Hnil : mem_repr_list (fun p x => mem_repr pf p t x) (size_of t) pos l = []).
    { destruct (mem_repr_list _ _ _ _); [reflexivity|]. unfold nlen in Hlen0. cbn in Hlen0. lia. }
    rewrite Hnil. cbn [app nlen length]. unfold rret.
    eexists. split; [rewrite N.add_0_r; reflexivity|]. cbn [erase].
    unfold nlen. rewrite Nat2N.id. f_equal. eapply repeat_val_unit; eassumption.
  - assert (Hal' : (base + pos) mod align_of t = 0).
    { unfold cover in Hc. apply orb_true_iff in Hc. destruct Hc as [Hc|Hc]; [apply N.eqb_eq in Hc; contradiction|].
      apply N.eqb_eq in Hc. pose proof (align_of_ge1 t).
      eapply mod_of_multiple; [lia|exact Hc|exact Hal|apply is_pow2_nz'; exact Hu]. }
    eexists. split.
    + rewrite <- Hlen at 1. rewrite (rbind_eq _ _ _ _ _ _ _ (take_slice_app _ _ _)).
      rewrite Hal', N.eqb_refl. reflexivity.
    + cbn [erase]. f_equal. unfold nlen at 1. rewrite Nat2N.id.
      rewrite <- (app_nil_r (mem_repr_list _ _ _ _)). now rewrite decode_n_repr_list.
Qed.

Lemma RTE_string_full base l :
  bytes_okb l = true -> utf8_valid l = true -> nlen l < W ->
  RTE base (wbytes_zero l) (full_string (Some base)) (eq (VBytes l)) 1.
Proof.
  intros Hb Hu Hl. unfold wbytes_zero, full_string.
  apply RTE_assoc.
  apply (RTE_need base _ _ _ (N.max 1 1)); [reflexivity|].
  eapply RTE_seq; [reflexivity|reflexivity|apply RTE_usize; exact Hl|].
  intros len <-. cbn beta.
  apply RTE_align_then; [reflexivity|].
  intros pos evs rest _ Hw. apply wev_done in Hw. subst.
  cbn [bytes_of ev_bytes evs_len ev_len]. rewrite app_nil_r, N.add_0_r.
  rewrite (rbind_eq _ _ _ _ _ _ _ (read_exact_app _ _ _)). rewrite Hu.
  eexists. split; reflexivity.
Qed.

Lemma RTE_string_eps base l :
  nlen l < W ->
  RTE base (wbytes_zero l) (eps_string base) (fun e => erase e = VBytes l) 1.
Proof.
  intros Hl. unfold wbytes_zero, eps_string.
  apply RTE_assoc.
  apply (RTE_need base _ _ _ (N.max 1 1)); [reflexivity|].
  eapply RTE_seq; [reflexivity|reflexivity|apply RTE_usize; exact Hl|].
  intros len <-. cbn beta.
  apply RTE_align_then; [reflexivity|].
  intros pos evs rest _ Hw. apply wev_done in Hw. subst.
  cbn [bytes_of ev_bytes evs_len ev_len]. rewrite app_nil_r, N.add_0_r.
  unfold rbind at 1. unfold rpos.
  rewrite (rbind_eq _ _ _ _ _ _ _ (take_slice_app _ _ _)).
  eexists. split; reflexivity.
Qed.

(* ------------------------------------------------------------------ the requirement is a power of two *)

Lemma need_list_pow2 f l : (forall x, In x l -> is_pow2 (f x) = true) -> is_pow2 (need_list f l) = true.
Proof.
  induction l as [|x l IH]; intros H; cbn [need_list]; [reflexivity|].
  apply is_pow2_max; [apply H; now left|apply IH; intros y Hy; apply H; now right].
Qed.

Theorem need_pow2 :
  (forall t v, units_pow2 t = true -> is_pow2 (need t v) = true) /\
  (forall fs l, units_pow2_fields fs = true -> is_pow2 (need_fields fs l) = true) /\
  (forall vs k l, units_pow2_variants vs = true -> is_pow2 (need_variants vs k l) = true).
Proof.
  apply ty_fields_variants_ind; intros; cbn [need need_fields need_variants units_pow2 units_pow2_fields units_pow2_variants] in *;
    try reflexivity; split_and.
  - destruct (is_zc t); [assumption|]. apply need_list_pow2; auto.
  - destruct (is_zc t); [assumption|]. apply need_list_pow2; auto.
  - destruct (is_zc t); [assumption|]. apply need_list_pow2; auto.
  - destruct (is_zc t); [assumption|]. apply need_list_pow2; auto.
  - destruct (is_zc t); [assumption|]. apply need_list_pow2; auto.
  - assumption.
  - apply need_list_pow2; auto.
  - apply need_list_pow2; auto.
  - destruct (vtag v =? 0); apply need_list_pow2; auto.
  - apply need_list_pow2; auto.
  - destruct (a_zc i); auto.
  - destruct (a_zc i); auto.
  - apply is_pow2_max; auto.
  - destruct (k =? 0); auto.
Qed.

(* ------------------------------------------------------------------ sequences *)

Lemma RTE_ret {A} base (a : A) (E : A -> Prop) : E a -> RTE base wdone (rret a) E 1.
Proof. intros H. apply (RTE_of_RT base _ _ a); [apply RT_ret|exact H]. Qed.

Lemma RTE_list base f (r : R val) nm t l (Rel : val -> val -> Prop) (nd : val -> N) :
  (forall x, In x l -> is_pow2 (nd x) = true) ->
  (forall x, In x l -> RTE base (f x) r (fun e => Rel e x) (nd x)) ->
  RTE base (wlist f nm t l) (rrepeat r (length l)) (fun es => Forall2 Rel es l) (need_list nd l).
Proof.
  induction l as [|x l IH]; intros Hp Hall; cbn [wlist rrepeat length need_list].
  - apply RTE_ret. constructor.
  - eapply RTE_seq.
    + apply Hp. now left.
    + apply need_list_pow2. intros y Hy. apply Hp. now right.
    + apply RTE_field. apply Hall. now left.
    + intros e He. cbn beta.
      apply (RTE_map base _ _ (fun es => Forall2 Rel es l)).
      * intros es Hes. now constructor.
      * apply IH; intros y Hy; [apply Hp|apply Hall]; now right.
Qed.

Lemma Forall2_eq {A} (a b : list A) : Forall2 (fun e x => x = e) a b -> a = b.
Proof. induction 1; congruence. Qed.

Lemma Forall2_erase es l : Forall2 (fun e x => erase e = x) es l -> List.map erase es = l.
Proof. induction 1; cbn [List.map]; congruence. Qed.

(* ------------------------------------------------------------------ full-copy readers on a slice *)

Definition GoodS (base : N) (t : ty) : Prop := forall pf v,
  wf t = true -> units_pow2 t = true -> deserializable t = true ->
  wt t v = true -> exhausted_in t v = false ->
  RTE base (ser pf t v) (deser_full (Some base) t) (eq v) (need t v).
Definition GoodSF (base : N) (fs : fields) : Prop := forall pf named vals,
  wf_fields fs = true -> units_pow2_fields fs = true -> deserializable_fields fs = true ->
  wt_fields fs vals = true -> exhausted_fields fs vals = false ->
  RTE base (ser_fields pf named fs vals) (deser_full_fields (Some base) fs) (eq vals) (need_fields fs vals).
Definition GoodSV (base : N) (vs : variants) : Prop := forall pf k vals tag,
  wf_variants vs = true -> units_pow2_variants vs = true -> deserializable_variants vs = true ->
  wt_variants vs k vals = true -> exhausted_variants vs k vals = false ->
  RTE base (ser_variants pf vs k vals) (deser_full_variants (Some base) vs k tag) (eq (VTag tag vals)) (need_variants vs k vals).

Lemma RTE_prim_full base p n : prim_ok p n = true ->
  RTE base (wev (EWrite (le_bytes (N.to_nat (psize p)) n))) (rprim_full p) (eq (VN n)) 1.
Proof. intros H. apply (RTE_of_RT base _ _ (VN n)); [now apply RT_prim|reflexivity]. Qed.

Lemma need_list_cons f x l : need_list f (x :: l) = N.max (f x) (need_list f l).
Proof. reflexivity. Qed.
Lemma need_list_1 f x : need_list f [x] = f x -> True. Proof. auto. Qed.
Lemma need_list_single f x : 1 <= f x -> need_list f [x] = f x.
Proof. intros H. cbn [need_list]. lia. Qed.

Lemma is_pow2_ge1 n : is_pow2 n = true -> 1 <= n.
Proof. intros H. pose proof (is_pow2_nz' n H). lia. Qed.

Ltac np2 := match goal with
  | |- is_pow2 (need ?t ?v) = true => apply (proj1 need_pow2); assumption
  | |- is_pow2 (need_fields ?t ?v) = true => apply (proj1 (proj2 need_pow2)); assumption
  | |- is_pow2 (need_variants ?t ?k ?v) = true => apply (proj2 (proj2 need_pow2)); assumption
  | |- is_pow2 1 = true => reflexivity
  | |- is_pow2 _ = true => assumption
  end.

(* a deep sequence with its length prefix *)
Lemma RTE_deep_seq base pf t l (r : R val) (Rel : val -> val -> Prop) (mk : list val -> val) (E : val -> Prop) :
  units_pow2 t = true -> nlen l < W ->
  (forall x, In x l -> RTE base (ser pf t x) r (fun e => Rel e x) (need t x)) ->
  (forall es, Forall2 Rel es l -> E (mk es)) ->
  RTE base (wusize N_len (nlen l) ;; wlist (ser pf t) N_item t l)
      (let+ len := rusize in let+ xs := rrepeat r (N.to_nat len) in rret (mk xs))
      E (need_list (need t) l).
Proof.
  intros Hu Hl Hall Hmk.
  apply (RTE_need base _ _ _ (N.max 1 (need_list (need t) l))).
  { apply max_1_l, is_pow2_ge1, need_list_pow2. intros x _. now apply (proj1 need_pow2). }
  eapply RTE_seq; [reflexivity| |apply RTE_usize; exact Hl|].
  { apply need_list_pow2. intros x _. now apply (proj1 need_pow2). }
  intros len <-. cbn beta. unfold nlen. rewrite Nat2N.id.
  apply (RTE_map base _ _ (fun es => Forall2 Rel es l)); [exact Hmk|].
  apply RTE_list; [intros x _; now apply (proj1 need_pow2)|exact Hall].
Qed.

Lemma RTE_deep_items base pf t l (r : R val) (Rel : val -> val -> Prop) (mk : list val -> val) (E : val -> Prop) :
  units_pow2 t = true ->
  (forall x, In x l -> RTE base (ser pf t x) r (fun e => Rel e x) (need t x)) ->
  (forall es, Forall2 Rel es l -> E (mk es)) ->
  RTE base (wlist (ser pf t) N_item t l)
      (let+ xs := rrepeat r (length l) in rret (mk xs))
      E (need_list (need t) l).
Proof.
  intros Hu Hall Hmk.
  apply (RTE_map base _ _ (fun es => Forall2 Rel es l)); [exact Hmk|].
  apply RTE_list; [intros x _; now apply (proj1 need_pow2)|exact Hall].
Qed.

Lemma RTE_tagged {B} base nm tagv t w (r : R val) (E : val -> Prop) (g : val -> B) (E' : B -> Prop) nd (f : N -> R B) :
  tagv < 256 -> is_pow2 nd = true -> RTE base w r E nd -> (forall e, E e -> E' (g e)) ->
  f tagv = (let+ x := r in rret (g x)) ->
  RTE base (wu8 N_Tag tagv ;; wfield nm t w) (rbind ru8 f) E' (N.max nd 1).
Proof.
  intros Ht Hp Hr Hg Hf.
  apply (RTE_need base _ _ _ (N.max 1 nd)); [apply N.max_comm|].
  eapply RTE_seq; [reflexivity|exact Hp|apply RTE_u8; exact Ht|].
  intros x <-. rewrite Hf. apply (RTE_map base _ _ E); [exact Hg|]. now apply RTE_field.
Qed.

Lemma RTE_tag_only {B} base tagv (y : B) (E' : B -> Prop) (f : N -> R B) :
  tagv < 256 -> E' y -> f tagv = rret y ->
  RTE base (wu8 N_Tag tagv) (rbind ru8 f) E' 1.
Proof.
  intros Ht Hy Hf. apply (RTE_then base _ _ (eq tagv)); [now apply RTE_u8|].
  intros x <-. exists y. rewrite Hf. split; [reflexivity|exact Hy].
Qed.

Theorem slice_full_all base :
  (forall t, GoodS base t) /\ (forall fs, GoodSF base fs) /\ (forall vs, GoodSV base vs).
Proof.
  apply ty_fields_variants_ind.
  - (* TPrim *)
    intros p pf v Hw Hu Hd Ht He. cbn [wt] in Ht. destruct v as [n| | | |]; try discriminate.
    cbn [ser deser_full vnum need]. apply RTE_prim_full. exact Ht.
  - intros pf v Hw Hu Hd Ht He. cbn [wt] in Ht. destruct v as [|?|[|]|?|]; try discriminate.
    cbn [ser deser_full need]. now apply RTE_ret.
  - intros t IH pf v Hw Hu Hd Ht He. cbn [wt] in Ht. destruct v as [|?|[|]|?|]; try discriminate.
    cbn [ser deser_full need]. now apply RTE_ret.
  - intros pf v Hw Hu Hd Ht He. cbn [wt] in Ht. destruct v as [|l| | |]; try discriminate.
    split_and. cbn [ser deser_full need]. apply RTE_string_full; try assumption. lia.
  - intros pf v Hw Hu Hd Ht He. cbn [wt] in Ht. destruct v as [|l| | |]; try discriminate.
    split_and. cbn [ser deser_full need]. apply RTE_string_full; try assumption. lia.
  - (* TVec *)
    intros t IH pf v Hw Hu Hd Ht He. cbn [wt] in Ht. destruct v as [| |l| |]; try discriminate.
    cbn [wf units_pow2 deserializable exhausted_in vseq_items] in Hw, Hu, Hd, He. split_and.
    cbn [ser deser_full need vseq_items].
    destruct (is_zc t) eqn:Ez.
    + apply (RTE_map base _ _ (eq l)); [now intros ? <-|]. apply RTE_slice_zero_full; try assumption. lia.
    + apply (RTE_deep_seq base pf t l _ (fun e x => x = e) VSeq); try assumption; try lia.
      * intros x Hx. apply IH; try assumption; [eapply forallb_In|eapply existsb_false_In]; eassumption.
      * intros es Hes. now rewrite (Forall2_eq _ _ Hes).
  - (* TBoxSlice *)
    intros t IH pf v Hw Hu Hd Ht He. cbn [wt] in Ht. destruct v as [| |l| |]; try discriminate.
    cbn [wf units_pow2 deserializable exhausted_in vseq_items] in Hw, Hu, Hd, He. split_and.
    cbn [ser deser_full need vseq_items].
    destruct (is_zc t) eqn:Ez.
    + apply (RTE_map base _ _ (eq l)); [now intros ? <-|]. apply RTE_slice_zero_full; try assumption. lia.
    + apply (RTE_deep_seq base pf t l _ (fun e x => x = e) VSeq); try assumption; try lia.
      * intros x Hx. apply IH; try assumption; [eapply forallb_In|eapply existsb_false_In]; eassumption.
      * intros es Hes. now rewrite (Forall2_eq _ _ Hes).
  - intros t IH pf v Hw Hu Hd. discriminate.
  - intros t IH pf v Hw Hu Hd. discriminate.
  - (* TArray *)
    intros n t IH pf v Hw Hu Hd Ht He.
    pose proof Ht as Ht0. pose proof Hw as Hw0.
    cbn [wt] in Ht. destruct v as [| |l| |]; try discriminate.
    cbn [wf units_pow2 deserializable exhausted_in vseq_items] in Hw, Hu, Hd, He. split_and.
    cbn [ser deser_full need vseq_items].
    destruct (is_zc t) eqn:Ez.
    + change (let+ _ := ralign (Some base) (unit_of t) in
              let+ b := read_exact (size_of (TArray n t)) in rret (mem_decode (TArray n t) b))
        with (full_zero (Some base) (TArray n t)).
      change (unit_of t) with (unit_of (TArray n t)).
      apply RTE_zero_full; assumption.
    + replace (N.to_nat n) with (length l) by (unfold nlen in *; lia).
      apply (RTE_deep_items base pf t l _ (fun e x => x = e) VSeq); try assumption.
      * intros x Hx. apply IH; try assumption; [eapply forallb_In|eapply existsb_false_In]; eassumption.
      * intros es Hes. now rewrite (Forall2_eq _ _ Hes).
  - (* TTuple *)
    intros n t IH pf v Hw Hu Hd Ht He. pose proof Hw as Hw0.
    cbn [wf units_pow2] in Hw, Hu. split_and.
    cbn [ser deser_full need]. apply RTE_zero_full; try assumption; try (cbn [zc_ok]; assumption).
  - (* TOption *)
    intros t IH pf v Hw Hu Hd Ht He. cbn [wt] in Ht. destruct v as [| | |k l|]; try discriminate.
    cbn [wf units_pow2 deserializable exhausted_in vseq_items vtag] in Hw, Hu, Hd, He. split_and.
    cbn [ser deser_full need vseq_items vtag].
    destruct l as [|x [|y l]]; try discriminate.
    + apply N.eqb_eq in Ht. subst k. cbn [need_list].
      apply (RTE_tag_only base 0 (VTag 0 [])); [lia|reflexivity|reflexivity].
    + split_and. match goal with H : (k =? 1) = true |- _ => apply N.eqb_eq in H; subst k end.
      cbn [existsb hd] in *. split_and. cbn [need_list].
      eapply (RTE_tagged base N_Some 1 t _ _ (eq x) (fun x => VTag 1 [x])); try np2; try lia.
      * apply IH; assumption.
      * now intros ? <-.
      * reflexivity.
  - (* TBound *)
    intros t IH pf v Hw Hu Hd Ht He. cbn [wt] in Ht. destruct v as [| | |k l|]; try discriminate.
    cbn [wf units_pow2 deserializable exhausted_in vseq_items vtag] in Hw, Hu, Hd, He. split_and.
    cbn [ser deser_full need vseq_items vtag].
    destruct l as [|x [|y l]]; try discriminate.
    + apply N.eqb_eq in Ht. subst k. cbn [need_list].
      apply (RTE_tag_only base 0 (VTag 0 [])); [lia|reflexivity|reflexivity].
    + split_and. cbn [existsb hd] in *. split_and. cbn [need_list].
      match goal with H : (k =? 1) || (k =? 2) = true |- _ => apply orb_true_iff in H; destruct H as [H|H]; apply N.eqb_eq in H; subst k end.
      * eapply (RTE_tagged base N_Included 1 t _ _ (eq x) (fun x => VTag 1 [x])); try np2; try lia;
          [apply IH; assumption|now intros ? <-|reflexivity].
      * eapply (RTE_tagged base N_Excluded 2 t _ _ (eq x) (fun x => VTag 2 [x])); try np2; try lia;
          [apply IH; assumption|now intros ? <-|reflexivity].
  - (* TCF *)
    intros b IHb c IHc pf v Hw Hu Hd Ht He. cbn [wt] in Ht.
    destruct v as [| | |k [|x [|y l]]|]; try discriminate.
    cbn [wf units_pow2 deserializable exhausted_in vseq_items vtag] in Hw, Hu, Hd, He. split_and.
    cbn [ser deser_full need vseq_items vtag hd].
    destruct (N.eqb_spec k 0) as [->|Hk].
    + cbn [existsb] in He. split_and. cbn [need_list].
      eapply (RTE_tagged base N_Break 0 b _ _ (eq x) (fun x => VTag 0 [x])); try np2; try lia;
        [apply IHb; assumption|now intros ? <-|reflexivity].
    + split_and. match goal with H : (k =? 1) = true |- _ => apply N.eqb_eq in H; subst k end.
      cbn [existsb] in He. split_and. cbn [need_list].
      eapply (RTE_tagged base N_Continue 1 c _ _ (eq x) (fun x => VTag 1 [x])); try np2; try lia;
        [apply IHc; assumption|now intros ? <-|reflexivity].
  - (* TRange *)
    intros k t IH pf v Hw Hu Hd Ht He. cbn [wt] in Ht. destruct v as [| |l| |]; try discriminate.
    cbn [wf units_pow2 deserializable] in Hw, Hu, Hd. split_and.
    assert (Hnx : forall x, exhausted_in t x = false) by (intros x; apply zc_ok_not_exhausted; assumption).
    cbn [ser deser_full need vseq_items].
    destruct k.
    + destruct l as [|s [|e [|z l]]]; try discriminate. split_and. cbn [hd tl firstn need_list].
      apply (RTE_need base _ _ _ (N.max (need t s) (need t e))).
      { pose proof (is_pow2_ge1 _ (proj1 need_pow2 t e ltac:(assumption))). lia. }
      eapply RTE_seq; try np2; [apply RTE_field; apply IH; auto|].
      intros ? <-. cbn beta.
      apply (RTE_map base _ _ (eq e)); [now intros ? <-|]. apply RTE_field; apply IH; auto.
    + destruct l as [|s [|e l]]; try discriminate. cbn [hd tl firstn need_list].
      apply (RTE_need base _ _ _ (need t s)).
      { pose proof (is_pow2_ge1 _ (proj1 need_pow2 t s ltac:(assumption))). lia. }
      apply (RTE_map base _ _ (eq s)); [now intros ? <-|]. apply RTE_field; apply IH; auto.
    + destruct l as [|s [|e [|z l]]]; try discriminate.
      destruct z as [x| | | |]; try (destruct l; discriminate). destruct l; try discriminate.
      split_and. cbn [hd tl vnum firstn need_list].
      cbn [exhausted_in vseq_items tl hd vnum] in He. apply negb_false_iff in He. apply N.eqb_eq in He. subst x.
      apply RTE_assoc.
      apply (RTE_need base _ _ _ (N.max (need t s) (N.max (need t e) 1))).
      { lia. }
      eapply RTE_seq; try np2; [apply is_pow2_max; np2|apply RTE_field; apply IH; auto|].
      intros ? <-. cbn beta.
      eapply RTE_seq; try np2; [apply RTE_field; apply IH; auto|].
      intros ? <-. cbn beta.
      apply (RTE_then base _ _ (eq (VN 0))); [apply RTE_field; apply (RTE_prim_full base PBool 0); reflexivity|].
      intros ? <-. eexists. split; reflexivity.
    + destruct l as [|e [|z l]]; try discriminate. cbn [hd tl firstn need_list].
      apply (RTE_need base _ _ _ (need t e)).
      { pose proof (is_pow2_ge1 _ (proj1 need_pow2 t e ltac:(assumption))). lia. }
      apply (RTE_map base _ _ (eq e)); [now intros ? <-|]. apply RTE_field; apply IH; auto.
    + destruct l as [|e [|z l]]; try discriminate. cbn [hd tl firstn need_list].
      apply (RTE_need base _ _ _ (need t e)).
      { pose proof (is_pow2_ge1 _ (proj1 need_pow2 t e ltac:(assumption))). lia. }
      apply (RTE_map base _ _ (eq e)); [now intros ? <-|]. apply RTE_field; apply IH; auto.
  - intros pf v Hw Hu Hd Ht He. cbn [wt] in Ht. destruct v as [|?|[|]|?|]; try discriminate.
    cbn [ser deser_full need]. now apply RTE_ret.
  - (* TStruct *)
    intros i fs IH pf v Hw Hu Hd Ht He.
    pose proof Hw as Hw0. pose proof Ht as Ht0.
    cbn [wt] in Ht. destruct v as [| |l| |]; try discriminate.
    cbn [wf units_pow2 deserializable exhausted_in vseq_items] in Hw, Hu, Hd, He. split_and.
    cbn [ser deser_full need vseq_items].
    destruct (a_zc i) eqn:Ez.
    + split_and. apply RTE_zero_full; try assumption. cbn [zc_ok]. rewrite Ez. assumption.
    + apply (RTE_map base _ _ (eq l)); [now intros ? <-|]. apply IH; assumption.
  - (* TEnum *)
    intros i vs IH pf v Hw Hu Hd Ht He.
    pose proof Hw as Hw0. pose proof Ht as Ht0.
    cbn [wt] in Ht. destruct v as [| | |k l|]; try discriminate.
    cbn [wf units_pow2 deserializable exhausted_in vseq_items vtag] in Hw, Hu, Hd, He. split_and.
    cbn [ser deser_full need vseq_items vtag].
    destruct (a_zc i) eqn:Ez.
    + split_and. apply RTE_zero_full; try assumption. cbn [zc_ok]. rewrite Ez. assumption.
    + apply (RTE_need base _ _ _ (N.max 1 (need_variants vs k l))).
      { apply max_1_l, is_pow2_ge1. np2. }
      eapply RTE_seq; try np2; [apply RTE_usize; lia|].
      intros ? <-. apply IH; assumption.
  - intros pf named vals Hw Hu Hd Ht He. cbn [wt_fields] in Ht. destruct vals; try discriminate.
    cbn [ser_fields deser_full_fields need_fields]. now apply RTE_ret.
  - intros nm isp t IHt r IHr pf named vals Hw Hu Hd Ht He.
    cbn [wt_fields] in Ht. destruct vals as [|x vals]; try discriminate.
    cbn [wf_fields units_pow2_fields deserializable_fields exhausted_fields hd tl] in Hw, Hu, Hd, He. split_and.
    cbn [ser_fields deser_full_fields need_fields hd tl].
    eapply RTE_seq; try np2; [apply RTE_field; apply IHt; assumption|].
    intros ? <-. cbn beta.
    apply (RTE_map base _ _ (eq vals)); [now intros ? <-|]. apply IHr; assumption.
  - intros pf k vals tag Hw Hu Hd Ht He. cbn [wt_variants] in Ht. discriminate.
  - intros nm named fs IHf r IHr pf k vals tag Hw Hu Hd Ht He.
    cbn [wt_variants exhausted_variants] in Ht, He.
    cbn [wf_variants units_pow2_variants deserializable_variants] in Hw, Hu, Hd. split_and.
    cbn [ser_variants deser_full_variants need_variants].
    destruct (k =? 0).
    + apply (RTE_map base _ _ (eq vals)); [now intros ? <-|]. apply IHf; assumption.
    + apply IHr; assumption.
Qed.

(* ------------------------------------------------------------------ eps-copy readers *)

Lemma erase_list_id l : (forall x, In x l -> erase x = x) -> List.map erase l = l.
Proof.
  induction l as [|x l IH]; intros H; cbn [List.map]; [reflexivity|].
  rewrite H by now left. f_equal. apply IH. intros y Hy. apply H. now right.
Qed.

(* values of the types of the grammar contain no borrowed parts *)
Theorem erase_wt :
  (forall t v, wt t v = true -> erase v = v) /\
  (forall fs l, wt_fields fs l = true -> List.map erase l = l) /\
  (forall vs k l, wt_variants vs k l = true -> List.map erase l = l).
Proof.
  apply ty_fields_variants_ind; intros; cbn [wt wt_fields wt_variants] in *.
  - destruct v; try discriminate. reflexivity.
  - destruct v as [|?|[|]|?|]; try discriminate. reflexivity.
  - destruct v as [|?|[|]|?|]; try discriminate. reflexivity.
  - destruct v; try discriminate. reflexivity.
  - destruct v; try discriminate. reflexivity.
  - destruct v as [| |l| |]; try discriminate. split_and. cbn [erase]. f_equal.
    apply erase_list_id. intros x Hx. apply H. eapply forallb_In; eassumption.
  - destruct v as [| |l| |]; try discriminate. split_and. cbn [erase]. f_equal.
    apply erase_list_id. intros x Hx. apply H. eapply forallb_In; eassumption.
  - destruct v as [| |l| |]; try discriminate. split_and. cbn [erase]. f_equal.
    apply erase_list_id. intros x Hx. apply H. eapply forallb_In; eassumption.
  - destruct v as [| | |k l|]; try discriminate. split_and. cbn [erase]. f_equal.
    apply erase_list_id. intros x Hx. apply H. eapply forallb_In; eassumption.
  - destruct v as [| |l| |]; try discriminate. split_and. cbn [erase]. f_equal.
    apply erase_list_id. intros x Hx. apply H. eapply forallb_In; eassumption.
  - destruct v as [| |l| |]; try discriminate. split_and. cbn [erase]. f_equal.
    apply erase_list_id. intros x Hx. apply H. eapply forallb_In; eassumption.
  - destruct v as [| | |k l|]; try discriminate. destruct l as [|x [|y l]]; try discriminate; [reflexivity|].
    split_and. cbn [erase List.map]. now rewrite H.
  - destruct v as [| | |k l|]; try discriminate. destruct l as [|x [|y l]]; try discriminate; [reflexivity|].
    split_and. cbn [erase List.map]. now rewrite H.
  - destruct v as [| | |k [|x [|y l]]|]; try discriminate.
    cbn [erase List.map]. destruct (k =? 0); split_and; [now rewrite H|now rewrite H0].
  - destruct v as [| |l| |]; try discriminate.
    destruct k.
    + destruct l as [|s [|e [|z l]]]; try discriminate. split_and. cbn [erase List.map]. now rewrite !H.
    + destruct l as [|s [|e l]]; try discriminate. cbn [erase List.map]. now rewrite !H.
    + destruct l as [|s [|e [|z l]]]; try discriminate.
      destruct z; try (destruct l; discriminate). destruct l; try discriminate.
      split_and. cbn [erase List.map]. now rewrite !H.
    + destruct l as [|e [|z l]]; try discriminate. cbn [erase List.map]. now rewrite !H.
    + destruct l as [|e [|z l]]; try discriminate. cbn [erase List.map]. now rewrite !H.
  - destruct v as [|?|[|]|?|]; try discriminate. reflexivity.
  - destruct v as [| |l| |]; try discriminate. cbn [erase]. f_equal. auto.
  - destruct v as [| | |k l|]; try discriminate. split_and. cbn [erase]. f_equal. eauto.
  - destruct l; try discriminate. reflexivity.
  - destruct l as [|x l]; try discriminate. split_and. cbn [List.map]. f_equal; auto.
  - discriminate.
  - destruct (k =? 0); eauto.
Qed.

Lemma RT_prim_eps p n : prim_ok p n = true ->
  RT (wev (EWrite (le_bytes (N.to_nat (psize p)) n))) (rprim_eps p) (VN n).
Proof.
  intros H. unfold rprim_eps.
  assert (Hlen : nlen (le_bytes (N.to_nat (psize p)) n) = psize p)
    by (rewrite RoundTrip.nlen_le_bytes; lia).
  assert (Hval : le_val (le_bytes (N.to_nat (psize p)) n) = n).
  { apply le_val_bytes_small. unfold prim_ok in H. apply andb_true_iff in H. destruct H as [H _].
    rewrite N2Nat.id. replace (256 ^ psize p) with (2 ^ (8 * psize p)); [lia|].
    rewrite N.pow_mul_r. reflexivity. }
  intros pos evs rest Hw. apply wev_done in Hw. subst.
  cbn [bytes_of ev_bytes evs_len ev_len]. rewrite app_nil_r, N.add_0_r.
  pose proof (take_slice_app (le_bytes (N.to_nat (psize p)) n) rest pos) as Hr.
  rewrite Hlen in Hr. rewrite (rbind_eq _ _ _ _ _ _ _ Hr).
  rewrite Hval, (decode_prim_ok _ _ H), Hlen. reflexivity.
Qed.

Definition ER (v : val) : val -> Prop := fun e => erase e = v.
Definition ERL (l : list val) : list val -> Prop := fun es => List.map erase es = l.

Definition GoodE (base : N) (t : ty) : Prop := forall pf v,
  wf t = true -> units_pow2 t = true -> units_cover t = true -> deserializable t = true ->
  wt t v = true -> exhausted_in t v = false ->
  RTE base (ser pf t v) (deser_eps base t) (ER v) (need t v).
Definition GoodEF (base : N) (fs : fields) : Prop := forall pf named vals,
  wf_fields fs = true -> units_pow2_fields fs = true -> units_cover_fields fs = true -> deserializable_fields fs = true ->
  wt_fields fs vals = true -> exhausted_fields fs vals = false ->
  RTE base (ser_fields pf named fs vals) (deser_eps_fields base fs) (ERL vals) (need_fields fs vals).
Definition GoodEV (base : N) (vs : variants) : Prop := forall pf k vals tag,
  wf_variants vs = true -> units_pow2_variants vs = true -> units_cover_variants vs = true -> deserializable_variants vs = true ->
  wt_variants vs k vals = true -> exhausted_variants vs k vals = false ->
  RTE base (ser_variants pf vs k vals) (deser_eps_variants base vs k tag) (ER (VTag tag vals)) (need_variants vs k vals).

Lemma ER_seq es l : Forall2 (fun e x => erase e = x) es l -> ER (VSeq l) (VSeq es).
Proof. intros H. unfold ER. cbn [erase]. f_equal. now apply Forall2_erase. Qed.

Theorem slice_eps_all base :
  (forall t, GoodE base t) /\ (forall fs, GoodEF base fs) /\ (forall vs, GoodEV base vs).
Proof.
  apply ty_fields_variants_ind.
  - (* TPrim *)
    intros p pf v Hw Hu Hc Hd Ht He. cbn [wt] in Ht. destruct v as [n| | | |]; try discriminate.
    cbn [ser deser_eps vnum need].
    apply (RTE_of_RT base _ _ (VN n)); [now apply RT_prim_eps|reflexivity].
  - intros pf v Hw Hu Hc Hd Ht He. cbn [wt] in Ht. destruct v as [|?|[|]|?|]; try discriminate.
    cbn [ser deser_eps need]. now apply RTE_ret.
  - intros t IH pf v Hw Hu Hc Hd Ht He. cbn [wt] in Ht. destruct v as [|?|[|]|?|]; try discriminate.
    cbn [ser deser_eps need]. now apply RTE_ret.
  - intros pf v Hw Hu Hc Hd Ht He. cbn [wt] in Ht. destruct v as [|l| | |]; try discriminate.
    split_and. cbn [ser deser_eps need]. apply RTE_string_eps. lia.
  - intros pf v Hw Hu Hc Hd Ht He. cbn [wt] in Ht. destruct v as [|l| | |]; try discriminate.
    split_and. cbn [ser deser_eps need]. apply RTE_string_eps. lia.
  - (* TVec *)
    intros t IH pf v Hw Hu Hc Hd Ht He. cbn [wt] in Ht. destruct v as [| |l| |]; try discriminate.
    cbn [wf units_pow2 units_cover deserializable exhausted_in vseq_items] in Hw, Hu, Hc, Hd, He. split_and.
    cbn [ser deser_eps need vseq_items].
    destruct (is_zc t) eqn:Ez.
    + apply RTE_slice_zero_eps; try assumption. lia.
    + apply (RTE_deep_seq base pf t l _ (fun e x => erase e = x) VSeq); try assumption; try lia.
      * intros x Hx. apply IH; try assumption; [eapply forallb_In|eapply existsb_false_In]; eassumption.
      * intros es Hes. exact (ER_seq es l Hes).
  - (* TBoxSlice *)
    intros t IH pf v Hw Hu Hc Hd Ht He. cbn [wt] in Ht. destruct v as [| |l| |]; try discriminate.
    cbn [wf units_pow2 units_cover deserializable exhausted_in vseq_items] in Hw, Hu, Hc, Hd, He. split_and.
    cbn [ser deser_eps need vseq_items].
    destruct (is_zc t) eqn:Ez.
    + apply RTE_slice_zero_eps; try assumption. lia.
    + apply (RTE_deep_seq base pf t l _ (fun e x => erase e = x) VSeq); try assumption; try lia.
      * intros x Hx. apply IH; try assumption; [eapply forallb_In|eapply existsb_false_In]; eassumption.
      * intros es Hes. exact (ER_seq es l Hes).
  - intros t IH pf v Hw Hu Hc Hd. discriminate.
  - intros t IH pf v Hw Hu Hc Hd. discriminate.
  - (* TArray *)
    intros n t IH pf v Hw Hu Hc Hd Ht He.
    pose proof Ht as Ht0. pose proof Hw as Hw0. pose proof Hc as Hc0.
    cbn [wt] in Ht. destruct v as [| |l| |]; try discriminate.
    cbn [wf units_pow2 units_cover deserializable exhausted_in vseq_items] in Hw, Hu, Hc, Hd, He. split_and.
    cbn [ser deser_eps need vseq_items].
    destruct (is_zc t) eqn:Ez.
    + change (unit_of t) with (unit_of (TArray n t)).
      apply RTE_zero_eps; assumption.
    + replace (N.to_nat n) with (length l) by (unfold nlen in *; lia).
      apply (RTE_deep_items base pf t l _ (fun e x => erase e = x) VSeq); try assumption.
      * intros x Hx. apply IH; try assumption; [eapply forallb_In|eapply existsb_false_In]; eassumption.
      * intros es Hes. exact (ER_seq es l Hes).
  - (* TTuple *)
    intros n t IH pf v Hw Hu Hc Hd Ht He. pose proof Hw as Hw0.
    cbn [wf units_pow2 units_cover] in Hw, Hu, Hc. split_and.
    cbn [ser deser_eps need]. apply RTE_zero_eps; try assumption; try (cbn [zc_ok]; assumption).
  - (* TOption *)
    intros t IH pf v Hw Hu Hc Hd Ht He. cbn [wt] in Ht. destruct v as [| | |k l|]; try discriminate.
    cbn [wf units_pow2 units_cover deserializable exhausted_in vseq_items vtag] in Hw, Hu, Hc, Hd, He. split_and.
    cbn [ser deser_eps need vseq_items vtag].
    destruct l as [|x [|y l]]; try discriminate.
    + apply N.eqb_eq in Ht. subst k. cbn [need_list].
      apply (RTE_tag_only base 0 (VTag 0 [])); [lia|reflexivity|reflexivity].
    + split_and. match goal with H : (k =? 1) = true |- _ => apply N.eqb_eq in H; subst k end.
      cbn [existsb hd] in *. split_and. cbn [need_list].
      eapply (RTE_tagged base N_Some 1 t _ _ (ER x) (fun x => VTag 1 [x])); try np2; try lia.
      * apply IH; assumption.
      * intros e Hex. unfold ER in *. cbn [erase List.map]. now rewrite Hex.
      * reflexivity.
  - (* TBound *)
    intros t IH pf v Hw Hu Hc Hd Ht He. cbn [wt] in Ht. destruct v as [| | |k l|]; try discriminate.
    cbn [wf units_pow2 units_cover deserializable exhausted_in vseq_items vtag] in Hw, Hu, Hc, Hd, He. split_and.
    cbn [ser deser_eps need vseq_items vtag].
    destruct l as [|x [|y l]]; try discriminate.
    + apply N.eqb_eq in Ht. subst k. cbn [need_list].
      apply (RTE_tag_only base 0 (VTag 0 [])); [lia|reflexivity|reflexivity].
    + split_and. cbn [existsb hd] in *. split_and. cbn [need_list].
      match goal with H : (k =? 1) || (k =? 2) = true |- _ => apply orb_true_iff in H; destruct H as [H|H]; apply N.eqb_eq in H; subst k end.
      * eapply (RTE_tagged base N_Included 1 t _ _ (ER x) (fun x => VTag 1 [x])); try np2; try lia;
          [apply IH; assumption|intros e Hex; unfold ER in *; cbn [erase List.map]; now rewrite Hex|reflexivity].
      * eapply (RTE_tagged base N_Excluded 2 t _ _ (ER x) (fun x => VTag 2 [x])); try np2; try lia;
          [apply IH; assumption|intros e Hex; unfold ER in *; cbn [erase List.map]; now rewrite Hex|reflexivity].
  - (* TCF *)
    intros b IHb c IHc pf v Hw Hu Hc Hd Ht He. cbn [wt] in Ht.
    destruct v as [| | |k [|x [|y l]]|]; try discriminate.
    cbn [wf units_pow2 units_cover deserializable exhausted_in vseq_items vtag] in Hw, Hu, Hc, Hd, He. split_and.
    cbn [ser deser_eps need vseq_items vtag hd].
    destruct (N.eqb_spec k 0) as [->|Hk].
    + cbn [existsb] in He. split_and. cbn [need_list].
      eapply (RTE_tagged base N_Break 0 b _ _ (ER x) (fun x => VTag 0 [x])); try np2; try lia;
        [apply IHb; assumption|intros e Hex; unfold ER in *; cbn [erase List.map]; now rewrite Hex|reflexivity].
    + split_and. match goal with H : (k =? 1) = true |- _ => apply N.eqb_eq in H; subst k end.
      cbn [existsb] in He. split_and. cbn [need_list].
      eapply (RTE_tagged base N_Continue 1 c _ _ (ER x) (fun x => VTag 1 [x])); try np2; try lia;
        [apply IHc; assumption|intros e Hex; unfold ER in *; cbn [erase List.map]; now rewrite Hex|reflexivity].
  - (* TRange *)
    intros k t IH pf v Hw Hu Hc Hd Ht He. cbn [wt] in Ht. destruct v as [| |l| |]; try discriminate.
    cbn [wf units_pow2 units_cover deserializable] in Hw, Hu, Hc, Hd. split_and.
    assert (Hnx : forall x, exhausted_in t x = false) by (intros x; apply zc_ok_not_exhausted; assumption).
    cbn [ser deser_eps need vseq_items].
    destruct k.
    + destruct l as [|s [|e [|z l]]]; try discriminate. split_and. cbn [hd tl firstn need_list].
      apply (RTE_need base _ _ _ (N.max (need t s) (need t e))).
      { pose proof (is_pow2_ge1 _ (proj1 need_pow2 t e ltac:(assumption))). lia. }
      eapply RTE_seq; try np2; [apply RTE_field; apply IH; auto|].
      intros xs Hxs. cbn beta.
      apply (RTE_map base _ _ (ER e)); [|apply RTE_field; apply IH; auto].
      intros xe Hxe. unfold ER in *. cbn [erase List.map]. now rewrite Hxs, Hxe.
    + destruct l as [|s [|e l]]; try discriminate. cbn [hd tl firstn need_list].
      apply (RTE_need base _ _ _ (need t s)).
      { pose proof (is_pow2_ge1 _ (proj1 need_pow2 t s ltac:(assumption))). lia. }
      apply (RTE_map base _ _ (ER s)); [|apply RTE_field; apply IH; auto].
      intros xs Hxs. unfold ER in *. cbn [erase List.map]. now rewrite Hxs.
    + destruct l as [|s [|e [|z l]]]; try discriminate.
      destruct z as [x| | | |]; try (destruct l; discriminate). destruct l; try discriminate.
      split_and. cbn [hd tl vnum firstn need_list].
      cbn [exhausted_in vseq_items tl hd vnum] in He. apply negb_false_iff in He. apply N.eqb_eq in He. subst x.
      apply RTE_assoc.
      apply (RTE_need base _ _ _ (N.max (need t s) (N.max (need t e) 1))).
      { lia. }
      eapply RTE_seq; try np2; [apply is_pow2_max; np2|apply RTE_field; apply IH; auto|].
      intros xs Hxs. cbn beta.
      eapply RTE_seq; try np2; [apply RTE_field; apply IH; auto|].
      intros xe Hxe. cbn beta.
      apply (RTE_then base _ _ (eq (VN 0))); [apply RTE_field; apply (RTE_prim_full base PBool 0); reflexivity|].
      intros ? <-. eexists. split; [reflexivity|].
      unfold ER in *. cbn [erase List.map]. now rewrite Hxs, Hxe.
    + destruct l as [|e [|z l]]; try discriminate. cbn [hd tl firstn need_list].
      apply (RTE_need base _ _ _ (need t e)).
      { pose proof (is_pow2_ge1 _ (proj1 need_pow2 t e ltac:(assumption))). lia. }
      apply (RTE_map base _ _ (ER e)); [|apply RTE_field; apply IH; auto].
      intros xs Hxs. unfold ER in *. cbn [erase List.map]. now rewrite Hxs.
    + destruct l as [|e [|z l]]; try discriminate. cbn [hd tl firstn need_list].
      apply (RTE_need base _ _ _ (need t e)).
      { pose proof (is_pow2_ge1 _ (proj1 need_pow2 t e ltac:(assumption))). lia. }
      apply (RTE_map base _ _ (ER e)); [|apply RTE_field; apply IH; auto].
      intros xs Hxs. unfold ER in *. cbn [erase List.map]. now rewrite Hxs.
  - intros pf v Hw Hu Hc Hd Ht He. cbn [wt] in Ht. destruct v as [|?|[|]|?|]; try discriminate.
    cbn [ser deser_eps need]. now apply RTE_ret.
  - (* TStruct *)
    intros i fs IH pf v Hw Hu Hc Hd Ht He.
    pose proof Hw as Hw0. pose proof Ht as Ht0. pose proof Hc as Hc0.
    cbn [wt] in Ht. destruct v as [| |l| |]; try discriminate.
    cbn [wf units_pow2 units_cover deserializable exhausted_in vseq_items] in Hw, Hu, Hc, Hd, He. split_and.
    cbn [ser deser_eps need vseq_items].
    destruct (a_zc i) eqn:Ez.
    + split_and. apply RTE_zero_eps; try assumption. cbn [zc_ok]. rewrite Ez. assumption.
    + apply (RTE_map base _ _ (ERL l)); [|apply IH; assumption].
      intros es Hes. unfold ER, ERL in *. cbn [erase]. now rewrite Hes.
  - (* TEnum *)
    intros i vs IH pf v Hw Hu Hc Hd Ht He.
    pose proof Hw as Hw0. pose proof Ht as Ht0. pose proof Hc as Hc0.
    cbn [wt] in Ht. destruct v as [| | |k l|]; try discriminate.
    cbn [wf units_pow2 units_cover deserializable exhausted_in vseq_items vtag] in Hw, Hu, Hc, Hd, He. split_and.
    cbn [ser deser_eps need vseq_items vtag].
    destruct (a_zc i) eqn:Ez.
    + split_and. apply RTE_zero_eps; try assumption. cbn [zc_ok]. rewrite Ez. assumption.
    + apply (RTE_need base _ _ _ (N.max 1 (need_variants vs k l))).
      { apply max_1_l, is_pow2_ge1. np2. }
      eapply RTE_seq; try np2; [apply RTE_usize; lia|].
      intros ? <-. apply IH; assumption.
  - intros pf named vals Hw Hu Hc Hd Ht He. cbn [wt_fields] in Ht. destruct vals; try discriminate.
    cbn [ser_fields deser_eps_fields need_fields]. now apply RTE_ret.
  - (* FCons: a parameter-typed field is eps-copy deserialized, any other field fully *)
    intros nm isp t IHt r IHr pf named vals Hw Hu Hc Hd Ht He.
    cbn [wt_fields] in Ht. destruct vals as [|x vals]; try discriminate.
    cbn [wf_fields units_pow2_fields units_cover_fields deserializable_fields exhausted_fields hd tl] in Hw, Hu, Hc, Hd, He. split_and.
    cbn [ser_fields deser_eps_fields need_fields hd tl].
    eapply RTE_seq with (E1 := ER x); try np2.
    + apply RTE_field. destruct isp.
      * apply IHt; assumption.
      * apply (RTE_weaken base _ _ (eq x)); [|apply (proj1 (slice_full_all base)); assumption].
        intros e <-. unfold ER. now apply (proj1 erase_wt t).
    + intros e Hex. cbn beta.
      apply (RTE_map base _ _ (ERL vals)); [|apply IHr; assumption].
      intros es Hes. unfold ER, ERL in *. cbn [List.map]. now rewrite Hex, Hes.
  - intros pf k vals tag Hw Hu Hc Hd Ht He. cbn [wt_variants] in Ht. discriminate.
  - intros nm named fs IHf r IHr pf k vals tag Hw Hu Hc Hd Ht He.
    cbn [wt_variants exhausted_variants] in Ht, He.
    cbn [wf_variants units_pow2_variants units_cover_variants deserializable_variants] in Hw, Hu, Hc, Hd. split_and.
    cbn [ser_variants deser_eps_variants need_variants].
    destruct (k =? 0).
    + apply (RTE_map base _ _ (ERL vals)); [|apply IHf; assumption].
      intros es Hes. unfold ER, ERL in *. cbn [erase]. now rewrite Hes.
    + apply IHr; assumption.
Qed.
