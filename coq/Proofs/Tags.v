(* C15: every tag value that no variant writes is rejected with InvalidTag carrying exactly that
   value, in both modes, at every stream position and whatever follows the tag. *)
Require Import EV.Base.Tac EV.Base.Bytes EV.Base.Res EV.Base.ListX.
Require Import EV.Model.Arith64 EV.Model.Types EV.Model.Layout EV.Model.Deser.
Require Import EV.Proofs.Monads.

(* the number of tags a sum type writes (tags are 0 .. n-1) *)
Definition ntags (t : ty) : N :=
  match t with
  | TOption _ => 2
  | TBound _ => 3
  | TCF _ _ => 2
  | TEnum _ vs => variants_len vs
  | _ => 0
  end.

Definition byte_tagged (t : ty) : bool :=
  match t with TOption _ | TBound _ | TCF _ _ => true | _ => false end.

(* ------------------------------------------------------------------ helpers *)

Lemma ru8_cons tag rest pos : ru8 (tag :: rest) pos = Ok (tag, rest, pos + 1).
Proof.
  unfold ru8, rbind. rewrite read_exact_eq.
  destruct (N.leb_spec 1 (nlen (tag :: rest))) as [_|H];
    [|unfold nlen in H; cbn [length] in H; lia].
  unfold ntake, ndrop. change (N.to_nat 1) with 1%nat. cbn [firstn skipn le_val].
  unfold rret. rewrite N.mul_0_r, N.add_0_r. reflexivity.
Qed.

Lemma rusize_le_bytes tag rest pos :
  tag < 2 ^ 64 -> rusize (le_bytes 8 tag ++ rest) pos = Ok (tag, rest, pos + 8).
Proof.
  intros H. unfold rusize.
  assert (L : nlen (le_bytes 8 tag) = 8) by (unfold nlen; now rewrite le_bytes_length).
  rewrite (rbind_eq _ _ _ _ (le_bytes 8 tag) rest (pos + 8)).
  - unfold rret. rewrite le_val_bytes_small; [reflexivity|].
    change (N.of_nat 8) with 8. change (256 ^ 8) with (2 ^ 64). exact H.
  - rewrite <- L at 1. rewrite read_exact_app. now rewrite L.
Qed.

Lemma full_variants_foreign rk vs : forall k tag i p,
  variants_len vs <= k -> deser_full_variants rk vs k tag i p = Err (InvalidTag tag).
Proof.
  induction vs as [|n nm fs r IH]; intros k tag i p H.
  - reflexivity.
  - cbn [variants_len] in H. cbn [deser_full_variants].
    destruct (N.eqb_spec k 0) as [E|E]; [lia|].
    apply IH. lia.
Qed.

Lemma eps_variants_foreign base vs : forall k tag i p,
  variants_len vs <= k -> deser_eps_variants base vs k tag i p = Err (InvalidTag tag).
Proof.
  induction vs as [|n nm fs r IH]; intros k tag i p H.
  - reflexivity.
  - cbn [variants_len] in H. cbn [deser_eps_variants].
    destruct (N.eqb_spec k 0) as [E|E]; [lia|].
    apply IH. lia.
Qed.

(* one-byte tags: Option, Bound, ControlFlow *)
Theorem foreign_byte_tag_full rk t tag rest pos :
  byte_tagged t = true -> ntags t <= tag -> tag < 256 ->
  deser_full rk t (tag :: rest) pos = Err (InvalidTag tag).
Proof.
  intros Hb Hn Hlt.
  destruct t; try discriminate; cbn [ntags] in Hn; cbn [deser_full];
    rewrite (rbind_eq _ _ _ _ _ _ _ (ru8_cons tag rest pos));
    destruct tag as [|[[q|q|]|[q|q|]|]]; try lia; reflexivity.
Qed.

Theorem foreign_byte_tag_eps base t tag rest pos :
  byte_tagged t = true -> ntags t <= tag -> tag < 256 ->
  deser_eps base t (tag :: rest) pos = Err (InvalidTag tag).
Proof.
  intros Hb Hn Hlt.
  destruct t; try discriminate; cbn [ntags] in Hn; cbn [deser_eps];
    rewrite (rbind_eq _ _ _ _ _ _ _ (ru8_cons tag rest pos));
    destruct tag as [|[[q|q|]|[q|q|]|]]; try lia; reflexivity.
Qed.

(* pointer-width tags: derived (deep-copy) enums *)
Theorem foreign_enum_tag_full rk i vs tag rest pos :
  a_zc i = false -> variants_len vs <= tag -> tag < 2 ^ 64 ->
  deser_full rk (TEnum i vs) (le_bytes 8 tag ++ rest) pos = Err (InvalidTag tag).
Proof.
  intros Hz Hn Hlt. cbn [deser_full]. rewrite Hz.
  rewrite (rbind_eq _ _ _ _ _ _ _ (rusize_le_bytes tag rest pos Hlt)).
  now apply full_variants_foreign.
Qed.

Theorem foreign_enum_tag_eps base i vs tag rest pos :
  a_zc i = false -> variants_len vs <= tag -> tag < 2 ^ 64 ->
  deser_eps base (TEnum i vs) (le_bytes 8 tag ++ rest) pos = Err (InvalidTag tag).
Proof.
  intros Hz Hn Hlt. cbn [deser_eps]. rewrite Hz.
  rewrite (rbind_eq _ _ _ _ _ _ _ (rusize_le_bytes tag rest pos Hlt)).
  now apply eps_variants_foreign.
Qed.

(* a valid tag is never rejected as invalid: the decoder proceeds to the payload of exactly
   that variant (stated for enums: variant [tag] is selected) *)
Theorem valid_enum_tag_selects_variant rk vs : forall k tag n nm fs,
  nth_variant vs k = Some (n, nm, fs) ->
  deser_full_variants rk vs k tag = (let+ l := deser_full_fields rk fs in rret (VTag tag l)).
Proof.
  induction vs as [|n0 nm0 fs0 r IH]; intros k tag n nm fs H.
  - discriminate.
  - cbn [nth_variant] in H. cbn [deser_full_variants].
    destruct (k =? 0).
    + inversion H. reflexivity.
    + eapply IH. exact H.
Qed.
