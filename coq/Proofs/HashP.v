(* C04, part 2: the type-hash / alignment-hash byte feeds separate the near-miss mutants listed by
   the property, and are shared by the documented equivalents. *)
Require Import EV.Base.Tac EV.Base.Bytes EV.Base.Res EV.Base.ListX.
Require Import EV.Model.Arith64 EV.Model.Types EV.Model.Layout EV.Model.Typing EV.Model.Hash.

(* a name without the 0xff terminator inside (every UTF-8 string) *)
Definition clean (s : name) : Prop := ~ In 255 s.

(* <str as Hash>::hash is prefix-free and injective on clean names *)
Theorem hstr_inj a b r r' : clean a -> clean b -> hstr a ++ r = hstr b ++ r' -> a = b /\ r = r'.
Proof.
  unfold hstr, clean. revert b. induction a as [|x a IH]; intros [|y b] Ha Hb H; cbn [app] in H.
  - injection H as E. auto.
  - injection H as E1 E2. exfalso. apply Hb. left. symmetry. exact E1.
  - injection H as E1 E2. exfalso. apply Ha. left. exact E1.
  - injection H as E1 E2. subst y. destruct (IH b) as [E3 E4].
    + intro Hin. apply Ha. right. exact Hin.
    + intro Hin. apply Hb. right. exact Hin.
    + exact E2.
    + subst. auto.
Qed.

Lemma hstr_inj0 a b : clean a -> clean b -> hstr a = hstr b -> a = b.
Proof.
  intros Ha Hb H. rewrite <- (app_nil_r (hstr a)), <- (app_nil_r (hstr b)) in H.
  apply hstr_inj in H; auto. destruct H as [H _]. exact H.
Qed.

Lemma hstr_ne s : hstr s <> [].
Proof. unfold hstr. intro H. apply app_eq_nil in H. destruct H as [_ H]. discriminate H. Qed.

Lemma hstr_app_ne s r : hstr s ++ r <> [].
Proof. intro H. apply app_eq_nil in H. destruct H as [H _]. exact (hstr_ne s H). Qed.

Definition cleanb (s : name) : bool := forallb (fun b => negb (b =? 255)) s.
Lemma cleanb_ok s : cleanb s = true -> clean s.
Proof.
  unfold cleanb, clean. intros H Hin. rewrite forallb_forall in H. apply H in Hin.
  rewrite N.eqb_refl in Hin. discriminate Hin.
Qed.
Ltac clean_tac := apply cleanb_ok; vm_compute; reflexivity.

Lemma app_len_inv {A} (a b r r' : list A) : length a = length b -> a ++ r = b ++ r' -> a = b /\ r = r'.
Proof.
  revert b. induction a as [|x a IH]; intros [|y b] Hl H; cbn [length] in Hl; try discriminate Hl.
  - cbn [app] in H. auto.
  - cbn [app] in H. injection H as E1 E2. injection Hl as Hl. destruct (IH b Hl E2) as [E3 E4].
    subst. auto.
Qed.

Lemma concat_repeat_length {A} (f : list A) k : length (List.concat (repeat f k)) = (k * length f)%nat.
Proof.
  induction k as [|k IH]; cbn [repeat List.concat length]; [reflexivity|].
  rewrite app_length, IH. lia.
Qed.

Lemma prim_name_clean p : clean (prim_name p).
Proof. destruct p as [[]|[]| | | |]; clean_tac. Qed.

Lemma prim_name_inj p q : prim_name p = prim_name q -> p = q.
Proof.
  destruct p as [[]|[]| | | |]; destruct q as [[]|[]| | | |]; intro H; try reflexivity;
  vm_compute in H; discriminate H.
Qed.

Lemma concat_hstr_inj l : forall l' r r', Forall clean l -> Forall clean l' -> length l = length l' ->
  List.concat (List.map hstr l) ++ r = List.concat (List.map hstr l') ++ r' -> l = l'.
Proof.
  induction l as [|a l IH]; intros [|b l'] r r' Hl Hl' Hlen H; cbn [length] in Hlen; try discriminate Hlen.
  - reflexivity.
  - cbn [List.map List.concat] in H. rewrite <- !app_assoc in H.
    inversion Hl as [|? ? Ha Hl0]; subst. inversion Hl' as [|? ? Hb Hl0']; subst.
    apply hstr_inj in H; auto. destruct H as [E1 E2]. subst b.
    injection Hlen as Hlen. f_equal. eapply IH; eauto.
Qed.


Theorem tfeed_nonempty : forall t, tfeed t <> [].
Proof.
  intros t. destruct t; cbn [tfeed]; try apply hstr_ne; apply hstr_app_ne.
Qed.

(* ---- documented equivalents share both feeds *)
Theorem equiv_slice_vec t : tfeed (TSliceRef t) = tfeed (TVec t) /\ align_feed (TSliceRef t) = align_feed (TVec t).
Proof.
  split; reflexivity.
Qed.
Theorem equiv_iter_vec t : tfeed (TSerIter t) = tfeed (TVec t) /\ align_feed (TSerIter t) = align_feed (TVec t).
Proof.
  split; reflexivity.
Qed.

(* ---- near-miss mutants change the type feed *)
Definition adt_clean (i : adt_info) : Prop := clean (a_name i).

(* type name *)
Theorem mut_struct_name i j fs :
  adt_clean i -> adt_clean j -> a_zc i = a_zc j -> a_consts i = a_consts j -> a_name i <> a_name j ->
  tfeed (TStruct i fs) <> tfeed (TStruct j fs).
Proof.
  unfold adt_clean. intros Hi Hj Hz Hc Hn. cbn [tfeed]. rewrite Hz, Hc. intro H.
  apply app_inv_head in H. apply app_inv_head in H. apply hstr_inj in H; auto.
  destruct H as [H _]. auto.
Qed.
Theorem mut_enum_name i j vs :
  adt_clean i -> adt_clean j -> a_zc i = a_zc j -> a_consts i = a_consts j -> a_name i <> a_name j ->
  tfeed (TEnum i vs) <> tfeed (TEnum j vs).
Proof.
  unfold adt_clean. intros Hi Hj Hz Hc Hn. cbn [tfeed]. rewrite Hz, Hc. intro H.
  apply app_inv_head in H. apply app_inv_head in H. apply hstr_inj in H; auto.
  destruct H as [H _]. auto.
Qed.

(* copy kind *)
Theorem mut_copy_kind_struct i j fs gs : a_zc i <> a_zc j -> tfeed (TStruct i fs) <> tfeed (TStruct j gs).
Proof.
  cbn [tfeed]. destruct (a_zc i), (a_zc j); intros Hz; try congruence; intro H;
  (apply hstr_inj in H; [destruct H as [H _]; vm_compute in H; discriminate H | clean_tac | clean_tac]).
Qed.
Theorem mut_copy_kind_enum i j vs ws : a_zc i <> a_zc j -> tfeed (TEnum i vs) <> tfeed (TEnum j ws).
Proof.
  cbn [tfeed]. destruct (a_zc i), (a_zc j); intros Hz; try congruence; intro H;
  (apply hstr_inj in H; [destruct H as [H _]; vm_compute in H; discriminate H | clean_tac | clean_tac]).
Qed.

(* first field renamed *)
Theorem mut_field_renamed i n m isp t r :
  clean n -> clean m -> n <> m ->
  tfeed (TStruct i (FCons n isp t r)) <> tfeed (TStruct i (FCons m isp t r)).
Proof.
  intros Hn Hm Hne. cbn [tfeed tfeed_names]. intro H.
  do 3 apply app_inv_head in H. rewrite <- !app_assoc in H. apply hstr_inj in H; auto. destruct H as [H _]. auto.
Qed.

(* first variant renamed *)
Theorem mut_variant_renamed i n m nm fs r :
  clean n -> clean m -> n <> m ->
  tfeed (TEnum i (VCons n nm fs r)) <> tfeed (TEnum i (VCons m nm fs r)).
Proof.
  intros Hn Hm Hne. cbn [tfeed tfeed_variants]. intro H.
  do 3 apply app_inv_head in H. apply hstr_inj in H; auto. destruct H as [H _]. auto.
Qed.

(* a field type replaced by a type with a different feed (struct: the names are identical, so the
   feeds differ where the field-type feeds differ; stated for the first field) *)
Theorem mut_field_type i n isp t u r :
  (forall x y, tfeed t ++ x <> tfeed u ++ y) ->
  tfeed (TStruct i (FCons n isp t r)) <> tfeed (TStruct i (FCons n isp u r)).
Proof.
  intros Hne. cbn [tfeed tfeed_names tfeed_types]. intro H. rewrite <- !app_assoc in H.
  do 5 apply app_inv_head in H. apply Hne in H. exact H.
Qed.

(* primitives have pairwise different, mutually prefix-free feeds *)
Theorem prim_feeds_apart p q x y : p <> q -> tfeed (TPrim p) ++ x <> tfeed (TPrim q) ++ y.
Proof.
  intros Hne. cbn [tfeed]. intro H. apply hstr_inj in H; try apply prim_name_clean.
  destruct H as [H _]. apply prim_name_inj in H. auto.
Qed.

(* sequence kind, sum kind, string kind *)
Theorem mut_vec_boxslice t u : tfeed (TVec t) <> tfeed (TBoxSlice u).
Proof.
  cbn [tfeed]. intro H. apply hstr_inj in H; [destruct H as [H _]; vm_compute in H; discriminate H | clean_tac | clean_tac].
Qed.
Theorem mut_option_bound t u : tfeed (TOption t) <> tfeed (TBound u).
Proof.
  cbn [tfeed]. intro H. apply hstr_inj in H; [destruct H as [H _]; vm_compute in H; discriminate H | clean_tac | clean_tac].
Qed.
Theorem mut_string_boxstr : tfeed TString <> tfeed TBoxStr.
Proof.
  cbn [tfeed]. intro H. apply hstr_inj0 in H; [vm_compute in H; discriminate H | clean_tac | clean_tac].
Qed.

(* array length *)
Theorem mut_array_len n m t u : n < 2 ^ 64 -> m < 2 ^ 64 -> n <> m -> tfeed (TArray n t) <> tfeed (TArray m u).
Proof.
  intros Hn Hm Hne. cbn [tfeed]. intro H. apply app_inv_head in H.
  apply app_len_inv in H.
  - destruct H as [H _]. unfold husize in H. apply le_bytes_inj in H; auto.
  - unfold husize. now rewrite !le_bytes_length.
Qed.

(* tuple arity (same element type) *)
Theorem mut_tuple_arity n m t : n <> m -> tfeed (TTuple n t) <> tfeed (TTuple m t).
Proof.
  intros Hne. cbn [tfeed]. intro H. apply app_inv_head in H.
  apply (f_equal (@length byte)) in H. rewrite !concat_repeat_length in H.
  pose proof (tfeed_nonempty t) as Hpos.
  assert (length (tfeed t) <> 0%nat) as Hl by (destruct (tfeed t); [congruence | cbn [length]; lia]).
  assert (N.to_nat n <> N.to_nat m) as Hk by lia.
  nia.
Qed.

(* element / generic argument: a constructor applied to types with different feeds *)
Theorem mut_vec_elem t u : tfeed t <> tfeed u -> tfeed (TVec t) <> tfeed (TVec u).
Proof.
  intros Hne. cbn [tfeed]. intro H. apply app_inv_head in H. auto.
Qed.
Theorem mut_option_elem t u : tfeed t <> tfeed u -> tfeed (TOption t) <> tfeed (TOption u).
Proof.
  intros Hne. cbn [tfeed]. intro H. apply app_inv_head in H. auto.
Qed.

(* const generic value (first const parameter, same width of value) and const name *)
Theorem mut_const_value i j fs c d cs :
  a_zc i = a_zc j -> a_consts i = c :: cs -> a_consts j = d :: cs ->
  length (c_feed c) = length (c_feed d) -> c_feed c <> c_feed d -> c_name c = c_name d ->
  tfeed (TStruct i fs) <> tfeed (TStruct j fs).
Proof.
  intros Hz Hc Hd Hl Hne Hn. cbn [tfeed]. rewrite Hz, Hc, Hd. unfold consts_feed.
  cbn [List.map List.concat]. intro H. apply app_inv_head in H.
  rewrite <- !app_assoc in H. apply app_len_inv in H; auto. destruct H as [H _]. auto.
Qed.

(* ---- zero-copy memory layout: size and representation attributes enter the alignment feed *)
Theorem mut_size i j fs gs :
  a_zc i = true -> a_zc j = true ->
  size_of (TStruct i fs) < 2 ^ 64 -> size_of (TStruct j gs) < 2 ^ 64 ->
  size_of (TStruct i fs) <> size_of (TStruct j gs) ->
  align_feed (TStruct i fs) <> align_feed (TStruct j gs).
Proof.
  intros Hi Hj Hsi Hsj Hne. unfold align_feed. cbn [afeed]. rewrite Hi, Hj.
  destruct (afeed_fields fs 0) as [b1 o1]. destruct (afeed_fields gs 0) as [b2 o2]. cbn [fst].
  intro H. apply app_len_inv in H.
  - destruct H as [H _]. unfold husize in H. apply le_bytes_inj in H; auto.
  - unfold husize. now rewrite !le_bytes_length.
Qed.

Theorem mut_repr_attr i j fs :
  a_zc i = true -> a_zc j = true -> size_of (TStruct i fs) = size_of (TStruct j fs) ->
  Forall clean (a_reprs i) -> Forall clean (a_reprs j) ->
  length (a_reprs i) = length (a_reprs j) -> a_reprs i <> a_reprs j ->
  align_feed (TStruct i fs) <> align_feed (TStruct j fs).
Proof.
  intros Hi Hj Hs Hci Hcj Hl Hne. unfold align_feed. cbn [afeed]. rewrite Hi, Hj.
  destruct (afeed_fields fs 0) as [b1 o1]. cbn [fst]. rewrite Hs.
  intro H. apply app_inv_head in H. apply concat_hstr_inj in H; auto.
Qed.

(* ---- the feed is NOT injective: the two known findings, by computation *)
Definition zinfo (n : name) : adt_info :=
  {| a_name := n; a_zc := true; a_deep := false; a_reprs := [NAME_C]; a_align := 0; a_consts := [] |}.
Definition u8t := TPrim (PInt U8).
Definition d11_a : ty :=
  TStruct (zinfo [84]) (FCons [120] false (TTuple 2 (TTuple 2 u8t)) (FCons [121] false (TTuple 2 u8t) (FCons [122] false u8t FNil))).
Definition d11_b : ty :=
  TStruct (zinfo [84]) (FCons [120] false (TTuple 1 (TTuple 2 u8t)) (FCons [121] false (TTuple 2 u8t) (FCons [122] false (TTuple 3 u8t) FNil))).
Theorem feed_not_injective_tuples :
  d11_a <> d11_b /\ tfeed d11_a = tfeed d11_b /\ align_feed d11_a = align_feed d11_b.
Proof.
  split; [|split].
  - unfold d11_a, d11_b. intro H. discriminate H.
  - vm_compute. reflexivity.
  - vm_compute. reflexivity.
Qed.

Definition dinfo (n : name) (cs : list cparam) : adt_info :=
  {| a_name := n; a_zc := false; a_deep := true; a_reprs := []; a_align := 0; a_consts := cs |}.
Definition d12_enum : ty := TEnum (dinfo [97; 98; 99; 100; 101; 102; 103] []) (VCons [78] false FNil (VCons [83] false FNil VNil)).
Definition d12_struct : ty :=
  TStruct (dinfo [83] [{| c_name := [78]; c_feed := [97; 98; 99; 100; 101; 102; 103; 255] |}]) FNil.
Theorem feed_not_injective_consts :
  tfeed d12_enum = tfeed d12_struct /\ align_feed d12_enum = align_feed d12_struct.
Proof.
  split; vm_compute; reflexivity.
Qed.
