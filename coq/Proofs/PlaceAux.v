(* Position-aware simulation used by C03 (PlaceP.v): whenever the reader succeeds on what the
   writer wrote, it is in sync with the writer and every reference of its result points at a
   block event of the writer (or at one of the offsets [X] already accounted for). *)
Require Import EV.Base.Tac EV.Base.Bytes EV.Base.Res EV.Base.ListX.
Require Import EV.Model.Arith64 EV.Model.Types EV.Model.Layout EV.Model.Ser EV.Model.Deser EV.Model.Header EV.Model.Typing EV.Model.Need EV.Model.Derive.
Require Import EV.Proofs.Pad EV.Proofs.Monads EV.Proofs.LayoutRT EV.Proofs.RoundTrip EV.Proofs.HeaderRT EV.Proofs.EpsRT EV.Proofs.EpsTop.

(* ------------------------------------------------------------------ blocks *)

Lemma blocks_at_app pos a b :
  blocks_at pos (a ++ b) = blocks_at pos a ++ blocks_at (pos + evs_len a) b.
Proof.
  revert pos. induction a as [|e a IH]; intros pos; cbn [blocks_at app evs_len].
  - now rewrite N.add_0_r.
  - rewrite IH, <- app_assoc. do 3 f_equal. lia.
Qed.

(* ------------------------------------------------------------------ values of the grammar hold no reference *)

Lemma refs_list_nil l : (forall x, In x l -> refs x = []) -> flat_map refs l = [].
Proof.
  induction l as [|x l IH]; intros H; cbn [flat_map]; [reflexivity|].
  rewrite H by now left. cbn [app]. apply IH. intros y Hy. apply H. now right.
Qed.

Theorem refs_wt :
  (forall t v, wt t v = true -> refs v = []) /\
  (forall fs l, wt_fields fs l = true -> flat_map refs l = []) /\
  (forall vs k l, wt_variants vs k l = true -> flat_map refs l = []).
Proof.
  apply ty_fields_variants_ind; intros; cbn [wt wt_fields wt_variants] in *.
  - destruct v; try discriminate. reflexivity.
  - destruct v as [|?|[|]|?|]; try discriminate. reflexivity.
  - destruct v as [|?|[|]|?|]; try discriminate. reflexivity.
  - destruct v; try discriminate. reflexivity.
  - destruct v; try discriminate. reflexivity.
  - destruct v as [| |l| |]; try discriminate. split_and. cbn [refs].
    apply refs_list_nil. intros x Hx. apply H. eapply forallb_In; eassumption.
  - destruct v as [| |l| |]; try discriminate. split_and. cbn [refs].
    apply refs_list_nil. intros x Hx. apply H. eapply forallb_In; eassumption.
  - destruct v as [| |l| |]; try discriminate. split_and. cbn [refs].
    apply refs_list_nil. intros x Hx. apply H. eapply forallb_In; eassumption.
  - destruct v as [| | |k l|]; try discriminate. split_and. cbn [refs].
    apply refs_list_nil. intros x Hx. apply H. eapply forallb_In; eassumption.
  - destruct v as [| |l| |]; try discriminate. split_and. cbn [refs].
    apply refs_list_nil. intros x Hx. apply H. eapply forallb_In; eassumption.
  - destruct v as [| |l| |]; try discriminate. split_and. cbn [refs].
    apply refs_list_nil. intros x Hx. apply H. eapply forallb_In; eassumption.
  - destruct v as [| | |k l|]; try discriminate. destruct l as [|x [|y l]]; try discriminate; [reflexivity|].
    split_and. cbn [refs flat_map]. now rewrite H.
  - destruct v as [| | |k l|]; try discriminate. destruct l as [|x [|y l]]; try discriminate; [reflexivity|].
    split_and. cbn [refs flat_map]. now rewrite H.
  - destruct v as [| | |k [|x [|y l]]|]; try discriminate.
    cbn [refs flat_map]. destruct (k =? 0); split_and; [now rewrite H|now rewrite H0].
  - destruct v as [| |l| |]; try discriminate.
    destruct k.
    + destruct l as [|s [|e [|z l]]]; try discriminate. split_and. cbn [refs flat_map]. now rewrite !H.
    + destruct l as [|s [|e l]]; try discriminate. cbn [refs flat_map]. now rewrite !H.
    + destruct l as [|s [|e [|z l]]]; try discriminate.
      destruct z; try (destruct l; discriminate). destruct l; try discriminate.
      split_and. cbn [refs flat_map]. now rewrite !H.
    + destruct l as [|e [|z l]]; try discriminate. cbn [refs flat_map]. now rewrite !H.
    + destruct l as [|e [|z l]]; try discriminate. cbn [refs flat_map]. now rewrite !H.
  - destruct v as [|?|[|]|?|]; try discriminate. reflexivity.
  - destruct v as [| |l| |]; try discriminate. cbn [refs]. auto.
  - destruct v as [| | |k l|]; try discriminate. split_and. cbn [refs]. eauto.
  - destruct l; try discriminate. reflexivity.
  - destruct l as [|x l]; try discriminate. split_and. cbn [flat_map]. rewrite H, H0 by assumption. reflexivity.
  - discriminate.
  - destruct (k =? 0); eauto.
Qed.

(* ------------------------------------------------------------------ a successful run is the run of the round trip *)

Lemma RTE_sync {A} base w (r : R A) (E : A -> Prop) nd pos evs rest e rest' pos' :
  RTE base w r E nd -> w pos = (evs, SDone) ->
  r (bytes_of evs ++ rest) pos = Ok (e, rest', pos') ->
  rest' = rest /\ pos' = pos + evs_len evs /\ E e.
Proof.
  intros H Hw Hr. destruct (H pos evs rest Hw) as [Hok Hbad].
  destruct (N.eq_dec (base mod nd) 0) as [Hm|Hm].
  - destruct (Hok Hm) as (x & Hx & Ex). rewrite Hx in Hr. inv Hr. auto.
  - rewrite (Hbad Hm) in Hr. discriminate.
Qed.

(* ------------------------------------------------------------------ the combinator *)

Definition PLc {A} (X : list (N * N)) (rf : A -> list (N * N)) (w : Wr) (r : R A) : Prop :=
  forall pos evs rest e rest' pos',
    w pos = (evs, SDone) ->
    r (bytes_of evs ++ rest) pos = Ok (e, rest', pos') ->
    incl (rf e) (X ++ blocks_at pos evs) /\ rest' = rest /\ pos' = pos + evs_len evs.

Ltac inc :=
  cbn [refs flat_map app]; rewrite ?app_nil_r;
  let z := fresh "z" in let Hz := fresh "Hz" in
  intros z Hz; rewrite ?in_app_iff in *; tauto.

Lemma PLc_of_RTE {A} base X (rf : A -> list (N * N)) w (r : R A) (E : A -> Prop) nd :
  RTE base w r E nd -> (forall e, E e -> incl (rf e) X) -> PLc X rf w r.
Proof.
  intros H Hrf pos evs rest e rest' pos' Hw Hr.
  destruct (RTE_sync _ _ _ _ _ _ _ _ _ _ _ H Hw Hr) as (-> & -> & He).
  split; [|split; reflexivity]. apply incl_appl. now apply Hrf.
Qed.

Lemma PLc_mono {A} X X' (rf : A -> list (N * N)) w (r : R A) :
  incl X X' -> PLc X rf w r -> PLc X' rf w r.
Proof.
  intros Hi H pos evs rest e rest' pos' Hw Hr.
  destruct (H _ _ _ _ _ _ Hw Hr) as (Hin & -> & ->). split; [|split; reflexivity].
  intros z Hz. apply Hin in Hz. rewrite in_app_iff in *. destruct Hz as [Hz|Hz]; auto.
Qed.

Lemma PLc_nil {A} X (rf : A -> list (N * N)) w (r : R A) : PLc [] rf w r -> PLc X rf w r.
Proof. apply PLc_mono. apply incl_nil_l. Qed.

Lemma PLc_ret {A} X (rf : A -> list (N * N)) (a : A) : incl (rf a) X -> PLc X rf wdone (rret a).
Proof.
  intros Hi pos evs rest e rest' pos' Hw Hr. apply wdone_done in Hw. subst evs.
  cbn [bytes_of app evs_len blocks_at] in *. unfold rret in Hr. inv Hr.
  rewrite app_nil_r, N.add_0_r. auto.
Qed.

Lemma PLc_seq {A B} X (rfA : A -> list (N * N)) (rfB : B -> list (N * N)) w1 w2 (r1 : R A) (f : A -> R B) :
  PLc X rfA w1 r1 -> (forall a, PLc (X ++ rfA a) rfB w2 (f a)) ->
  PLc X rfB (w1 ;; w2) (rbind r1 f).
Proof.
  intros H1 H2 pos evs rest e rest' pos' Hw Hr.
  apply wseq_done in Hw. destruct Hw as (ea & eb & Ha & Hb & ->).
  rewrite bytes_of_app, <- app_assoc in Hr.
  apply rbind_ok in Hr. destruct Hr as (a & i1 & p1 & Hr1 & Hr2).
  destruct (H1 _ _ _ _ _ _ Ha Hr1) as (Hi1 & -> & ->).
  destruct (H2 a _ _ _ _ _ _ Hb Hr2) as (Hi2 & -> & ->).
  split; [|split; [reflexivity|rewrite evs_len_app; lia]].
  rewrite blocks_at_app. intros z Hz. apply Hi2 in Hz.
  rewrite !in_app_iff in *. destruct Hz as [[Hz|Hz]|Hz]; auto.
  apply Hi1 in Hz. rewrite in_app_iff in Hz. tauto.
Qed.

(* first component without references, known by its round trip *)
Lemma PLc_seq_RTE {A B} base X (rfB : B -> list (N * N)) w1 w2 (r1 : R A) (f : A -> R B) (E : A -> Prop) nd :
  RTE base w1 r1 E nd -> (forall a, E a -> PLc X rfB w2 (f a)) ->
  PLc X rfB (w1 ;; w2) (rbind r1 f).
Proof.
  intros H1 H2 pos evs rest e rest' pos' Hw Hr.
  apply wseq_done in Hw. destruct Hw as (ea & eb & Ha & Hb & ->).
  rewrite bytes_of_app, <- app_assoc in Hr.
  apply rbind_ok in Hr. destruct Hr as (a & i1 & p1 & Hr1 & Hr2).
  destruct (RTE_sync _ _ _ _ _ _ _ _ _ _ _ H1 Ha Hr1) as (-> & -> & Ea).
  destruct (H2 a Ea _ _ _ _ _ _ Hb Hr2) as (Hi2 & -> & ->).
  split; [|split; [reflexivity|rewrite evs_len_app; lia]].
  rewrite blocks_at_app. intros z Hz. apply Hi2 in Hz.
  rewrite !in_app_iff in *. tauto.
Qed.

Lemma PLc_field {A} X (rf : A -> list (N * N)) nm t w (r : R A) :
  PLc X rf w r -> PLc X rf (wfield nm t w) r.
Proof.
  intros H pos evs rest e rest' pos' Hw Hr.
  apply wfield_done in Hw. destruct Hw as (ew & Hw & ->).
  cbn [bytes_of ev_bytes app evs_len ev_len blocks_at] in *.
  rewrite bytes_of_app in Hr. rewrite evs_len_app, blocks_at_app.
  cbn [bytes_of ev_bytes evs_len ev_len blocks_at app] in *.
  rewrite app_nil_r in Hr. rewrite app_nil_r, !N.add_0_r, N.add_0_l.
  exact (H _ _ _ _ _ _ Hw Hr).
Qed.

Lemma PLc_map {A B} X (rfA : A -> list (N * N)) (rfB : B -> list (N * N)) w (r : R A) (g : A -> B) :
  PLc X rfA w r -> (forall a, incl (rfB (g a)) (X ++ rfA a)) ->
  PLc X rfB w (let+ x := r in rret (g x)).
Proof.
  intros H Hg pos evs rest e rest' pos' Hw Hr.
  apply rbind_ok in Hr. destruct Hr as (a & i1 & p1 & Hr1 & Hr2).
  unfold rret in Hr2. inv Hr2.
  destruct (H _ _ _ _ _ _ Hw Hr1) as (Hi & -> & ->). split; [|split; reflexivity].
  intros z Hz. apply Hg in Hz. rewrite in_app_iff in *. destruct Hz as [Hz|Hz]; auto.
  apply Hi in Hz. rewrite in_app_iff in Hz. exact Hz.
Qed.

Lemma PLc_assoc {A} X (rf : A -> list (N * N)) a b c (r : R A) :
  PLc X rf (a ;; (b ;; c)) r -> PLc X rf ((a ;; b) ;; c) r.
Proof. intros H pos evs rest e rest' pos' Hw Hr. rewrite wseq_assoc in Hw. exact (H _ _ _ _ _ _ Hw Hr). Qed.

Lemma PLc_flush {A} X (rf : A -> list (N * N)) w (r : R A) :
  PLc X rf w r -> PLc X rf (w ;; wev EFlush) r.
Proof.
  intros H pos evs rest e rest' pos' Hw Hr.
  apply wseq_done in Hw. destruct Hw as (ea & eb & Ha & Hb & ->).
  apply wev_done in Hb. subst eb.
  rewrite bytes_of_app in Hr. rewrite evs_len_app, blocks_at_app.
  cbn [bytes_of ev_bytes evs_len ev_len blocks_at app] in *.
  rewrite app_nil_r in Hr. rewrite app_nil_r, !N.add_0_r.
  exact (H _ _ _ _ _ _ Ha Hr).
Qed.

Lemma PLc_list X f (r : R val) nm t l :
  (forall x, In x l -> PLc [] refs (f x) r) ->
  PLc X (flat_map refs) (wlist f nm t l) (rrepeat r (length l)).
Proof.
  revert X. induction l as [|x l IH]; intros X Hall; cbn [wlist rrepeat length].
  - apply PLc_ret. cbn [flat_map]. apply incl_nil_l.
  - eapply PLc_seq with (rfA := refs).
    + apply PLc_field, PLc_nil. apply Hall. now left.
    + intros a. cbn beta. apply (PLc_map _ (flat_map refs)).
      * apply IH. intros y Hy. apply Hall. now right.
      * intros xs. inc.
Qed.

(* ------------------------------------------------------------------ the blocks *)

Lemma nlen_0_nil {A} (l : list A) : nlen l = 0 -> l = [].
Proof. destruct l; [reflexivity|]. unfold nlen. cbn [length]. lia. Qed.

Lemma PLc_zero_block base X pf t v :
  zc_ok t = true -> wf t = true -> wt t v = true ->
  PLc X refs (fun pos => ([EBlock t (mem_repr pf pos t v)], SDone))
    (let+ p := rpos in
     if size_of t =? 0 then rret (VRef ROne p 0 1 (mem_decode t []))
     else
       if (base + p) mod (align_of t) =? 0 then
         let+ b := take_slice (size_of t) in
         rret (VRef ROne p (size_of t) 1 (mem_decode t b))
       else
         let+ b := take_slice (size_of t) in rpanic PDebugAssert).
Proof.
  intros Hz Hw Ht pos evs rest e rest' pos' Hb Hr. inv Hb.
  cbn [bytes_of ev_bytes evs_len ev_len blocks_at] in *.
  rewrite app_nil_r in Hr. rewrite N.add_0_r.
  pose proof (mem_repr_len t pf pos v Hz Hw Ht) as Hlen.
  pose proof (take_slice_app (mem_repr pf pos t v) rest pos) as Hts. rewrite Hlen in Hts.
  unfold rbind at 1 in Hr. unfold rpos in Hr.
  destruct (N.eqb_spec (size_of t) 0) as [Hs0|Hs0].
  - rewrite Hs0 in Hlen. rewrite (nlen_0_nil _ Hlen) in *. cbn [app] in Hr.
    unfold rret in Hr. inv Hr. split; [|split; [reflexivity|unfold nlen; cbn [length]; lia]].
    cbn [refs]. intros z [<-|[]]. rewrite in_app_iff. right. left. reflexivity.
  - destruct ((base + pos) mod align_of t =? 0).
    + rewrite (rbind_eq _ _ _ _ _ _ _ Hts) in Hr. unfold rret in Hr. inv Hr.
      split; [|split; [reflexivity|lia]].
      cbn [refs]. intros z [<-|[]]. rewrite in_app_iff. right. left. now rewrite Hlen.
    + rewrite (rbind_eq _ _ _ _ _ _ _ Hts) in Hr. unfold rpanic in Hr. discriminate.
Qed.

Lemma PLc_zero base X pf t v :
  zc_ok t = true -> wf t = true -> wt t v = true -> is_pow2 (unit_of t) = true ->
  PLc X refs (wzero pf t v) (eps_zero base t).
Proof.
  intros Hz Hw Ht Hu. unfold wzero, eps_zero. rewrite (proj1 zc_const_of_ok t Hz Hw).
  eapply PLc_seq_RTE; [apply RTE_align; exact Hu|].
  intros [] _. cbn beta. now apply PLc_zero_block.
Qed.

Lemma PLc_slice_block base X pf t l :
  zc_ok t = true -> wf t = true -> forallb (wt t) l = true ->
  PLc X refs
    (fun pos => ([EBlock t (mem_repr_list (fun p x => mem_repr pf p t x) (size_of t) pos l)], SDone))
    (let+ p := rpos in
     if size_of t =? 0 then
       rret (VRef RSlice p 0 (nlen l) (VSeq (repeat_val (mem_decode t []) (N.to_nat (nlen l)))))
     else
       let+ b := take_slice (nlen l * size_of t) in
       if (base + p) mod (align_of t) =? 0 then
         rret (VRef RSlice p (nlen l * size_of t) (nlen l)
                 (VSeq (decode_n (mem_decode t) (size_of t) (N.to_nat (nlen l)) b)))
       else rpanic PDebugAssert).
Proof.
  intros Hz Hw Ht pos evs rest e rest' pos' Hb Hr. inv Hb.
  cbn [bytes_of ev_bytes evs_len ev_len blocks_at] in *.
  rewrite app_nil_r in Hr. rewrite N.add_0_r.
  pose proof (mem_repr_list_len t pf pos l Hz Hw Ht) as Hlen.
  set (blk := mem_repr_list (fun p x => mem_repr pf p t x) (size_of t) pos l) in *.
  pose proof (take_slice_app blk rest pos) as Hts. rewrite Hlen in Hts.
  unfold rbind at 1 in Hr. unfold rpos in Hr.
  destruct (N.eqb_spec (size_of t) 0) as [Hs0|Hs0].
  - assert (Hlen0 : nlen blk = 0) by (rewrite Hlen, Hs0; lia).
    rewrite (nlen_0_nil _ Hlen0) in *. cbn [app] in Hr.
    unfold rret in Hr. inv Hr. split; [|split; [reflexivity|unfold nlen; cbn [length]; lia]].
    cbn [refs]. intros z [<-|[]]. rewrite in_app_iff. right. left. reflexivity.
  - rewrite (rbind_eq _ _ _ _ _ _ _ Hts) in Hr.
    destruct ((base + pos) mod align_of t =? 0).
    + unfold rret in Hr. inv Hr. split; [|split; [reflexivity|lia]].
      cbn [refs]. intros z [<-|[]]. rewrite in_app_iff. right. left. now rewrite Hlen.
    + unfold rpanic in Hr. discriminate.
Qed.

Lemma PLc_slice_zero base X pf t l :
  zc_ok t = true -> wf t = true -> forallb (wt t) l = true -> nlen l < W -> is_pow2 (unit_of t) = true ->
  PLc X refs (wslice_zero pf t l) (eps_slice_zero base t).
Proof.
  intros Hz Hw Ht Hl Hu. unfold wslice_zero, eps_slice_zero. rewrite (proj1 zc_const_of_ok t Hz Hw).
  apply PLc_assoc.
  eapply PLc_seq_RTE; [apply (RTE_usize base); exact Hl|].
  intros len <-. cbn beta.
  eapply PLc_seq_RTE; [apply RTE_align; exact Hu|].
  intros [] _. cbn beta. now apply PLc_slice_block.
Qed.

Lemma PLc_string base X l : nlen l < W -> PLc X refs (wbytes_zero l) (eps_string base).
Proof.
  intros Hl. unfold wbytes_zero, eps_string.
  apply PLc_assoc.
  eapply PLc_seq_RTE; [apply (RTE_usize base); exact Hl|].
  intros len <-. cbn beta.
  eapply PLc_seq_RTE; [apply (RTE_align base 1); reflexivity|].
  intros [] _. cbn beta.
  intros pos evs rest e rest' pos' Hw Hr. apply wev_done in Hw. subst evs.
  cbn [bytes_of ev_bytes evs_len ev_len blocks_at] in *.
  rewrite app_nil_r in Hr. rewrite N.add_0_r.
  unfold rbind at 1 in Hr. unfold rpos in Hr.
  rewrite (rbind_eq _ _ _ _ _ _ _ (take_slice_app _ _ _)) in Hr. unfold rret in Hr. inv Hr.
  split; [|split; reflexivity].
  cbn [refs]. intros z [<-|[]]. rewrite in_app_iff. right. left. reflexivity.
Qed.

(* ------------------------------------------------------------------ tags and sequences *)

Lemma PLc_deep_seq (base : N) pf t l (r : R val) (mk : list val -> val) :
  nlen l < W ->
  (forall x, In x l -> PLc [] refs (ser pf t x) r) ->
  (forall es, incl (refs (mk es)) (flat_map refs es)) ->
  PLc [] refs (wusize N_len (nlen l) ;; wlist (ser pf t) N_item t l)
      (let+ len := rusize in let+ xs := rrepeat r (N.to_nat len) in rret (mk xs)).
Proof.
  intros Hl Hall Hmk.
  eapply PLc_seq_RTE; [apply (RTE_usize base); exact Hl|].
  intros len <-. cbn beta. unfold nlen. rewrite Nat2N.id.
  apply (PLc_map _ (flat_map refs)); [now apply PLc_list|].
  intros es. cbn [app]. apply Hmk.
Qed.

Lemma PLc_deep_items pf t l (r : R val) (mk : list val -> val) :
  (forall x, In x l -> PLc [] refs (ser pf t x) r) ->
  (forall es, incl (refs (mk es)) (flat_map refs es)) ->
  PLc [] refs (wlist (ser pf t) N_item t l) (let+ xs := rrepeat r (length l) in rret (mk xs)).
Proof.
  intros Hall Hmk.
  apply (PLc_map _ (flat_map refs)); [now apply PLc_list|].
  intros es. cbn [app]. apply Hmk.
Qed.

Lemma PLc_tagged (base : N) nm tagv k t w (r : R val) (f : N -> R val) :
  tagv < 256 -> PLc [] refs w r ->
  f tagv = (let+ x := r in rret (VTag k [x])) ->
  PLc [] refs (wu8 N_Tag tagv ;; wfield nm t w) (rbind ru8 f).
Proof.
  intros Ht Hr Hf.
  eapply PLc_seq_RTE; [apply (RTE_u8 base); exact Ht|].
  intros x <-. rewrite Hf. apply (PLc_map _ refs); [now apply PLc_field|].
  intros a. inc.
Qed.

Lemma PLc_tag_only (base : N) tagv (y : val) (f : N -> R val) :
  tagv < 256 -> refs y = [] -> f tagv = rret y ->
  PLc [] refs (wu8 N_Tag tagv) (rbind ru8 f).
Proof.
  intros Ht Hy Hf.
  apply (PLc_of_RTE base _ _ _ _ (eq y) 1).
  - apply (RTE_tag_only base tagv y); [exact Ht|reflexivity|exact Hf].
  - intros e <-. rewrite Hy. apply incl_nil_l.
Qed.
