(* C18: the rows recorded by the schema writer describe exactly the bytes written. *)
Require Import EV.Base.Tac EV.Base.Bytes EV.Base.Res EV.Base.ListX.
Require Import EV.Model.Arith64 EV.Model.Types EV.Model.Layout EV.Model.Ser EV.Model.Header EV.Model.Typing EV.Model.Schema.
Require Import EV.Proofs.Monads EV.Proofs.LayoutOK.

(* ---------------------------------------------------------------- facts for ANY event list *)

Definition row_in (lo hi : N) (r : row) : Prop := lo <= r_off r /\ r_off r + r_size r <= hi.

Lemma Forall_row_in_weaken lo hi lo' hi' rs :
  lo' <= lo -> hi <= hi' -> Forall (row_in lo hi) rs -> Forall (row_in lo' hi') rs.
Proof.
  intros H1 H2 H. eapply Forall_impl; [|exact H].
  intros r [Ha Hb]. unfold row_in. split; lia.
Qed.

(* the position reached accounts exactly for the events consumed *)
Lemma rows_within_strong fuel : forall pos path evs rs pos' rest,
  rows fuel pos path evs = (rs, pos', rest) ->
  pos <= pos' /\ pos' + evs_len rest = pos + evs_len evs /\ Forall (row_in pos pos') rs.
Proof.
  induction fuel as [|f IH]; intros pos path evs rs pos' rest H.
  - cbn [rows] in H. inv H. split; [lia|]. split; [lia|]. constructor.
  - destruct evs as [|e r].
    + cbn [rows] in H. inv H. split; [lia|]. split; [lia|]. constructor.
    + destruct e; cbn [rows] in H.
      * apply IH in H. destruct H as (H1 & H2 & H3). cbn [evs_len ev_len] in *.
        split; [lia|]. split; [lia|]. eapply Forall_row_in_weaken; [| |exact H3]; lia.
      * destruct (rows f (pos + n) path r) as [[sibs pos2] r2] eqn:E. inv H.
        apply IH in E. destruct E as (H1 & H2 & H3). cbn [evs_len ev_len].
        split; [lia|]. split; [lia|]. constructor.
        -- unfold row_in. cbn [r_off r_size]. lia.
        -- eapply Forall_row_in_weaken; [| |exact H3]; lia.
      * destruct (rows f (pos + nlen b) path r) as [[sibs pos2] r2] eqn:E. inv H.
        apply IH in E. destruct E as (H1 & H2 & H3). cbn [evs_len ev_len].
        split; [lia|]. split; [lia|]. constructor.
        -- unfold row_in. cbn [r_off r_size]. lia.
        -- eapply Forall_row_in_weaken; [| |exact H3]; lia.
      * destruct (rows f (pos + nlen b) path r) as [[sibs pos2] r2] eqn:E. inv H.
        apply IH in E. destruct E as (H1 & H2 & H3). cbn [evs_len ev_len].
        split; [lia|]. split; [lia|]. constructor.
        -- unfold row_in. cbn [r_off r_size]. lia.
        -- eapply Forall_row_in_weaken; [| |exact H3]; lia.
      * destruct (rows f pos (nm :: path) r) as [[kids pos1] r1] eqn:E1.
        destruct (rows f pos1 path r1) as [[sibs pos2] r2] eqn:E2. inv H.
        apply IH in E1. destruct E1 as (H1 & H2 & H3).
        apply IH in E2. destruct E2 as (H4 & H5 & H6). cbn [evs_len ev_len].
        split; [lia|]. split; [lia|]. constructor.
        -- unfold row_in. cbn [r_off r_size]. lia.
        -- apply Forall_app. split.
           ++ eapply Forall_row_in_weaken; [| |exact H3]; lia.
           ++ eapply Forall_row_in_weaken; [| |exact H6]; lia.
      * inv H. cbn [evs_len ev_len]. split; [lia|]. split; [lia|]. constructor.
      * apply IH in H. destruct H as (H1 & H2 & H3). cbn [evs_len ev_len] in *.
        split; [lia|]. split; [lia|]. eapply Forall_row_in_weaken; [| |exact H3]; lia.
      * apply IH in H. destruct H as (H1 & H2 & H3). cbn [evs_len ev_len] in *.
        split; [lia|]. split; [lia|]. eapply Forall_row_in_weaken; [| |exact H3]; lia.
      * apply IH in H. destruct H as (H1 & H2 & H3). cbn [evs_len ev_len] in *.
        split; [lia|]. split; [lia|]. eapply Forall_row_in_weaken; [| |exact H3]; lia.
Qed.

(* rows are produced left to right: offsets never decrease along the schema vector (pre-order),
   and every row lies between the starting position and the position reached *)
Theorem rows_within fuel pos path evs rs pos' rest :
  rows fuel pos path evs = (rs, pos', rest) ->
  pos <= pos' /\ pos' <= pos + evs_len evs /\
  Forall (fun r => pos <= r_off r /\ r_off r + r_size r <= pos') rs.
Proof.
  intros H. apply rows_within_strong in H. destruct H as (H1 & H2 & H3).
  split; [exact H1|]. split; [lia|]. exact H3.
Qed.

Fixpoint offsets_sorted (rs : list row) : Prop :=
  match rs with
  | [] => True
  | r :: rest => (match rest with r' :: _ => r_off r <= r_off r' | [] => True end) /\ offsets_sorted rest
  end.

Lemma offsets_sorted_cons r rs :
  Forall (fun r' => r_off r <= r_off r') rs -> offsets_sorted rs -> offsets_sorted (r :: rs).
Proof.
  intros Hall Hs. cbn [offsets_sorted]. split; [|exact Hs].
  destruct rs as [|r' rs']; [exact I|]. inv Hall. assumption.
Qed.

Lemma offsets_sorted_app mid a b :
  Forall (fun r => r_off r <= mid) a -> Forall (fun r => mid <= r_off r) b ->
  offsets_sorted a -> offsets_sorted b -> offsets_sorted (a ++ b).
Proof.
  intros Ha Hb Sa Sb. induction a as [|x a IH]; cbn [app]; [exact Sb|].
  inv Ha. cbn [offsets_sorted] in Sa. destruct Sa as [Sx Sa].
  cbn [offsets_sorted]. split; [|apply IH; assumption].
  destruct a as [|y a]; cbn [app].
  - destruct b as [|z b]; [exact I|]. inv Hb. lia.
  - exact Sx.
Qed.

Theorem rows_preorder fuel pos path evs rs pos' rest :
  rows fuel pos path evs = (rs, pos', rest) -> offsets_sorted rs.
Proof.
  revert pos path evs rs pos' rest.
  induction fuel as [|f IH]; intros pos path evs rs pos' rest H.
  - cbn [rows] in H. inv H. exact I.
  - destruct evs as [|e r].
    + cbn [rows] in H. inv H. exact I.
    + destruct e; cbn [rows] in H; try (eapply IH; exact H).
      * destruct (rows f (pos + n) path r) as [[sibs pos2] r2] eqn:E. inv H.
        pose proof (rows_within_strong _ _ _ _ _ _ _ E) as (H1 & H2 & H3).
        apply offsets_sorted_cons; [|eapply IH; exact E].
        eapply Forall_impl; [|exact H3]. intros r0 [Ha Hb]. cbn [r_off]. lia.
      * destruct (rows f (pos + nlen b) path r) as [[sibs pos2] r2] eqn:E. inv H.
        pose proof (rows_within_strong _ _ _ _ _ _ _ E) as (H1 & H2 & H3).
        apply offsets_sorted_cons; [|eapply IH; exact E].
        eapply Forall_impl; [|exact H3]. intros r0 [Ha Hb]. cbn [r_off]. lia.
      * destruct (rows f (pos + nlen b) path r) as [[sibs pos2] r2] eqn:E. inv H.
        pose proof (rows_within_strong _ _ _ _ _ _ _ E) as (H1 & H2 & H3).
        apply offsets_sorted_cons; [|eapply IH; exact E].
        eapply Forall_impl; [|exact H3]. intros r0 [Ha Hb]. cbn [r_off]. lia.
      * destruct (rows f pos (nm :: path) r) as [[kids pos1] r1] eqn:E1.
        destruct (rows f pos1 path r1) as [[sibs pos2] r2] eqn:E2. inv H.
        pose proof (rows_within_strong _ _ _ _ _ _ _ E1) as (H1 & H2 & H3).
        pose proof (rows_within_strong _ _ _ _ _ _ _ E2) as (H4 & H5 & H6).
        apply offsets_sorted_cons.
        -- apply Forall_app. split.
           ++ eapply Forall_impl; [|exact H3]. intros r0 [Ha Hb]. cbn [r_off]. lia.
           ++ eapply Forall_impl; [|exact H6]. intros r0 [Ha Hb]. cbn [r_off]. lia.
        -- apply (offsets_sorted_app pos1).
           ++ eapply Forall_impl; [|exact H3]. intros r0 [Ha Hb]. lia.
           ++ eapply Forall_impl; [|exact H6]. intros r0 [Ha Hb]. lia.
           ++ eapply IH; exact E1.
           ++ eapply IH; exact E2.
      * inv H. exact I.
Qed.

(* every row of the schema of a stream lies within the stream, so Schema::debug never indexes
   outside the data it is given, and to_csv indexes nothing *)
Theorem schema_rows_within evs :
  Forall (fun r => r_off r + r_size r <= evs_len evs) (schema_of evs).
Proof.
  unfold schema_of.
  destruct (rows (S (length evs)) 0 [] evs) as [[rs pos'] rest] eqn:E.
  apply rows_within in E. destruct E as (H1 & H2 & H3).
  eapply Forall_impl; [|exact H3]. intros r [Ha Hb]. cbn beta. lia.
Qed.

Lemma debug_ok_within n rs :
  Forall (fun r => r_off r + r_size r <= n) rs -> debug_ok n rs = true.
Proof.
  induction rs as [|r rs IH]; intros H; [reflexivity|].
  inv H. cbn [debug_ok]. destruct rs as [|r' rs'].
  - apply N.leb_le. assumption.
  - apply andb_true_iff. split; [|apply IH; assumption].
    destruct (r_off r =? r_off r'); [reflexivity|]. apply N.leb_le. assumption.
Qed.

Theorem schema_debug_ok evs : debug_ok (evs_len evs) (schema_of evs) = true.
Proof. apply debug_ok_within, schema_rows_within. Qed.

(* ---------------------------------------------------------------- the tree of rows *)

Inductive tree := Node (r : row) (kids : list tree).

Fixpoint trees (fuel : nat) (pos : N) (path : list name) (evs : list event)
  : list tree * N * list event :=
  match fuel with
  | O => ([], pos, evs)
  | S f =>
      match evs with
      | [] => ([], pos, [])
      | ELeave :: r => ([], pos, r)
      | EEnter nm t :: r =>
          let '(kids, pos1, r1) := trees f pos (nm :: path) r in
          let me := {| r_path := rev (nm :: path); r_off := pos; r_size := pos1 - pos; r_align := 0; r_leaf := false |} in
          let '(sibs, pos2, r2) := trees f pos1 path r1 in
          (Node me kids :: sibs, pos2, r2)
      | EPad u n :: r =>
          let '(sibs, pos2, r2) := trees f (pos + n) path r in
          (Node {| r_path := [N_PADDING]; r_off := pos; r_size := n; r_align := 1; r_leaf := true |} [] :: sibs, pos2, r2)
      | EBlock t b :: r | EItem t b :: r =>
          let '(sibs, pos2, r2) := trees f (pos + nlen b) path r in
          (Node {| r_path := rev (N_zero :: path); r_off := pos; r_size := nlen b; r_align := unit_of t; r_leaf := true |} [] :: sibs, pos2, r2)
      | e :: r => trees f (pos + ev_len e) path r
      end
  end.

Fixpoint flat (t : tree) : list row :=
  match t with Node r kids => r :: flat_map flat kids end.
Definition flatten (ts : list tree) : list row := flat_map flat ts.

(* the schema vector is the pre-order traversal of the tree *)
Theorem rows_flatten fuel pos path evs :
  let '(ts, p1, r1) := trees fuel pos path evs in
  rows fuel pos path evs = (flatten ts, p1, r1).
Proof.
  revert pos path evs. induction fuel as [|f IH]; intros pos path evs.
  - reflexivity.
  - destruct evs as [|e r]; [reflexivity|].
    destruct e; cbn [trees rows]; try apply IH; try reflexivity.
    + specialize (IH (pos + n) path r).
      destruct (trees f (pos + n) path r) as [[sibs pos2] r2]. rewrite IH. reflexivity.
    + specialize (IH (pos + nlen b) path r).
      destruct (trees f (pos + nlen b) path r) as [[sibs pos2] r2]. rewrite IH. reflexivity.
    + specialize (IH (pos + nlen b) path r).
      destruct (trees f (pos + nlen b) path r) as [[sibs pos2] r2]. rewrite IH. reflexivity.
    + pose proof (IH pos (nm :: path) r) as IH1.
      destruct (trees f pos (nm :: path) r) as [[kids pos1] r1]. rewrite IH1.
      specialize (IH pos1 path r1).
      destruct (trees f pos1 path r1) as [[sibs pos2] r2]. rewrite IH.
      unfold flatten. cbn [flat_map flat]. reflexivity.
Qed.

Definition forest_of (evs : list event) : list tree :=
  let '(ts, _, _) := trees (S (List.length evs)) 0 [] evs in ts.

(* [span ts start]: the trees are laid end to end from [start]; returns where they end *)
Fixpoint span (ts : list tree) (start : N) : option N :=
  match ts with
  | [] => Some start
  | Node r _ :: rest => if r_off r =? start then span rest (start + r_size r) else None
  end.

(* a composite row is tiled by its children, without gaps or overlaps; a row without children
   is a leaf (primitive field, padding, zero-copy bytes) *)
Fixpoint tiled (t : tree) : Prop :=
  match t with
  | Node r kids =>
      (kids = [] \/ span kids (r_off r) = Some (r_off r + r_size r)) /\
      (fix all (l : list tree) : Prop := match l with [] => True | k :: l' => tiled k /\ all l' end) kids
  end.

(* ------------------------------------------------ fuel independence of [trees] *)

Lemma trees_rest_len fuel : forall pos path evs ts p rest,
  trees fuel pos path evs = (ts, p, rest) -> (length rest <= length evs)%nat.
Proof.
  induction fuel as [|f IH]; intros pos path evs ts p rest H.
  - cbn [trees] in H. inv H. lia.
  - destruct evs as [|e r]; [cbn [trees] in H; inv H; cbn [length]; lia|].
    destruct e; cbn [trees] in H; cbn [length];
      try (apply IH in H; lia).
    + destruct (trees f (pos + n) path r) as [[sibs pos2] r2] eqn:E. inv H. apply IH in E. lia.
    + destruct (trees f (pos + nlen b) path r) as [[sibs pos2] r2] eqn:E. inv H. apply IH in E. lia.
    + destruct (trees f (pos + nlen b) path r) as [[sibs pos2] r2] eqn:E. inv H. apply IH in E. lia.
    + destruct (trees f pos (nm :: path) r) as [[kids pos1] r1] eqn:E1.
      destruct (trees f pos1 path r1) as [[sibs pos2] r2] eqn:E2. inv H.
      apply IH in E1. apply IH in E2. lia.
    + inv H. lia.
Qed.

Lemma trees_fuel f1 : forall f2 pos path evs,
  (length evs < f1)%nat -> (length evs < f2)%nat ->
  trees f1 pos path evs = trees f2 pos path evs.
Proof.
  induction f1 as [|f1 IH]; intros f2 pos path evs H1 H2; [lia|].
  destruct f2 as [|f2]; [lia|].
  destruct evs as [|e r]; [reflexivity|]. cbn [length] in H1, H2.
  destruct e; cbn [trees]; try (apply IH; lia); try reflexivity.
  - rewrite (IH f2) by lia. reflexivity.
  - rewrite (IH f2) by lia. reflexivity.
  - rewrite (IH f2) by lia. reflexivity.
  - rewrite (IH f2 pos (nm :: path) r) by lia.
    destruct (trees f2 pos (nm :: path) r) as [[kids pos1] r1] eqn:E1.
    apply trees_rest_len in E1.
    rewrite (IH f2 pos1 path r1) by lia. reflexivity.
Qed.

(* [trees] with the canonical (sufficient) fuel *)
Definition T (pos : N) (path : list name) (evs : list event) := trees (S (length evs)) pos path evs.

Lemma T_nil pos path : T pos path [] = ([], pos, []).
Proof. reflexivity. Qed.

Lemma T_leave pos path r : T pos path (ELeave :: r) = ([], pos, r).
Proof. reflexivity. Qed.

Definition silent (e : event) : Prop :=
  match e with EWrite _ | EAliasBegin | EAliasEnd | EFlush => True | _ => False end.

Lemma T_silent pos path e r : silent e -> T pos path (e :: r) = T (pos + ev_len e) path r.
Proof. intros H. unfold T. destruct e; try contradiction; reflexivity. Qed.

Lemma T_pad pos path u n r sibs pos2 r2 :
  T (pos + n) path r = (sibs, pos2, r2) ->
  T pos path (EPad u n :: r) =
  (Node {| r_path := [N_PADDING]; r_off := pos; r_size := n; r_align := 1; r_leaf := true |} [] :: sibs, pos2, r2).
Proof. unfold T. cbn [length trees]. intros ->. reflexivity. Qed.

Lemma T_block pos path t b r sibs pos2 r2 :
  T (pos + nlen b) path r = (sibs, pos2, r2) ->
  T pos path (EBlock t b :: r) =
  (Node {| r_path := rev (N_zero :: path); r_off := pos; r_size := nlen b; r_align := unit_of t; r_leaf := true |} [] :: sibs, pos2, r2).
Proof. unfold T. cbn [length trees]. intros ->. reflexivity. Qed.

Lemma T_item pos path t b r sibs pos2 r2 :
  T (pos + nlen b) path r = (sibs, pos2, r2) ->
  T pos path (EItem t b :: r) =
  (Node {| r_path := rev (N_zero :: path); r_off := pos; r_size := nlen b; r_align := unit_of t; r_leaf := true |} [] :: sibs, pos2, r2).
Proof. unfold T. cbn [length trees]. intros ->. reflexivity. Qed.

Lemma trees_enter_S f pos path nm t r :
  trees (S f) pos path (EEnter nm t :: r) =
  let '(kids, pos1, r1) := trees f pos (nm :: path) r in
  let me := {| r_path := rev (nm :: path); r_off := pos; r_size := pos1 - pos; r_align := 0; r_leaf := false |} in
  let '(sibs, pos2, r2) := trees f pos1 path r1 in
  (Node me kids :: sibs, pos2, r2).
Proof. reflexivity. Qed.

Lemma T_enter pos path nm t r kids pos1 r1 sibs pos2 r2 :
  T pos (nm :: path) r = (kids, pos1, r1) ->
  T pos1 path r1 = (sibs, pos2, r2) ->
  T pos path (EEnter nm t :: r) =
  (Node {| r_path := rev (nm :: path); r_off := pos; r_size := pos1 - pos; r_align := 0; r_leaf := false |} kids :: sibs,
   pos2, r2).
Proof.
  unfold T. cbn [length]. intros E1 E2. rewrite trees_enter_S. rewrite E1.
  pose proof (trees_rest_len _ _ _ _ _ _ _ E1) as Hl.
  rewrite (trees_fuel (S (length r)) (S (length r1))) by lia. rewrite E2. reflexivity.
Qed.

(* ------------------------------------------------ span and tiled *)

Lemma span_app a : forall b s m, span a s = Some m -> span (a ++ b) s = span b m.
Proof.
  induction a as [|[r k] a IH]; intros b s m H; cbn [span app] in *.
  - inv H. reflexivity.
  - destruct (r_off r =? s); [|discriminate]. apply IH. exact H.
Qed.

Lemma tiled_node r kids :
  tiled (Node r kids) <->
  (kids = [] \/ span kids (r_off r) = Some (r_off r + r_size r)) /\ Forall tiled kids.
Proof.
  cbn [tiled].
  assert (H : forall l,
    (fix all (l : list tree) : Prop := match l with [] => True | k :: l' => tiled k /\ all l' end) l
    <-> Forall tiled l).
  { induction l as [|k l IH]; split; intros Hx.
    - constructor.
    - exact I.
    - destruct Hx as [Hk Hl]. constructor; [exact Hk|]. apply IH. exact Hl.
    - inv Hx. split; [assumption|]. apply IH. assumption. }
  rewrite H. reflexivity.
Qed.

(* ------------------------------------------------ writers whose events tile what they write *)

(* the events of a completed writer parse into a forest that tiles exactly the bytes written,
   and parsing continues with whatever follows *)
Definition Tiling (w : Wr) : Prop :=
  forall pos evs, w pos = (evs, SDone) ->
  forall path tail, exists ts,
    span ts pos = Some (pos + evs_len evs) /\ Forall tiled ts /\
    forall ts' p' rest, T (pos + evs_len evs) path tail = (ts', p', rest) ->
                        T pos path (evs ++ tail) = (ts ++ ts', p', rest).

Lemma Tiling_done : Tiling wdone.
Proof.
  intros pos evs H path tail. apply wdone_done in H. subst evs. exists [].
  cbn [span evs_len app]. rewrite N.add_0_r. split; [reflexivity|]. split; [constructor|].
  intros ts' p' rest E. exact E.
Qed.

Lemma Tiling_panic w : Tiling (wpanic w).
Proof. intros pos evs H. inv H. Qed.

Lemma Tiling_silent e : silent e -> ev_len e = 0 -> Tiling (wev e).
Proof.
  intros Hs Hl pos evs H path tail. apply wev_done in H. subst evs. exists [].
  cbn [span evs_len app]. rewrite Hl, !N.add_0_r. split; [reflexivity|]. split; [constructor|].
  intros ts' p' rest E. rewrite T_silent by exact Hs. rewrite Hl, N.add_0_r. exact E.
Qed.

Lemma Tiling_seq a b : Tiling a -> Tiling b -> Tiling (a ;; b).
Proof.
  intros Ha Hb pos evs H path tail.
  apply wseq_done in H. destruct H as (ea & eb & Ea & Eb & ->).
  destruct (Hb _ _ Eb path tail) as (tsb & Sb & Fb & Pb).
  destruct (Ha _ _ Ea path (eb ++ tail)) as (tsa & Sa & Fa & Pa).
  exists (tsa ++ tsb). rewrite evs_len_app. split; [|split].
  - rewrite (span_app _ _ _ _ Sa). rewrite Sb. f_equal. lia.
  - apply Forall_app. split; assumption.
  - intros ts' p' rest E. rewrite <- !app_assoc. apply Pa. apply Pb.
    rewrite <- E. f_equal. lia.
Qed.

Lemma Tiling_field nm t w : Tiling w -> Tiling (wfield nm t w).
Proof.
  intros Hw pos evs H path tail.
  apply wfield_done in H. destruct H as (ew & Ew & ->).
  destruct (Hw _ _ Ew (nm :: path) (ELeave :: tail)) as (ts & Sw & Fw & Pw).
  specialize (Pw [] (pos + evs_len ew) tail (T_leave _ _ _)). rewrite app_nil_r in Pw.
  assert (Hlen : evs_len (EEnter nm t :: ew ++ [ELeave]) = evs_len ew).
  { cbn [evs_len ev_len]. rewrite evs_len_app. cbn [evs_len ev_len]. lia. }
  rewrite Hlen.
  exists [Node {| r_path := rev (nm :: path); r_off := pos; r_size := pos + evs_len ew - pos; r_align := 0; r_leaf := false |} ts]. split; [|split].
  - cbn [span r_off r_size]. rewrite N.eqb_refl. f_equal. lia.
  - constructor; [|constructor]. apply tiled_node. split; [|exact Fw].
    right. cbn [r_off r_size]. rewrite Sw. f_equal. lia.
  - intros ts' p' rest E. cbn [app]. rewrite <- app_assoc. cbn [app].
    apply (T_enter _ _ _ _ _ _ _ _ _ _ _ Pw E).
Qed.

Lemma Tiling_field_write nm t b : Tiling (wfield nm t (wev (EWrite b))).
Proof.
  intros pos evs H path tail.
  apply wfield_done in H. destruct H as (ew & Ew & ->). apply wev_done in Ew. subst ew.
  cbn [app evs_len ev_len]. rewrite N.add_0_l, !N.add_0_r.
  assert (P : T pos (nm :: path) (EWrite b :: ELeave :: tail) = ([], pos + nlen b, tail)).
  { rewrite T_silent by exact I. cbn [ev_len]. apply T_leave. }
  exists [Node {| r_path := rev (nm :: path); r_off := pos; r_size := pos + nlen b - pos; r_align := 0; r_leaf := false |} []]. split; [|split].
  - cbn [span r_off r_size]. rewrite N.eqb_refl. f_equal. lia.
  - constructor; [|constructor]. apply tiled_node. split; [left; reflexivity|constructor].
  - intros ts' p' rest E. cbn [app]. apply (T_enter _ _ _ _ _ _ _ _ _ _ _ P E).
Qed.

Lemma Tiling_leaf_block t (f : N -> list byte) : Tiling (fun pos => ([EBlock t (f pos)], SDone)).
Proof.
  intros pos evs H path tail. inv H.
  cbn [app evs_len ev_len]. rewrite N.add_0_r.
  exists [Node {| r_path := rev (N_zero :: path); r_off := pos; r_size := nlen (f pos);
                  r_align := unit_of t; r_leaf := true |} []].
  split; [|split].
  - cbn [span r_off r_size]. rewrite N.eqb_refl. reflexivity.
  - constructor; [|constructor]. apply tiled_node. split; [left; reflexivity|constructor].
  - intros ts' p' rest E. cbn [app]. apply T_block. exact E.
Qed.

Lemma Tiling_leaf_item t (f : N -> list byte) : Tiling (fun pos => ([EItem t (f pos)], SDone)).
Proof.
  intros pos evs H path tail. inv H.
  cbn [app evs_len ev_len]. rewrite N.add_0_r.
  exists [Node {| r_path := rev (N_zero :: path); r_off := pos; r_size := nlen (f pos);
                  r_align := unit_of t; r_leaf := true |} []].
  split; [|split].
  - cbn [span r_off r_size]. rewrite N.eqb_refl. reflexivity.
  - constructor; [|constructor]. apply tiled_node. split; [left; reflexivity|constructor].
  - intros ts' p' rest E. cbn [app]. apply T_item. exact E.
Qed.

Lemma Tiling_align u : Tiling (walign u).
Proof.
  intros pos evs H path tail. unfold walign in H.
  destruct (u =? 0); [discriminate|].
  destruct (pad_align_to pos u =? 0).
  - revert pos evs H path tail. apply Tiling_done.
  - inv H. cbn [app evs_len ev_len]. rewrite N.add_0_r.
    exists [Node {| r_path := [N_PADDING]; r_off := pos; r_size := pad_align_to pos u;
                    r_align := 1; r_leaf := true |} []].
    split; [|split].
    + cbn [span r_off r_size]. rewrite N.eqb_refl. reflexivity.
    + constructor; [|constructor]. apply tiled_node. split; [left; reflexivity|constructor].
    + intros ts' p' rest E. cbn [app]. apply T_pad. exact E.
Qed.

Local Opaque wfield.

Lemma Tiling_usize nm n : Tiling (wusize nm n).
Proof. apply Tiling_field_write. Qed.
Lemma Tiling_u8 nm n : Tiling (wu8 nm n).
Proof. apply Tiling_field_write. Qed.

(* a body that may be a bare primitive write: tiling once wrapped in a field *)
Definition FT (w : Wr) : Prop := forall nm t, Tiling (wfield nm t w).

Lemma FT_of_Tiling w : Tiling w -> FT w.
Proof. intros H nm t. apply Tiling_field, H. Qed.

Lemma Tiling_list f nm t l : (forall x, FT (f x)) -> Tiling (wlist f nm t l).
Proof.
  intros H. induction l as [|x l IH]; cbn [wlist]; [apply Tiling_done|].
  apply Tiling_seq; [apply H|exact IH].
Qed.

Lemma Tiling_items pf t l : Tiling (witems pf t l).
Proof.
  induction l as [|x l IH]; cbn [witems]; [apply Tiling_done|].
  apply Tiling_seq; [|exact IH]. apply (Tiling_leaf_item t (fun pos => mem_repr pf pos t x)).
Qed.

Lemma Tiling_zero pf t v : Tiling (wzero pf t v).
Proof.
  unfold wzero. destruct (is_zc_const t); [|apply Tiling_panic].
  apply Tiling_seq; [apply Tiling_align|].
  apply (Tiling_leaf_block t (fun pos => mem_repr pf pos t v)).
Qed.

Lemma Tiling_slice_zero pf t l : Tiling (wslice_zero pf t l).
Proof.
  unfold wslice_zero. destruct (is_zc_const t); [|apply Tiling_panic].
  apply Tiling_seq; [apply Tiling_seq; [apply Tiling_usize|apply Tiling_align]|].
  apply (Tiling_leaf_block t
           (fun pos => mem_repr_list (fun p x => mem_repr pf p t x) (size_of t) pos l)).
Qed.

Lemma Tiling_bytes l : Tiling (wbytes_zero l).
Proof.
  unfold wbytes_zero.
  apply Tiling_seq; [apply Tiling_seq; [apply Tiling_usize|apply Tiling_align]|].
  apply (Tiling_leaf_block TU8 (fun _ => l)).
Qed.

Lemma Tiling_seq_body t l pf (IH : forall pf v, FT (ser pf t v)) :
  Tiling (if is_zc t then wslice_zero pf t l
          else wusize N_len (nlen l) ;; wlist (ser pf t) N_item t l).
Proof.
  destruct (is_zc t); [apply Tiling_slice_zero|].
  apply Tiling_seq; [apply Tiling_usize|apply Tiling_list; intros x; apply IH].
Qed.

Theorem tiling_all :
  (forall t pf v, FT (ser pf t v)) /\
  (forall fs pf named vals, Tiling (ser_fields pf named fs vals)) /\
  (forall vs pf k vals, Tiling (ser_variants pf vs k vals)).
Proof.
  apply ty_fields_variants_ind.
  - intros p pf v nm t. cbn [ser]. apply Tiling_field_write.
  - intros pf v. apply FT_of_Tiling, Tiling_done.
  - intros t IH pf v. apply FT_of_Tiling, Tiling_done.
  - intros pf v. apply FT_of_Tiling. cbn [ser]. destruct v; try apply Tiling_panic. apply Tiling_bytes.
  - intros pf v. apply FT_of_Tiling. cbn [ser]. destruct v; try apply Tiling_panic. apply Tiling_bytes.
  - intros t IH pf v. apply FT_of_Tiling. cbn [ser]. apply Tiling_seq_body, IH.
  - intros t IH pf v. apply FT_of_Tiling. cbn [ser]. apply Tiling_seq_body, IH.
  - intros t IH pf v. apply FT_of_Tiling. cbn [ser].
    apply Tiling_seq; [apply Tiling_seq|].
    + apply Tiling_silent; [exact I|reflexivity].
    + apply Tiling_seq_body, IH.
    + apply Tiling_silent; [exact I|reflexivity].
  - intros t IH pf v. apply FT_of_Tiling. cbn [ser].
    destruct (is_zc_const t); [|apply Tiling_panic].
    repeat apply Tiling_seq; [apply Tiling_usize|apply Tiling_align|apply Tiling_items|].
    intros pos evs Hrun. destruct (nlen (vseq_items v) =? vtag v); inv Hrun.
    revert pos. intros pos. apply (Tiling_done pos []). reflexivity.
  - intros n t IH pf v. apply FT_of_Tiling. cbn [ser].
    destruct (is_zc t); [apply Tiling_zero|apply Tiling_list; intros x; apply IH].
  - intros n t IH pf v. apply FT_of_Tiling. cbn [ser]. apply Tiling_zero.
  - intros t IH pf v. apply FT_of_Tiling. cbn [ser].
    destruct (vtag v); [apply Tiling_u8|]. apply Tiling_seq; [apply Tiling_u8|apply IH].
  - intros t IH pf v. apply FT_of_Tiling. cbn [ser].
    destruct (vtag v) as [|[p|p|]]; try apply Tiling_u8;
      (apply Tiling_seq; [apply Tiling_u8|apply IH]).
  - intros b IHb c IHc pf v. apply FT_of_Tiling. cbn [ser].
    destruct (vtag v); (apply Tiling_seq; [apply Tiling_u8|]); [apply IHb|apply IHc].
  - intros k t IH pf v. apply FT_of_Tiling. cbn [ser].
    destruct k; repeat apply Tiling_seq; try apply IH.
    apply Tiling_field_write.
  - intros pf v. apply FT_of_Tiling, Tiling_done.
  - intros i fs IH pf v. apply FT_of_Tiling. cbn [ser].
    destruct (a_zc i); [apply Tiling_zero|apply IH].
  - intros i vs IH pf v. apply FT_of_Tiling. cbn [ser].
    destruct (a_zc i); [apply Tiling_zero|].
    apply Tiling_seq; [apply Tiling_usize|apply IH].
  - intros pf named vals. apply Tiling_done.
  - intros nm isp t IHt r IHr pf named vals. cbn [ser_fields].
    apply Tiling_seq; [apply IHt|apply IHr].
  - intros pf k vals. apply Tiling_done.
  - intros nm named fs IHf r IHr pf k vals. cbn [ser_variants].
    destruct (k =? 0); [apply IHf|apply IHr].
Qed.

Lemma Tiling_top pf h t v : Tiling (header_w h ;; wfield N_ROOT t (ser pf t v) ;; wev EFlush).
Proof.
  unfold header_w.
  repeat apply Tiling_seq; try apply Tiling_field_write.
  - apply Tiling_field, Tiling_bytes.
  - apply (proj1 tiling_all).
  - apply Tiling_silent; [exact I|reflexivity].
Qed.

(* For the stream of any value of any type: the top-level rows tile the whole stream and every
   composite row is tiled by its children *)
Theorem schema_tiled pf h t v evs :
  ser_top pf h t v = (evs, SDone) ->
  span (forest_of evs) 0 = Some (evs_len evs) /\ Forall tiled (forest_of evs).
Proof.
  intros H. unfold ser_top in H.
  destruct (Tiling_top pf h t v 0 evs H [] []) as (ts & Hs & Ht & Hp).
  specialize (Hp [] _ [] (T_nil _ _)). rewrite !app_nil_r in Hp.
  unfold forest_of. fold (T 0 [] evs). rewrite Hp.
  rewrite N.add_0_l in Hs. split; assumption.
Qed.

(* ---------------------------------------------------------------- the bytes under leaf rows *)

Lemma nlen_ev_bytes e : nlen (ev_bytes e) = ev_len e.
Proof. destruct e; cbn [ev_bytes ev_len]; try reflexivity. apply nlen_zeros. Qed.

Lemma ndrop_ev e pos l : ndrop (pos + ev_len e - pos) (ev_bytes e ++ l) = l.
Proof.
  rewrite ndrop_app_ge by (rewrite nlen_ev_bytes; lia).
  rewrite nlen_ev_bytes. replace (pos + ev_len e - pos - ev_len e) with 0 by lia. apply ndrop_0.
Qed.

Lemma ndrop_self {A} pos (l : list A) : ndrop (pos - pos) l = l.
Proof. replace (pos - pos) with 0 by lia. apply ndrop_0. Qed.

(* the events consumed by [rows] account for exactly the bytes between the two positions *)
Lemma rows_bytes fuel : forall pos path evs rs pos' rest,
  rows fuel pos path evs = (rs, pos', rest) ->
  ndrop (pos' - pos) (bytes_of evs) = bytes_of rest.
Proof.
  assert (step : forall e pos pos' (l l' : list byte),
            pos + ev_len e <= pos' ->
            ndrop (pos' - (pos + ev_len e)) l = l' ->
            ndrop (pos' - pos) (ev_bytes e ++ l) = l').
  { intros e pos pos' l l' Hle H.
    rewrite <- (ndrop_ev e pos l) in H. rewrite ndrop_ndrop in H.
    rewrite <- H. f_equal. lia. }
  induction fuel as [|f IH]; intros pos path evs rs pos' rest H.
  - cbn [rows] in H. inv H. apply ndrop_self.
  - destruct evs as [|e r].
    + cbn [rows] in H. inv H. apply ndrop_self.
    + destruct e; cbn [rows] in H.
      * pose proof (rows_within_strong _ _ _ _ _ _ _ H) as (H1 & _ & _).
        apply IH in H. cbn [bytes_of]. apply step; assumption.
      * destruct (rows f (pos + n) path r) as [[sibs pos2] r2] eqn:E. inv H.
        pose proof (rows_within_strong _ _ _ _ _ _ _ E) as (H1 & _ & _).
        apply IH in E. cbn [bytes_of]. apply (step (EPad u n)); assumption.
      * destruct (rows f (pos + nlen b) path r) as [[sibs pos2] r2] eqn:E. inv H.
        pose proof (rows_within_strong _ _ _ _ _ _ _ E) as (H1 & _ & _).
        apply IH in E. cbn [bytes_of]. apply (step (EBlock t b)); assumption.
      * destruct (rows f (pos + nlen b) path r) as [[sibs pos2] r2] eqn:E. inv H.
        pose proof (rows_within_strong _ _ _ _ _ _ _ E) as (H1 & _ & _).
        apply IH in E. cbn [bytes_of]. apply (step (EItem t b)); assumption.
      * destruct (rows f pos (nm :: path) r) as [[kids pos1] r1] eqn:E1.
        destruct (rows f pos1 path r1) as [[sibs pos2] r2] eqn:E2. inv H.
        pose proof (rows_within_strong _ _ _ _ _ _ _ E1) as (H1 & _ & _).
        pose proof (rows_within_strong _ _ _ _ _ _ _ E2) as (H4 & _ & _).
        apply IH in E1. apply IH in E2. cbn [bytes_of ev_bytes app].
        rewrite <- E2, <- E1, ndrop_ndrop. f_equal. lia.
      * inv H. cbn [bytes_of ev_bytes app]. apply ndrop_self.
      * pose proof (rows_within_strong _ _ _ _ _ _ _ H) as (H1 & _ & _).
        apply IH in H. cbn [bytes_of]. apply step; assumption.
      * pose proof (rows_within_strong _ _ _ _ _ _ _ H) as (H1 & _ & _).
        apply IH in H. cbn [bytes_of]. apply step; assumption.
      * pose proof (rows_within_strong _ _ _ _ _ _ _ H) as (H1 & _ & _).
        apply IH in H. cbn [bytes_of]. apply step; assumption.
Qed.

(* a padding row at offset [r_off r] of a stream whose bytes from position [pos] on are [bytes] *)
Definition PadOK (pos : N) (bytes : list byte) (r : row) : Prop :=
  r_leaf r = true -> r_path r = [N_PADDING] ->
  ntake (r_size r) (ndrop (r_off r - pos) bytes) = zeros (r_size r).

Lemma PadOK_shift pos p1 hi bytes rs :
  pos <= p1 ->
  Forall (row_in p1 hi) rs ->
  Forall (PadOK p1 (ndrop (p1 - pos) bytes)) rs ->
  Forall (PadOK pos bytes) rs.
Proof.
  intros Hle Hin Hok. induction rs as [|r rs IH]; [constructor|].
  inv Hin. inv Hok. constructor; [|apply IH; assumption].
  destruct H1 as [Ha _]. intros Hl Hp. specialize (H3 Hl Hp).
  rewrite ndrop_ndrop in H3. rewrite <- H3. f_equal. f_equal. lia.
Qed.

Lemma N_zero_neq_padding path : rev (N_zero :: path) <> [N_PADDING].
Proof.
  cbn [rev]. intros H. change [N_PADDING] with ([] ++ [N_PADDING]) in H.
  apply app_inj_tail in H. destruct H as [_ H]. vm_compute in H. discriminate.
Qed.

Lemma rows_pad_ok fuel : forall pos path evs rs pos' rest,
  rows fuel pos path evs = (rs, pos', rest) -> Forall (PadOK pos (bytes_of evs)) rs.
Proof.
  induction fuel as [|f IH]; intros pos path evs rs pos' rest H.
  - cbn [rows] in H. inv H. constructor.
  - destruct evs as [|e r].
    + cbn [rows] in H. inv H. constructor.
    + destruct e; cbn [rows] in H.
      * pose proof (rows_within_strong _ _ _ _ _ _ _ H) as (_ & _ & H3).
        apply IH in H. cbn [bytes_of].
        apply (PadOK_shift pos (pos + ev_len (EWrite b)) pos'); [lia|exact H3|].
        rewrite ndrop_ev. exact H.
      * destruct (rows f (pos + n) path r) as [[sibs pos2] r2] eqn:E. inv H.
        pose proof (rows_within_strong _ _ _ _ _ _ _ E) as (_ & _ & H3).
        apply IH in E. cbn [bytes_of]. constructor.
        -- intros _ _. cbn [r_off r_size ev_bytes]. rewrite ndrop_self.
           rewrite ntake_app_le by (rewrite nlen_zeros; lia).
           apply ntake_all. rewrite nlen_zeros. lia.
        -- apply (PadOK_shift pos (pos + ev_len (EPad u n)) pos'); [lia|exact H3|].
           rewrite ndrop_ev. exact E.
      * destruct (rows f (pos + nlen b) path r) as [[sibs pos2] r2] eqn:E. inv H.
        pose proof (rows_within_strong _ _ _ _ _ _ _ E) as (_ & _ & H3).
        apply IH in E. cbn [bytes_of]. constructor.
        -- intros _ Hp. cbn [r_path] in Hp. now apply N_zero_neq_padding in Hp.
        -- apply (PadOK_shift pos (pos + ev_len (EBlock t b)) pos'); [lia|exact H3|].
           rewrite ndrop_ev. exact E.
      * destruct (rows f (pos + nlen b) path r) as [[sibs pos2] r2] eqn:E. inv H.
        pose proof (rows_within_strong _ _ _ _ _ _ _ E) as (_ & _ & H3).
        apply IH in E. cbn [bytes_of]. constructor.
        -- intros _ Hp. cbn [r_path] in Hp. now apply N_zero_neq_padding in Hp.
        -- apply (PadOK_shift pos (pos + ev_len (EItem t b)) pos'); [lia|exact H3|].
           rewrite ndrop_ev. exact E.
      * destruct (rows f pos (nm :: path) r) as [[kids pos1] r1] eqn:E1.
        destruct (rows f pos1 path r1) as [[sibs pos2] r2] eqn:E2. inv H.
        pose proof (rows_within_strong _ _ _ _ _ _ _ E1) as (H1 & _ & _).
        pose proof (rows_within_strong _ _ _ _ _ _ _ E2) as (_ & _ & H6).
        pose proof (rows_bytes _ _ _ _ _ _ _ E1) as Hb.
        apply IH in E1. apply IH in E2. cbn [bytes_of ev_bytes app]. constructor.
        -- intros Hl. cbn [r_leaf] in Hl. discriminate.
        -- apply Forall_app. split; [exact E1|].
           apply (PadOK_shift pos pos1 pos'); [lia|exact H6|]. rewrite Hb. exact E2.
      * inv H. constructor.
      * pose proof (rows_within_strong _ _ _ _ _ _ _ H) as (_ & _ & H3).
        apply IH in H. cbn [bytes_of].
        apply (PadOK_shift pos (pos + ev_len EAliasBegin) pos'); [lia|exact H3|].
        rewrite ndrop_ev. exact H.
      * pose proof (rows_within_strong _ _ _ _ _ _ _ H) as (_ & _ & H3).
        apply IH in H. cbn [bytes_of].
        apply (PadOK_shift pos (pos + ev_len EAliasEnd) pos'); [lia|exact H3|].
        rewrite ndrop_ev. exact H.
      * pose proof (rows_within_strong _ _ _ _ _ _ _ H) as (_ & _ & H3).
        apply IH in H. cbn [bytes_of].
        apply (PadOK_shift pos (pos + ev_len EFlush) pos'); [lia|exact H3|].
        rewrite ndrop_ev. exact H.
Qed.

(* padding rows cover only zero bytes; zero-copy rows cover exactly the bytes of their block *)
Theorem leaf_rows_bytes evs :
  Forall (fun r =>
            r_leaf r = true ->
            (r_path r = [N_PADDING] -> ntake (r_size r) (ndrop (r_off r) (bytes_of evs)) = zeros (r_size r)))
         (schema_of evs).
Proof.
  unfold schema_of.
  destruct (rows (S (length evs)) 0 [] evs) as [[rs pos'] rest] eqn:E.
  apply rows_pad_ok in E. eapply Forall_impl; [|exact E].
  intros r H Hl Hp. specialize (H Hl Hp). rewrite N.sub_0_r in H. exact H.
Qed.
