(* The hypotheses units_pow2 / units_cover of the eps-copy theorems hold for every type of the
   grammar except the known class D10: a range type whose index type has a size that is not a
   power of two (and, for units_pow2, provided repr(align(n)) attributes are powers of two also on
   deep-copy types, which [wf] does not check: [aligns_ok], [cex_facts]). *)
Require Import EV.Base.Tac EV.Base.Bytes EV.Base.Res EV.Base.ListX.
Require Import EV.Model.Arith64 EV.Model.Types EV.Model.Layout EV.Model.Typing EV.Model.Need.
Require Import EV.Proofs.Pad EV.Proofs.LayoutRT EV.Proofs.RoundTrip EV.Proofs.LayoutOK EV.Proofs.EpsRT.

(* every range type inside [t] has a unit (the size of the range, at least 1) that is a power of two *)
Fixpoint ranges_pow2 (t : ty) : bool :=
  match t with
  | TPhantom _ => true
  | TVec t' | TBoxSlice t' | TSliceRef t' | TSerIter t' | TArray _ t' | TTuple _ t' | TOption t' | TBound t' => ranges_pow2 t'
  | TCF b c => ranges_pow2 b && ranges_pow2 c
  | TRange k t' => ranges_pow2 t' && is_pow2 (unit_of t)
  | TStruct _ fs => ranges_pow2_fields fs
  | TEnum _ vs => ranges_pow2_variants vs
  | _ => true
  end
with ranges_pow2_fields (fs : fields) : bool :=
  match fs with FNil => true | FCons _ _ t r => ranges_pow2 t && ranges_pow2_fields r end
with ranges_pow2_variants (vs : variants) : bool :=
  match vs with VNil => true | VCons _ _ fs r => ranges_pow2_fields fs && ranges_pow2_variants r end.


(* ------------------------------------------------------------------ helpers *)

Lemma round_up_mod x a : a <> 0 -> round_up x a mod a = 0.
Proof. intros Ha. unfold round_up. apply N.mod_mul. exact Ha. Qed.

(* the size of every type is a multiple of its alignment *)
Lemma size_mod_align : forall t, size_of t mod align_of t = 0.
Proof.
  apply (ty_mut (fun t => size_of t mod align_of t = 0) (fun _ => True) (fun _ => True));
    try (intros; exact I).
  - intros p. cbn [size_of align_of]. apply N.mod_same. pose proof (psize_ge1 p). lia.
  - cbn [size_of align_of]. reflexivity.
  - intros t _. cbn [size_of align_of]. reflexivity.
  - cbn [size_of align_of]. reflexivity.
  - cbn [size_of align_of]. reflexivity.
  - intros t _. cbn [size_of align_of]. reflexivity.
  - intros t _. cbn [size_of align_of]. reflexivity.
  - intros t _. cbn [size_of align_of]. reflexivity.
  - intros t _. cbn [size_of align_of]. reflexivity.
  - intros n t IH. cbn [size_of align_of]. pose proof (align_of_ge1 t).
    rewrite N.mul_mod, IH, N.mul_0_r by lia. apply N.mod_0_l. lia.
  - intros n t IH. cbn [size_of align_of]. pose proof (align_of_ge1 t).
    rewrite N.mul_mod, IH, N.mul_0_r by lia. apply N.mod_0_l. lia.
  - intros t _. cbn [size_of align_of]. reflexivity.
  - intros t _. cbn [size_of align_of]. reflexivity.
  - intros b _ c _. cbn [size_of align_of]. reflexivity.
  - intros k t IH. pose proof (align_of_ge1 t). destruct k; cbn [size_of align_of]; try exact IH.
    + rewrite N.mul_mod, IH, N.mul_0_r by lia. apply N.mod_0_l. lia.
    + apply round_up_mod. lia.
  - cbn [size_of align_of]. reflexivity.
  - intros i fs _. pose proof (align_of_ge1 (TStruct i fs)). cbn [size_of]. apply round_up_mod. lia.
  - intros i vs _. pose proof (align_of_ge1 (TEnum i vs)). cbn [size_of].
    destruct (variants_have_fields vs); apply round_up_mod; lia.
Qed.

(* a zero-copy type has size 0 or a unit at least as large as its alignment *)
Lemma zc_size0_or_align_le_unit : forall t, zc_ok t = true -> size_of t = 0 \/ align_of t <= unit_of t.
Proof.
  apply (ty_mut (fun t => zc_ok t = true -> size_of t = 0 \/ align_of t <= unit_of t)
                (fun _ => True) (fun _ => True)); try (intros; exact I);
    try (intros; cbn [zc_ok] in *; discriminate).
  - intros p _. right. cbn [align_of unit_of]. lia.
  - intros _. left. reflexivity.
  - intros t _ _. left. reflexivity.
  - intros n t IH Hz. cbn [zc_ok] in Hz. cbn [size_of align_of unit_of].
    destruct (IH Hz) as [H|H]; [left; rewrite H; lia|right; exact H].
  - intros n t IH Hz. cbn [zc_ok] in Hz. cbn [size_of align_of unit_of].
    destruct (IH Hz) as [H|H]; [left; rewrite H; lia|right; exact H].
  - intros k t IH Hz. cbn [zc_ok] in Hz. apply andb_true_iff in Hz. destruct Hz as [Hk Hz].
    assert (Hs : size_of (TRange k t) = size_of t) by (destruct k; try discriminate; reflexivity).
    cbn [align_of unit_of]. rewrite Hs.
    destruct (N.eq_dec (size_of t) 0) as [E|E]; [left; exact E|right].
    pose proof (size_mod_align t) as Hm. pose proof (align_of_ge1 t) as Hg.
    apply N.mod_divide in Hm; [|lia]. destruct Hm as [q Hq].
    assert (q <> 0) by (intros ->; lia). nia.
  - intros _. left. reflexivity.
  - intros i fs _ _. right. cbn [unit_of]. lia.
  - intros i vs _ _. right. cbn [unit_of]. lia.
Qed.

(* a power of two divides every larger power of two *)
Lemma pow2_divides a b : is_pow2 a = true -> is_pow2 b = true -> a <= b -> b mod a = 0.
Proof.
  intros Ha Hb Hle.
  destruct (is_pow2_exp _ Ha) as (ka & _ & ->). destruct (is_pow2_exp _ Hb) as (kb & _ & ->).
  apply (pow2_mod_le _ ka kb).
  - apply N.pow_le_mono_r_iff in Hle; [exact Hle|lia].
  - apply N.mod_same. apply N.pow_nonzero. lia.
Qed.

Lemma is_pow2_max1 a : (a =? 0) || is_pow2 a = true -> is_pow2 (N.max 1 a) = true.
Proof.
  intros H. apply orb_true_iff in H. destruct H as [H|H].
  - apply N.eqb_eq in H. subst a. reflexivity.
  - apply is_pow2_max; [reflexivity|exact H].
Qed.

Lemma is_pow2_max0 a b : is_pow2 a = true -> b = 0 \/ is_pow2 b = true -> is_pow2 (N.max a b) = true.
Proof.
  intros Ha [->|Hb]; [|now apply is_pow2_max].
  rewrite N.max_l; [exact Ha|lia].
Qed.

Lemma is_pow2_max00 a b :
  a = 0 \/ is_pow2 a = true -> b = 0 \/ is_pow2 b = true -> N.max a b = 0 \/ is_pow2 (N.max a b) = true.
Proof.
  intros [->|Ha] Hb.
  - rewrite N.max_r by lia. exact Hb.
  - right. now apply is_pow2_max0.
Qed.

Lemma is_pow2_psize p : is_pow2 (psize p) = true.
Proof. destruct p as [[]|[]| | | |]; reflexivity. Qed.

(* every #[repr(align(n))] of a struct/enum met anywhere in the type (fields and variants included)
   has n a power of two (0: none): rustc's own rule for repr(align). [wf] demands this of
   zero-copy structs/enums only. Like [wf], [ranges_pow2] and [units_pow2], it does not look
   inside PhantomData<T> (no value, unit 1). *)
Fixpoint aligns_ok (t : ty) : bool :=
  match t with
  | TVec t' | TBoxSlice t' | TSliceRef t' | TSerIter t' | TArray _ t' | TTuple _ t' | TOption t' | TBound t'
  | TRange _ t' => aligns_ok t'
  | TCF b c => aligns_ok b && aligns_ok c
  | TStruct i fs => ((a_align i =? 0) || is_pow2 (a_align i)) && aligns_ok_fields fs
  | TEnum i vs => ((a_align i =? 0) || is_pow2 (a_align i)) && aligns_ok_variants vs
  | _ => true
  end
with aligns_ok_fields (fs : fields) : bool :=
  match fs with FNil => true | FCons _ _ t r => aligns_ok t && aligns_ok_fields r end
with aligns_ok_variants (vs : variants) : bool :=
  match vs with VNil => true | VCons _ _ fs r => aligns_ok_fields fs && aligns_ok_variants r end.

Lemma zc_wf_aligns_ok :
  (forall t, zc_ok t = true -> wf t = true -> aligns_ok t = true) /\
  (forall fs, zc_ok_fields fs = true -> wf_fields fs = true -> aligns_ok_fields fs = true) /\
  (forall vs, zc_ok_variants vs = true -> wf_variants vs = true -> aligns_ok_variants vs = true).
Proof.
  apply ty_fields_variants_ind; intros; cbn [zc_ok zc_ok_fields zc_ok_variants] in *; try discriminate;
    try reflexivity; cbn [wf wf_fields wf_variants aligns_ok aligns_ok_fields aligns_ok_variants] in *;
    split_and; auto.
  - match goal with H : a_zc _ = true |- _ => rewrite H in * end. split_and.
    apply andb_true_iff; split; auto.
  - match goal with H : a_zc _ = true |- _ => rewrite H in * end. split_and.
    apply andb_true_iff; split; auto.
  - apply andb_true_iff; split; auto.
  - apply andb_true_iff; split; auto.
Qed.

(* alignments and units are powers of two *)
Lemma align_unit_pow2 :
  (forall t, ranges_pow2 t = true -> aligns_ok t = true ->
     is_pow2 (align_of t) = true /\ is_pow2 (unit_of t) = true) /\
  (forall fs, ranges_pow2_fields fs = true -> aligns_ok_fields fs = true ->
     is_pow2 (align_fields fs) = true /\ (unit_fields fs = 0 \/ is_pow2 (unit_fields fs) = true)) /\
  (forall vs, ranges_pow2_variants vs = true -> aligns_ok_variants vs = true ->
     is_pow2 (align_variants vs) = true /\ (unit_variants vs = 0 \/ is_pow2 (unit_variants vs) = true)).
Proof.
  apply ty_fields_variants_ind.
  - intros p _ _. cbn [align_of unit_of]. pose proof (is_pow2_psize p) as H. split; [exact H|].
    apply is_pow2_max; [exact H|reflexivity].
  - intros _ _. split; reflexivity.
  - intros t _ _ _. split; reflexivity.
  - intros _ _. split; reflexivity.
  - intros _ _. split; reflexivity.
  - intros t _ _ _. split; reflexivity.
  - intros t _ _ _. split; reflexivity.
  - intros t _ _ _. split; reflexivity.
  - intros t _ _ _. split; reflexivity.
  - intros n t IH Hr Ha. cbn [ranges_pow2 aligns_ok align_of unit_of] in *. auto.
  - intros n t IH Hr Ha. cbn [ranges_pow2 aligns_ok align_of unit_of] in *. auto.
  - intros t _ _ _. split; reflexivity.
  - intros t _ _ _. split; reflexivity.
  - intros b _ c _ _ _. split; reflexivity.
  - intros k t IH Hr Ha. cbn [ranges_pow2] in Hr. apply andb_true_iff in Hr. destruct Hr as [Hr Hu].
    cbn [aligns_ok] in Ha. split; [|exact Hu]. cbn [align_of]. apply IH; assumption.
  - intros _ _. split; reflexivity.
  - intros i fs IH Hr Ha. cbn [ranges_pow2 aligns_ok] in Hr, Ha. apply andb_true_iff in Ha.
    destruct Ha as [Hal Ha]. destruct (IH Hr Ha) as [IHa IHu].
    assert (HA : is_pow2 (align_of (TStruct i fs)) = true).
    { cbn [align_of]. apply is_pow2_max; [apply is_pow2_max1; exact Hal|exact IHa]. }
    split; [exact HA|]. cbn [unit_of]. apply is_pow2_max0; [exact HA|exact IHu].
  - intros i vs IH Hr Ha. cbn [ranges_pow2 aligns_ok] in Hr, Ha. apply andb_true_iff in Ha.
    destruct Ha as [Hal Ha]. destruct (IH Hr Ha) as [IHa IHu].
    assert (HA : is_pow2 (align_of (TEnum i vs)) = true).
    { cbn [align_of]. apply is_pow2_max; [apply is_pow2_max1; exact Hal|].
      destruct (variants_have_fields vs); [apply is_pow2_max; [reflexivity|exact IHa]|reflexivity]. }
    split; [exact HA|]. cbn [unit_of]. apply is_pow2_max0; [exact HA|exact IHu].
  - intros _ _. split; [reflexivity|left; reflexivity].
  - intros nm isp t IHt r IHr Hr Ha. cbn [ranges_pow2_fields aligns_ok_fields] in Hr, Ha.
    apply andb_true_iff in Hr. destruct Hr as [Hr1 Hr2]. apply andb_true_iff in Ha. destruct Ha as [Ha1 Ha2].
    destruct (IHt Hr1 Ha1) as [A1 U1]. destruct (IHr Hr2 Ha2) as [A2 U2].
    cbn [align_fields unit_fields]. split; [apply is_pow2_max; assumption|].
    right. apply is_pow2_max0; assumption.
  - intros _ _. split; [reflexivity|left; reflexivity].
  - intros nm named fs IHf r IHr Hr Ha. cbn [ranges_pow2_variants aligns_ok_variants] in Hr, Ha.
    apply andb_true_iff in Hr. destruct Hr as [Hr1 Hr2]. apply andb_true_iff in Ha. destruct Ha as [Ha1 Ha2].
    destruct (IHf Hr1 Ha1) as [A1 U1]. destruct (IHr Hr2 Ha2) as [A2 U2].
    cbn [align_variants unit_variants]. split; [apply is_pow2_max; assumption|].
    apply is_pow2_max00; assumption.
Qed.

(* units are powers of two when the repr(align) attributes are powers of two on every
   struct/enum, not only on the zero-copy ones *)
Lemma aligns_ok_units_pow2 :
  (forall t, aligns_ok t = true -> ranges_pow2 t = true -> units_pow2 t = true) /\
  (forall fs, aligns_ok_fields fs = true -> ranges_pow2_fields fs = true -> units_pow2_fields fs = true) /\
  (forall vs, aligns_ok_variants vs = true -> ranges_pow2_variants vs = true -> units_pow2_variants vs = true).
Proof.
  apply ty_fields_variants_ind; intros;
    try reflexivity;
    try (cbn [aligns_ok ranges_pow2 units_pow2] in *; apply andb_true_iff; split;
         [auto|apply (proj1 align_unit_pow2); assumption]).
  - cbn [aligns_ok ranges_pow2 units_pow2] in *. split_and. apply andb_true_iff; split; auto.
  - cbn [units_pow2]. cbn [aligns_ok ranges_pow2] in *. split_and. auto.
  - cbn [units_pow2]. apply andb_true_iff; split.
    + apply (proj1 align_unit_pow2); assumption.
    + cbn [aligns_ok ranges_pow2] in *. split_and. auto.
  - cbn [units_pow2]. apply andb_true_iff; split.
    + apply (proj1 align_unit_pow2); assumption.
    + cbn [aligns_ok ranges_pow2] in *. split_and. auto.
  - cbn [aligns_ok_fields ranges_pow2_fields units_pow2_fields] in *. split_and. apply andb_true_iff; split; auto.
  - cbn [aligns_ok_variants ranges_pow2_variants units_pow2_variants] in *. split_and. apply andb_true_iff; split; auto.
Qed.

(* zero-copy block types are covered *)
Lemma zc_cover t : zc_ok t = true -> wf t = true -> ranges_pow2 t = true -> cover t = true.
Proof.
  intros Hz Hw Hr. unfold cover. apply orb_true_iff.
  destruct (zc_size0_or_align_le_unit t Hz) as [H|H]; [left; now apply N.eqb_eq|right].
  destruct (proj1 align_unit_pow2 t Hr (proj1 zc_wf_aligns_ok t Hz Hw)) as [HA HU].
  apply N.eqb_eq. now apply pow2_divides.
Qed.

(* the statement [wf t -> ranges_pow2 t -> units_pow2 t] is false: a deep-copy struct with
   #[repr(align(3))] is [wf] (the model only checks the attribute on zero-copy types) *)
Definition cex_info : adt_info :=
  {| a_name := []; a_zc := false; a_deep := false; a_reprs := []; a_align := 3; a_consts := [] |}.
Definition cex : ty := TStruct cex_info FNil.
Lemma cex_facts : wf cex = true /\ ranges_pow2 cex = true /\ units_pow2 cex = false /\ unit_of cex = 3.
Proof. vm_compute. repeat split; reflexivity. Qed.

(* units of well-formed types without odd ranges are powers of two, provided every repr(align(n))
   has n a power of two (rustc's own rule; [wf] only checks it on zero-copy types, and without it
   the statement is false: see [cex_facts]) *)
Theorem wf_units_pow2 : forall t, wf t = true -> aligns_ok t = true -> ranges_pow2 t = true -> units_pow2 t = true.
Proof. intros t _ Ha Hr. now apply (proj1 aligns_ok_units_pow2). Qed.

(* ... and are multiples of the native alignment of every zero-copy block type *)
Lemma wf_units_cover_all :
  (forall t, wf t = true -> ranges_pow2 t = true -> units_cover t = true) /\
  (forall fs, wf_fields fs = true -> ranges_pow2_fields fs = true -> units_cover_fields fs = true) /\
  (forall vs, wf_variants vs = true -> ranges_pow2_variants vs = true -> units_cover_variants vs = true).
Proof.
  apply ty_fields_variants_ind; try (intros; reflexivity).
  - intros t IH Hw Hr. cbn [wf ranges_pow2 units_cover] in *. split_and.
    destruct (is_zc t) eqn:Ez; [apply zc_cover; assumption|auto].
  - intros t IH Hw Hr. cbn [wf ranges_pow2 units_cover] in *. split_and.
    destruct (is_zc t) eqn:Ez; [apply zc_cover; assumption|auto].
  - intros t IH Hw Hr. cbn [wf ranges_pow2 units_cover] in *. split_and.
    destruct (is_zc t) eqn:Ez; [apply zc_cover; assumption|auto].
  - intros t IH Hw Hr. cbn [wf ranges_pow2 units_cover] in *. split_and.
    destruct (is_zc t) eqn:Ez; [apply zc_cover; assumption|auto].
  - intros n t IH Hw Hr. cbn [units_cover]. destruct (is_zc t) eqn:Ez.
    + apply zc_cover; try assumption. cbn [wf zc_ok] in *. split_and. rewrite Ez in *. assumption.
    + cbn [wf ranges_pow2] in *. split_and. auto.
  - intros n t IH Hw Hr. cbn [units_cover]. apply zc_cover; try assumption.
    cbn [wf zc_ok] in *. split_and. assumption.
  - intros t IH Hw Hr. cbn [wf ranges_pow2 units_cover] in *. auto.
  - intros t IH Hw Hr. cbn [wf ranges_pow2 units_cover] in *. auto.
  - intros b IHb c IHc Hw Hr. cbn [wf ranges_pow2 units_cover] in *. split_and.
    apply andb_true_iff; split; auto.
  - intros k t IH Hw Hr. cbn [units_cover]. cbn [wf ranges_pow2] in Hw, Hr. split_and. auto.
  - intros i fs IH Hw Hr. cbn [units_cover]. destruct (a_zc i) eqn:Ez.
    + apply zc_cover; try assumption. cbn [wf zc_ok] in *. rewrite Ez in *. split_and. assumption.
    + cbn [wf ranges_pow2] in *. split_and. auto.
  - intros i vs IH Hw Hr. cbn [units_cover]. destruct (a_zc i) eqn:Ez.
    + apply zc_cover; try assumption. cbn [wf zc_ok] in *. rewrite Ez in *. split_and. assumption.
    + cbn [wf ranges_pow2] in *. split_and. auto.
  - intros nm isp t IHt r IHr Hw Hr. cbn [wf_fields ranges_pow2_fields units_cover_fields] in *. split_and.
    apply andb_true_iff; split; auto.
  - intros nm named fs IHf r IHr Hw Hr. cbn [wf_variants ranges_pow2_variants units_cover_variants] in *. split_and.
    apply andb_true_iff; split; auto.
Qed.

Theorem wf_units_cover : forall t, wf t = true -> ranges_pow2 t = true -> units_cover t = true.
Proof. exact (proj1 wf_units_cover_all). Qed.

(* conversely the excluded class is exactly that: units_pow2 fails only because of a range *)
Theorem units_pow2_only_fails_on_ranges :
  forall t, wf t = true -> aligns_ok t = true -> units_pow2 t = false -> ranges_pow2 t = false.
Proof.
  intros t Hw Ha Hu. destruct (ranges_pow2 t) eqn:Hr; [|reflexivity].
  rewrite (wf_units_pow2 t Hw Ha Hr) in Hu. discriminate.
Qed.

(* a type without any range type at all *)
Fixpoint no_ranges (t : ty) : bool :=
  match t with
  | TPhantom _ => true
  | TVec t' | TBoxSlice t' | TSliceRef t' | TSerIter t' | TArray _ t' | TTuple _ t' | TOption t' | TBound t' => no_ranges t'
  | TCF b c => no_ranges b && no_ranges c
  | TRange _ _ => false
  | TStruct _ fs => no_ranges_fields fs
  | TEnum _ vs => no_ranges_variants vs
  | _ => true
  end
with no_ranges_fields (fs : fields) : bool :=
  match fs with FNil => true | FCons _ _ t r => no_ranges t && no_ranges_fields r end
with no_ranges_variants (vs : variants) : bool :=
  match vs with VNil => true | VCons _ _ fs r => no_ranges_fields fs && no_ranges_variants r end.

Lemma range_free_ranges_pow2_all :
  (forall t, no_ranges t = true -> ranges_pow2 t = true) /\
  (forall fs, no_ranges_fields fs = true -> ranges_pow2_fields fs = true) /\
  (forall vs, no_ranges_variants vs = true -> ranges_pow2_variants vs = true).
Proof.
  apply ty_fields_variants_ind; intros;
    cbn [no_ranges no_ranges_fields no_ranges_variants
         ranges_pow2 ranges_pow2_fields ranges_pow2_variants] in *;
    try reflexivity; try discriminate; auto;
    split_and; apply andb_true_iff; split; auto.
Qed.

Theorem no_ranges_ranges_pow2 : forall t, no_ranges t = true -> ranges_pow2 t = true.
Proof. exact (proj1 range_free_ranges_pow2_all). Qed.
