(* The header written by write_header is accepted by check_header of the same type, and the
   top-level entry points compose header and body. *)
Require Import EV.Base.Tac EV.Base.Bytes EV.Base.Res EV.Base.ListX.
Require Import EV.Model.Arith64 EV.Model.Types EV.Model.Layout EV.Model.Ser EV.Model.Deser EV.Model.Header EV.Model.Typing.
Require Import EV.Proofs.Pad EV.Proofs.Monads EV.Proofs.LayoutRT EV.Proofs.RoundTrip.

Lemma RT_le nm t k n : n < 256 ^ N.of_nat k ->
  RT (wfield nm t (wev (EWrite (le_bytes k n)))) (let+ b := read_exact (N.of_nat k) in rret (le_val b)) n.
Proof.
  intros Hn. apply RT_field.
  assert (E : le_val (le_bytes k n) = n) by (apply le_val_bytes_small; exact Hn).
  pose proof (RT_map (wev (EWrite (le_bytes k n))) (read_exact (nlen (le_bytes k n)))
                (le_bytes k n) le_val (RT_write _)) as H.
  rewrite E, nlen_le_bytes in H. exact H.
Qed.

Lemma RT_pure {A B} w (r0 : R A) x (f : A -> R B) b :
  (forall i p, r0 i p = Ok (x, i, p)) -> RT w (f x) b -> RT w (rbind r0 f) b.
Proof.
  intros H0 H pos evs rest Hw. unfold rbind. rewrite H0. now apply H.
Qed.

Definition hdr_ok (h : hdr) : Prop :=
  h_type_hash h < W /\ h_align_hash h < W /\
  bytes_okb (h_name h) = true /\ utf8_valid (h_name h) = true /\ nlen (h_name h) < W.

Lemma MAGIC_lt : MAGIC < 256 ^ 8.
Proof. vm_compute. reflexivity. Qed.

Local Opaque wfield.

Lemma RT_header h rk : hdr_ok h -> rk = None -> RT (header_w h) (check_header rk h) tt.
Proof.
  intros (Hth & Hah & Hnb & Hnu & Hnl) ->. unfold header_w, check_header.
  repeat apply RT_assoc.
  (* magic *)
  eapply RT_seq; [apply (RT_le _ _ 8 MAGIC); exact MAGIC_lt|]. cbn beta.
  apply (RT_pure _ _ tt); [intros i p; rewrite N.eqb_refl; reflexivity|].
  (* major *)
  eapply RT_seq; [apply (RT_le _ _ 2 VERSION_MAJOR); vm_compute; reflexivity|]. cbn beta.
  rewrite N.eqb_refl. cbn [negb].
  (* minor *)
  eapply RT_seq; [apply (RT_le _ _ 2 VERSION_MINOR); vm_compute; reflexivity|]. cbn beta.
  rewrite N.ltb_irrefl.
  (* usize *)
  eapply RT_seq; [apply (RT_le _ _ 1 8); vm_compute; reflexivity|]. cbn beta.
  rewrite N.eqb_refl. cbn [negb].
  (* hashes *)
  eapply RT_seq; [apply (RT_le _ _ 8 (h_type_hash h)); exact Hth|]. cbn beta.
  eapply RT_seq; [apply (RT_le _ _ 8 (h_align_hash h)); exact Hah|]. cbn beta.
  (* name, then the comparisons *)
  apply (RT_then _ _ (VBytes (h_name h))).
  - apply RT_field. apply RT_string; assumption.
  - intros i p. rewrite !N.eqb_refl. reflexivity.
Qed.

(* Serialize::serialize followed by Deserialize::deserialize_full *)
Theorem full_roundtrip_top pf h t v evs :
  hdr_ok h ->
  wf t = true -> deserializable t = true ->
  wt t v = true -> exhausted_in t v = false ->
  ser_top pf h t v = (evs, SDone) ->
  deser_full_top h t (bytes_of evs) = Ok (v, [], evs_len evs).
Proof.
  intros Hh Hw Hd Ht He Hs. unfold ser_top in Hs. unfold deser_full_top.
  rewrite wseq_assoc in Hs.
  assert (HRT : RT (header_w h ;; (wfield N_ROOT t (ser pf t v) ;; wev EFlush))
                   (let+ _ := check_header None h in deser_full None t) v).
  { eapply RT_seq; [apply RT_header; [exact Hh|reflexivity]|]. cbn beta.
    intros pos evs' rest Hw'. apply wseq_done in Hw'. destruct Hw' as (ea & eb & Ha & Hb & ->).
    apply wev_done in Hb. subst eb.
    rewrite bytes_of_app, evs_len_app. cbn [bytes_of ev_bytes evs_len ev_len].
    rewrite app_nil_r, N.add_0_r.
    apply (RT_field N_ROOT t _ _ _ (roundtrip_full pf t v Hw Hd Ht He)). exact Ha. }
  specialize (HRT 0 evs [] Hs). rewrite app_nil_r, N.add_0_l in HRT. exact HRT.
Qed.
