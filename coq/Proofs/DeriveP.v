(* C05 / C17 / C03 (typing part): the ε-copy result inhabits the ε-copy type with every borrowed
   part in place; full-copy results own their data; raw-memory events are emitted only for types
   whose IS_ZERO_COPY is true; derive-time decisions; allocation requests depend on the skeleton
   only. *)
Require Import EV.Base.Tac EV.Base.Bytes EV.Base.Res EV.Base.ListX.
Require Import EV.Model.Arith64 EV.Model.Types EV.Model.Layout EV.Model.Ser EV.Model.Deser EV.Model.Header EV.Model.Typing EV.Model.Derive.
Require Import EV.Proofs.Monads EV.Proofs.Prefix EV.Proofs.RoundTrip.

(* ------------------------------------------------------------------ full copy owns its data *)

Lemma decode_n_noref f : (forall b, noref (f b) = true) ->
  forall sz k b, forallb noref (decode_n f sz k b) = true.
Proof.
  intros Hf sz k. induction k as [|k IH]; intros b; cbn [decode_n forallb]; [reflexivity|].
  now rewrite Hf, IH.
Qed.

Lemma mem_decode_noref_all :
  (forall t b, noref (mem_decode t b) = true) /\
  (forall fs cur b, forallb noref (mem_decode_fields fs cur b) = true) /\
  (forall vs k b, forallb noref (mem_decode_variants vs k b) = true).
Proof.
  apply ty_fields_variants_ind; intros;
    cbn [mem_decode mem_decode_fields mem_decode_variants noref forallb]; try reflexivity.
  - apply decode_n_noref. assumption.
  - apply decode_n_noref. assumption.
  - destruct k; cbn [noref forallb]; try reflexivity; now rewrite H.
  - apply H.
  - case_if; [apply H|reflexivity].
  - now rewrite H, H0.
  - case_if; [apply H|apply H0].
Qed.

Lemma mem_decode_noref : forall t b, noref (mem_decode t b) = true.
Proof. exact (proj1 mem_decode_noref_all). Qed.

(* inversion of a successful reader built from binds and returns *)
Ltac rinv1 H :=
  match type of H with
  | rbind _ _ _ _ = Ok _ =>
      let a := fresh "a" in let i1 := fresh "i" in let p1 := fresh "p" in let H1 := fresh "Hr" in
      apply rbind_ok in H; destruct H as (a & i1 & p1 & H1 & H)
  | rret _ _ _ = Ok _ => unfold rret in H; inv H
  | rerr _ _ _ = Ok _ => discriminate H
  | rpanic _ _ _ = Ok _ => discriminate H
  | (if ?c then _ else _) _ _ = Ok _ => destruct c eqn:?
  end.
Ltac rinv H := repeat rinv1 H.

Lemma rrepeat_noref (r : R val) :
  (forall i p v i' p', r i p = Ok (v, i', p') -> noref v = true) ->
  forall k i p l i' p', rrepeat r k i p = Ok (l, i', p') -> forallb noref l = true.
Proof.
  intros Hr k. induction k as [|k IH]; intros i p l i' p' H; cbn [rrepeat] in H.
  - rinv H. reflexivity.
  - rinv H. cbn [forallb]. rewrite (Hr _ _ _ _ _ Hr0), (IH _ _ _ _ _ Hr1). reflexivity.
Qed.

Lemma decode_prim_noref p n v : decode_prim p n = Ok v -> noref v = true.
Proof.
  unfold decode_prim. intros H.
  destruct p; try (inv H; reflexivity);
    match type of H with (if ?c then _ else _) = _ => destruct c end; inv H; reflexivity.
Qed.

Lemma rlift_ok {A} (r : res A) i p a i' p' : rlift r i p = Ok (a, i', p') -> r = Ok a /\ i' = i /\ p' = p.
Proof. unfold rlift. destruct r; intros H; inv H. auto. Qed.

Lemma rprim_full_noref p i q v i' q' : rprim_full p i q = Ok (v, i', q') -> noref v = true.
Proof.
  unfold rprim_full. intros H. rinv H. apply rlift_ok in H. destruct H as (H & _ & _).
  eapply decode_prim_noref; eassumption.
Qed.

Lemma rprim_eps_noref p i q v i' q' : rprim_eps p i q = Ok (v, i', q') -> noref v = true.
Proof.
  unfold rprim_eps. intros H. rinv H. apply rlift_ok in H. destruct H as (H & _ & _).
  eapply decode_prim_noref; eassumption.
Qed.

Lemma full_zero_noref rk t i p v i' p' : full_zero rk t i p = Ok (v, i', p') -> noref v = true.
Proof. unfold full_zero. intros H. rinv H. apply mem_decode_noref. Qed.

Lemma full_vec_zero_noref rk t i p l i' p' :
  full_vec_zero rk t i p = Ok (l, i', p') -> forallb noref l = true.
Proof. unfold full_vec_zero. intros H. rinv H. apply decode_n_noref. apply mem_decode_noref. Qed.

Lemma full_string_noref rk i p v i' p' : full_string rk i p = Ok (v, i', p') -> noref v = true.
Proof. unfold full_string. intros H. rinv H. reflexivity. Qed.

Lemma full_noref_all :
  (forall t rk i p v i' p', deser_full rk t i p = Ok (v, i', p') -> noref v = true) /\
  (forall fs rk i p l i' p', deser_full_fields rk fs i p = Ok (l, i', p') -> forallb noref l = true) /\
  (forall vs rk k tag i p v i' p', deser_full_variants rk vs k tag i p = Ok (v, i', p') -> noref v = true).
Proof.
  apply ty_fields_variants_ind.
  - intros p rk i q v i' q' H. cbn [deser_full] in H. eapply rprim_full_noref; eassumption.
  - intros rk i q v i' q' H. cbn [deser_full] in H. rinv H. reflexivity.
  - intros t _ rk i q v i' q' H. cbn [deser_full] in H. rinv H. reflexivity.
  - intros rk i q v i' q' H. cbn [deser_full] in H. eapply full_string_noref; eassumption.
  - intros rk i q v i' q' H. cbn [deser_full] in H. eapply full_string_noref; eassumption.
  - intros t IH rk i q v i' q' H. cbn [deser_full] in H. rinv H; cbn [noref].
    + eapply full_vec_zero_noref; eassumption.
    + eapply rrepeat_noref; [|eassumption]. intros; eapply IH; eassumption.
  - intros t IH rk i q v i' q' H. cbn [deser_full] in H. rinv H; cbn [noref].
    + eapply full_vec_zero_noref; eassumption.
    + eapply rrepeat_noref; [|eassumption]. intros; eapply IH; eassumption.
  - intros t _ rk i q v i' q' H. cbn [deser_full] in H. rinv H.
  - intros t _ rk i q v i' q' H. cbn [deser_full] in H. rinv H.
  - intros n t IH rk i q v i' q' H. cbn [deser_full] in H. rinv H.
    + apply (mem_decode_noref (TArray n t)).
    + cbn [noref]. eapply rrepeat_noref; [|eassumption]. intros; eapply IH; eassumption.
  - intros n t _ rk i q v i' q' H. cbn [deser_full] in H. eapply full_zero_noref; eassumption.
  - intros t IH rk i q v i' q' H. cbn [deser_full] in H. rinv1 H.
    destruct a as [|[?|?|]]; rinv H; cbn [noref forallb]; [reflexivity|].
    rewrite (IH _ _ _ _ _ _ Hr0). reflexivity.
  - intros t IH rk i q v i' q' H. cbn [deser_full] in H. rinv1 H.
    destruct a as [|[?|[?|?|]|]]; rinv H; cbn [noref forallb]; try reflexivity;
      rewrite (IH _ _ _ _ _ _ Hr0); reflexivity.
  - intros b IHb c IHc rk i q v i' q' H. cbn [deser_full] in H. rinv1 H.
    destruct a as [|[?|?|]]; rinv H; cbn [noref forallb].
    + rewrite (IHb _ _ _ _ _ _ Hr0). reflexivity.
    + rewrite (IHc _ _ _ _ _ _ Hr0). reflexivity.
  - intros k t IH rk i q v i' q' H. cbn [deser_full] in H.
    destruct k; rinv H; cbn [noref forallb];
      repeat match goal with Hx : deser_full _ _ _ _ = Ok _ |- _ => rewrite (IH _ _ _ _ _ _ Hx); clear Hx end;
      try reflexivity.
    rewrite (rprim_full_noref _ _ _ _ _ _ Hr1). reflexivity.
  - intros rk i q v i' q' H. cbn [deser_full] in H. rinv H. reflexivity.
  - intros ai fs IH rk i q v i' q' H. cbn [deser_full] in H. destruct (a_zc ai).
    + eapply full_zero_noref; eassumption.
    + rinv H. cbn [noref]. eapply IH; eassumption.
  - intros ai vs IH rk i q v i' q' H. cbn [deser_full] in H. destruct (a_zc ai).
    + eapply full_zero_noref; eassumption.
    + rinv1 H. eapply IH; eassumption.
  - intros rk i q l i' q' H. cbn [deser_full_fields] in H. rinv H. reflexivity.
  - intros nm isp t IHt r IHr rk i q l i' q' H. cbn [deser_full_fields] in H. rinv H.
    cbn [forallb]. rewrite (IHt _ _ _ _ _ _ Hr), (IHr _ _ _ _ _ _ Hr0). reflexivity.
  - intros rk k tag i q v i' q' H. cbn [deser_full_variants] in H. rinv H.
  - intros nm named fs IHf r IHr rk k tag i q v i' q' H. cbn [deser_full_variants] in H.
    destruct (k =? 0).
    + rinv H. cbn [noref]. eapply IHf; eassumption.
    + eapply IHr; eassumption.
Qed.

Lemma full_noref : forall rk t i p v i' p',
  deser_full rk t i p = Ok (v, i', p') -> noref v = true.
Proof. intros rk t. exact (proj1 full_noref_all t rk). Qed.

(* ------------------------------------------------------------------ ε-copy results are typed and in place *)

(* position tracking: a reader that consumes a prefix of [ndrop p buf] leaves [ndrop p' buf] *)
Lemma suffix_track (a i' buf : list byte) p :
  p <= nlen buf -> ndrop p buf = a ++ i' ->
  i' = ndrop (p + nlen a) buf /\ p + nlen a <= nlen buf.
Proof.
  intros Hp H. split.
  - rewrite <- ndrop_ndrop, H. rewrite ndrop_app_ge by lia. rewrite N.sub_diag. reflexivity.
  - assert (E : nlen (ndrop p buf) = nlen a + nlen i') by (rewrite H; apply nlen_app).
    rewrite nlen_ndrop in E. lia.
Qed.

Lemma strict_track {A} bad (r : R A) buf p x i' p' :
  Strict bad r -> p <= nlen buf -> r (ndrop p buf) p = Ok (x, i', p') ->
  i' = ndrop p' buf /\ p <= p' /\ p' <= nlen buf.
Proof.
  intros S Hp H. destruct (S _ _ _ _ _ H) as (a & Hi & Hp' & _ & _).
  destruct (suffix_track a i' buf p Hp Hi) as (E & Hle). subst p'. split; [exact E|]. lia.
Qed.

Lemma S_rusize : Strict fail_eps rusize.
Proof. exact (Strict_rusize (@fail_eps) BadFam_eps read_eps). Qed.
Lemma S_ru8 : Strict fail_eps ru8.
Proof. exact (Strict_ru8 (@fail_eps) BadFam_eps read_eps). Qed.
Lemma S_rprim_full p : Strict fail_eps (rprim_full p).
Proof. exact (Strict_rprim_full (@fail_eps) BadFam_eps read_eps p). Qed.
Lemma S_eps base t : Strict fail_eps (deser_eps base t).
Proof. exact (proj1 (strict_eps base) t). Qed.
Lemma S_full base t : Strict fail_eps (deser_full (Some base) t).
Proof. exact (proj1 (strict_full_on_slice base) t). Qed.
Lemma S_rrepeat (r : R val) k : Strict fail_eps r -> Strict fail_eps (rrepeat r k).
Proof. exact (Strict_rrepeat (@fail_eps) BadFam_eps r k). Qed.

Ltac trk Hp Hr :=
  let Hle := fresh "Hle" in let Hle' := fresh "Hle" in let S := fresh "S" in
  match type of Hr with
  | ?r (ndrop ?p ?buf) ?p = Ok (_, ?i', ?p') =>
      assert (S : Strict fail_eps r)
        by (auto using S_rusize, S_ru8, S_rprim_full, S_eps, S_full, S_rrepeat, take_eps, align_eps);
      destruct (strict_track _ _ _ _ _ _ _ S Hp Hr) as (-> & Hle & Hle'); clear S
  end.

Lemma take_slice_ok n buf p b i' p' :
  p <= nlen buf -> take_slice n (ndrop p buf) p = Ok (b, i', p') ->
  b = slice buf p n /\ p' = p + n /\ p + n <= nlen buf.
Proof.
  intros Hp H. rewrite take_slice_eq in H. rewrite nlen_ndrop in H.
  destruct (N.leb_spec n (nlen buf - p)); inv H. unfold slice. repeat split. lia.
Qed.

Lemma decode_n_zero f k b : decode_n f 0 k b = repeat_val (f []) k.
Proof.
  revert b. induction k as [|k IH]; intros b; cbn [decode_n repeat_val]; [reflexivity|].
  rewrite ntake_0, ndrop_0, IH. reflexivity.
Qed.

Section EpsOK.
  Variable base : N.
  Variable buf : list byte.

  Lemma eps_zero_ok t pos e rest pos' :
    pos <= nlen buf -> eps_zero base t (ndrop pos buf) pos = Ok (e, rest, pos') ->
    ref_at base buf ROne t e.
  Proof.
    unfold eps_zero. intros Hp H. rinv1 H. trk Hp Hr.
    rinv1 H. unfold rpos in Hr0. inv Hr0.
    destruct (N.eqb_spec (size_of t) 0) as [Z|NZ].
    - rinv H. cbn [ref_at]. repeat split; lia.
    - destruct (N.eqb_spec ((base + p0) mod align_of t) 0) as [Al|Al]; rinv H.
      destruct (take_slice_ok _ _ _ _ _ _ Hle0 Hr0) as (-> & -> & Hb).
      cbn [ref_at]. repeat split; lia.
  Qed.

  Lemma rusize_ok pos n rest pos' :
    pos <= nlen buf -> rusize (ndrop pos buf) pos = Ok (n, rest, pos') ->
    rest = ndrop pos' buf /\ pos <= pos' /\ pos' <= nlen buf.
  Proof. intros Hp H. trk Hp H. auto. Qed.

  Lemma eps_slice_zero_ok t pos e rest pos' :
    pos <= nlen buf -> eps_slice_zero base t (ndrop pos buf) pos = Ok (e, rest, pos') ->
    ref_at base buf RSlice t e.
  Proof.
    unfold eps_slice_zero. intros Hp H. rinv1 H. trk Hp Hr.
    rinv1 H. trk Hle0 Hr0.
    rinv1 H. unfold rpos in Hr1. inv Hr1.
    destruct (N.eqb_spec (size_of t) 0) as [Z|NZ].
    - rinv H. cbn [ref_at]. rewrite Z, decode_n_zero. repeat split; lia.
    - rinv1 H. destruct (take_slice_ok _ _ _ _ _ _ Hle2 Hr1) as (-> & -> & Hb).
      destruct (N.eqb_spec ((base + p1) mod align_of t) 0) as [Al|Al]; rinv H.
      cbn [ref_at]. repeat split; lia.
  Qed.

  Lemma eps_string_ok pos e rest pos' :
    pos <= nlen buf -> eps_string base (ndrop pos buf) pos = Ok (e, rest, pos') ->
    ref_at base buf RStr TU8 e.
  Proof.
    unfold eps_string. intros Hp H. rinv1 H. trk Hp Hr.
    rinv1 H. trk Hle0 Hr0.
    rinv1 H. unfold rpos in Hr1. inv Hr1.
    rinv1 H. destruct (take_slice_ok _ _ _ _ _ _ Hle2 Hr1) as (-> & -> & Hb).
    rinv H. cbn [ref_at]. change (size_of TU8) with 1. change (align_of TU8) with 1.
    repeat split; try lia.
  Qed.

  Lemma rrepeat_eps_ok (r : R val) (Q : val -> Prop) :
    Strict fail_eps r ->
    (forall pos e rest pos', pos <= nlen buf -> r (ndrop pos buf) pos = Ok (e, rest, pos') -> Q e) ->
    forall k pos l rest pos', pos <= nlen buf ->
      rrepeat r k (ndrop pos buf) pos = Ok (l, rest, pos') ->
      All Q l /\ nlen l = N.of_nat k.
  Proof.
    intros S HQ k. induction k as [|k IH]; intros pos l rest pos' Hp H; cbn [rrepeat] in H.
    - rinv H. split; [exact I|reflexivity].
    - rinv1 H. pose proof (HQ _ _ _ _ Hp Hr) as Hq. trk Hp Hr.
      rinv1 H. destruct (IH _ _ _ _ Hle0 Hr0) as (Ha & Hn). rinv H.
      split; [split; assumption|]. unfold nlen in *. cbn [length]. lia.
  Qed.
End EpsOK.

Section EpsMain.
  Variable base : N.
  Variable buf : list byte.

  Lemma eps_ok_all :
    (forall t pos e rest pos', pos <= nlen buf ->
       deser_eps base t (ndrop pos buf) pos = Ok (e, rest, pos') -> eps_ok base buf (dty_of t) e) /\
    (forall fs pos l rest pos', pos <= nlen buf ->
       deser_eps_fields base fs (ndrop pos buf) pos = Ok (l, rest, pos') ->
       eps_ok_fields base buf (dty_fields fs) l) /\
    (forall vs k tag pos e rest pos', pos <= nlen buf ->
       deser_eps_variants base vs k tag (ndrop pos buf) pos = Ok (e, rest, pos') ->
       exists l, e = VTag tag l /\ eps_ok_variants base buf (dty_variants vs) k l).
  Proof.
    apply ty_fields_variants_ind.
    - (* TPrim *) intros p pos e rest pos' Hp H. cbn [deser_eps] in H. cbn [dty_of eps_ok].
      eapply rprim_eps_noref; eassumption.
    - intros pos e rest pos' Hp H. cbn [deser_eps] in H. rinv H. reflexivity.
    - intros t _ pos e rest pos' Hp H. cbn [deser_eps] in H. rinv H. reflexivity.
    - intros pos e rest pos' Hp H. cbn [deser_eps] in H. cbn [dty_of eps_ok].
      eapply eps_string_ok; eassumption.
    - intros pos e rest pos' Hp H. cbn [deser_eps] in H. cbn [dty_of eps_ok].
      eapply eps_string_ok; eassumption.
    - (* TVec *) intros t IH pos e rest pos' Hp H. cbn [deser_eps] in H. cbn [dty_of].
      destruct (is_zc t) eqn:Z; cbn [eps_ok].
      + eapply eps_slice_zero_ok; eassumption.
      + rinv1 H. trk Hp Hr. rinv1 H. rinv H.
        exact (proj1 (rrepeat_eps_ok buf _ _ (S_eps base t) IH _ _ _ _ _ Hle0 Hr0)).
    - (* TBoxSlice *) intros t IH pos e rest pos' Hp H. cbn [deser_eps] in H. cbn [dty_of].
      destruct (is_zc t) eqn:Z; cbn [eps_ok].
      + eapply eps_slice_zero_ok; eassumption.
      + rinv1 H. trk Hp Hr. rinv1 H. rinv H.
        exact (proj1 (rrepeat_eps_ok buf _ _ (S_eps base t) IH _ _ _ _ _ Hle0 Hr0)).
    - intros t _ pos e rest pos' Hp H. cbn [deser_eps] in H. rinv H.
    - intros t _ pos e rest pos' Hp H. cbn [deser_eps] in H. rinv H.
    - (* TArray *) intros n t IH pos e rest pos' Hp H. cbn [deser_eps] in H. cbn [dty_of].
      destruct (is_zc t) eqn:Z; cbn [eps_ok].
      + eapply eps_zero_ok; eassumption.
      + rinv1 H. rinv H.
        destruct (rrepeat_eps_ok buf _ _ (S_eps base t) IH _ _ _ _ _ Hp Hr) as (Ha & Hn).
        split; [lia|exact Ha].
    - (* TTuple *) intros n t _ pos e rest pos' Hp H. cbn [deser_eps] in H. cbn [dty_of eps_ok].
      eapply eps_zero_ok; eassumption.
    - (* TOption *) intros t IH pos e rest pos' Hp H. cbn [deser_eps] in H. cbn [dty_of].
      rinv1 H. trk Hp Hr. destruct a as [|[?|?|]]; rinv H; cbn [eps_ok]; [exact I|].
      eapply IH; eassumption.
    - (* TBound *) intros t IH pos e rest pos' Hp H. cbn [deser_eps] in H. cbn [dty_of].
      rinv1 H. trk Hp Hr. destruct a as [|[?|[?|?|]|]]; rinv H; cbn [eps_ok]; try exact I;
        eapply IH; eassumption.
    - (* TCF *) intros b IHb c IHc pos e rest pos' Hp H. cbn [deser_eps] in H. cbn [dty_of].
      rinv1 H. trk Hp Hr. destruct a as [|[?|?|]]; rinv H; cbn [eps_ok].
      + eapply IHb; eassumption.
      + eapply IHc; eassumption.
    - (* TRange *) intros k t IH pos e rest pos' Hp H. cbn [deser_eps] in H. cbn [dty_of].
      destruct k.
      + rinv1 H. pose proof (IH _ _ _ _ Hp Hr) as Hs. trk Hp Hr.
        rinv1 H. pose proof (IH _ _ _ _ Hle0 Hr0) as He. rinv H. cbn [eps_ok]. auto.
      + rinv1 H. pose proof (IH _ _ _ _ Hp Hr) as Hs. rinv H. cbn [eps_ok]. auto.
      + rinv1 H. pose proof (IH _ _ _ _ Hp Hr) as Hs. trk Hp Hr.
        rinv1 H. pose proof (IH _ _ _ _ Hle0 Hr0) as He. trk Hle0 Hr0.
        rinv1 H. pose proof (rprim_full_noref _ _ _ _ _ _ Hr1) as Hx. rinv H.
        cbn [eps_ok]. auto.
      + rinv1 H. pose proof (IH _ _ _ _ Hp Hr) as Hs. rinv H. cbn [eps_ok]. auto.
      + rinv1 H. pose proof (IH _ _ _ _ Hp Hr) as Hs. rinv H. cbn [eps_ok]. auto.
    - intros pos e rest pos' Hp H. cbn [deser_eps] in H. rinv H. reflexivity.
    - (* TStruct *) intros i fs IH pos e rest pos' Hp H. cbn [deser_eps] in H. cbn [dty_of].
      destruct (a_zc i); cbn [eps_ok].
      + eapply eps_zero_ok; eassumption.
      + rinv1 H. rinv H. eapply IH; eassumption.
    - (* TEnum *) intros i vs IH pos e rest pos' Hp H. cbn [deser_eps] in H. cbn [dty_of].
      destruct (a_zc i); cbn [eps_ok].
      + eapply eps_zero_ok; eassumption.
      + rinv1 H. trk Hp Hr. destruct (IH _ _ _ _ _ _ Hle0 H) as (l & -> & Hl). exact Hl.
    - (* FNil *) intros pos l rest pos' Hp H. cbn [deser_eps_fields] in H. rinv H. exact I.
    - (* FCons *) intros nm isp t IHt r IHr pos l rest pos' Hp H.
      cbn [deser_eps_fields] in H. cbn [dty_fields]. rinv1 H.
      destruct isp.
      + pose proof (IHt _ _ _ _ Hp Hr) as Hx. trk Hp Hr. rinv1 H. rinv H.
        cbn [eps_ok_fields]. split; [exact Hx|]. eapply IHr; eassumption.
      + pose proof (full_noref _ _ _ _ _ _ _ Hr) as Hx. trk Hp Hr. rinv1 H. rinv H.
        cbn [eps_ok_fields eps_ok]. split; [exact Hx|]. eapply IHr; eassumption.
    - (* VNil *) intros k tag pos e rest pos' Hp H. cbn [deser_eps_variants] in H. rinv H.
    - (* VCons *) intros nm named fs IHf r IHr k tag pos e rest pos' Hp H.
      cbn [deser_eps_variants] in H. cbn [dty_variants eps_ok_variants].
      destruct (k =? 0) eqn:K.
      + rinv1 H. rinv H. eexists. split; [reflexivity|]. eapply IHf; eassumption.
      + eapply IHr; eassumption.
  Qed.
End EpsMain.

(* the reader runs over the suffix [ndrop pos buf] of a buffer [buf] with its position [pos] *)
Theorem eps_result_ok : forall t base buf pos e rest pos',
  pos <= nlen buf ->
  deser_eps base t (ndrop pos buf) pos = Ok (e, rest, pos') ->
  eps_ok base buf (dty_of t) e /\ rest = ndrop pos' buf /\ pos <= pos' /\ pos' <= nlen buf.
Proof.
  intros t base buf pos e rest pos' Hp H. split.
  - exact (proj1 (eps_ok_all base buf) t _ _ _ _ Hp H).
  - exact (strict_track _ _ _ _ _ _ _ (S_eps base t) Hp H).
Qed.

Theorem eps_top_ok : forall base h t buf e rest n,
  deser_eps_top base h t buf = Ok (e, rest, n) ->
  eps_ok base buf (dty_of t) e /\ rest = ndrop n buf /\ n <= nlen buf.
Proof.
  intros base h t buf e rest n H. unfold deser_eps_top in H. rinv1 H.
  assert (Hp : 0 <= nlen buf) by lia.
  change buf with (ndrop 0 buf) in Hr at 1.
  destruct (strict_track _ _ _ _ _ _ _ (strict_header_eps base h) Hp Hr) as (-> & _ & Hle).
  destruct (eps_result_ok _ _ _ _ _ _ _ Hle H) as (A & B & _ & C). auto.
Qed.

(* ------------------------------------------------------------------ raw memory only for IS_ZERO_COPY types *)

(* every event list a writer can produce, whatever its outcome, holds only admissible raw events *)
Definition WOK (w : Wr) : Prop := forall pos evs out, w pos = (evs, out) -> Forall raw_event_ok evs.

Lemma WOK_nil (w : Wr) : (forall pos, fst (w pos) = []) -> WOK w.
Proof. intros Hw pos evs out H. specialize (Hw pos). rewrite H in Hw. cbn [fst] in Hw. subst. constructor. Qed.

Lemma WOK_one (w : Wr) : (forall pos, exists e, fst (w pos) = [e] /\ raw_event_ok e) -> WOK w.
Proof.
  intros Hw pos evs out H. destruct (Hw pos) as (e & He & Hok). rewrite H in He. cbn [fst] in He.
  subst. constructor; [exact Hok|constructor].
Qed.

Lemma WOK_done : WOK wdone.
Proof. apply WOK_nil. reflexivity. Qed.

Lemma WOK_panic w : WOK (wpanic w).
Proof. apply WOK_nil. reflexivity. Qed.

Lemma WOK_ev e : raw_event_ok e -> WOK (wev e).
Proof. intros He. apply WOK_one. intros pos. exists e. split; [reflexivity|exact He]. Qed.

Lemma WOK_seq a b : WOK a -> WOK b -> WOK (a ;; b).
Proof.
  intros Ha Hb pos evs out H. unfold wseq in H.
  destruct (a pos) as [ea oa] eqn:Ea. pose proof (Ha _ _ _ Ea) as Fa.
  destruct oa.
  - destruct (b (pos + evs_len ea)) as [eb ob] eqn:Eb. inv H.
    apply Forall_app. split; [exact Fa|]. eapply Hb; eassumption.
  - inv H. exact Fa.
  - inv H. exact Fa.
Qed.

Lemma WOK_field nm t w : WOK w -> WOK (wfield nm t w).
Proof.
  intros Hw. unfold wfield. apply WOK_seq; [apply WOK_seq|]; try exact Hw; apply WOK_ev; exact I.
Qed.

Lemma WOK_align u : WOK (walign u).
Proof.
  intros pos evs out H. unfold walign in H.
  destruct (u =? 0); [inv H; constructor|].
  destruct (pad_align_to pos u =? 0); inv H; repeat constructor.
Qed.

Lemma WOK_usize nm n : WOK (wusize nm n).
Proof. unfold wusize. apply WOK_field. apply WOK_ev. exact I. Qed.

Lemma WOK_u8 nm n : WOK (wu8 nm n).
Proof. unfold wu8. apply WOK_field. apply WOK_ev. exact I. Qed.

Lemma WOK_list f nm t l : (forall x, WOK (f x)) -> WOK (wlist f nm t l).
Proof.
  intros Hf. induction l as [|x l IH]; cbn [wlist]; [apply WOK_done|].
  apply WOK_seq; [apply WOK_field; apply Hf|exact IH].
Qed.

Lemma WOK_items pf t l : is_zc_const t = true -> WOK (witems pf t l).
Proof.
  intros Hz. induction l as [|x l IH]; cbn [witems]; [apply WOK_done|].
  apply WOK_seq; [|exact IH]. apply WOK_one. intros pos. eexists. split; [reflexivity|exact Hz].
Qed.

Lemma WOK_zero pf t v : WOK (wzero pf t v).
Proof.
  unfold wzero. destruct (is_zc_const t) eqn:Hz; [|apply WOK_panic].
  apply WOK_seq; [apply WOK_align|]. apply WOK_one. intros pos. eexists. split; [reflexivity|exact Hz].
Qed.

Lemma WOK_slice_zero pf t l : WOK (wslice_zero pf t l).
Proof.
  unfold wslice_zero. destruct (is_zc_const t) eqn:Hz; [|apply WOK_panic].
  apply WOK_seq; [apply WOK_seq; [apply WOK_usize|apply WOK_align]|].
  apply WOK_one. intros pos. eexists. split; [reflexivity|exact Hz].
Qed.

Lemma WOK_bytes_zero l : WOK (wbytes_zero l).
Proof.
  unfold wbytes_zero. apply WOK_seq; [apply WOK_seq; [apply WOK_usize|apply WOK_align]|].
  apply WOK_ev. reflexivity.
Qed.

Ltac wstep :=
  match goal with
  | |- WOK (_ ;; _) => apply WOK_seq
  | |- WOK (wfield _ _ _) => apply WOK_field
  | |- WOK (wev _) => apply WOK_ev; exact I
  | |- WOK wdone => apply WOK_done
  | |- WOK (wpanic _) => apply WOK_panic
  | |- WOK (wusize _ _) => apply WOK_usize
  | |- WOK (wu8 _ _) => apply WOK_u8
  | |- WOK (walign _) => apply WOK_align
  | |- WOK (wzero _ _ _) => apply WOK_zero
  | |- WOK (wslice_zero _ _ _) => apply WOK_slice_zero
  | |- WOK (wbytes_zero _) => apply WOK_bytes_zero
  | |- WOK (wlist _ _ _ _) => apply WOK_list; intros ?
  | H : _ |- WOK _ => solve [apply H]
  | |- WOK (if ?c then _ else _) => destruct c eqn:?
  | |- WOK (match ?x with _ => _ end) => destruct x
  end.

Lemma ser_WOK_all :
  (forall t pf v, WOK (ser pf t v)) /\
  (forall fs pf named vals, WOK (ser_fields pf named fs vals)) /\
  (forall vs pf k vals, WOK (ser_variants pf vs k vals)).
Proof.
  apply ty_fields_variants_ind; intros; cbn [ser ser_fields ser_variants]; repeat wstep.
  - (* SerIter: items *) apply WOK_items. assumption.
  - apply WOK_nil. intros pos. case_if; reflexivity.
Qed.

(* for EVERY type (well-formed or not: hand-written impls included), value, position, outcome *)
Theorem ser_raw_events_ok : forall pf t v pos evs out,
  ser pf t v pos = (evs, out) -> Forall raw_event_ok evs.
Proof. intros pf t v pos evs out H. exact (proj1 ser_WOK_all t pf v pos evs out H). Qed.

Theorem wzero_guard : forall pf t v pos,
  is_zc_const t = false -> wzero pf t v pos = ([], SPanic PNotZeroCopy).
Proof. intros pf t v pos H. unfold wzero. rewrite H. reflexivity. Qed.

Theorem wslice_zero_guard : forall pf t l pos,
  is_zc_const t = false -> wslice_zero pf t l pos = ([], SPanic PNotZeroCopy).
Proof. intros pf t l pos H. unfold wslice_zero. rewrite H. reflexivity. Qed.

(* a derived (or hand-written) type declared zero-copy whose IS_ZERO_COPY is false: nothing is
   written, alone or as the item type of a sequence *)
Theorem declared_zero_copy_guard : forall pf t v pos,
  is_zc t = true -> is_zc_const t = false ->
  (match t with TStruct _ _ | TEnum _ _ | TArray _ _ => ser pf t v pos = ([], SPanic PNotZeroCopy) | _ => True end) /\
  ser pf (TVec t) v pos = ([], SPanic PNotZeroCopy) /\
  ser pf (TBoxSlice t) v pos = ([], SPanic PNotZeroCopy) /\
  ser pf (TSerIter t) v pos = ([], SPanic PNotZeroCopy) /\
  (exists evs, ser pf (TSliceRef t) v pos = (evs, SPanic PNotZeroCopy) /\ bytes_of evs = []).
Proof.
  intros pf t v pos Z C. split; [|split; [|split; [|split]]].
  - destruct t; try exact I; cbn [ser]; cbn [is_zc] in Z; rewrite Z; apply wzero_guard; exact C.
  - cbn [ser]. rewrite Z. apply wslice_zero_guard. exact C.
  - cbn [ser]. rewrite Z. apply wslice_zero_guard. exact C.
  - cbn [ser]. rewrite C. reflexivity.
  - exists [EAliasBegin]. cbn [ser]. rewrite Z. unfold wseq, wev.
    rewrite wslice_zero_guard by exact C. split; reflexivity.
Qed.

Ltac bsplit :=
  repeat match goal with
         | H : _ && _ = true |- _ => apply andb_true_iff in H; destruct H
         end.

Lemma zc_ok_heap_free_all :
  (forall t, zc_ok t = true -> heap_free t = true) /\
  (forall fs, zc_ok_fields fs = true -> heap_free_fields fs = true) /\
  (forall vs, zc_ok_variants vs = true -> heap_free_variants vs = true).
Proof.
  apply ty_fields_variants_ind; intros;
    cbn [zc_ok zc_ok_fields zc_ok_variants heap_free heap_free_fields heap_free_variants] in *;
    try reflexivity; try discriminate; bsplit; auto.
  - rewrite H, H0 by assumption. reflexivity.
  - rewrite H, H0 by assumption. reflexivity.
Qed.

Lemma zc_ok_heap_free : forall t, zc_ok t = true -> heap_free t = true.
Proof. exact (proj1 zc_ok_heap_free_all). Qed.

Lemma zc_const_heap_free_all :
  (forall t, std_bounds t = true -> is_zc_const t = true -> heap_free t = true) /\
  (forall fs, std_bounds_fields fs = true -> zc_const_fields fs = true -> heap_free_fields fs = true) /\
  (forall vs, std_bounds_variants vs = true -> zc_const_variants vs = true -> heap_free_variants vs = true).
Proof.
  apply ty_fields_variants_ind; intros;
    cbn [std_bounds std_bounds_fields std_bounds_variants is_zc_const zc_const_fields zc_const_variants
         heap_free heap_free_fields heap_free_variants] in *;
    try reflexivity; try discriminate; bsplit; auto using zc_ok_heap_free.
  - rewrite H, H0 by assumption. reflexivity.
  - rewrite H, H0 by assumption. reflexivity.
Qed.

Theorem zc_const_heap_free : forall t,
  std_bounds t = true -> is_zc_const t = true -> heap_free t = true.
Proof. exact (proj1 zc_const_heap_free_all). Qed.

(* ------------------------------------------------------------------ derive-time decisions *)

Theorem derive_check_spec : forall i ftys,
  derive_check i ftys = DAccept <->
  (a_zc i = false \/ (has_repr_c i = true /\ a_deep i = false /\ forallb zc_ok ftys = true)).
Proof.
  intros i ftys. unfold derive_check.
  destruct (a_zc i), (has_repr_c i), (a_deep i), (forallb zc_ok ftys); cbn [andb negb];
    split; intros H; try discriminate; auto;
    destruct H as [H|(H1 & H2 & H3)]; discriminate.
Qed.

Lemma zc_ok_fields_forallb : forall fs, zc_ok_fields fs = forallb zc_ok (field_tys fs).
Proof.
  induction fs as [|nm isp t r IH]; cbn [zc_ok_fields field_tys forallb]; [reflexivity|].
  now rewrite IH.
Qed.

Lemma zc_ok_variants_forallb : forall vs, zc_ok_variants vs = forallb zc_ok (variant_tys vs).
Proof.
  induction vs as [|nm named fs r IH]; cbn [zc_ok_variants variant_tys forallb]; [reflexivity|].
  now rewrite forallb_app, IH, zc_ok_fields_forallb.
Qed.

Theorem wf_derive_accepts :
  (forall i fs, wf (TStruct i fs) = true -> derive_check i (field_tys fs) = DAccept) /\
  (forall i vs, wf (TEnum i vs) = true -> derive_check i (variant_tys vs) = DAccept).
Proof.
  split.
  - intros i fs H. apply derive_check_spec. cbn [wf] in H.
    destruct (a_zc i); [right|left; reflexivity]. bsplit.
    rewrite <- zc_ok_fields_forallb. repeat split; try assumption. now apply negb_true_iff.
  - intros i vs H. apply derive_check_spec. cbn [wf] in H.
    destruct (a_zc i); [right|left; reflexivity]. bsplit.
    rewrite <- zc_ok_variants_forallb. repeat split; try assumption. now apply negb_true_iff.
Qed.

(* a type declared zero-copy that passes the derive, and whose field types themselves compile,
   is IS_ZERO_COPY and holds no heap handle *)
Theorem derive_accepts_zero_copy_sound :
  (forall i fs, wf_fields fs = true -> a_zc i = true -> derive_check i (field_tys fs) = DAccept ->
     is_zc_const (TStruct i fs) = true /\ heap_free (TStruct i fs) = true) /\
  (forall i vs, wf_variants vs = true -> a_zc i = true -> derive_check i (variant_tys vs) = DAccept ->
     is_zc_const (TEnum i vs) = true /\ heap_free (TEnum i vs) = true).
Proof.
  split.
  - intros i fs W Z D. apply derive_check_spec in D.
    destruct D as [D|(C & _ & F)]; [congruence|]. rewrite <- zc_ok_fields_forallb in F. split.
    + cbn [is_zc_const]. rewrite C. cbn [andb]. apply (proj1 (proj2 zc_const_of_ok)); assumption.
    + cbn [heap_free]. apply (proj1 (proj2 zc_ok_heap_free_all)). exact F.
  - intros i vs W Z D. apply derive_check_spec in D.
    destruct D as [D|(C & _ & F)]; [congruence|]. rewrite <- zc_ok_variants_forallb in F. split.
    + cbn [is_zc_const]. rewrite C. cbn [andb]. apply (proj2 (proj2 zc_const_of_ok)); assumption.
    + cbn [heap_free]. apply (proj2 (proj2 zc_ok_heap_free_all)). exact F.
Qed.

(* ------------------------------------------------------------------ allocations depend on the skeleton only *)

Lemma vseq_items_skel v : vseq_items (skel v) = List.map skel (vseq_items v).
Proof. destruct v; reflexivity. Qed.

Lemma vtag_skel v : vtag (skel v) = vtag v.
Proof. destruct v; reflexivity. Qed.

Lemma nlen_map {A B} (f : A -> B) l : nlen (List.map f l) = nlen l.
Proof. unfold nlen. now rewrite map_length. Qed.

Lemma flat_map_skel {B} (f : val -> list B) l :
  (forall v, f (skel v) = f v) -> flat_map f (List.map skel l) = flat_map f l.
Proof.
  intros Hf. induction l as [|x l IH]; cbn [List.map flat_map]; [reflexivity|]. now rewrite Hf, IH.
Qed.

Lemma hd_skel l : hd (VSeq []) (List.map skel l) = skel (hd (VSeq []) l).
Proof. destruct l; reflexivity. Qed.

Lemma tl_skel l : tl (List.map skel l) = List.map skel (tl l).
Proof. destruct l; reflexivity. Qed.

Lemma alloc_full_skel_all :
  (forall t v, alloc_full t (skel v) = alloc_full t v) /\
  (forall fs l, alloc_full_fields fs (List.map skel l) = alloc_full_fields fs l) /\
  (forall vs k l, alloc_full_variants vs k (List.map skel l) = alloc_full_variants vs k l).
Proof.
  apply ty_fields_variants_ind; intros;
    cbn [alloc_full alloc_full_fields alloc_full_variants];
    rewrite ?vseq_items_skel, ?vtag_skel, ?nlen_map, ?hd_skel, ?tl_skel;
    try reflexivity;
    rewrite ?flat_map_skel by assumption; try reflexivity.
  - destruct v; reflexivity.
  - destruct v; reflexivity.
  - now rewrite H.
  - now rewrite H.
  - now rewrite H, H0.
  - now rewrite H, H0.
Qed.

Lemma alloc_full_skel : forall t v, alloc_full t (skel v) = alloc_full t v.
Proof. exact (proj1 alloc_full_skel_all). Qed.

Lemma alloc_eps_skel_all :
  (forall t e, alloc_eps t (skel e) = alloc_eps t e) /\
  (forall fs l, alloc_eps_fields fs (List.map skel l) = alloc_eps_fields fs l) /\
  (forall vs k l, alloc_eps_variants vs k (List.map skel l) = alloc_eps_variants vs k l).
Proof.
  apply ty_fields_variants_ind; intros;
    cbn [alloc_eps alloc_eps_fields alloc_eps_variants];
    rewrite ?vseq_items_skel, ?vtag_skel, ?nlen_map, ?hd_skel, ?tl_skel;
    try reflexivity;
    rewrite ?flat_map_skel by assumption; try reflexivity.
  - now rewrite H.
  - now rewrite H.
  - now rewrite H, alloc_full_skel, H0.
  - now rewrite H, H0.
Qed.

Lemma alloc_eps_skel : forall t e, alloc_eps t (skel e) = alloc_eps t e.
Proof. exact (proj1 alloc_eps_skel_all). Qed.

Theorem alloc_eps_same_skeleton : forall t e e',
  skel e = skel e' -> alloc_eps t e = alloc_eps t e'.
Proof. intros t e e' H. rewrite <- (alloc_eps_skel t e), <- (alloc_eps_skel t e'), H. reflexivity. Qed.
