(* C03: every borrowed part of an ε-copy result points exactly at a zero-copy block written by
   the serializer (same absolute offset, same byte length). *)
Require Import EV.Base.Tac EV.Base.Bytes EV.Base.Res EV.Base.ListX.
Require Import EV.Model.Arith64 EV.Model.Types EV.Model.Layout EV.Model.Ser EV.Model.Deser EV.Model.Header EV.Model.Typing EV.Model.Need EV.Model.Derive.
Require Import EV.Proofs.Pad EV.Proofs.Monads EV.Proofs.LayoutRT EV.Proofs.RoundTrip EV.Proofs.HeaderRT EV.Proofs.EpsRT EV.Proofs.EpsTop EV.Proofs.PlaceAux.

Local Opaque wfield.

Definition GoodP (base : N) (t : ty) : Prop := forall pf v,
  wf t = true -> units_pow2 t = true -> units_cover t = true -> deserializable t = true ->
  wt t v = true -> exhausted_in t v = false ->
  PLc [] refs (ser pf t v) (deser_eps base t).
Definition GoodPF (base : N) (fs : fields) : Prop := forall pf named vals,
  wf_fields fs = true -> units_pow2_fields fs = true -> units_cover_fields fs = true -> deserializable_fields fs = true ->
  wt_fields fs vals = true -> exhausted_fields fs vals = false ->
  PLc [] (flat_map refs) (ser_fields pf named fs vals) (deser_eps_fields base fs).
Definition GoodPV (base : N) (vs : variants) : Prop := forall pf k vals tag,
  wf_variants vs = true -> units_pow2_variants vs = true -> units_cover_variants vs = true -> deserializable_variants vs = true ->
  wt_variants vs k vals = true -> exhausted_variants vs k vals = false ->
  PLc [] refs (ser_variants pf vs k vals) (deser_eps_variants base vs k tag).

Ltac inc :=
  cbn [refs flat_map app]; rewrite ?app_nil_r;
  let z := fresh "z" in let Hz := fresh "Hz" in
  intros z Hz; rewrite ?in_app_iff in *; tauto.

Theorem place_all base :
  (forall t, GoodP base t) /\ (forall fs, GoodPF base fs) /\ (forall vs, GoodPV base vs).
Proof.
  apply ty_fields_variants_ind.
  - (* TPrim *)
    intros p pf v Hw Hu Hc Hd Ht He. cbn [wt] in Ht. destruct v as [n| | | |]; try discriminate.
    cbn [ser deser_eps vnum].
    apply (PLc_of_RTE base _ _ _ _ (eq (VN n)) 1).
    + apply (RTE_of_RT base _ _ (VN n)); [now apply RT_prim_eps|reflexivity].
    + intros e <-. apply incl_nil_l.
  - intros pf v Hw Hu Hc Hd Ht He. cbn [ser deser_eps]. apply PLc_ret. apply incl_nil_l.
  - intros t IH pf v Hw Hu Hc Hd Ht He. cbn [ser deser_eps]. apply PLc_ret. apply incl_nil_l.
  - intros pf v Hw Hu Hc Hd Ht He. cbn [wt] in Ht. destruct v as [|l| | |]; try discriminate.
    split_and. cbn [ser deser_eps]. apply PLc_string. lia.
  - intros pf v Hw Hu Hc Hd Ht He. cbn [wt] in Ht. destruct v as [|l| | |]; try discriminate.
    split_and. cbn [ser deser_eps]. apply PLc_string. lia.
  - (* TVec *)
    intros t IH pf v Hw Hu Hc Hd Ht He. cbn [wt] in Ht. destruct v as [| |l| |]; try discriminate.
    cbn [wf units_pow2 units_cover deserializable exhausted_in vseq_items] in Hw, Hu, Hc, Hd, He. split_and.
    cbn [ser deser_eps vseq_items].
    destruct (is_zc t) eqn:Ez.
    + apply PLc_slice_zero; try assumption. lia.
    + apply (PLc_deep_seq base pf t l _ VSeq); try lia.
      * intros x Hx. apply IH; try assumption; [eapply forallb_In|eapply existsb_false_In]; eassumption.
      * intros es. cbn [refs]. apply incl_refl.
  - (* TBoxSlice *)
    intros t IH pf v Hw Hu Hc Hd Ht He. cbn [wt] in Ht. destruct v as [| |l| |]; try discriminate.
    cbn [wf units_pow2 units_cover deserializable exhausted_in vseq_items] in Hw, Hu, Hc, Hd, He. split_and.
    cbn [ser deser_eps vseq_items].
    destruct (is_zc t) eqn:Ez.
    + apply PLc_slice_zero; try assumption. lia.
    + apply (PLc_deep_seq base pf t l _ VSeq); try lia.
      * intros x Hx. apply IH; try assumption; [eapply forallb_In|eapply existsb_false_In]; eassumption.
      * intros es. cbn [refs]. apply incl_refl.
  - intros t IH pf v Hw Hu Hc Hd. discriminate.
  - intros t IH pf v Hw Hu Hc Hd. discriminate.
  - (* TArray *)
    intros n t IH pf v Hw Hu Hc Hd Ht He.
    pose proof Ht as Ht0. pose proof Hw as Hw0. pose proof Hc as Hc0.
    cbn [wt] in Ht. destruct v as [| |l| |]; try discriminate.
    cbn [wf units_pow2 units_cover deserializable exhausted_in vseq_items] in Hw, Hu, Hc, Hd, He. split_and.
    cbn [ser deser_eps vseq_items].
    destruct (is_zc t) eqn:Ez.
    + apply PLc_zero; assumption.
    + replace (N.to_nat n) with (length l) by (unfold nlen in *; lia).
      apply (PLc_deep_items pf t l _ VSeq).
      * intros x Hx. apply IH; try assumption; [eapply forallb_In|eapply existsb_false_In]; eassumption.
      * intros es. cbn [refs]. apply incl_refl.
  - (* TTuple *)
    intros n t IH pf v Hw Hu Hc Hd Ht He. pose proof Hw as Hw0.
    cbn [wf units_pow2 units_cover] in Hw, Hu, Hc. split_and.
    cbn [ser deser_eps]. apply PLc_zero; try assumption; try (cbn [zc_ok]; assumption).
  - (* TOption *)
    intros t IH pf v Hw Hu Hc Hd Ht He. cbn [wt] in Ht. destruct v as [| | |k l|]; try discriminate.
    cbn [wf units_pow2 units_cover deserializable exhausted_in vseq_items vtag] in Hw, Hu, Hc, Hd, He. split_and.
    cbn [ser deser_eps vseq_items vtag].
    destruct l as [|x [|y l]]; try discriminate.
    + apply N.eqb_eq in Ht. subst k.
      apply (PLc_tag_only base 0 (VTag 0 [])); [lia|reflexivity|reflexivity].
    + split_and. match goal with H : (k =? 1) = true |- _ => apply N.eqb_eq in H; subst k end.
      cbn [existsb hd] in *. split_and.
      eapply (PLc_tagged base N_Some 1 1 t); [lia| |reflexivity].
      apply IH; assumption.
  - (* TBound *)
    intros t IH pf v Hw Hu Hc Hd Ht He. cbn [wt] in Ht. destruct v as [| | |k l|]; try discriminate.
    cbn [wf units_pow2 units_cover deserializable exhausted_in vseq_items vtag] in Hw, Hu, Hc, Hd, He. split_and.
    cbn [ser deser_eps vseq_items vtag].
    destruct l as [|x [|y l]]; try discriminate.
    + apply N.eqb_eq in Ht. subst k.
      apply (PLc_tag_only base 0 (VTag 0 [])); [lia|reflexivity|reflexivity].
    + split_and. cbn [existsb hd] in *. split_and.
      match goal with H : (k =? 1) || (k =? 2) = true |- _ => apply orb_true_iff in H; destruct H as [H|H]; apply N.eqb_eq in H; subst k end.
      * eapply (PLc_tagged base N_Included 1 1 t); [lia| |reflexivity]. apply IH; assumption.
      * eapply (PLc_tagged base N_Excluded 2 2 t); [lia| |reflexivity]. apply IH; assumption.
  - (* TCF *)
    intros b IHb c IHc pf v Hw Hu Hc Hd Ht He. cbn [wt] in Ht.
    destruct v as [| | |k [|x [|y l]]|]; try discriminate.
    cbn [wf units_pow2 units_cover deserializable exhausted_in vseq_items vtag] in Hw, Hu, Hc, Hd, He. split_and.
    cbn [ser deser_eps vseq_items vtag hd].
    destruct (N.eqb_spec k 0) as [->|Hk].
    + cbn [existsb] in He. split_and.
      eapply (PLc_tagged base N_Break 0 0 b); [lia| |reflexivity]. apply IHb; assumption.
    + split_and. match goal with H : (k =? 1) = true |- _ => apply N.eqb_eq in H; subst k end.
      cbn [existsb] in He. split_and.
      eapply (PLc_tagged base N_Continue 1 1 c); [lia| |reflexivity]. apply IHc; assumption.
  - (* TRange *)
    intros k t IH pf v Hw Hu Hc Hd Ht He. cbn [wt] in Ht. destruct v as [| |l| |]; try discriminate.
    cbn [wf units_pow2 units_cover deserializable] in Hw, Hu, Hc, Hd. split_and.
    assert (Hnx : forall x, exhausted_in t x = false) by (intros x; apply zc_ok_not_exhausted; assumption).
    cbn [ser deser_eps vseq_items].
    destruct k.
    + destruct l as [|s [|e [|z l]]]; try discriminate. split_and. cbn [hd tl].
      eapply PLc_seq with (rfA := refs); [apply PLc_field; apply IH; auto|].
      intros xs. cbn beta.
      apply (PLc_map _ refs); [apply PLc_field, PLc_nil; apply IH; auto|].
      intros xe. inc.
    + destruct l as [|s [|e l]]; try discriminate. cbn [hd tl].
      apply (PLc_map _ refs); [apply PLc_field; apply IH; auto|].
      intros xs. inc.
    + destruct l as [|s [|e [|z l]]]; try discriminate.
      destruct z as [x| | | |]; try (destruct l; discriminate). destruct l; try discriminate.
      split_and. cbn [hd tl vnum].
      cbn [exhausted_in vseq_items tl hd vnum] in He. apply negb_false_iff in He. apply N.eqb_eq in He. subst x.
      apply PLc_assoc.
      eapply PLc_seq with (rfA := refs); [apply PLc_field; apply IH; auto|].
      intros xs. cbn beta.
      eapply PLc_seq with (rfA := refs); [apply PLc_field, PLc_nil; apply IH; auto|].
      intros xe. cbn beta.
      apply (PLc_of_RTE base _ _ _ _ (eq (VSeq [xs; xe; VN 0])) 1).
      * apply (RTE_then base _ _ (eq (VN 0))); [apply RTE_field; apply (RTE_prim_full base PBool 0); reflexivity|].
        intros ? <-. eexists. split; reflexivity.
      * intros ? <-. inc.
    + destruct l as [|e [|z l]]; try discriminate. cbn [hd tl].
      apply (PLc_map _ refs); [apply PLc_field; apply IH; auto|].
      intros xs. inc.
    + destruct l as [|e [|z l]]; try discriminate. cbn [hd tl].
      apply (PLc_map _ refs); [apply PLc_field; apply IH; auto|].
      intros xs. inc.
  - intros pf v Hw Hu Hc Hd Ht He. cbn [ser deser_eps]. apply PLc_ret. apply incl_nil_l.
  - (* TStruct *)
    intros i fs IH pf v Hw Hu Hc Hd Ht He.
    pose proof Hw as Hw0. pose proof Ht as Ht0. pose proof Hc as Hc0.
    cbn [wt] in Ht. destruct v as [| |l| |]; try discriminate.
    cbn [wf units_pow2 units_cover deserializable exhausted_in vseq_items] in Hw, Hu, Hc, Hd, He. split_and.
    cbn [ser deser_eps vseq_items].
    destruct (a_zc i) eqn:Ez.
    + split_and. apply PLc_zero; try assumption. cbn [zc_ok]. rewrite Ez. assumption.
    + apply (PLc_map _ (flat_map refs)); [apply IH; assumption|].
      intros es. cbn [refs app]. apply incl_refl.
  - (* TEnum *)
    intros i vs IH pf v Hw Hu Hc Hd Ht He.
    pose proof Hw as Hw0. pose proof Ht as Ht0. pose proof Hc as Hc0.
    cbn [wt] in Ht. destruct v as [| | |k l|]; try discriminate.
    cbn [wf units_pow2 units_cover deserializable exhausted_in vseq_items vtag] in Hw, Hu, Hc, Hd, He. split_and.
    cbn [ser deser_eps vseq_items vtag].
    destruct (a_zc i) eqn:Ez.
    + split_and. apply PLc_zero; try assumption. cbn [zc_ok]. rewrite Ez. assumption.
    + eapply PLc_seq_RTE; [apply (RTE_usize base); lia|].
      intros ? <-. apply IH; assumption.
  - intros pf named vals Hw Hu Hc Hd Ht He.
    cbn [ser_fields deser_eps_fields]. apply PLc_ret. apply incl_nil_l.
  - (* FCons *)
    intros nm isp t IHt r IHr pf named vals Hw Hu Hc Hd Ht He.
    cbn [wt_fields] in Ht. destruct vals as [|x vals]; try discriminate.
    cbn [wf_fields units_pow2_fields units_cover_fields deserializable_fields exhausted_fields hd tl] in Hw, Hu, Hc, Hd, He. split_and.
    cbn [ser_fields deser_eps_fields hd tl].
    eapply PLc_seq with (rfA := refs).
    + apply PLc_field. destruct isp.
      * apply IHt; assumption.
      * apply (PLc_of_RTE base _ _ _ _ (eq x) (need t x)); [apply (proj1 (slice_full_all base)); assumption|].
        intros e <-. rewrite (proj1 refs_wt t x) by assumption. apply incl_nil_l.
    + intros e. cbn beta.
      apply (PLc_map _ (flat_map refs)); [apply PLc_nil; apply IHr; assumption|].
      intros es. inc.
  - intros pf k vals tag Hw Hu Hc Hd Ht He. cbn [wt_variants] in Ht. discriminate.
  - intros nm named fs IHf r IHr pf k vals tag Hw Hu Hc Hd Ht He.
    cbn [wt_variants exhausted_variants] in Ht, He.
    cbn [wf_variants units_pow2_variants units_cover_variants deserializable_variants] in Hw, Hu, Hc, Hd. split_and.
    cbn [ser_variants deser_eps_variants].
    destruct (k =? 0).
    + apply (PLc_map _ (flat_map refs)); [apply IHf; assumption|].
      intros es. cbn [refs app]. apply incl_refl.
    + apply IHr; assumption.
Qed.

(* in context: the value serialized at stream position [pos], read back from there *)
Theorem refs_in_blocks_ctx :
  forall (base : N) (t : ty) (pf : padfill) (v : val) (pos : N) (evs : list event) (rest : list byte) e rest' pos',
    wf t = true -> units_pow2 t = true -> units_cover t = true -> deserializable t = true ->
    wt t v = true -> exhausted_in t v = false ->
    ser pf t v pos = (evs, SDone) ->
    deser_eps base t (bytes_of evs ++ rest) pos = Ok (e, rest', pos') ->
    incl (refs e) (blocks_at pos evs).
Proof.
  intros base t pf v pos evs rest e rest' pos' Hw Hu Hc Hd Ht He Hs Hr.
  exact (proj1 (proj1 (place_all base) t pf v Hw Hu Hc Hd Ht He pos evs rest e rest' pos' Hs Hr)).
Qed.

(* whole streams (header included): offsets are offsets into the stream *)
Theorem refs_in_blocks :
  forall (base : N) (pf : padfill) (h : hdr) (t : ty) (v : val) (evs : list event) e rest n,
    hdr_ok h ->
    wf t = true -> units_pow2 t = true -> units_cover t = true -> deserializable t = true ->
    wt t v = true -> exhausted_in t v = false ->
    ser_top pf h t v = (evs, SDone) ->
    deser_eps_top base h t (bytes_of evs) = Ok (e, rest, n) ->
    incl (refs e) (blocks_at 0 evs).
Proof.
  intros base pf h t v evs e rest n Hh Hw Hu Hc Hd Ht He Hs Hr.
  unfold ser_top in Hs. unfold deser_eps_top in Hr.
  assert (HP : PLc [] refs (header_w h ;; wfield N_ROOT t (ser pf t v) ;; wev EFlush)
                 (let+ _ := check_header (Some base) h in deser_eps base t)).
  { apply PLc_assoc.
    eapply PLc_seq_RTE.
    - apply (RTE_of_RT base _ _ tt (fun _ => True)); [now apply RT_header_rk|exact I].
    - intros [] _. cbn beta. apply PLc_flush, PLc_field.
      apply (proj1 (place_all base)); assumption. }
  rewrite <- (app_nil_r (bytes_of evs)) in Hr.
  exact (proj1 (HP 0 evs [] e rest n Hs Hr)).
Qed.
