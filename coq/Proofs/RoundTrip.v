(* C01: full-copy deserialization inverts serialization, for every well-formed type, every
   value, every stream position and every padding content. *)
Require Import EV.Base.Tac EV.Base.Bytes EV.Base.Res EV.Base.ListX.
Require Import EV.Model.Arith64 EV.Model.Types EV.Model.Layout EV.Model.Ser EV.Model.Deser EV.Model.Typing.
Require Import EV.Proofs.Pad EV.Proofs.Monads EV.Proofs.LayoutRT.

Lemma is_pow2_exp n : is_pow2 n = true -> exists k, k <= 64 /\ n = 2 ^ k.
Proof.
  unfold is_pow2. intros H.
  apply andb_true_iff in H. destruct H as [H H3]. apply andb_true_iff in H. destruct H as [H1 H2].
  exists (N.log2 n). split; [lia|]. now apply N.eqb_eq in H2.
Qed.

Lemma nlen_le_bytes k n : nlen (le_bytes k n) = N.of_nat k.
Proof. unfold nlen. now rewrite le_bytes_length. Qed.

Lemma RT_usize nm n : n < W -> RT (wusize nm n) rusize n.
Proof.
  intros Hn. unfold wusize, rusize. apply RT_field.
  assert (E : le_val (le_bytes 8 n) = n) by (apply le_val_bytes_small; exact Hn).
  pose proof (RT_map (wev (EWrite (le_bytes 8 n))) (read_exact (nlen (le_bytes 8 n)))
                (le_bytes 8 n) le_val (RT_write _)) as H.
  rewrite E, nlen_le_bytes in H. exact H.
Qed.

Lemma RT_u8 nm n : n < 256 -> RT (wu8 nm n) ru8 n.
Proof.
  intros Hn. unfold wu8, ru8. apply RT_field.
  assert (E : le_val (le_bytes 1 n) = n) by (apply le_val_bytes_small; exact Hn).
  pose proof (RT_map (wev (EWrite (le_bytes 1 n))) (read_exact (nlen (le_bytes 1 n)))
                (le_bytes 1 n) le_val (RT_write _)) as H.
  rewrite E, nlen_le_bytes in H. exact H.
Qed.

Lemma psize_pos p : 0 < psize p.
Proof. destruct p as [i|i| | | |]; try destruct i; cbn; lia. Qed.

Lemma decode_prim_ok p n : prim_ok p n = true -> decode_prim p n = Ok (VN n).
Proof.
  unfold prim_ok. intros H. apply andb_true_iff in H. destruct H as [_ H].
  destruct p; cbn [decode_prim]; try reflexivity.
  - destruct (n =? 0) eqn:E; [discriminate|reflexivity].
  - destruct (N.eqb_spec n 0) as [->|Hn]; [reflexivity|].
    replace n with 1 by lia. reflexivity.
  - now rewrite H.
Qed.

Lemma RT_prim p n : prim_ok p n = true ->
  RT (wev (EWrite (le_bytes (N.to_nat (psize p)) n))) (rprim_full p) (VN n).
Proof.
  intros H. unfold rprim_full.
  assert (Hlen : nlen (le_bytes (N.to_nat (psize p)) n) = psize p)
    by (rewrite nlen_le_bytes; lia).
  assert (Hval : le_val (le_bytes (N.to_nat (psize p)) n) = n).
  { apply le_val_bytes_small. unfold prim_ok in H. apply andb_true_iff in H. destruct H as [H _].
    rewrite N2Nat.id. replace (256 ^ psize p) with (2 ^ (8 * psize p)); [lia|].
    rewrite N.pow_mul_r. reflexivity. }
  intros pos evs rest Hw.
  pose proof (RT_write (le_bytes (N.to_nat (psize p)) n) pos evs rest Hw) as Hr.
  rewrite Hlen in Hr. rewrite (rbind_eq _ _ _ _ _ _ _ Hr).
  rewrite Hval, (decode_prim_ok _ _ H). reflexivity.
Qed.

(* ------------------------------------------------------------------ zero-copy blocks *)

Lemma zc_const_of_ok :
  (forall t, zc_ok t = true -> wf t = true -> is_zc_const t = true) /\
  (forall fs, zc_ok_fields fs = true -> wf_fields fs = true -> zc_const_fields fs = true) /\
  (forall vs, zc_ok_variants vs = true -> wf_variants vs = true -> zc_const_variants vs = true).
Proof.
  apply ty_fields_variants_ind; intros; cbn [zc_ok zc_ok_fields zc_ok_variants wf wf_fields wf_variants
    is_zc_const zc_const_fields zc_const_variants] in *; try reflexivity; try discriminate.
  - (* array *) apply andb_true_iff in H1. destruct H1 as [H1 _]. apply andb_true_iff in H1. destruct H1 as [H1 _]. auto.
  - (* struct *)
    apply andb_true_iff in H0. destruct H0 as [Hz Hf].
    apply andb_true_iff in H1. destruct H1 as [Hw Hc]. rewrite Hz in Hc.
    apply andb_true_iff in Hc. destruct Hc as [Hc _]. apply andb_true_iff in Hc. destruct Hc as [Hc _].
    apply andb_true_iff in Hc. destruct Hc as [Hc _]. rewrite Hc. cbn. auto.
  - (* enum *)
    apply andb_true_iff in H0. destruct H0 as [Hz Hf].
    apply andb_true_iff in H1. destruct H1 as [Hw Hc]. rewrite Hz in Hc.
    apply andb_true_iff in Hw. destruct Hw as [Hw _]. apply andb_true_iff in Hw. destruct Hw as [Hw _].
    apply andb_true_iff in Hc. destruct Hc as [Hc _]. apply andb_true_iff in Hc. destruct Hc as [Hc _].
    apply andb_true_iff in Hc. destruct Hc as [Hc _]. apply andb_true_iff in Hc. destruct Hc as [Hc _].
    rewrite Hc. cbn. auto.
  - (* FCons *)
    apply andb_true_iff in H1. destruct H1 as [Ha Hb].
    apply andb_true_iff in H2. destruct H2 as [Hc Hd].
    rewrite H, H0 by assumption. reflexivity.
  - (* VCons *)
    apply andb_true_iff in H1. destruct H1 as [Ha Hb].
    apply andb_true_iff in H2. destruct H2 as [Hc Hd].
    rewrite H, H0 by assumption. reflexivity.
Qed.

Lemma unit_ge1_all :
  (forall t, 1 <= unit_of t) /\ (forall fs : fields, True) /\ (forall vs : variants, True).
Proof.
  apply ty_fields_variants_ind; intros; auto; cbn [unit_of]; try lia.
  - match goal with |- context [align_of ?t] => pose proof (align_of_ge1 t) end. lia.
  - match goal with |- context [align_of ?t] => pose proof (align_of_ge1 t) end. lia.
Qed.
Lemma unit_of_nz t : unit_of t <> 0.
Proof. pose proof (proj1 unit_ge1_all t). lia. Qed.

Lemma RT_block pf t v :
  zc_ok t = true -> wf t = true -> wt t v = true ->
  RT (fun pos => ([EBlock t (mem_repr pf pos t v)], SDone))
     (let+ b := read_exact (size_of t) in rret (mem_decode t b)) v.
Proof.
  intros Hz Hw Ht pos evs rest H. inv H.
  cbn [bytes_of ev_bytes evs_len ev_len]. rewrite app_nil_r, N.add_0_r.
  rewrite <- (mem_repr_len t pf pos v Hz Hw Ht) at 1.
  rewrite (rbind_eq _ _ _ _ _ _ _ (read_exact_app _ _ _)).
  unfold rret. rewrite <- (app_nil_r (mem_repr pf pos t v)) at 1.
  rewrite mem_decode_repr by assumption. reflexivity.
Qed.

Lemma RT_zero pf t v :
  zc_ok t = true -> wf t = true -> wt t v = true ->
  RT (wzero pf t v) (full_zero None t) v.
Proof.
  intros Hz Hw Ht. unfold wzero, full_zero.
  rewrite (proj1 zc_const_of_ok t Hz Hw).
  eapply RT_seq; [apply RT_align_full, unit_of_nz|]. cbn beta.
  apply RT_block; assumption.
Qed.

Lemma forallb_In {A} (f : A -> bool) l x : forallb f l = true -> In x l -> f x = true.
Proof. intros H Hin. rewrite forallb_forall in H. auto. Qed.

Lemma RT_slice_zero pf t l :
  zc_ok t = true -> wf t = true -> forallb (wt t) l = true -> nlen l < W ->
  RT (wslice_zero pf t l) (full_vec_zero None t) l.
Proof.
  intros Hz Hw Ht Hl. unfold wslice_zero, full_vec_zero.
  rewrite (proj1 zc_const_of_ok t Hz Hw).
  apply RT_assoc. eapply RT_seq; [apply RT_usize; exact Hl|].
  eapply RT_seq; [apply RT_align_full, unit_of_nz|].
  cbn beta.
  intros pos evs rest H. inv H.
  cbn [bytes_of ev_bytes evs_len ev_len]. rewrite app_nil_r, N.add_0_r.
  pose proof (mem_repr_list_len t pf pos l Hz Hw Ht) as Hlen.
  rewrite <- Hlen at 1.
  rewrite (rbind_eq _ _ _ _ _ _ _ (read_exact_app _ _ _)).
  unfold rret. unfold nlen at 1. rewrite Nat2N.id.
  rewrite <- (app_nil_r (mem_repr_list _ _ _ _)) at 1.
  rewrite decode_n_repr_list by assumption. reflexivity.
Qed.

Lemma RT_string l :
  bytes_okb l = true -> utf8_valid l = true -> nlen l < W ->
  RT (wbytes_zero l) (full_string None) (VBytes l).
Proof.
  intros Hb Hu Hl. unfold wbytes_zero, full_string.
  apply RT_assoc. eapply RT_seq; [apply RT_usize; exact Hl|].
  eapply RT_seq; [apply (RT_align_full 1); lia|].
  cbn beta.
  intros pos evs rest H. apply wev_done in H. subst.
  cbn [bytes_of ev_bytes evs_len ev_len]. rewrite app_nil_r, N.add_0_r.
  rewrite (rbind_eq _ _ _ _ _ _ _ (read_exact_app _ _ _)).
  rewrite Hu. reflexivity.
Qed.

Lemma RT_then {A B} w (r : R A) a (f : A -> R B) b :
  RT w r a -> (forall i p, f a i p = Ok (b, i, p)) -> RT w (rbind r f) b.
Proof.
  intros H Hf pos evs rest Hw. rewrite (rbind_eq _ _ _ _ _ _ _ (H pos evs rest Hw)). apply Hf.
Qed.

Lemma RT_eq {A} w (r : R A) a a' : a = a' -> RT w r a -> RT w r a'.
Proof. now intros ->. Qed.

Lemma existsb_false_In {A} (f : A -> bool) l x : existsb f l = false -> In x l -> f x = false.
Proof.
  intros H Hin. destruct (f x) eqn:E; [|reflexivity].
  assert (existsb f l = true) by (apply existsb_exists; eauto). congruence.
Qed.

Ltac split_and :=
  repeat match goal with
  | H : _ && _ = true |- _ => apply andb_true_iff in H; destruct H
  | H : _ || _ = false |- _ => apply orb_false_iff in H; destruct H
  end.

Lemma zc_ok_is_zc : forall t, zc_ok t = true -> is_zc t = true.
Proof.
  apply (ty_mut (fun t => zc_ok t = true -> is_zc t = true) (fun _ => True) (fun _ => True));
    intros; cbn [zc_ok is_zc] in *; try reflexivity; try discriminate; auto.
  - apply andb_true_iff in H0. tauto.
  - apply andb_true_iff in H0. tauto.
Qed.

Lemma zc_ok_not_exhausted t v : zc_ok t = true -> exhausted_in t v = false.
Proof.
  intros H. destruct t; cbn [zc_ok exhausted_in] in *; try reflexivity; try discriminate.
  - rewrite (zc_ok_is_zc _ H). reflexivity.
  - destruct k; try reflexivity. cbn in H. discriminate.
  - apply andb_true_iff in H. destruct H as [-> _]. reflexivity.
  - apply andb_true_iff in H. destruct H as [-> _]. reflexivity.
Qed.

Definition GoodT (t : ty) : Prop := forall pf v,
  wf t = true -> deserializable t = true ->
  wt t v = true -> exhausted_in t v = false ->
  RT (ser pf t v) (deser_full None t) v.
Definition GoodF (fs : fields) : Prop := forall pf named vals,
  wf_fields fs = true -> deserializable_fields fs = true ->
  wt_fields fs vals = true -> exhausted_fields fs vals = false ->
  RT (ser_fields pf named fs vals) (deser_full_fields None fs) vals.
Definition GoodV (vs : variants) : Prop := forall pf k vals tag,
  wf_variants vs = true -> deserializable_variants vs = true ->
  wt_variants vs k vals = true -> exhausted_variants vs k vals = false ->
  RT (ser_variants pf vs k vals) (deser_full_variants None vs k tag) (VTag tag vals).

(* a deep sequence: length prefix, then the items *)
Lemma RT_deep_seq pf t l :
  GoodT t -> wf t = true -> deserializable t = true ->
  forallb (wt t) l = true -> existsb (exhausted_in t) l = false -> nlen l < W ->
  RT (wusize N_len (nlen l) ;; wlist (ser pf t) N_item t l)
     (let+ len := rusize in let+ xs := rrepeat (deser_full None t) (N.to_nat len) in rret (VSeq xs))
     (VSeq l).
Proof.
  intros IH Hw Hd Ht He Hl.
  eapply RT_seq; [apply RT_usize; exact Hl|]. cbn beta.
  unfold nlen. rewrite Nat2N.id.
  apply (RT_map _ _ l VSeq). apply RT_list.
  intros x Hx. apply IH; try assumption.
  - eapply forallb_In; eassumption.
  - eapply existsb_false_In; eassumption.
Qed.

Lemma RT_deep_items pf t l :
  GoodT t -> wf t = true -> deserializable t = true ->
  forallb (wt t) l = true -> existsb (exhausted_in t) l = false ->
  RT (wlist (ser pf t) N_item t l)
     (let+ xs := rrepeat (deser_full None t) (length l) in rret (VSeq xs))
     (VSeq l).
Proof.
  intros IH Hw Hd Ht He.
  apply (RT_map _ _ l VSeq). apply RT_list.
  intros x Hx. apply IH; try assumption.
  - eapply forallb_In; eassumption.
  - eapply existsb_false_In; eassumption.
Qed.

Theorem roundtrip_all :
  (forall t, GoodT t) /\ (forall fs, GoodF fs) /\ (forall vs, GoodV vs).
Proof.
  apply ty_fields_variants_ind.
  - (* TPrim *)
    intros p pf v Hw Hd Ht He. cbn [wt] in Ht. destruct v as [n| | | |]; try discriminate.
    cbn [ser deser_full vnum]. apply RT_prim. exact Ht.
  - (* TUnit *)
    intros pf v Hw Hd Ht He. cbn [wt] in Ht. destruct v as [|?|[|]|?|]; try discriminate.
    cbn [ser deser_full]. apply RT_ret.
  - (* TPhantom *)
    intros t IH pf v Hw Hd Ht He. cbn [wt] in Ht. destruct v as [|?|[|]|?|]; try discriminate.
    cbn [ser deser_full]. apply RT_ret.
  - (* TString *)
    intros pf v Hw Hd Ht He. cbn [wt] in Ht. destruct v as [|l| | |]; try discriminate.
    split_and. cbn [ser deser_full]. apply RT_string; try assumption. lia.
  - (* TBoxStr *)
    intros pf v Hw Hd Ht He. cbn [wt] in Ht. destruct v as [|l| | |]; try discriminate.
    split_and. cbn [ser deser_full]. apply RT_string; try assumption. lia.
  - (* TVec *)
    intros t IH pf v Hw Hd Ht He. cbn [wt] in Ht. destruct v as [| |l| |]; try discriminate.
    cbn [wf deserializable exhausted_in vseq_items] in Hw, Hd, He. split_and.
    cbn [ser deser_full vseq_items].
    destruct (is_zc t) eqn:Ez.
    + apply (RT_map _ _ l VSeq). apply RT_slice_zero; try assumption. lia.
    + apply RT_deep_seq; try assumption. lia.
  - (* TBoxSlice *)
    intros t IH pf v Hw Hd Ht He. cbn [wt] in Ht. destruct v as [| |l| |]; try discriminate.
    cbn [wf deserializable exhausted_in vseq_items] in Hw, Hd, He. split_and.
    cbn [ser deser_full vseq_items].
    destruct (is_zc t) eqn:Ez.
    + apply (RT_map _ _ l VSeq). apply RT_slice_zero; try assumption. lia.
    + apply RT_deep_seq; try assumption. lia.
  - (* TSliceRef *) intros t IH pf v Hw Hd. discriminate.
  - (* TSerIter *) intros t IH pf v Hw Hd. discriminate.
  - (* TArray *)
    intros n t IH pf v Hw Hd Ht He.
    pose proof Ht as Ht0. cbn [wt] in Ht. destruct v as [| |l| |]; try discriminate.
    pose proof Hw as Hw0.
    cbn [wf deserializable exhausted_in vseq_items] in Hw, Hd, He. split_and.
    cbn [ser deser_full vseq_items].
    destruct (is_zc t) eqn:Ez.
    + change (let+ _ := ralign None (unit_of t) in
              let+ b := read_exact (size_of (TArray n t)) in rret (mem_decode (TArray n t) b))
        with (full_zero None (TArray n t)).
      apply RT_zero; try assumption.
    + replace (N.to_nat n) with (length l) by (unfold nlen in *; lia).
      apply RT_deep_items; assumption.
  - (* TTuple *)
    intros n t IH pf v Hw Hd Ht He.
    pose proof Hw as Hw0.
    cbn [wf] in Hw. split_and.
    cbn [ser deser_full]. apply RT_zero; try assumption; try (cbn [zc_ok]; assumption).
  - (* TOption *)
    intros t IH pf v Hw Hd Ht He. cbn [wt] in Ht. destruct v as [| | |k l|]; try discriminate.
    cbn [wf deserializable exhausted_in vseq_items vtag] in Hw, Hd, He. split_and.
    cbn [ser deser_full vseq_items vtag].
    destruct l as [|x [|y l]]; try discriminate.
    + apply N.eqb_eq in Ht. subst k.
      apply (RT_then _ _ 0); [apply RT_u8; lia|]. reflexivity.
    + split_and. match goal with H : (k =? 1) = true |- _ => apply N.eqb_eq in H; subst k end.
      cbn [existsb hd] in *. split_and.
      eapply RT_seq; [apply RT_u8; lia|]. cbn beta iota.
      apply (RT_map _ _ x (fun x => VTag 1 [x])). apply RT_field. apply IH; assumption.
  - (* TBound *)
    intros t IH pf v Hw Hd Ht He. cbn [wt] in Ht. destruct v as [| | |k l|]; try discriminate.
    cbn [wf deserializable exhausted_in vseq_items vtag] in Hw, Hd, He. split_and.
    cbn [ser deser_full vseq_items vtag].
    destruct l as [|x [|y l]]; try discriminate.
    + apply N.eqb_eq in Ht. subst k.
      apply (RT_then _ _ 0); [apply RT_u8; lia|]. reflexivity.
    + split_and. cbn [existsb hd] in *. split_and.
      match goal with H : (k =? 1) || (k =? 2) = true |- _ => apply orb_true_iff in H; destruct H as [H|H]; apply N.eqb_eq in H; subst k end.
      * eapply RT_seq; [apply RT_u8; lia|]. cbn beta iota.
        apply (RT_map _ _ x (fun x => VTag 1 [x])). apply RT_field. apply IH; assumption.
      * eapply RT_seq; [apply RT_u8; lia|]. cbn beta iota.
        apply (RT_map _ _ x (fun x => VTag 2 [x])). apply RT_field. apply IH; assumption.
  - (* TCF *)
    intros b IHb c IHc pf v Hw Hd Ht He. cbn [wt] in Ht.
    destruct v as [| | |k [|x [|y l]]|]; try discriminate.
    cbn [wf deserializable exhausted_in vseq_items vtag] in Hw, Hd, He. split_and.
    cbn [ser deser_full vseq_items vtag hd].
    destruct (N.eqb_spec k 0) as [->|Hk].
    + cbn [existsb] in He. split_and.
      eapply RT_seq; [apply RT_u8; lia|]. cbn beta iota.
      apply (RT_map _ _ x (fun x => VTag 0 [x])). apply RT_field. apply IHb; assumption.
    + split_and. match goal with H : (k =? 1) = true |- _ => apply N.eqb_eq in H; subst k end.
      cbn [existsb] in He. split_and.
      eapply RT_seq; [apply RT_u8; lia|]. cbn beta iota.
      apply (RT_map _ _ x (fun x => VTag 1 [x])). apply RT_field. apply IHc; assumption.
  - (* TRange *)
    intros k t IH pf v Hw Hd Ht He. cbn [wt] in Ht. destruct v as [| |l| |]; try discriminate.
    cbn [wf deserializable] in Hw, Hd. split_and.
    assert (Hnx : forall x, exhausted_in t x = false) by (intros x; apply zc_ok_not_exhausted; assumption).
    cbn [ser deser_full vseq_items].
    destruct k.
    + (* Range *)
      destruct l as [|s [|e [|z l]]]; try discriminate. split_and. cbn [hd tl].
      eapply RT_seq; [apply RT_field; apply IH; auto|]. cbn beta.
      apply (RT_map _ _ e (fun e => VSeq [s; e])). apply RT_field; apply IH; auto.
    + (* RangeFrom *)
      destruct l as [|s [|e l]]; try discriminate. cbn [hd tl].
      apply (RT_map _ _ s (fun s => VSeq [s])). apply RT_field; apply IH; auto.
    + (* RangeInclusive *)
      destruct l as [|s [|e [|z l]]]; try discriminate.
      destruct z as [x| | | |]; try (destruct l; discriminate). destruct l; try discriminate.
      split_and. cbn [hd tl vnum].
      cbn [exhausted_in vseq_items tl hd vnum] in He. apply negb_false_iff in He. apply N.eqb_eq in He. subst x.
      apply RT_assoc.
      eapply RT_seq; [apply RT_field; apply IH; auto|]. cbn beta.
      eapply RT_seq; [apply RT_field; apply IH; auto|]. cbn beta.
      apply (RT_then _ _ (VN 0)); [apply RT_field; apply (RT_prim PBool 0); reflexivity|]. reflexivity.
    + (* RangeTo *)
      destruct l as [|e [|z l]]; try discriminate. cbn [hd tl].
      apply (RT_map _ _ e (fun e => VSeq [e])). apply RT_field; apply IH; auto.
    + (* RangeToInclusive *)
      destruct l as [|e [|z l]]; try discriminate. cbn [hd tl].
      apply (RT_map _ _ e (fun e => VSeq [e])). apply RT_field; apply IH; auto.
  - (* TRangeFull *)
    intros pf v Hw Hd Ht He. cbn [wt] in Ht. destruct v as [|?|[|]|?|]; try discriminate.
    cbn [ser deser_full]. apply RT_ret.
  - (* TStruct *)
    intros i fs IH pf v Hw Hd Ht He.
    pose proof Hw as Hw0. pose proof Ht as Ht0.
    cbn [wt] in Ht. destruct v as [| |l| |]; try discriminate.
    cbn [wf deserializable exhausted_in vseq_items] in Hw, Hd, He. split_and.
    cbn [ser deser_full vseq_items].
    destruct (a_zc i) eqn:Ez.
    + split_and. apply RT_zero; try assumption. cbn [zc_ok]. rewrite Ez. assumption.
    + apply (RT_map _ _ l VSeq). apply IH; assumption.
  - (* TEnum *)
    intros i vs IH pf v Hw Hd Ht He.
    pose proof Hw as Hw0. pose proof Ht as Ht0.
    cbn [wt] in Ht. destruct v as [| | |k l|]; try discriminate.
    cbn [wf deserializable exhausted_in vseq_items vtag] in Hw, Hd, He. split_and.
    cbn [ser deser_full vseq_items vtag].
    destruct (a_zc i) eqn:Ez.
    + split_and. apply RT_zero; try assumption. cbn [zc_ok]. rewrite Ez. assumption.
    + eapply RT_seq; [apply RT_usize; lia|]. cbn beta. apply IH; assumption.
  - (* FNil *)
    intros pf named vals Hw Hd Ht He. cbn [wt_fields] in Ht. destruct vals; try discriminate.
    cbn [ser_fields deser_full_fields]. apply RT_ret.
  - (* FCons *)
    intros nm isp t IHt r IHr pf named vals Hw Hd Ht He.
    cbn [wt_fields] in Ht. destruct vals as [|x vals]; try discriminate.
    cbn [wf_fields deserializable_fields exhausted_fields hd tl] in Hw, Hd, He. split_and.
    cbn [ser_fields deser_full_fields hd tl].
    eapply RT_seq; [apply RT_field; apply IHt; assumption|]. cbn beta.
    apply (RT_map _ _ vals (cons x)). apply IHr; assumption.
  - (* VNil *)
    intros pf k vals tag Hw Hd Ht He. cbn [wt_variants] in Ht. discriminate.
  - (* VCons *)
    intros nm named fs IHf r IHr pf k vals tag Hw Hd Ht He.
    cbn [wt_variants exhausted_variants] in Ht, He.
    cbn [wf_variants deserializable_variants] in Hw, Hd. split_and.
    cbn [ser_variants deser_full_variants].
    destruct (k =? 0).
    + apply (RT_map _ _ vals (VTag tag)). apply IHf; assumption.
    + apply IHr; assumption.
Qed.

Corollary roundtrip_full pf t v :
  wf t = true -> deserializable t = true ->
  wt t v = true -> exhausted_in t v = false ->
  RT (ser pf t v) (deser_full None t) v.
Proof. intros. now apply (proj1 roundtrip_all). Qed.
