(* C06: the serializer emits exactly the bytes of format 1.1 ([enc], [enc_file]). *)
Require Import EV.Base.Tac EV.Base.Bytes EV.Base.Res EV.Base.ListX.
Require Import EV.Model.Arith64 EV.Model.Types EV.Model.Layout EV.Model.Ser EV.Model.Header EV.Model.Typing EV.Model.Format.
Require Import EV.Proofs.Pad EV.Proofs.Monads EV.Proofs.LayoutRT EV.Proofs.RoundTrip EV.Proofs.SerTotal.
Require Import EV.Proofs.SliceIter EV.Proofs.HeaderSpec.

(* ------------------------------------------------------------------ bytes of a writer at a position *)

(* [WBp w pos b]: whenever [w] completes from position [pos], the bytes it emits are [b] *)
Definition WBp (w : Wr) (pos : N) (b : list byte) : Prop :=
  forall evs, w pos = (evs, SDone) -> bytes_of evs = b.

Lemma WBp_eq w pos b b' : WBp w pos b -> b = b' -> WBp w pos b'.
Proof. intros H <-. exact H. Qed.

Lemma WBp_seq a b pos x y : WBp a pos x -> WBp b (pos + nlen x) y -> WBp (a ;; b) pos (x ++ y).
Proof.
  intros Ha Hb evs H. apply wseq_done in H. destruct H as (ea & eb & H1 & H2 & ->).
  rewrite bytes_of_app. pose proof (Ha _ H1) as E1. rewrite <- E1 in Hb.
  rewrite nlen_bytes_of in Hb. now rewrite E1, (Hb _ H2).
Qed.

Lemma WBp_field nm t w pos x : WBp w pos x -> WBp (wfield nm t w) pos x.
Proof.
  intros Hw evs H. apply wfield_done in H. destruct H as (ew & H1 & ->).
  cbn [bytes_of ev_bytes app]. rewrite bytes_of_app. cbn [bytes_of ev_bytes app].
  rewrite app_nil_r. exact (Hw _ H1).
Qed.

Lemma WBp_ev e pos : WBp (wev e) pos (ev_bytes e).
Proof. intros evs H. apply wev_done in H. subst evs. cbn [bytes_of]. apply app_nil_r. Qed.

Lemma WBp_done pos : WBp wdone pos [].
Proof. intros evs H. apply wdone_done in H. now subst evs. Qed.

Lemma WBp_panic w pos b : WBp (wpanic w) pos b.
Proof. intros evs H. unfold wpanic in H. discriminate H. Qed.

Lemma WBp_usize nm n pos : WBp (wusize nm n) pos (le_bytes 8 n).
Proof. unfold wusize. apply WBp_field. apply (WBp_ev (EWrite _)). Qed.

Lemma WBp_u8 nm n pos : WBp (wu8 nm n) pos (le_bytes 1 n).
Proof. unfold wu8. apply WBp_field. apply (WBp_ev (EWrite _)). Qed.

Lemma WBp_align u pos : WBp (walign u) pos (padz pos u).
Proof.
  intros evs H. unfold walign in H. unfold padz.
  destruct (u =? 0); [discriminate H|].
  destruct (N.eqb_spec (pad_align_to pos u) 0) as [E|E].
  - inv H. rewrite E. cbn [bytes_of]. symmetry. apply zeros_0.
  - inv H. cbn [bytes_of ev_bytes]. apply app_nil_r.
Qed.

Lemma WBp_block t (F : N -> list byte) pos :
  WBp (fun p => ([EBlock t (F p)], SDone)) pos (F pos).
Proof. intros evs H. inv H. cbn [bytes_of ev_bytes]. apply app_nil_r. Qed.

Lemma nlen_le8 n : nlen (le_bytes 8 n) = 8.
Proof. rewrite nlen_le_bytes. reflexivity. Qed.

Lemma nlen_le1 n : nlen (le_bytes 1 n) = 1.
Proof. rewrite nlen_le_bytes. reflexivity. Qed.

Lemma WBp_zero pf t v pos : WBp (wzero pf t v) pos (enc_block pf t v pos).
Proof.
  unfold wzero. destruct (is_zc_const t); [|apply WBp_panic].
  unfold enc_block. cbv zeta.
  apply WBp_seq; [apply WBp_align|].
  apply (WBp_block t (fun p => mem_repr pf p t v)).
Qed.

Lemma WBp_slice_zero pf t l pos : WBp (wslice_zero pf t l) pos (enc_zc_seq pf t (nlen l) l pos).
Proof.
  unfold wslice_zero. destruct (is_zc_const t); [|apply WBp_panic].
  eapply WBp_eq.
  - apply WBp_seq; [apply WBp_seq; [apply WBp_usize|apply WBp_align]|].
    apply (WBp_block t (fun p => mem_repr_list (fun q x => mem_repr pf q t x) (size_of t) p l)).
  - unfold enc_zc_seq. cbv zeta. rewrite nlen_app, nlen_le8, <- app_assoc, N.add_assoc. reflexivity.
Qed.

Lemma WBp_bytes_zero l pos : WBp (wbytes_zero l) pos (le_bytes 8 (nlen l) ++ l).
Proof.
  unfold wbytes_zero. eapply WBp_eq.
  - apply WBp_seq; [apply WBp_seq; [apply WBp_usize|apply WBp_align]|]. apply (WBp_ev (EBlock _ _)).
  - unfold padz. rewrite pad_align_to_1, zeros_0, app_nil_r. reflexivity.
Qed.

Lemma WBp_list f (g : val -> N -> list byte) nm t l :
  (forall x, In x l -> forall pos, WBp (f x) pos (g x pos)) ->
  forall pos, WBp (wlist f nm t l) pos (enc_list g pos l).
Proof.
  induction l as [|x l IH]; intros Hf pos; cbn [wlist enc_list].
  - apply WBp_done.
  - apply WBp_seq.
    + apply WBp_field. apply Hf. now left.
    + apply IH. intros y Hy. apply Hf. now right.
Qed.

Lemma WBp_witems pf t l pos :
  zc_ok t = true -> wf t = true -> forallb (wt t) l = true ->
  WBp (witems pf t l) pos (mem_repr_list (fun p x => mem_repr pf p t x) (size_of t) pos l).
Proof.
  intros Hz Hw Hl evs H.
  destruct (bytes_witems pf t l pos Hz Hw Hl) as (E & _ & _).
  rewrite H in E. exact E.
Qed.

Lemma WBp_check (c : bool) (e : serr) pos : WBp (fun _ => if c then ([], SDone) else ([], SErr e)) pos [].
Proof. intros evs H. destruct c; [|discriminate H]. now inv H. Qed.

Lemma WBp_seriter pf t k l pos :
  zc_ok t = true -> wf t = true -> forallb (wt t) l = true ->
  WBp (wusize N_len k ;; walign (unit_of t) ;; witems pf t l ;;
       (fun _ => if nlen l =? k then ([], SDone) else ([], SErr (IteratorLengthMismatch (nlen l) k))))
      pos (enc_zc_seq pf t k l pos).
Proof.
  intros Hz Hw Hl. eapply WBp_eq.
  - apply WBp_seq; [apply WBp_seq; [apply WBp_seq; [apply WBp_usize|apply WBp_align]|]|].
    + apply WBp_witems; assumption.
    + apply WBp_check.
  - unfold enc_zc_seq. cbv zeta.
    rewrite app_nil_r, nlen_app, nlen_le8, <- app_assoc, N.add_assoc. reflexivity.
Qed.

(* a deep sequence: length, then the items *)
Lemma WBp_deep_seq f (g : val -> N -> list byte) t l pos :
  (forall x, In x l -> forall p, WBp (f x) p (g x p)) ->
  WBp (wusize N_len (nlen l) ;; wlist f N_item t l) pos (le_bytes 8 (nlen l) ++ enc_list g (pos + 8) l).
Proof.
  intros Hf. apply WBp_seq; [apply WBp_usize|]. rewrite nlen_le8. now apply WBp_list.
Qed.

Lemma WBp_alias a pos x : WBp a pos x -> WBp (wev EAliasBegin ;; a ;; wev EAliasEnd) pos x.
Proof.
  intros Ha. eapply WBp_eq.
  - apply WBp_seq; [apply WBp_seq; [apply WBp_ev|]|apply WBp_ev].
    cbn [ev_bytes nlen]. rewrite N.add_0_r. exact Ha.
  - cbn [ev_bytes app]. apply app_nil_r.
Qed.

(* ------------------------------------------------------------------ the main statement *)

Lemma ser_is_enc_wb :
  (forall t pf v pos, wf t = true -> wt t v = true -> WBp (ser pf t v) pos (enc pf t v pos)) /\
  (forall fs pf named l pos, wf_fields fs = true -> wt_fields fs l = true ->
     WBp (ser_fields pf named fs l) pos (enc_fields pf fs l pos)) /\
  (forall vs pf k l pos, wf_variants vs = true -> wt_variants vs k l = true ->
     WBp (ser_variants pf vs k l) pos (enc_variants pf vs k l pos)).
Proof.
  apply ty_fields_variants_ind.
  - (* Prim *) intros p pf v pos Hw Ht. cbn [ser enc]. apply (WBp_ev (EWrite _)).
  - (* Unit *) intros pf v pos Hw Ht. cbn [ser enc]. apply WBp_done.
  - (* Phantom *) intros t IH pf v pos Hw Ht. cbn [ser enc]. apply WBp_done.
  - (* String *) intros pf v pos Hw Ht. cbn [ser enc].
    destruct v as [n|b|l|k l|rk off nb cnt rv]; try apply WBp_panic. apply WBp_bytes_zero.
  - (* BoxStr *) intros pf v pos Hw Ht. cbn [ser enc].
    destruct v as [n|b|l|k l|rk off nb cnt rv]; try apply WBp_panic. apply WBp_bytes_zero.
  - (* Vec *)
    intros t IH pf v pos Hw Ht. cbn [wt] in Ht.
    destruct v as [n|b|l|k l|rk off nb cnt rv]; try discriminate Ht.
    cbn [wf] in Hw. split_and. cbn [ser enc vseq_items].
    destruct (is_zc t); [apply WBp_slice_zero|].
    apply WBp_deep_seq. intros x Hx p. apply IH; [assumption|eapply forallb_In; eassumption].
  - (* BoxSlice *)
    intros t IH pf v pos Hw Ht. cbn [wt] in Ht.
    destruct v as [n|b|l|k l|rk off nb cnt rv]; try discriminate Ht.
    cbn [wf] in Hw. split_and. cbn [ser enc vseq_items].
    destruct (is_zc t); [apply WBp_slice_zero|].
    apply WBp_deep_seq. intros x Hx p. apply IH; [assumption|eapply forallb_In; eassumption].
  - (* SliceRef *)
    intros t IH pf v pos Hw Ht. cbn [wt] in Ht.
    destruct v as [n|b|l|k l|rk off nb cnt rv]; try discriminate Ht.
    cbn [wf] in Hw. split_and. cbn [ser enc vseq_items].
    apply WBp_alias.
    destruct (is_zc t); [apply WBp_slice_zero|].
    apply WBp_deep_seq. intros x Hx p. apply IH; [assumption|eapply forallb_In; eassumption].
  - (* SerIter *)
    intros t IH pf v pos Hw Ht. cbn [wt] in Ht.
    destruct v as [n|b|l|k l|rk off nb cnt rv]; try discriminate Ht.
    cbn [wf] in Hw. split_and. cbn [ser enc vseq_items vtag].
    destruct (is_zc_const t); [|apply WBp_panic].
    apply WBp_seriter; assumption.
  - (* Array *)
    intros n t IH pf v pos Hw Ht. cbn [wt] in Ht.
    destruct v as [m|b|l|k l|rk off nb cnt rv]; try discriminate Ht.
    cbn [wf] in Hw. split_and. cbn [ser enc vseq_items].
    destruct (is_zc t); [apply WBp_zero|].
    apply WBp_list. intros x Hx p. apply IH; [assumption|eapply forallb_In; eassumption].
  - (* Tuple *)
    intros n t IH pf v pos Hw Ht. cbn [ser enc]. apply WBp_zero.
  - (* Option *)
    intros t IH pf v pos Hw Ht. cbn [wt] in Ht. cbn [wf] in Hw.
    destruct v as [n|b|l|k l|rk off nb cnt rv]; try discriminate Ht.
    destruct l as [|x [|y l]]; try discriminate Ht.
    + apply N.eqb_eq in Ht. subst k. cbn [ser enc vtag]. apply (WBp_u8 N_Tag 0).
    + split_and. match goal with H : (k =? 1) = true |- _ => apply N.eqb_eq in H; subst k end.
      cbn [ser enc vtag vseq_items arg0 hd].
      apply (WBp_seq (wu8 N_Tag 1) _ pos [1]); [apply (WBp_u8 N_Tag 1)|].
      apply WBp_field. change (nlen [1]) with 1. now apply IH.
  - (* Bound *)
    intros t IH pf v pos Hw Ht. cbn [wt] in Ht. cbn [wf] in Hw.
    destruct v as [n|b|l|k l|rk off nb cnt rv]; try discriminate Ht.
    destruct l as [|x [|y l]]; try discriminate Ht.
    + apply N.eqb_eq in Ht. subst k. cbn [ser enc vtag]. apply (WBp_u8 N_Tag 0).
    + apply andb_true_iff in Ht. destruct Ht as [Hk Hx].
      apply orb_true_iff in Hk. destruct Hk as [Hk|Hk]; apply N.eqb_eq in Hk; subst k;
        cbn [ser enc vtag vseq_items arg0 hd].
      * apply (WBp_seq (wu8 N_Tag 1) _ pos [1]); [apply (WBp_u8 N_Tag 1)|].
        apply WBp_field. change (nlen [1]) with 1. now apply IH.
      * apply (WBp_seq (wu8 N_Tag 2) _ pos [2]); [apply (WBp_u8 N_Tag 2)|].
        apply WBp_field. change (nlen [2]) with 1. now apply IH.
  - (* ControlFlow *)
    intros b IHb c IHc pf v pos Hw Ht. cbn [wt] in Ht. cbn [wf] in Hw. split_and.
    destruct v as [n|bb|l|k l|rk off nb cnt rv]; try discriminate Ht.
    destruct l as [|x [|y l]]; try discriminate Ht.
    destruct (N.eqb_spec k 0) as [Hk|Hk].
    + subst k. cbn [ser enc vtag vseq_items arg0 hd].
      apply (WBp_seq (wu8 N_Tag 0) _ pos [0]); [apply (WBp_u8 N_Tag 0)|].
      apply WBp_field. change (nlen [0]) with 1. now apply IHb.
    + apply andb_true_iff in Ht. destruct Ht as [Hk1 Hx]. apply N.eqb_eq in Hk1. subst k.
      cbn [ser enc vtag vseq_items arg0 hd].
      apply (WBp_seq (wu8 N_Tag 1) _ pos [1]); [apply (WBp_u8 N_Tag 1)|].
      apply WBp_field. change (nlen [1]) with 1. now apply IHc.
  - (* Range *)
    intros k t IH pf v pos Hw Ht. cbn [wt] in Ht. cbn [wf] in Hw. split_and.
    destruct v as [n|bb|l|kk l|rk off nb cnt rv]; try discriminate Ht.
    destruct k.
    + (* Range *)
      destruct l as [|s [|e [|y l]]]; try discriminate Ht. split_and.
      cbn [ser enc vseq_items hd tl firstn enc_list]. rewrite app_nil_r.
      apply WBp_seq; apply WBp_field; now apply IH.
    + (* RangeFrom *)
      destruct l as [|s [|y l]]; try discriminate Ht.
      cbn [ser enc vseq_items hd arg0]. apply WBp_field. now apply IH.
    + (* RangeInclusive *)
      destruct l as [|s [|e [|x l]]]; try discriminate Ht.
      destruct x as [n|bb|l'|kk l'|rk off nb cnt rv]; try discriminate Ht.
      destruct l as [|y l]; try discriminate Ht. split_and.
      cbn [ser enc vseq_items hd tl firstn enc_list]. rewrite app_nil_r.
      apply WBp_seq; [apply WBp_seq; apply WBp_field; now apply IH|].
      apply WBp_field. apply (WBp_ev (EWrite _)).
    + (* RangeTo *)
      destruct l as [|e [|y l]]; try discriminate Ht.
      cbn [ser enc vseq_items hd arg0]. apply WBp_field. now apply IH.
    + (* RangeToInclusive *)
      destruct l as [|e [|y l]]; try discriminate Ht.
      cbn [ser enc vseq_items hd arg0]. apply WBp_field. now apply IH.
  - (* RangeFull *) intros pf v pos Hw Ht. cbn [ser enc]. apply WBp_done.
  - (* Struct *)
    intros i fs IH pf v pos Hw Ht. cbn [wt] in Ht. cbn [wf] in Hw.
    apply andb_true_iff in Hw. destruct Hw as [Hwf _].
    destruct v as [n|bb|l|kk l|rk off nb cnt rv]; try discriminate Ht.
    cbn [ser enc vseq_items]. destruct (a_zc i); [apply WBp_zero|]. now apply IH.
  - (* Enum *)
    intros i vs IH pf v pos Hw Ht. cbn [wt] in Ht. cbn [wf] in Hw.
    apply andb_true_iff in Hw. destruct Hw as [Hw _].
    apply andb_true_iff in Hw. destruct Hw as [Hw _].
    apply andb_true_iff in Hw. destruct Hw as [Hw _].
    destruct v as [n|bb|l|k l|rk off nb cnt rv]; try discriminate Ht.
    apply andb_true_iff in Ht. destruct Ht as [_ Ht].
    cbn [ser enc vseq_items vtag]. destruct (a_zc i); [apply WBp_zero|].
    apply WBp_seq; [apply WBp_usize|]. rewrite nlen_le8. now apply IH.
  - (* FNil *) intros pf named l pos Hw Ht. cbn [ser_fields enc_fields]. apply WBp_done.
  - (* FCons *)
    intros nm isp t IHt r IHr pf named l pos Hw Ht. cbn [wt_fields] in Ht. cbn [wf_fields] in Hw.
    destruct l as [|x l]; [discriminate Ht|]. split_and.
    cbn [ser_fields enc_fields hd tl].
    apply WBp_seq; [apply WBp_field; now apply IHt|now apply IHr].
  - (* VNil *) intros pf k l pos Hw Ht. cbn [ser_variants enc_variants]. apply WBp_done.
  - (* VCons *)
    intros nm named fs IHf r IHr pf k l pos Hw Ht. cbn [wt_variants] in Ht. cbn [wf_variants] in Hw.
    split_and. cbn [ser_variants enc_variants].
    destruct (k =? 0); [now apply IHf|now apply IHr].
Qed.

(* whenever the serializer completes, the bytes it wrote from position [pos] are [enc] *)
Theorem ser_is_enc :
  (forall t pf v pos evs, wf t = true -> wt t v = true ->
     ser pf t v pos = (evs, SDone) -> bytes_of evs = enc pf t v pos) /\
  (forall fs pf named l pos evs, wf_fields fs = true -> wt_fields fs l = true ->
     ser_fields pf named fs l pos = (evs, SDone) -> bytes_of evs = enc_fields pf fs l pos) /\
  (forall vs pf k l pos evs, wf_variants vs = true -> wt_variants vs k l = true ->
     ser_variants pf vs k l pos = (evs, SDone) -> bytes_of evs = enc_variants pf vs k l pos).
Proof.
  destruct ser_is_enc_wb as (H1 & H2 & H3). repeat split.
  - intros t pf v pos evs Hw Ht H. exact (H1 t pf v pos Hw Ht evs H).
  - intros fs pf named l pos evs Hw Ht H. exact (H2 fs pf named l pos Hw Ht evs H).
  - intros vs pf k l pos evs Hw Ht H. exact (H3 vs pf k l pos Hw Ht evs H).
Qed.

(* the whole stream is the file of format 1.1 *)
Theorem ser_top_is_enc_file pf h t v evs :
  wf t = true -> wt t v = true ->
  ser_top pf h t v = (evs, SDone) ->
  bytes_of evs = enc_file pf (h_type_hash h) (h_align_hash h) (h_name h) t v.
Proof.
  intros Hw Ht H. unfold ser_top in H. revert evs H.
  change (WBp (header_w h ;; wfield N_ROOT t (ser pf t v) ;; wev EFlush) 0
              (enc_file pf (h_type_hash h) (h_align_hash h) (h_name h) t v)).
  eapply WBp_eq.
  - apply WBp_seq; [apply WBp_seq|apply WBp_ev].
    + intros evs H. exact (WB_header h 0 evs H).
    + apply WBp_field. apply (proj1 ser_is_enc_wb); assumption.
  - cbn [ev_bytes]. rewrite app_nil_r, N.add_0_l. reflexivity.
Qed.

(* the value starts at offset 37 + |type name| *)
Theorem value_offset h : nlen (le_bytes 8 MAGIC ++ le_bytes 2 VERSION_MAJOR ++ le_bytes 2 VERSION_MINOR ++ le_bytes 1 8 ++
             le_bytes 8 (h_type_hash h) ++ le_bytes 8 (h_align_hash h) ++ le_bytes 8 (nlen (h_name h)) ++ h_name h)
  = 37 + nlen (h_name h).
Proof.
  rewrite !nlen_app, !nlen_le_bytes. lia.
Qed.
