(* C04: on the fragment of the grammar without tuples and without derived types the type-hash
   feed is uniquely decodable: two types with the same feed are the same type up to the documented
   equivalence (&[T] and SerIter<T> are hashed as Vec<T>). *)
Require Import EV.Base.Tac EV.Base.Bytes EV.Base.Res EV.Base.ListX.
Require Import EV.Model.Arith64 EV.Model.Types EV.Model.Layout EV.Model.Hash.
Require Import EV.Proofs.HashP.
From Coq Require Import String.

(* the built-in, tuple-free fragment *)
Fixpoint builtin (t : ty) : bool :=
  match t with
  | TPrim _ | TUnit | TString | TBoxStr | TRangeFull => true
  | TPhantom t' | TVec t' | TBoxSlice t' | TSliceRef t' | TSerIter t' | TOption t' | TBound t' | TRange _ t' => builtin t'
  | TArray n t' => (n <? 2 ^ 64) && builtin t'
  | TCF b c => builtin b && builtin c
  | TTuple _ _ | TStruct _ _ | TEnum _ _ => false
  end.

(* slices and iterator wrappers are hashed as the vector (documented) *)
Fixpoint hcanon (t : ty) : ty :=
  match t with
  | TSliceRef t' | TSerIter t' | TVec t' => TVec (hcanon t')
  | TPhantom t' => TPhantom (hcanon t')
  | TBoxSlice t' => TBoxSlice (hcanon t')
  | TArray n t' => TArray n (hcanon t')
  | TOption t' => TOption (hcanon t')
  | TBound t' => TBound (hcanon t')
  | TCF b c => TCF (hcanon b) (hcanon c)
  | TRange k t' => TRange k (hcanon t')
  | _ => t
  end.

(* ---- helpers *)
Lemma rkind_name_clean k : clean (rkind_name k).
Proof. destruct k; clean_tac. Qed.

Lemma rkind_name_inj k l : rkind_name k = rkind_name l -> k = l.
Proof.
  destruct k; destruct l; intro H; try reflexivity; vm_compute in H; discriminate H.
Qed.

Lemma husize_split n m x y :
  n < 2 ^ 64 -> m < 2 ^ 64 -> husize n ++ x = husize m ++ y -> n = m /\ x = y.
Proof.
  intros Hn Hm H. apply app_len_inv in H.
  - destruct H as [H1 H2]. split; [|exact H2]. unfold husize in H1.
    apply le_bytes_inj in H1; [exact H1 | exact Hn | exact Hm].
  - unfold husize. now rewrite !le_bytes_length.
Qed.

(* side conditions of hstr_inj on head names *)
Ltac head_clean :=
  first [ apply prim_name_clean | apply rkind_name_clean | clean_tac ].

(* refute an equality between two different head names *)
Ltac head_ne Hn :=
  solve [ vm_compute in Hn; discriminate Hn
        | match type of Hn with
          | prim_name ?p = rkind_name ?k =>
              destruct p as [[]|[]| | | |]; destruct k; vm_compute in Hn; discriminate Hn
          | rkind_name ?k = prim_name ?p =>
              destruct p as [[]|[]| | | |]; destruct k; vm_compute in Hn; discriminate Hn
          | prim_name ?p = _ => destruct p as [[]|[]| | | |]; vm_compute in Hn; discriminate Hn
          | _ = prim_name ?p => destruct p as [[]|[]| | | |]; vm_compute in Hn; discriminate Hn
          | rkind_name ?k = _ => destruct k; vm_compute in Hn; discriminate Hn
          | _ = rkind_name ?k => destruct k; vm_compute in Hn; discriminate Hn
          end ].

(* unique decodability: the feed of a type, followed by anything, determines the type and the rest *)
Theorem tfeed_prefix_free :
  forall t1 t2 r1 r2, builtin t1 = true -> builtin t2 = true ->
    tfeed t1 ++ r1 = tfeed t2 ++ r2 -> hcanon t1 = hcanon t2 /\ r1 = r2.
Proof.
  induction t1 as [p| |t1 IH| | |t1 IH|t1 IH|t1 IH|t1 IH|n t1 IH|n t1 IH|t1 IH|t1 IH|b1 IHb c1 IHc|k t1 IH| |i fs|i vs];
  intros t2 r1 r2 B1 B2 H;
  destruct t2 as [q| |t2| | |t2|t2|t2|t2|m t2|m t2|t2|t2|b2 c2|l t2| |j gs|j ws];
  cbn [builtin] in B1, B2; try discriminate B1; try discriminate B2;
  cbn [tfeed] in H; rewrite <- ?app_assoc in H;
  (apply hstr_inj in H; [destruct H as [Hn H] | head_clean | head_clean]);
  try head_ne Hn;
  cbn [hcanon].
  all: try (apply (IH _ _ _ B1 B2) in H; destruct H as [E1 E2]; rewrite E1, E2; split; reflexivity).
  all: try (split; [reflexivity | exact H]).
  - (* prim *) apply prim_name_inj in Hn. subst q. split; [reflexivity | exact H].
  - (* array *)
    apply andb_true_iff in B1. destruct B1 as [Bn B1]. apply andb_true_iff in B2. destruct B2 as [Bm B2].
    apply N.ltb_lt in Bn. apply N.ltb_lt in Bm.
    apply husize_split in H; [|exact Bn|exact Bm]. destruct H as [En H]. subst m.
    apply (IH _ _ _ B1 B2) in H. destruct H as [E1 E2]. rewrite E1, E2. split; reflexivity.
  - (* control flow *)
    apply andb_true_iff in B1. destruct B1 as [Bb1 Bc1]. apply andb_true_iff in B2. destruct B2 as [Bb2 Bc2].
    apply (IHb _ _ _ Bb1 Bb2) in H. destruct H as [E1 H].
    apply (IHc _ _ _ Bc1 Bc2) in H. destruct H as [E2 E3]. rewrite E1, E2, E3. split; reflexivity.
  - (* range *)
    apply rkind_name_inj in Hn. subst l.
    apply (IH _ _ _ B1 B2) in H. destruct H as [E1 E2]. rewrite E1, E2. split; reflexivity.
Qed.

Theorem tfeed_injective_on_builtins :
  forall t1 t2, builtin t1 = true -> builtin t2 = true ->
    tfeed t1 = tfeed t2 -> hcanon t1 = hcanon t2.
Proof.
  intros t1 t2 B1 B2 H.
  destruct (tfeed_prefix_free t1 t2 [] [] B1 B2) as [E _].
  - rewrite !app_nil_r. exact H.
  - exact E.
Qed.
