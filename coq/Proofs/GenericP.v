(* C05 at the level of type parameters. *)
Require Import EV.Base.Tac EV.Base.Bytes EV.Base.Res EV.Base.ListX.
Require Import EV.Model.Arith64 EV.Model.Types EV.Model.Layout EV.Model.Ser EV.Model.Deser EV.Model.Typing EV.Model.Derive EV.Model.Generic.

Lemma nth_map_combine_seq : forall (A B : Type) (f : nat * A -> B) (da : A) (db : B) (l : list A) (s i : nat),
  (i < List.length l)%nat ->
  nth i (List.map f (combine (seq s (List.length l)) l)) db = f ((s + i)%nat, nth i l da).
Proof.
  intros A B f da db l. induction l as [|a l IH]; intros s i H; simpl in H.
  - lia.
  - destruct i as [|i]; simpl.
    + rewrite Nat.add_0_r. reflexivity.
    + rewrite IH by lia. f_equal. f_equal. lia.
Qed.

Lemma nth_deser_args : forall (d : gdef) (args : list ty) (i : nat),
  (i < List.length args)%nat ->
  nth i (deser_args d args) (DOwn TUnit) =
    if bare i (all_fields d) then dty_of (nth i args TUnit) else DOwn (nth i args TUnit).
Proof.
  intros d args i H. unfold deser_args.
  rewrite (nth_map_combine_seq _ _ _ TUnit) by exact H. reflexivity.
Qed.

(* a field type that mentions only parameters that are not replaced stays what it was declared *)
Lemma dsubst_unreplaced : forall (d : gdef) (args : list ty) (e : texp),
  List.length args = g_n d ->
  (forall i, (i < g_n d)%nat -> mentions i e = true -> bare i (all_fields d) = false) ->
  (forall i, mentions i e = true -> (i < g_n d)%nat) ->
  dsubst (deser_args d args) e = DOwn (inst args e).
Proof.
  intros d args e Hlen. induction e as [i|t|e IH|e IH|e IH|n e IH|e IH]; intros Hb Hm; simpl.
  - assert (Hi : mentions i (EParam i) = true) by (simpl; apply Nat.eqb_refl).
    assert (Hlt : (i < g_n d)%nat) by (apply Hm; exact Hi).
    rewrite nth_deser_args by lia.
    rewrite (Hb i Hlt Hi). reflexivity.
  - reflexivity.
  - rewrite IH; [reflexivity | exact Hb | exact Hm].
  - rewrite IH; [reflexivity | exact Hb | exact Hm].
  - rewrite IH; [reflexivity | exact Hb | exact Hm].
  - rewrite IH; [reflexivity | exact Hb | exact Hm].
  - rewrite IH; [reflexivity | exact Hb | exact Hm].
Qed.

Lemma bare_in : forall (n : name) (i : nat) (fs : gfields), In (n, EParam i) fs -> bare i fs = true.
Proof.
  intros n i fs H. unfold bare. apply existsb_exists. exists (n, EParam i). split; [exact H|].
  simpl. apply Nat.eqb_refl.
Qed.

Lemma dty_inst_fields : forall (d : gdef) (args : list ty),
  wf_gdef d = true -> List.length args = g_n d ->
  (forall f i, In f (all_fields d) -> mentions i (snd f) = true -> (i < g_n d)%nat) ->
  forall fs, (forall f, In f fs -> In f (all_fields d)) ->
  dty_fields (inst_fields args fs) = dsubst_fields (deser_args d args) fs.
Proof.
  intros d args Hwf Hlen Hm fs. induction fs as [|[n e] r IH]; intros Hin; simpl.
  - reflexivity.
  - rewrite IH by (intros f Hf; apply Hin; right; exact Hf).
    f_equal.
    assert (Hne : In (n, e) (all_fields d)) by (apply Hin; left; reflexivity).
    destruct (is_param e) eqn:Ep.
    + destruct e as [i| | | | | |]; try discriminate Ep. simpl.
      assert (Hlt : (i < g_n d)%nat).
      { apply (Hm (n, EParam i) i Hne). simpl. apply Nat.eqb_refl. }
      rewrite nth_deser_args by lia.
      rewrite (bare_in n i _ Hne). reflexivity.
    + symmetry. apply dsubst_unreplaced.
      * exact Hlen.
      * intros i Hi Hmi.
        unfold wf_gdef in Hwf. rewrite forallb_forall in Hwf.
        specialize (Hwf (n, e) Hne). simpl in Hwf. rewrite Ep in Hwf. simpl in Hwf.
        rewrite forallb_forall in Hwf.
        assert (Hs : In i (seq 0 (g_n d))) by (apply in_seq; lia).
        specialize (Hwf i Hs). rewrite Hmi in Hwf.
        destruct (bare i (all_fields d)); [discriminate Hwf | reflexivity].
      * intros i Hmi. exact (Hm (n, e) i Hne Hmi).
Qed.

Lemma dty_inst_variants : forall (d : gdef) (args : list ty),
  wf_gdef d = true -> List.length args = g_n d -> g_struct d = false ->
  (forall f i, In f (all_fields d) -> mentions i (snd f) = true -> (i < g_n d)%nat) ->
  forall vs, (forall v, In v vs -> In v (g_variants d)) ->
  dty_variants (inst_variants args vs) = dsubst_variants (deser_args d args) vs.
Proof.
  intros d args Hwf Hlen Hs Hm vs. induction vs as [|[[n named] fs] r IH]; intros Hin; simpl.
  - reflexivity.
  - rewrite IH by (intros v Hv; apply Hin; right; exact Hv).
    f_equal. apply dty_inst_fields; try assumption.
    intros f Hf. unfold all_fields. rewrite Hs. apply in_concat. exists fs. split; [|exact Hf].
    apply in_map_iff. exists (n, named, fs). split; [reflexivity|]. apply Hin. left. reflexivity.
Qed.

(* The eps-copy type the model assigns to an instantiated deep-copy definition (field by field:
   eps-copy type for a field whose declared type is a parameter, the type itself otherwise) is the
   definition instantiated with the parameter-level rule: S<args'> where args'_i is the eps-copy
   type of args_i exactly when parameter i is the type of some field. *)
Theorem desertype_is_parameter_substitution : forall (d : gdef) (args : list ty),
  wf_gdef d = true -> a_zc (g_info d) = false -> List.length args = g_n d ->
  (forall f i, In f (all_fields d) -> mentions i (snd f) = true -> (i < g_n d)%nat) ->
  dty_of (inst_def d args) =
    if g_struct d then DStruct (g_info d) (dsubst_fields (deser_args d args) (g_fields d))
    else DEnum (g_info d) (dsubst_variants (deser_args d args) (g_variants d)).
Proof.
  intros d args Hwf Hzc Hlen Hm. unfold inst_def. destruct (g_struct d) eqn:Hs.
  - cbn [dty_of]. rewrite Hzc. f_equal. apply dty_inst_fields; try assumption.
    intros f Hf. unfold all_fields. rewrite Hs. exact Hf.
  - cbn [dty_of]. rewrite Hzc. f_equal. apply dty_inst_variants; try assumption.
    intros v Hv. exact Hv.
Qed.

(* outside the boundary the two levels disagree (this is why such a definition does not compile):
   struct S<A> { a: A, v: Vec<A> } with A = Vec<u8> *)
Definition d13 : gdef :=
  {| g_info := {| a_name := [83]; a_zc := false; a_deep := false; a_reprs := []; a_align := 0; a_consts := [] |};
     g_n := 1; g_struct := true; g_fields := [([97], EParam 0); ([118], EVec (EParam 0))]; g_variants := [] |}.
Lemma boundary_shape_disagrees :
  wf_gdef d13 = false /\
  dty_of (inst_def d13 [TVec (TPrim (PInt U8))]) <>
  DStruct (g_info d13) (dsubst_fields (deser_args d13 [TVec (TPrim (PInt U8))]) (g_fields d13)).
Proof.
  vm_compute. split; [reflexivity | intro H; discriminate H].
Qed.
