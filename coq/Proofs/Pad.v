(* pad_align_to: for a power-of-two unit the mask formula is the least padding. *)
Require Import EV.Base.Tac EV.Base.Bytes EV.Model.Arith64.

Lemma W_split k : k <= 64 -> W = 2 ^ k * 2 ^ (64 - k).
Proof. intros H. unfold W. rewrite <- N.pow_add_r. f_equal. lia. Qed.

Lemma wrapping_neg_mod v k : k <= 64 ->
  wrapping_neg v mod 2 ^ k = (2 ^ k - v mod 2 ^ k) mod 2 ^ k.
Proof.
  intros Hk. unfold wrapping_neg.
  assert (Hp : 2 ^ k <> 0) by (apply N.pow_nonzero; lia).
  assert (HW : W <> 0) by (unfold W; apply N.pow_nonzero; lia).
  pose proof (W_split k Hk) as HWk.
  set (M := 2 ^ (64 - k)) in *.
  assert (HM : M <> 0) by (apply N.pow_nonzero; lia).
  (* (x mod W) mod 2^k = x mod 2^k since 2^k | W *)
  assert (Hmm : forall x, (x mod W) mod 2 ^ k = x mod 2 ^ k).
  { intros x. rewrite HWk. rewrite N.mod_mul_r by assumption.
    rewrite (N.mul_comm (2 ^ k) ((x / 2 ^ k) mod M)). rewrite N.mod_add by assumption.
    apply N.mod_mod; assumption. }
  rewrite Hmm.
  set (u := v mod W).
  assert (Hu : u < W) by (apply N.mod_lt; assumption).
  assert (Huv : u mod 2 ^ k = v mod 2 ^ k) by (apply Hmm).
  rewrite <- Huv.
  (* W - u = 2^k * (M - u/2^k - 1) + (2^k - u mod 2^k) when u mod 2^k > 0 *)
  pose proof (N.div_mod u (2 ^ k) Hp) as Hdm.
  pose proof (N.mod_lt u (2 ^ k) Hp) as Hr.
  set (q := u / 2 ^ k) in *. set (r := u mod 2 ^ k) in *.
  assert (Hq : q < M) by nia.
  destruct (N.eq_dec r 0) as [Hr0|Hr0].
  - rewrite Hr0, N.sub_0_r, N.mod_same by assumption.
    replace (W - u) with ((M - q) * 2 ^ k) by nia.
    apply N.mod_mul; assumption.
  - replace (W - u) with ((2 ^ k - r) + (M - q - 1) * 2 ^ k) by nia.
    rewrite N.mod_add by assumption. reflexivity.
Qed.

Lemma pad_align_to_pow2 v k : k <= 64 ->
  pad_align_to v (2 ^ k) = (2 ^ k - v mod 2 ^ k) mod 2 ^ k.
Proof.
  intros Hk. unfold pad_align_to.
  replace (2 ^ k - 1) with (N.ones k) by (rewrite N.ones_equiv; lia).
  rewrite N.land_ones. now apply wrapping_neg_mod.
Qed.

(* The three facts C07 needs: the padded position is a multiple of the unit, the padding
   is smaller than the unit, and no smaller padding works. *)
Theorem pad_align_to_spec v k : k <= 64 ->
  let p := pad_align_to v (2 ^ k) in
  (v + p) mod 2 ^ k = 0 /\ p < 2 ^ k /\ (forall q, (v + q) mod 2 ^ k = 0 -> p <= q).
Proof.
  intros Hk p. subst p. rewrite pad_align_to_pow2 by assumption.
  assert (Hp : 2 ^ k <> 0) by (apply N.pow_nonzero; lia).
  pose proof (N.div_mod v (2 ^ k) Hp) as Hdm.
  pose proof (N.mod_lt v (2 ^ k) Hp) as Hr.
  set (a := 2 ^ k) in *. set (q0 := v / a) in *. set (r := v mod a) in *.
  destruct (N.eq_dec r 0) as [Hr0|Hr0].
  - rewrite Hr0, N.sub_0_r, N.mod_same by assumption. rewrite N.add_0_r.
    split; [|split]; [| lia | intros; lia].
    replace v with (q0 * a) by lia. apply N.mod_mul; assumption.
  - rewrite (N.mod_small (a - r) a) by lia.
    split; [|split]; [| lia |].
    + replace (v + (a - r)) with ((q0 + 1) * a) by nia. apply N.mod_mul; assumption.
    + intros q Hq.
      destruct (N.lt_ge_cases q (a - r)) as [Hlt|]; [exfalso|assumption].
      (* v + q = a*q0 + (r + q) with r + q < a and r + q > 0... not a multiple *)
      assert (Hm : (v + q) mod a = r + q).
      { replace (v + q) with ((r + q) + q0 * a) by lia.
        rewrite N.mod_add by assumption. apply N.mod_small. lia. }
      lia.
Qed.

(* For a unit that is not a power of two the formula is not the padding. *)
Lemma pad_align_to_refuted_12 : (8 + pad_align_to 8 12) mod 12 <> 0.
Proof. vm_compute. discriminate. Qed.

Lemma pad_zero_when_aligned v k : k <= 64 -> v mod 2 ^ k = 0 -> pad_align_to v (2 ^ k) = 0.
Proof.
  intros Hk H. rewrite pad_align_to_pow2, H, N.sub_0_r by assumption.
  apply N.mod_same. apply N.pow_nonzero; lia.
Qed.

Lemma pad_align_to_1 v : pad_align_to v 1 = 0.
Proof. unfold pad_align_to. rewrite N.sub_diag. apply N.land_0_r. Qed.
