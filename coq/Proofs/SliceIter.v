(* C16: a slice reference or an exact-size-iterator wrapper serializes byte for byte like the
   vector with the same items, wherever it occurs; a lying iterator yields a length-mismatch
   error. *)
Require Import EV.Base.Tac EV.Base.Bytes EV.Base.Res EV.Base.ListX.
Require Import EV.Model.Arith64 EV.Model.Types EV.Model.Layout EV.Model.Ser EV.Model.Deser EV.Model.Header EV.Model.Typing.
Require Import EV.Proofs.Monads EV.Proofs.LayoutRT EV.Proofs.RoundTrip EV.Proofs.SerTotal.

(* the type obtained by replacing every &[T] and SerIter<T> by Vec<T> *)
Fixpoint vecty (t : ty) : ty :=
  match t with
  | TSliceRef t' | TSerIter t' => TVec (vecty t')
  | TVec t' => TVec (vecty t')
  | TBoxSlice t' => TBoxSlice (vecty t')
  | TArray n t' => TArray n (vecty t')
  | TOption t' => TOption (vecty t')
  | TBound t' => TBound (vecty t')
  | TCF b c => TCF (vecty b) (vecty c)
  | TStruct i fs => if a_zc i then t else TStruct i (vecty_fields fs)
  | TEnum i vs => if a_zc i then t else TEnum i (vecty_variants vs)
  | _ => t
  end
with vecty_fields (fs : fields) : fields :=
  match fs with FNil => FNil | FCons n isp t r => FCons n isp (vecty t) (vecty_fields r) end
with vecty_variants (vs : variants) : variants :=
  match vs with VNil => VNil | VCons n nm fs r => VCons n nm (vecty_fields fs) (vecty_variants r) end.

(* the corresponding value: the items of an iterator as a sequence *)
Fixpoint normv (t : ty) (v : val) {struct t} : val :=
  match t with
  | TSerIter t' => VSeq (List.map (normv t') (vseq_items v))
  | TSliceRef t' | TVec t' | TBoxSlice t' | TArray _ t' =>
      if is_zc t' then v else VSeq (List.map (normv t') (vseq_items v))
  | TOption t' | TBound t' => VTag (vtag v) (List.map (normv t') (vseq_items v))
  | TCF b c => VTag (vtag v) (List.map (if vtag v =? 0 then normv b else normv c) (vseq_items v))
  | TStruct i fs => if a_zc i then v else VSeq (normv_fields fs (vseq_items v))
  | TEnum i vs => if a_zc i then v else VTag (vtag v) (normv_variants vs (vtag v) (vseq_items v))
  | _ => v
  end
with normv_fields (fs : fields) (l : list val) {struct fs} : list val :=
  match fs with
  | FNil => []
  | FCons _ _ t r => normv t (hd (VSeq []) l) :: normv_fields r (tl l)
  end
with normv_variants (vs : variants) (k : N) (l : list val) {struct vs} : list val :=
  match vs with
  | VNil => l
  | VCons _ _ fs r => if k =? 0 then normv_fields fs l else normv_variants r (k - 1) l
  end.

(* zero-copy element types contain no slice references or iterators: vecty is the identity on
   them (zc_ok types) *)
Lemma vecty_zc_ok : forall t, zc_ok t = true -> vecty t = t.
Proof.
  induction t; intros Hz; cbn [zc_ok vecty] in *; try reflexivity; try discriminate.
  - rewrite IHt by assumption. reflexivity.
  - apply andb_true_iff in Hz. destruct Hz as [-> _]. reflexivity.
  - apply andb_true_iff in Hz. destruct Hz as [-> _]. reflexivity.
Qed.

(* ------------------------------------------------------------------ byte-equivalent writers *)

Definition BEq (a b : Wr) : Prop :=
  forall pos, bytes_of (fst (a pos)) = bytes_of (fst (b pos)) /\ snd (a pos) = snd (b pos).

Lemma BEq_len a b pos : BEq a b -> evs_len (fst (a pos)) = evs_len (fst (b pos)).
Proof. intros H. rewrite <- !nlen_bytes_of. now rewrite (proj1 (H pos)). Qed.

Lemma BEq_refl a : BEq a a.
Proof. intros pos. split; reflexivity. Qed.

Lemma BEq_trans a b c : BEq a b -> BEq b c -> BEq a c.
Proof.
  intros H1 H2 pos. destruct (H1 pos) as [A1 A2]. destruct (H2 pos) as [B1 B2].
  split; [now rewrite A1|now rewrite A2].
Qed.

Lemma BEq_ext a b : (forall pos, a pos = b pos) -> BEq a b.
Proof. intros H pos. rewrite H. split; reflexivity. Qed.

Lemma BEq_seq a a' b b' : BEq a a' -> BEq b b' -> BEq (a ;; b) (a' ;; b').
Proof.
  intros Ha Hb pos. pose proof (BEq_len a a' pos Ha) as Hl. destruct (Ha pos) as [H1 H2].
  unfold wseq. destruct (a pos) as [ea oa]. destruct (a' pos) as [ea' oa'].
  cbn [fst snd] in H1, H2, Hl. subst oa'.
  destruct oa; cbn [fst snd]; auto.
  rewrite <- Hl. destruct (Hb (pos + evs_len ea)) as [H3 H4].
  destruct (b (pos + evs_len ea)) as [eb ob]. destruct (b' (pos + evs_len ea)) as [eb' ob'].
  cbn [fst snd] in H3, H4 |- *. rewrite !bytes_of_app, H1, H3. auto.
Qed.

Lemma BEq_ev0 e e' : ev_bytes e = [] -> ev_bytes e' = [] -> BEq (wev e) (wev e').
Proof.
  intros He He' pos. unfold wev. cbn [fst snd bytes_of]. rewrite He, He'. auto.
Qed.

Lemma BEq_seq_ev_l e a : ev_len e = 0 -> ev_bytes e = [] -> BEq (wev e ;; a) a.
Proof.
  intros Hl Hb pos. unfold wseq, wev. cbn [evs_len]. rewrite Hl.
  replace (pos + (0 + 0)) with pos by lia.
  destruct (a pos) as [ea oa]. cbn [fst snd app bytes_of]. rewrite Hb. auto.
Qed.

Lemma BEq_seq_ev_r e a : ev_bytes e = [] -> BEq (a ;; wev e) a.
Proof.
  intros Hb pos. unfold wseq, wev. destruct (a pos) as [ea oa].
  destruct oa; cbn [fst snd]; auto.
  rewrite bytes_of_app. cbn [bytes_of]. rewrite Hb, !app_nil_r. auto.
Qed.

Lemma BEq_field nm t t' w w' : BEq w w' -> BEq (wfield nm t w) (wfield nm t' w').
Proof.
  intros H. unfold wfield. apply BEq_seq; [apply BEq_seq|].
  - apply BEq_ev0; reflexivity.
  - exact H.
  - apply BEq_refl.
Qed.

Lemma BEq_alias a b : BEq a b -> BEq (wev EAliasBegin ;; a ;; wev EAliasEnd) b.
Proof.
  intros H. eapply BEq_trans; [apply BEq_seq_ev_r; reflexivity|].
  eapply BEq_trans; [apply BEq_seq_ev_l; reflexivity|]. exact H.
Qed.

Lemma BEq_list f g (h : val -> val) nm t t' l :
  (forall x, In x l -> BEq (f x) (g (h x))) ->
  BEq (wlist f nm t l) (wlist g nm t' (List.map h l)).
Proof.
  induction l as [|x l IH]; intros H; cbn [wlist List.map]; [apply BEq_refl|].
  apply BEq_seq.
  - apply BEq_field, H. now left.
  - apply IH. intros y Hy. apply H. now right.
Qed.

Lemma nlen_map {A B} (f : A -> B) l : nlen (List.map f l) = nlen l.
Proof. unfold nlen. now rewrite map_length. Qed.

(* ------------------------------------------------------------------ vecty / normv facts *)

Lemma is_zc_vecty : forall t, is_zc (vecty t) = is_zc t.
Proof.
  induction t; cbn [vecty is_zc]; try reflexivity.
  - exact IHt.
  - destruct (a_zc i) eqn:E; cbn [is_zc]; exact E.
  - destruct (a_zc i) eqn:E; cbn [is_zc]; exact E.
Qed.

Lemma normv_zc t v : is_zc t = true -> normv t v = v.
Proof.
  intros H. destruct t; cbn [is_zc normv] in *; try reflexivity; try discriminate.
  - now rewrite H.
  - now rewrite H.
  - now rewrite H.
Qed.

Lemma map_normv_zc t l : is_zc t = true -> List.map (normv t) l = l.
Proof.
  intros H. rewrite <- (map_id l) at 2. apply map_ext. intros x. now apply normv_zc.
Qed.

(* the items of an honest SerIter, written one by one, are the bytes of the block *)
Lemma bytes_witems pf t l pos :
  zc_ok t = true -> wf t = true -> forallb (wt t) l = true ->
  bytes_of (fst (witems pf t l pos)) = mem_repr_list (fun p x => mem_repr pf p t x) (size_of t) pos l
  /\ snd (witems pf t l pos) = SDone
  /\ evs_len (fst (witems pf t l pos)) = nlen (mem_repr_list (fun p x => mem_repr pf p t x) (size_of t) pos l).
Proof.
  intros Hz Hw. revert pos. induction l as [|x l IH]; intros pos Hl.
  - cbn [witems mem_repr_list]. unfold wdone. cbn [fst snd bytes_of evs_len]. auto.
  - cbn [forallb] in Hl. apply andb_true_iff in Hl. destruct Hl as [Hx Hl].
    cbn [witems mem_repr_list]. unfold wseq. cbn [evs_len ev_len].
    rewrite (mem_repr_len t pf pos x Hz Hw Hx).
    replace (pos + (size_of t + 0)) with (pos + size_of t) by lia.
    destruct (IH (pos + size_of t) Hl) as (I1 & I2 & I3).
    destruct (witems pf t l (pos + size_of t)) as [eb ob]. cbn [fst snd] in I1, I2, I3 |- *.
    cbn [app bytes_of ev_bytes evs_len ev_len]. rewrite I1, I3, nlen_app.
    rewrite (mem_repr_len t pf pos x Hz Hw Hx). auto.
Qed.

(* the strengthened statement: byte-equivalence as writers (at every position) *)
Lemma BEq_seqbody pf t l :
  wf t = true -> (if is_zc t then zc_ok t else true) = true ->
  (forall x, In x l -> BEq (ser pf t x) (ser pf (vecty t) (normv t x))) ->
  BEq (if is_zc t then wslice_zero pf t l
       else wusize N_len (nlen l) ;; wlist (ser pf t) N_item t l)
      (if is_zc (vecty t) then wslice_zero pf (vecty t) (if is_zc t then l else List.map (normv t) l)
       else wusize N_len (nlen (if is_zc t then l else List.map (normv t) l)) ;;
            wlist (ser pf (vecty t)) N_item (vecty t) (if is_zc t then l else List.map (normv t) l)).
Proof.
  intros Hw Hz IH. rewrite is_zc_vecty. destruct (is_zc t) eqn:Ez.
  - rewrite (vecty_zc_ok t Hz). apply BEq_refl.
  - rewrite nlen_map. apply BEq_seq; [apply BEq_refl|]. apply BEq_list. exact IH.
Qed.

Lemma ser_as_vec_beq :
  (forall t pf v, wf t = true -> wt t v = true -> honest t v = true ->
     BEq (ser pf t v) (ser pf (vecty t) (normv t v))) /\
  (forall fs pf named l, wf_fields fs = true -> wt_fields fs l = true -> honest_fields fs l = true ->
     BEq (ser_fields pf named fs l) (ser_fields pf named (vecty_fields fs) (normv_fields fs l))) /\
  (forall vs pf k l, wf_variants vs = true -> wt_variants vs k l = true -> honest_variants vs k l = true ->
     BEq (ser_variants pf vs k l) (ser_variants pf (vecty_variants vs) k (normv_variants vs k l))).
Proof.
  apply ty_fields_variants_ind.
  - intros p pf v Hw Ht Hh. apply BEq_refl.
  - intros pf v Hw Ht Hh. apply BEq_refl.
  - intros t IH pf v Hw Ht Hh. apply BEq_refl.
  - intros pf v Hw Ht Hh. apply BEq_refl.
  - intros pf v Hw Ht Hh. apply BEq_refl.
  - (* Vec *)
    intros t IH pf v Hw Ht Hh. cbn [wt] in Ht. destruct v as [| |l| |]; try discriminate.
    cbn [wf honest vseq_items] in Hw, Hh. split_and.
    cbn [vecty normv ser vseq_items].
    match goal with |- BEq _ ?R =>
      replace R with
        (if is_zc (vecty t) then wslice_zero pf (vecty t) (if is_zc t then l else List.map (normv t) l)
         else wusize N_len (nlen (if is_zc t then l else List.map (normv t) l)) ;;
              wlist (ser pf (vecty t)) N_item (vecty t) (if is_zc t then l else List.map (normv t) l))
        by (destruct (is_zc t); reflexivity) end.
    apply BEq_seqbody; try assumption.
    intros x Hx. destruct (is_zc t) eqn:Ez.
    + rewrite (vecty_zc_ok t) by assumption. rewrite normv_zc by assumption. apply BEq_refl.
    + apply IH; try assumption; eapply forallb_In; eassumption.
  - (* BoxSlice *)
    intros t IH pf v Hw Ht Hh. cbn [wt] in Ht. destruct v as [| |l| |]; try discriminate.
    cbn [wf honest vseq_items] in Hw, Hh. split_and.
    cbn [vecty normv ser vseq_items].
    match goal with |- BEq _ ?R =>
      replace R with
        (if is_zc (vecty t) then wslice_zero pf (vecty t) (if is_zc t then l else List.map (normv t) l)
         else wusize N_len (nlen (if is_zc t then l else List.map (normv t) l)) ;;
              wlist (ser pf (vecty t)) N_item (vecty t) (if is_zc t then l else List.map (normv t) l))
        by (destruct (is_zc t); reflexivity) end.
    apply BEq_seqbody; try assumption.
    intros x Hx. destruct (is_zc t) eqn:Ez.
    + rewrite (vecty_zc_ok t) by assumption. rewrite normv_zc by assumption. apply BEq_refl.
    + apply IH; try assumption; eapply forallb_In; eassumption.
  - (* SliceRef *)
    intros t IH pf v Hw Ht Hh. cbn [wt] in Ht. destruct v as [| |l| |]; try discriminate.
    cbn [wf honest vseq_items] in Hw, Hh. split_and.
    cbn [vecty normv ser vseq_items].
    apply BEq_alias.
    match goal with |- BEq _ ?R =>
      replace R with
        (if is_zc (vecty t) then wslice_zero pf (vecty t) (if is_zc t then l else List.map (normv t) l)
         else wusize N_len (nlen (if is_zc t then l else List.map (normv t) l)) ;;
              wlist (ser pf (vecty t)) N_item (vecty t) (if is_zc t then l else List.map (normv t) l))
        by (destruct (is_zc t); reflexivity) end.
    apply BEq_seqbody; try assumption.
    intros x Hx. destruct (is_zc t) eqn:Ez.
    + rewrite (vecty_zc_ok t) by assumption. rewrite normv_zc by assumption. apply BEq_refl.
    + apply IH; try assumption; eapply forallb_In; eassumption.
  - (* SerIter *)
    intros t IH pf v Hw Ht Hh. cbn [wt] in Ht. destruct v as [| | |k l|]; try discriminate.
    cbn [wf honest vseq_items vtag] in Hw, Hh. split_and.
    match goal with H : zc_ok t = true |- _ => rename H into Hz end.
    match goal with H : wf t = true |- _ => rename H into Hwt end.
    match goal with H : forallb (wt t) l = true |- _ => rename H into Hl end.
    pose proof (zc_ok_is_zc t Hz) as Ez.
    cbn [vecty normv ser vseq_items vtag].
    rewrite (vecty_zc_ok t Hz), (map_normv_zc t l Ez), Ez.
    unfold wslice_zero. rewrite (proj1 zc_const_of_ok t Hz Hwt).
    apply BEq_trans with
      (b := wusize N_len k ;; walign (unit_of t) ;;
            (witems pf t l ;;
             (fun _ : N => if nlen l =? k then ([], SDone)
                           else ([], SErr (IteratorLengthMismatch (nlen l) k))))).
    { apply BEq_ext. intros pos. apply wseq_assoc. }
    apply N.eqb_eq in Hh. subst k.
    apply BEq_seq; [apply BEq_refl|].
    intros pos. destruct (bytes_witems pf t l pos Hz Hwt Hl) as (B1 & B2 & _).
    unfold wseq. destruct (witems pf t l pos) as [ei oi]. cbn [fst snd] in B1, B2. subst oi.
    rewrite N.eqb_refl. cbn [fst snd bytes_of ev_bytes]. rewrite !app_nil_r. auto.
  - (* Array *)
    intros n t IH pf v Hw Ht Hh. cbn [wt] in Ht. destruct v as [| |l| |]; try discriminate.
    cbn [wf honest vseq_items] in Hw, Hh. split_and.
    cbn [vecty normv ser]. rewrite is_zc_vecty. destruct (is_zc t) eqn:Ez.
    + rewrite (vecty_zc_ok t) by assumption. apply BEq_refl.
    + cbn [vseq_items]. apply BEq_list. intros x Hx.
      apply IH; try assumption; eapply forallb_In; eassumption.
  - (* Tuple *)
    intros n t IH pf v Hw Ht Hh. apply BEq_refl.
  - (* Option *)
    intros t IH pf v Hw Ht Hh. cbn [wt] in Ht. destruct v as [| | |k l|]; try discriminate.
    cbn [wf honest vseq_items vtag] in Hw, Hh.
    destruct l as [|x [|y l]]; try discriminate.
    + apply N.eqb_eq in Ht. subst k. cbn [vecty normv ser vseq_items vtag List.map]. apply BEq_refl.
    + split_and. match goal with H : (k =? 1) = true |- _ => apply N.eqb_eq in H; subst k end.
      cbn [forallb] in Hh. split_and.
      cbn [vecty normv ser vseq_items vtag List.map hd].
      apply BEq_seq; [apply BEq_refl|]. apply BEq_field, IH; assumption.
  - (* Bound *)
    intros t IH pf v Hw Ht Hh. cbn [wt] in Ht. destruct v as [| | |k l|]; try discriminate.
    cbn [wf honest vseq_items vtag] in Hw, Hh.
    destruct l as [|x [|y l]]; try discriminate.
    + apply N.eqb_eq in Ht. subst k. cbn [vecty normv ser vseq_items vtag List.map]. apply BEq_refl.
    + split_and. cbn [forallb] in Hh. split_and.
      match goal with H : (k =? 1) || (k =? 2) = true |- _ =>
        apply orb_true_iff in H; destruct H as [H|H]; apply N.eqb_eq in H; subst k end;
      cbn [vecty normv ser vseq_items vtag List.map hd];
      (apply BEq_seq; [apply BEq_refl|]; apply BEq_field, IH; assumption).
  - (* CF *)
    intros b IHb c IHc pf v Hw Ht Hh. cbn [wt] in Ht.
    destruct v as [| | |k [|x [|y l]]|]; try discriminate.
    cbn [wf honest vseq_items vtag] in Hw, Hh. split_and.
    destruct (N.eqb_spec k 0) as [->|Hk].
    + cbn [forallb] in Hh. split_and.
      cbn [vecty normv ser vseq_items vtag List.map hd]. rewrite N.eqb_refl.
      apply BEq_seq; [apply BEq_refl|]. apply BEq_field, IHb; assumption.
    + split_and. match goal with H : (k =? 1) = true |- _ => apply N.eqb_eq in H; subst k end.
      cbn [forallb] in Hh. split_and.
      cbn [vecty normv ser vseq_items vtag List.map hd].
      replace (1 =? 0) with false by reflexivity.
      apply BEq_seq; [apply BEq_refl|]. apply BEq_field, IHc; assumption.
  - (* Range *)
    intros k t IH pf v Hw Ht Hh. apply BEq_refl.
  - intros pf v Hw Ht Hh. apply BEq_refl.
  - (* Struct *)
    intros i fs IH pf v Hw Ht Hh.
    cbn [wt] in Ht. destruct v as [| |l| |]; try discriminate.
    cbn [wf honest vseq_items] in Hw, Hh. split_and.
    cbn [vecty normv]. destruct (a_zc i) eqn:Ez; [apply BEq_refl|].
    cbn [ser vseq_items]. rewrite Ez. apply IH; assumption.
  - (* Enum *)
    intros i vs IH pf v Hw Ht Hh.
    cbn [wt] in Ht. destruct v as [| | |k l|]; try discriminate.
    cbn [wf honest vseq_items vtag] in Hw, Hh. split_and.
    cbn [vecty normv]. destruct (a_zc i) eqn:Ez; [apply BEq_refl|].
    cbn [ser vseq_items vtag]. rewrite Ez.
    apply BEq_seq; [apply BEq_refl|]. apply IH; assumption.
  - intros pf named l Hw Ht Hh. apply BEq_refl.
  - intros nm isp t IHt r IHr pf named l Hw Ht Hh.
    cbn [wt_fields] in Ht. destruct l as [|x l]; try discriminate.
    cbn [wf_fields honest_fields hd tl] in Hw, Hh. split_and.
    cbn [vecty_fields normv_fields ser_fields hd tl].
    apply BEq_seq; [apply BEq_field, IHt; assumption|apply IHr; assumption].
  - intros pf k l Hw Ht Hh. apply BEq_refl.
  - intros nm named fs IHf r IHr pf k l Hw Ht Hh.
    cbn [wt_variants honest_variants] in Ht, Hh.
    cbn [wf_variants] in Hw. split_and.
    cbn [vecty_variants normv_variants ser_variants].
    destruct (k =? 0); [apply IHf|apply IHr]; assumption.
Qed.

(* Main statement: for every type in which slice references and iterators have zero-copy or
   deep elements as allowed by [wf], every well-typed value whose iterators are honest, every
   position and padding content: same bytes, same outcome as the vector form *)
Theorem ser_as_vec :
  (forall t pf v pos, wf t = true -> wt t v = true -> honest t v = true ->
     bytes_of (fst (ser pf t v pos)) = bytes_of (fst (ser pf (vecty t) (normv t v) pos)) /\
     snd (ser pf t v pos) = snd (ser pf (vecty t) (normv t v) pos)) /\
  (forall fs pf named l pos, wf_fields fs = true -> wt_fields fs l = true -> honest_fields fs l = true ->
     bytes_of (fst (ser_fields pf named fs l pos)) =
       bytes_of (fst (ser_fields pf named (vecty_fields fs) (normv_fields fs l) pos)) /\
     snd (ser_fields pf named fs l pos) = snd (ser_fields pf named (vecty_fields fs) (normv_fields fs l) pos)) /\
  (forall vs pf k l pos, wf_variants vs = true -> wt_variants vs k l = true -> honest_variants vs k l = true ->
     bytes_of (fst (ser_variants pf vs k l pos)) =
       bytes_of (fst (ser_variants pf (vecty_variants vs) k (normv_variants vs k l) pos)) /\
     snd (ser_variants pf vs k l pos) = snd (ser_variants pf (vecty_variants vs) k (normv_variants vs k l) pos)).
Proof.
  destruct ser_as_vec_beq as (H1 & H2 & H3).
  split; [|split].
  - intros t pf v pos Hw Ht Hh. exact (H1 t pf v Hw Ht Hh pos).
  - intros fs pf named l pos Hw Ht Hh. exact (H2 fs pf named l Hw Ht Hh pos).
  - intros vs pf k l pos Hw Ht Hh. exact (H3 vs pf k l Hw Ht Hh pos).
Qed.

(* whole streams, header included (the header depends on the hashes and the name only) *)
Theorem ser_top_as_vec pf h t v :
  wf t = true -> wt t v = true -> honest t v = true ->
  bytes_of (fst (ser_top pf h t v)) = bytes_of (fst (ser_top pf h (vecty t) (normv t v))) /\
  snd (ser_top pf h t v) = snd (ser_top pf h (vecty t) (normv t v)).
Proof.
  intros Hw Ht Hh. unfold ser_top.
  assert (H : BEq (header_w h ;; wfield N_ROOT t (ser pf t v) ;; wev EFlush)
                  (header_w h ;; wfield N_ROOT (vecty t) (ser pf (vecty t) (normv t v)) ;; wev EFlush)).
  { apply BEq_seq; [apply BEq_seq|]; [apply BEq_refl| |apply BEq_refl].
    apply BEq_field. now apply (proj1 ser_as_vec_beq). }
  exact (H 0).
Qed.

(* a lying iterator: announced length k, l items actually produced *)
Theorem lying_iterator pf t k l pos :
  zc_ok t = true -> wf t = true -> nlen l <> k ->
  snd (ser pf (TSerIter t) (VTag k l) pos) = SErr (IteratorLengthMismatch (nlen l) k).
Proof.
  intros Hz Hw Hk. cbn [ser vseq_items vtag]. rewrite (proj1 zc_const_of_ok t Hz Hw).
  assert (Hpre : SOK (wusize N_len k ;; walign (unit_of t) ;; witems pf t l)).
  { apply SOK_seq; [apply SOK_seq; [apply SOK_usize|apply SOK_align, unit_of_nz]|apply SOK_items]. }
  unfold wseq at 1. specialize (Hpre pos).
  destruct ((wusize N_len k ;; walign (unit_of t) ;; witems pf t l) pos) as [ea oa].
  cbn [snd] in Hpre. subst oa.
  destruct (N.eqb_spec (nlen l) k) as [E|_]; [contradiction|]. reflexivity.
Qed.
