(* C04, part 1: whenever the hash words of the reading type differ from those written in the
   header, both deserializers return the hash error and never a value. *)
Require Import EV.Base.Tac EV.Base.Bytes EV.Base.Res EV.Base.ListX.
Require Import EV.Model.Arith64 EV.Model.Types EV.Model.Layout EV.Model.Ser EV.Model.Deser EV.Model.Header EV.Model.Typing EV.Model.Hash.
Require Import EV.Proofs.Monads EV.Proofs.HeaderRT EV.Proofs.HeaderSpec.

Lemma hdr_ok_in_range h :
  hdr_ok h ->
  fields_in_range MAGIC VERSION_MAJOR VERSION_MINOR 8 (h_type_hash h) (h_align_hash h) (h_name h).
Proof.
  intros (Hth & Hah & _ & Hu & Hl). unfold fields_in_range, W in *.
  repeat split; try assumption; vm_compute; reflexivity.
Qed.

(* bytes written with header [hw], read as a type whose own hashes are [hr] *)
Theorem wrong_type_hash pf hw hr tw tr v evs base :
  hdr_ok hw -> ser_top pf hw tw v = (evs, SDone) ->
  h_type_hash hw <> h_type_hash hr ->
  deser_full_top hr tr (bytes_of evs) = Err (WrongTypeHash (h_type_hash hw)) /\
  deser_eps_top base hr tr (bytes_of evs) = Err (WrongTypeHash (h_type_hash hw)).
Proof.
  intros Hok Hs Hne.
  destruct (ser_top_starts_with_header pf hw tw v evs Hs) as (body & ->).
  pose proof (hdr_ok_in_range hw Hok) as Hr.
  rewrite (deser_full_top_header hr tr _ _ _ _ _ _ _ body Hr).
  rewrite (deser_eps_top_header base hr tr _ _ _ _ _ _ _ body Hr).
  rewrite (verdict_type_hash hr (h_type_hash hw) (h_align_hash hw) Hne). split; reflexivity.
Qed.

Theorem wrong_align_hash pf hw hr tw tr v evs base :
  hdr_ok hw -> ser_top pf hw tw v = (evs, SDone) ->
  h_type_hash hw = h_type_hash hr -> h_align_hash hw <> h_align_hash hr ->
  deser_full_top hr tr (bytes_of evs) = Err (WrongAlignHash (h_align_hash hw)) /\
  deser_eps_top base hr tr (bytes_of evs) = Err (WrongAlignHash (h_align_hash hw)).
Proof.
  intros Hok Hs He Hne.
  destruct (ser_top_starts_with_header pf hw tw v evs Hs) as (body & ->).
  pose proof (hdr_ok_in_range hw Hok) as Hr.
  rewrite (deser_full_top_header hr tr _ _ _ _ _ _ _ body Hr).
  rewrite (deser_eps_top_header base hr tr _ _ _ _ _ _ _ body Hr).
  rewrite He. rewrite (verdict_align_hash hr (h_align_hash hw) Hne). split; reflexivity.
Qed.

(* the header of a type, for a given 64-bit hash function of the byte feeds *)
Section WithHash.
  Variable H : list byte -> N.

  Definition hdr_of (t : ty) (nm : list byte) : hdr :=
    {| h_type_hash := H (tfeed t); h_align_hash := H (align_feed t); h_name := nm |}.

  (* T-bytes read as U: refused as soon as the hash separates the type feeds, or (type feeds
     hashing equal) the alignment feeds *)
  Theorem cross_read_refused pf tw tu nmw nmu v evs base :
    hdr_ok (hdr_of tw nmw) -> ser_top pf (hdr_of tw nmw) tw v = (evs, SDone) ->
    (H (tfeed tw) <> H (tfeed tu) \/
     (H (tfeed tw) = H (tfeed tu) /\ H (align_feed tw) <> H (align_feed tu))) ->
    exists e, (e = WrongTypeHash (H (tfeed tw)) \/ e = WrongAlignHash (H (align_feed tw))) /\
      deser_full_top (hdr_of tu nmu) tu (bytes_of evs) = Err e /\
      deser_eps_top base (hdr_of tu nmu) tu (bytes_of evs) = Err e.
  Proof.
    intros Hok Hs [Hne|[He Hne]].
    - exists (WrongTypeHash (H (tfeed tw))). split; [now left|].
      exact (wrong_type_hash pf (hdr_of tw nmw) (hdr_of tu nmu) tw tu v evs base Hok Hs Hne).
    - exists (WrongAlignHash (H (align_feed tw))). split; [now right|].
      exact (wrong_align_hash pf (hdr_of tw nmw) (hdr_of tu nmu) tw tu v evs base Hok Hs He Hne).
  Qed.
End WithHash.
