(* C07: every zero-copy block starts at a multiple of its alignment unit and every padding
   run is exactly pad_align_to(position, unit) (hence minimal), for every type, value,
   starting position and padding content; plus the facts about units. *)
Require Import EV.Base.Tac EV.Base.Bytes EV.Base.Res EV.Base.ListX.
Require Import EV.Model.Arith64 EV.Model.Types EV.Model.Layout EV.Model.Ser EV.Model.Deser EV.Model.Header EV.Model.Typing.
Require Import EV.Proofs.Pad EV.Proofs.Monads EV.Proofs.LayoutRT EV.Proofs.RoundTrip.

Fixpoint layout_ok (o : N) (evs : list event) : Prop :=
  match evs with
  | [] => True
  | e :: r =>
      match e with
      | EBlock t b => o mod unit_of t = 0
      | EPad u n => n = pad_align_to o u /\ 0 < n /\ n < u
      | _ => True
      end /\ layout_ok (o + ev_len e) r
  end.

Lemma layout_ok_app o a b : layout_ok o a -> layout_ok (o + evs_len a) b -> layout_ok o (a ++ b).
Proof.
  revert o; induction a as [|e a IH]; intros o Ha Hb; cbn [app evs_len] in *.
  - now rewrite N.add_0_r in Hb.
  - cbn [layout_ok] in *. destruct Ha as [He Ha]. split; [exact He|].
    apply IH; [exact Ha|]. now rewrite <- N.add_assoc.
Qed.

(* whatever the outcome, the events emitted so far are well laid out *)
Definition LOK (w : Wr) : Prop := forall pos evs o, w pos = (evs, o) -> layout_ok pos evs.

Lemma LOK_done : LOK wdone.
Proof. intros pos evs o H. inv H. exact I. Qed.
Lemma LOK_panic w : LOK (wpanic w).
Proof. intros pos evs o H. inv H. exact I. Qed.
Lemma LOK_ev e : (match e with EBlock _ _ | EPad _ _ => False | _ => True end) -> LOK (wev e).
Proof. intros He pos evs o H. inv H. cbn [layout_ok]. destruct e; try contradiction; auto. Qed.
Lemma LOK_seq a b : LOK a -> LOK b -> LOK (a ;; b).
Proof.
  intros Ha Hb pos evs o H. unfold wseq in H.
  destruct (a pos) as [ea oa] eqn:Ea. specialize (Ha _ _ _ Ea).
  destruct oa; try (inv H; exact Ha).
  destruct (b (pos + evs_len ea)) as [eb ob] eqn:Eb. inv H.
  apply layout_ok_app; [exact Ha|]. eapply Hb; eassumption.
Qed.
Lemma LOK_field nm t w : LOK w -> LOK (wfield nm t w).
Proof. intros H. unfold wfield. repeat apply LOK_seq; auto; apply LOK_ev; exact I. Qed.

Local Opaque wfield.

Lemma LOK_usize nm n : LOK (wusize nm n).
Proof. apply LOK_field, LOK_ev. exact I. Qed.
Lemma LOK_u8 nm n : LOK (wu8 nm n).
Proof. apply LOK_field, LOK_ev. exact I. Qed.

Lemma LOK_list f nm t l : (forall x, LOK (f x)) -> LOK (wlist f nm t l).
Proof.
  intros H. induction l as [|x l IH]; cbn [wlist]; [apply LOK_done|].
  apply LOK_seq; [apply LOK_field, H|exact IH].
Qed.

Lemma LOK_items pf t l : LOK (witems pf t l).
Proof.
  induction l as [|x l IH]; cbn [witems]; [apply LOK_done|].
  apply LOK_seq; [|exact IH]. intros pos evs o H. inv H. cbn [layout_ok]. auto.
Qed.

(* align to a power-of-two unit, then a block of a type with that unit *)
Lemma LOK_align_block u t (f : N -> list byte) :
  is_pow2 u = true -> unit_of t = u ->
  LOK (walign u ;; (fun pos => ([EBlock t (f pos)], SDone))).
Proof.
  intros Hu Ht pos evs o H.
  destruct (is_pow2_exp _ Hu) as (k & Hk & ->).
  destruct (pad_align_to_spec pos k Hk) as (Hmod & Hlt & _).
  assert (Hnz : 2 ^ k <> 0) by (apply N.pow_nonzero; lia).
  unfold wseq, walign in H. destruct (N.eqb_spec (2 ^ k) 0); [contradiction|].
  destruct (N.eqb_spec (pad_align_to pos (2 ^ k)) 0) as [Hz|Hz].
  - cbn [evs_len app] in H. inv H. cbn [layout_ok]. rewrite Ht.
    rewrite Hz, N.add_0_r in Hmod. auto.
  - cbn [evs_len ev_len app] in H. inv H. cbn [layout_ok ev_len]. rewrite Ht.
    repeat split; auto; lia.
Qed.

Lemma LOK_align_only u : is_pow2 u = true -> LOK (walign u).
Proof.
  intros Hu pos evs o H.
  destruct (is_pow2_exp _ Hu) as (k & Hk & ->).
  destruct (pad_align_to_spec pos k Hk) as (Hmod & Hlt & _).
  assert (Hnz : 2 ^ k <> 0) by (apply N.pow_nonzero; lia).
  unfold walign in H. destruct (N.eqb_spec (2 ^ k) 0); [contradiction|].
  destruct (N.eqb_spec (pad_align_to pos (2 ^ k)) 0) as [Hz|Hz]; inv H; cbn [layout_ok]; auto.
  repeat split; auto; lia.
Qed.

Lemma LOK_zero pf t v : is_pow2 (unit_of t) = true -> LOK (wzero pf t v).
Proof.
  intros Hu. unfold wzero. destruct (is_zc_const t); [|apply LOK_panic].
  apply (LOK_align_block (unit_of t) t (fun pos => mem_repr pf pos t v)); auto.
Qed.

Lemma LOK_slice_zero pf t l : is_pow2 (unit_of t) = true -> LOK (wslice_zero pf t l).
Proof.
  intros Hu. unfold wslice_zero. destruct (is_zc_const t); [|apply LOK_panic].
  intros pos evs o H. rewrite wseq_assoc in H. revert pos evs o H.
  apply LOK_seq; [apply LOK_usize|].
  apply (LOK_align_block (unit_of t) t
           (fun pos => mem_repr_list (fun p x => mem_repr pf p t x) (size_of t) pos l)); auto.
Qed.

Lemma LOK_bytes l : LOK (wbytes_zero l).
Proof.
  unfold wbytes_zero. intros pos evs o H. rewrite wseq_assoc in H. revert pos evs o H.
  apply LOK_seq; [apply LOK_usize|].
  apply (LOK_align_block 1 TU8 (fun _ => l)); reflexivity.
Qed.

Theorem layout_ok_all :
  (forall t pf v, units_pow2 t = true -> LOK (ser pf t v)) /\
  (forall fs pf named vals, units_pow2_fields fs = true -> LOK (ser_fields pf named fs vals)) /\
  (forall vs pf k vals, units_pow2_variants vs = true -> LOK (ser_variants pf vs k vals)).
Proof.
  apply ty_fields_variants_ind.
  - intros p pf v Hu. cbn [ser]. apply LOK_ev. exact I.
  - intros pf v Hu. apply LOK_done.
  - intros t IH pf v Hu. apply LOK_done.
  - intros pf v Hu. cbn [ser]. destruct v; try apply LOK_panic. apply LOK_bytes.
  - intros pf v Hu. cbn [ser]. destruct v; try apply LOK_panic. apply LOK_bytes.
  - intros t IH pf v Hu. cbn [units_pow2] in Hu. split_and. cbn [ser].
    destruct (is_zc t); [apply LOK_slice_zero; assumption|].
    apply LOK_seq; [apply LOK_usize|apply LOK_list; intros x; apply IH; assumption].
  - intros t IH pf v Hu. cbn [units_pow2] in Hu. split_and. cbn [ser].
    destruct (is_zc t); [apply LOK_slice_zero; assumption|].
    apply LOK_seq; [apply LOK_usize|apply LOK_list; intros x; apply IH; assumption].
  - intros t IH pf v Hu. cbn [units_pow2] in Hu. split_and. cbn [ser].
    apply LOK_seq; [apply LOK_seq; [apply LOK_ev; exact I|]|apply LOK_ev; exact I].
    destruct (is_zc t); [apply LOK_slice_zero; assumption|].
    apply LOK_seq; [apply LOK_usize|apply LOK_list; intros x; apply IH; assumption].
  - intros t IH pf v Hu. cbn [units_pow2] in Hu. split_and. cbn [ser].
    destruct (is_zc_const t); [|apply LOK_panic].
    repeat apply LOK_seq; [apply LOK_usize|apply LOK_align_only; assumption|apply LOK_items|].
    intros pos evs o Hrun. destruct (nlen (vseq_items v) =? vtag v); inv Hrun; exact I.
  - intros n t IH pf v Hu. cbn [units_pow2] in Hu. split_and. cbn [ser].
    destruct (is_zc t); [apply LOK_zero; assumption|apply LOK_list; intros x; apply IH; assumption].
  - intros n t IH pf v Hu. cbn [units_pow2] in Hu. split_and. cbn [ser]. apply LOK_zero; assumption.
  - intros t IH pf v Hu. cbn [units_pow2] in Hu. split_and. cbn [ser].
    destruct (vtag v); [apply LOK_u8|]. apply LOK_seq; [apply LOK_u8|apply LOK_field, IH; assumption].
  - intros t IH pf v Hu. cbn [units_pow2] in Hu. split_and. cbn [ser].
    destruct (vtag v) as [|[p|p|]]; try apply LOK_u8;
      (apply LOK_seq; [apply LOK_u8|apply LOK_field, IH; assumption]).
  - intros b IHb c IHc pf v Hu. cbn [units_pow2] in Hu. split_and. cbn [ser].
    destruct (vtag v); (apply LOK_seq; [apply LOK_u8|apply LOK_field; auto]).
  - intros k t IH pf v Hu. cbn [units_pow2] in Hu. split_and. cbn [ser].
    destruct k; repeat apply LOK_seq; try (apply LOK_field, IH; assumption).
    apply LOK_field, LOK_ev. exact I.
  - intros pf v Hu. apply LOK_done.
  - intros i fs IH pf v Hu. cbn [units_pow2] in Hu. split_and. cbn [ser].
    destruct (a_zc i); [apply LOK_zero; assumption|apply IH; assumption].
  - intros i vs IH pf v Hu. cbn [units_pow2] in Hu. split_and. cbn [ser].
    destruct (a_zc i); [apply LOK_zero; assumption|].
    apply LOK_seq; [apply LOK_usize|apply IH; assumption].
  - intros pf named vals Hu. apply LOK_done.
  - intros nm isp t IHt r IHr pf named vals Hu. cbn [units_pow2_fields] in Hu. split_and. cbn [ser_fields].
    apply LOK_seq; [apply LOK_field, IHt; assumption|apply IHr; assumption].
  - intros pf k vals Hu. apply LOK_done.
  - intros nm named fs IHf r IHr pf k vals Hu. cbn [units_pow2_variants] in Hu. split_and. cbn [ser_variants].
    destruct (k =? 0); [apply IHf|apply IHr]; assumption.
Qed.

Theorem layout_top pf h t v :
  units_pow2 t = true -> layout_ok 0 (fst (ser_top pf h t v)).
Proof.
  intros Hu. destruct (ser_top pf h t v) as [evs o] eqn:E. cbn [fst].
  revert E. unfold ser_top. generalize 0 as pos. intros pos. revert pos evs o.
  unfold header_w.
  repeat apply LOK_seq; try (apply LOK_field; try (apply LOK_ev; exact I)); try (apply LOK_ev; exact I).
  - apply LOK_bytes.
  - now apply (proj1 layout_ok_all).
Qed.

(* ------------------------------------------------------------------ facts about units *)

(* zero-copy types that contain no range type: their unit is a power of two no smaller than
   their alignment and than the unit of each field *)
Fixpoint range_free (t : ty) : bool :=
  match t with
  | TRange _ _ => false
  | TArray _ t' | TTuple _ t' => range_free t'
  | TStruct _ fs => range_free_fields fs
  | TEnum _ vs => range_free_variants vs
  | _ => true
  end
with range_free_fields (fs : fields) : bool :=
  match fs with FNil => true | FCons _ _ t r => range_free t && range_free_fields r end
with range_free_variants (vs : variants) : bool :=
  match vs with VNil => true | VCons _ _ fs r => range_free_fields fs && range_free_variants r end.

Theorem unit_ge_align :
  (forall t, zc_ok t = true -> range_free t = true -> align_of t <= unit_of t) /\
  (forall fs : fields, True) /\ (forall vs : variants, True).
Proof.
  apply ty_fields_variants_ind; intros; auto; cbn [zc_ok range_free align_of unit_of] in *; try discriminate; try lia.
Qed.

Lemma unit_field_le_struct i nm isp t r : unit_of t <= unit_of (TStruct i (FCons nm isp t r)).
Proof. cbn [unit_of unit_fields]. lia. Qed.
