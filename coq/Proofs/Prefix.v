(* C11 (truncated streams) and the suffix-independence used by C08: every reader of the model
   consumes a prefix of its input, does not depend on what follows it, and fails on every strict
   prefix of what it consumes -- with ReadError (full-copy, through read_exact) or with ReadError
   or a panic (eps-copy, through slice indexing), never with a value. *)
Require Import EV.Base.Tac EV.Base.Bytes EV.Base.Res EV.Base.ListX.
Require Import EV.Model.Arith64 EV.Model.Types EV.Model.Layout EV.Model.Deser EV.Model.Header.
Require Import EV.Proofs.Monads.

(* [a'] is a strict prefix of [a] *)
Definition sprefix {A} (a' a : list A) : Prop := exists c, a = a' ++ c /\ c <> [].

(* failure classes *)
Definition fail_full {A} (r : res A) : Prop := r = Err ReadError.
Definition fail_eps {A} (r : res A) : Prop := r = Err ReadError \/ exists w, r = Panic w.

(* [Strict bad r]: whenever [r] succeeds it consumed a prefix [a] of its input, it returns the same
   result whatever follows [a], and on every strict prefix of [a] alone it fails within [bad] *)
Definition Strict {A} (bad : res (A * list byte * N) -> Prop) (r : R A) : Prop :=
  forall i p x i' p',
    r i p = Ok (x, i', p') ->
    exists a, i = a ++ i' /\ p' = p + nlen a /\
              (forall j, r (a ++ j) p = Ok (x, j, p + nlen a)) /\
              (forall a', sprefix a' a -> bad (r a' p)).

(* ------------------------------------------------------------------ list facts *)

Lemma nlen_nonnil {A} (c : list A) : c <> [] -> nlen c <> 0.
Proof. destruct c as [|x c]; [congruence|]. intros _. unfold nlen. cbn [length]. lia. Qed.

Lemma nonnil_nlen {A} (c : list A) : nlen c <> 0 -> c <> [].
Proof. intros H ->. apply H. reflexivity. Qed.

Lemma sprefix_nil {A} (a' : list A) : ~ sprefix a' [].
Proof.
  intros (c & Hc & Hne). symmetry in Hc. apply app_eq_nil in Hc. destruct Hc as [_ Hc]. contradiction.
Qed.

Lemma sprefix_app {A} (a1 a2 a' : list A) :
  sprefix a' (a1 ++ a2) -> sprefix a' a1 \/ exists a2', a' = a1 ++ a2' /\ sprefix a2' a2.
Proof.
  revert a'. induction a1 as [|x a1 IH]; intros a' Hs.
  - right. exists a'. split; [reflexivity|exact Hs].
  - destruct a' as [|y a''].
    + left. exists (x :: a1). split; [reflexivity|discriminate].
    + destruct Hs as (c & Hc & Hne). cbn [app] in Hc. injection Hc as Hxy Hc. subst y.
      destruct (IH a'') as [(c1 & Hc1 & Hne1) | (a2' & Ha2 & Hs2)].
      * exists c. split; assumption.
      * left. exists c1. split; [cbn [app]; now rewrite Hc1|exact Hne1].
      * right. exists a2'. split; [cbn [app]; now rewrite Ha2|exact Hs2].
Qed.

Lemma sprefix_ntake {A} k (l : list A) : k < nlen l -> sprefix (ntake k l) l.
Proof.
  intros Hk. exists (ndrop k l). split; [symmetry; apply ntake_ndrop|].
  apply nonnil_nlen. rewrite nlen_ndrop. lia.
Qed.

(* ------------------------------------------------------------------ generic closure lemmas *)

(* a failure class, as a family over result types, closed under propagation through binds *)
Definition BadFam (bad : forall X, res X -> Prop) : Prop :=
  forall X Y (r : res X), bad X r ->
    (exists e, r = Err e /\ bad Y (Err e)) \/ (exists w, r = Panic w /\ bad Y (Panic w)).

Lemma BadFam_full : BadFam (@fail_full).
Proof.
  intros X Y r H. unfold fail_full in H. subst r. left. exists ReadError. split; reflexivity.
Qed.

Lemma BadFam_eps : BadFam (@fail_eps).
Proof.
  intros X Y r [H | (w & H)]; subst r.
  - left. exists ReadError. split; [reflexivity|]. left. reflexivity.
  - right. exists w. split; [reflexivity|]. right. exists w. reflexivity.
Qed.

Definition cut (n : N) (e : res (list byte * list byte * N)) : R (list byte) := fun i p =>
  if n <=? nlen i then Ok (ntake n i, ndrop n i, p + n) else e.

Section Gen.
  Variable bad : forall X, res X -> Prop.
  Hypothesis bad_closed : BadFam bad.
  Hypothesis bad_read : forall X, bad X (Err ReadError).

  Lemma Strict_ext_p {A} (r : R A) :
    (forall p, exists r' : R A, Strict (bad _) r' /\ forall i, r i p = r' i p) -> Strict (bad _) r.
  Proof.
    intros H i p x i' p' E. destruct (H p) as (r' & Hr' & Heq).
    rewrite Heq in E. destruct (Hr' _ _ _ _ _ E) as (a & Hi & Hp & Hj & Hb).
    exists a. split; [exact Hi|]. split; [exact Hp|]. split.
    - intros j. rewrite Heq. apply Hj.
    - intros a' Hs. rewrite Heq. apply Hb. exact Hs.
  Qed.

  Lemma Strict_pure {A} (r : R A) :
    (forall i p x i' p', r i p = Ok (x, i', p') -> i' = i /\ p' = p /\ forall j, r j p = Ok (x, j, p)) ->
    Strict (bad _) r.
  Proof.
    intros H i p x i' p' E. destruct (H _ _ _ _ _ E) as (Hi & Hp & Hj). subst i' p'.
    exists []. split; [reflexivity|]. change (nlen (@nil byte)) with 0. rewrite N.add_0_r.
    split; [reflexivity|]. split; [intros j; apply Hj|].
    intros a' Hs. exfalso. exact (sprefix_nil _ Hs).
  Qed.

  Lemma Strict_never {A} (r : R A) :
    (forall i p x i' p', r i p <> Ok (x, i', p')) -> Strict (bad _) r.
  Proof. intros H i p x i' p' E. exfalso. exact (H _ _ _ _ _ E). Qed.

  Lemma Strict_ret {A} (a : A) : Strict (bad _) (rret a).
  Proof.
    apply Strict_pure. unfold rret. intros i p x i' p' E. inv E. auto.
  Qed.

  Lemma Strict_err {A} e : Strict (bad _) (@rerr A e).
  Proof. apply Strict_never. unfold rerr. intros; discriminate. Qed.

  Lemma Strict_panic {A} w : Strict (bad _) (@rpanic A w).
  Proof. apply Strict_never. unfold rpanic. intros; discriminate. Qed.

  Lemma Strict_rpos : Strict (bad _) rpos.
  Proof. apply Strict_pure. unfold rpos. intros i p x i' p' E. inv E. auto. Qed.

  Lemma Strict_rlift {A} (r : res A) : Strict (bad _) (rlift r).
  Proof.
    apply Strict_pure. unfold rlift. intros i p x i' p' E. destruct r; inv E. auto.
  Qed.

  Lemma Strict_bind {A B} (r : R A) (f : A -> R B) :
    Strict (bad _) r -> (forall x, Strict (bad _) (f x)) -> Strict (bad _) (rbind r f).
  Proof.
    intros Hr Hf i p y i2 p2 H.
    apply rbind_ok in H. destruct H as (x & i1 & p1 & H1 & H2).
    destruct (Hr _ _ _ _ _ H1) as (a1 & Hi & Hp & E1 & B1). subst i p1.
    destruct (Hf x _ _ _ _ _ H2) as (a2 & Hi & Hp & E2 & B2). subst i1 p2.
    exists (a1 ++ a2). split; [apply app_assoc|]. split; [rewrite nlen_app; lia|]. split.
    - intros j. rewrite <- app_assoc. rewrite (rbind_eq _ _ _ _ _ _ _ (E1 (a2 ++ j))).
      rewrite E2. rewrite nlen_app. f_equal. f_equal. lia.
    - intros a' Hs. apply sprefix_app in Hs. destruct Hs as [Hs | (a2' & Ha & Hs)].
      + apply B1 in Hs. unfold rbind.
        destruct (bad_closed _ (B * list byte * N)%type _ Hs) as [(e & He & Hb) | (w & Hw & Hb)].
        * rewrite He. exact Hb.
        * rewrite Hw. exact Hb.
      + subst a'. rewrite (rbind_eq _ _ _ _ _ _ _ (E1 a2')). apply B2. exact Hs.
  Qed.

  Lemma Strict_cut n e : bad _ e -> Strict (bad _) (cut n e).
  Proof.
    intros He i p x i' p' H. unfold cut in H.
    destruct (N.leb_spec n (nlen i)) as [Hle|Hlt].
    2:{ exfalso. rewrite H in He. destruct (bad_closed _ unit _ He) as [(e0 & E0 & _)|(w & E0 & _)]; discriminate. }
    inv H.
    assert (Hn : nlen (ntake n i) = n) by (rewrite nlen_ntake; lia).
    exists (ntake n i). split; [symmetry; apply ntake_ndrop|]. rewrite Hn. split; [reflexivity|]. split.
    - intros j. unfold cut. rewrite nlen_app, Hn.
      destruct (N.leb_spec n (n + nlen j)); [|lia].
      rewrite ntake_app_le, ndrop_app_le by lia.
      rewrite ntake_ntake, N.min_id. rewrite ndrop_all by lia. reflexivity.
    - intros a' (c & Hc & Hne). unfold cut.
      apply nlen_nonnil in Hne.
      assert (nlen (ntake n i) = nlen a' + nlen c) by (rewrite Hc; apply nlen_app).
      destruct (N.leb_spec n (nlen a')); [lia|]. exact He.
  Qed.

  Lemma Strict_read_exact n : Strict (bad _) (read_exact n).
  Proof.
    apply Strict_ext_p. intros p. exists (cut n (Err ReadError)). split; [apply Strict_cut; apply bad_read|].
    intros i. apply read_exact_eq.
  Qed.

  Lemma Strict_take_slice n : bad _ (@Panic (list byte * list byte * N) PBounds) -> Strict (bad _) (take_slice n).
  Proof.
    intros H. apply Strict_ext_p. intros p. exists (cut n (Panic PBounds)). split; [apply Strict_cut; exact H|].
    intros i. apply take_slice_eq.
  Qed.

  Lemma Strict_rrepeat (r : R val) k : Strict (bad _) r -> Strict (bad _) (rrepeat r k).
  Proof.
    intros Hr. induction k as [|k IH]; cbn [rrepeat].
    - apply Strict_ret.
    - apply Strict_bind; [exact Hr|intros x]. apply Strict_bind; [exact IH|intros xs]. apply Strict_ret.
  Qed.

  Ltac sstep :=
    match goal with
    | |- Strict _ (rbind _ _) => apply Strict_bind; [|intros ?]
    | |- Strict _ (rret _) => apply Strict_ret
    | |- Strict _ (rerr _) => apply Strict_err
    | |- Strict _ (rpanic _) => apply Strict_panic
    | |- Strict _ (read_exact _) => apply Strict_read_exact
    | |- Strict _ rpos => apply Strict_rpos
    | |- Strict _ (rlift _) => apply Strict_rlift
    | |- Strict _ (rrepeat _ _) => apply Strict_rrepeat
    | H : _ |- Strict _ _ => solve [apply H]
    | |- Strict _ (if ?b then _ else _) => destruct b
    | |- Strict _ (match ?x with _ => _ end) => destruct x
    end.

  Lemma Strict_rusize : Strict (bad _) rusize.
  Proof. unfold rusize. repeat sstep. Qed.

  Lemma Strict_ru8 : Strict (bad _) ru8.
  Proof. unfold ru8. repeat sstep. Qed.

  Lemma Strict_rprim_full p : Strict (bad _) (rprim_full p).
  Proof. unfold rprim_full. repeat sstep. Qed.

  Lemma Strict_ralign_none u : Strict (bad _) (ralign None u).
  Proof.
    apply Strict_ext_p. intros p. destruct (u =? 0) eqn:E.
    - exists (rpanic PArith). split; [apply Strict_panic|]. intros i. unfold ralign, rpanic. now rewrite E.
    - exists (rbind (read_exact (pad_align_to p u)) (fun _ => rret tt)). split; [repeat sstep|].
      intros i. unfold ralign, rbind, rret. rewrite E.
      destruct (read_exact (pad_align_to p u) i p) as [[[x i1] p1]|e|w]; reflexivity.
  Qed.

  Lemma Strict_ralign_some base u :
    (forall n, Strict (bad _) (take_slice n)) -> Strict (bad _) (ralign (Some base) u).
  Proof.
    intros Htake. apply Strict_ext_p. intros p. destruct (u =? 0) eqn:E.
    - exists (rpanic PArith). split; [apply Strict_panic|]. intros i. unfold ralign, rpanic. now rewrite E.
    - exists (rbind (take_slice (pad_align_to p u))
                (fun _ => if (base + (p + pad_align_to p u)) mod u =? 0 then rret tt else rerr AlignmentError)).
      split; [repeat sstep|].
      intros i. unfold rbind. rewrite ralign_eq, take_slice_eq. unfold rret, rerr. cbv zeta. rewrite E.
      destruct (pad_align_to p u <=? nlen i); [|reflexivity].
      destruct ((base + (p + pad_align_to p u)) mod u =? 0); reflexivity.
  Qed.

  Ltac sstep2 :=
    first [ apply Strict_rusize | apply Strict_ru8 | apply Strict_rprim_full | sstep ].

  (* ---------------------------------------------------------------- full-copy readers *)
  Section Full.
    Variable rk : rkind_t.
    Hypothesis Halign : forall u, Strict (bad _) (ralign rk u).

    Lemma Strict_full_zero t : Strict (bad _) (full_zero rk t).
    Proof. unfold full_zero. repeat sstep2. Qed.

    Lemma Strict_full_vec_zero t : Strict (bad _) (full_vec_zero rk t).
    Proof. unfold full_vec_zero. repeat sstep2. Qed.

    Lemma Strict_full_string : Strict (bad _) (full_string rk).
    Proof. unfold full_string. repeat sstep2. Qed.

    Ltac fstep :=
      first [ apply Strict_full_zero | apply Strict_full_vec_zero | apply Strict_full_string | sstep2 ].

    Theorem strict_full_gen :
      (forall t, Strict (bad _) (deser_full rk t)) /\
      (forall fs, Strict (bad _) (deser_full_fields rk fs)) /\
      (forall vs, forall k tag, Strict (bad _) (deser_full_variants rk vs k tag)).
    Proof.
      apply ty_fields_variants_ind; intros;
        cbn [deser_full deser_full_fields deser_full_variants]; repeat fstep.
    Qed.

    Theorem strict_header_gen h : Strict (bad _) (check_header rk h).
    Proof. unfold check_header. repeat fstep. Qed.
  End Full.

  (* ---------------------------------------------------------------- eps-copy readers *)
  Section Eps.
    Variable base : N.
    Hypothesis Htake : forall n, Strict (bad _) (take_slice n).
    Hypothesis Halign : forall u, Strict (bad _) (ralign (Some base) u).

    Lemma Strict_rprim_eps p : Strict (bad _) (rprim_eps p).
    Proof. unfold rprim_eps. repeat sstep2. Qed.

    Lemma Strict_eps_zero t : Strict (bad _) (eps_zero base t).
    Proof. unfold eps_zero. repeat sstep2. Qed.

    Lemma Strict_eps_slice_zero t : Strict (bad _) (eps_slice_zero base t).
    Proof. unfold eps_slice_zero. repeat sstep2. Qed.

    Lemma Strict_eps_string : Strict (bad _) (eps_string base).
    Proof. unfold eps_string. repeat sstep2. Qed.

    Ltac estep :=
      first [ apply Strict_rprim_eps | apply Strict_eps_zero | apply Strict_eps_slice_zero
            | apply Strict_eps_string | sstep2 ].

    Theorem strict_eps_gen :
      (forall t, Strict (bad _) (deser_eps base t)) /\
      (forall fs, Strict (bad _) (deser_eps_fields base fs)) /\
      (forall vs, forall k tag, Strict (bad _) (deser_eps_variants base vs k tag)).
    Proof.
      destruct (strict_full_gen (Some base) Halign) as (HF & _ & _).
      apply ty_fields_variants_ind; intros;
        cbn [deser_eps deser_eps_fields deser_eps_variants]; repeat estep.
    Qed.
  End Eps.
End Gen.

Lemma read_full X : @fail_full X (Err ReadError).
Proof. reflexivity. Qed.

Lemma read_eps X : @fail_eps X (Err ReadError).
Proof. left. reflexivity. Qed.

Lemma take_eps n : Strict fail_eps (take_slice n).
Proof.
  apply (Strict_take_slice (@fail_eps) BadFam_eps). right. exists PBounds. reflexivity.
Qed.

Lemma align_eps base u : Strict fail_eps (ralign (Some base) u).
Proof. apply (Strict_ralign_some (@fail_eps) BadFam_eps). exact take_eps. Qed.

Theorem strict_full :
  (forall t, Strict fail_full (deser_full None t)) /\
  (forall fs, Strict fail_full (deser_full_fields None fs)) /\
  (forall vs, forall k tag, Strict fail_full (deser_full_variants None vs k tag)).
Proof.
  exact (strict_full_gen (@fail_full) BadFam_full read_full None
           (Strict_ralign_none (@fail_full) BadFam_full read_full)).
Qed.

(* full-copy readers run on a SliceWithPos (fields of an eps-copy deserialization that are fully
   deserialized) fail within the eps class *)
Theorem strict_full_on_slice base :
  (forall t, Strict fail_eps (deser_full (Some base) t)) /\
  (forall fs, Strict fail_eps (deser_full_fields (Some base) fs)) /\
  (forall vs, forall k tag, Strict fail_eps (deser_full_variants (Some base) vs k tag)).
Proof.
  exact (strict_full_gen (@fail_eps) BadFam_eps read_eps (Some base) (align_eps base)).
Qed.

Theorem strict_eps base :
  (forall t, Strict fail_eps (deser_eps base t)) /\
  (forall fs, Strict fail_eps (deser_eps_fields base fs)) /\
  (forall vs, forall k tag, Strict fail_eps (deser_eps_variants base vs k tag)).
Proof.
  exact (strict_eps_gen (@fail_eps) BadFam_eps read_eps base take_eps (align_eps base)).
Qed.

Theorem strict_header_full h : Strict fail_full (check_header None h).
Proof.
  exact (strict_header_gen (@fail_full) BadFam_full read_full None
           (Strict_ralign_none (@fail_full) BadFam_full read_full) h).
Qed.

Theorem strict_header_eps base h : Strict fail_eps (check_header (Some base) h).
Proof.
  exact (strict_header_gen (@fail_eps) BadFam_eps read_eps (Some base) (align_eps base) h).
Qed.

Lemma strict_top_full h t :
  Strict fail_full (let+ _ := check_header None h in deser_full None t).
Proof.
  apply (Strict_bind (@fail_full) BadFam_full); [apply strict_header_full|].
  intros _. apply strict_full.
Qed.

Lemma strict_top_eps base h t :
  Strict fail_eps (let+ _ := check_header (Some base) h in deser_eps base t).
Proof.
  apply (Strict_bind (@fail_eps) BadFam_eps); [apply strict_header_eps|].
  intros _. apply strict_eps.
Qed.

(* ---------------------------------------------------------------- the property-level statements *)

(* A strict prefix of a stream that full-copy deserializes (consuming all of it) yields ReadError *)
Theorem truncated_full h t bs v :
  deser_full_top h t bs = Ok (v, [], nlen bs) ->
  forall k, k < nlen bs -> deser_full_top h t (ntake k bs) = Err ReadError.
Proof.
  intros H k Hk. unfold deser_full_top in *.
  destruct (strict_top_full h t _ _ _ _ _ H) as (a & Ha & _ & _ & HB).
  rewrite app_nil_r in Ha. subst a.
  exact (HB _ (sprefix_ntake k bs Hk)).
Qed.

(* ... and in eps-copy mode a read error or a (bounds-check) panic: never a value, never an
   alignment error *)
Theorem truncated_eps base h t bs v :
  deser_eps_top base h t bs = Ok (v, [], nlen bs) ->
  forall k, k < nlen bs ->
    deser_eps_top base h t (ntake k bs) = Err ReadError \/ exists w, deser_eps_top base h t (ntake k bs) = Panic w.
Proof.
  intros H k Hk. unfold deser_eps_top in *.
  destruct (strict_top_eps base h t _ _ _ _ _ H) as (a & Ha & _ & _ & HB).
  rewrite app_nil_r in Ha. subst a.
  exact (HB _ (sprefix_ntake k bs Hk)).
Qed.

(* bytes after the end of a valid stream are never looked at (used by the file loaders, C08) *)
Theorem eps_extension base h t bs v :
  deser_eps_top base h t bs = Ok (v, [], nlen bs) ->
  forall ext, deser_eps_top base h t (bs ++ ext) = Ok (v, ext, nlen bs).
Proof.
  intros H ext. unfold deser_eps_top in *.
  destruct (strict_top_eps base h t _ _ _ _ _ H) as (a & Ha & _ & HE & _).
  rewrite app_nil_r in Ha. subst a.
  rewrite HE. now rewrite N.add_0_l.
Qed.

Theorem full_extension h t bs v :
  deser_full_top h t bs = Ok (v, [], nlen bs) ->
  forall ext, deser_full_top h t (bs ++ ext) = Ok (v, ext, nlen bs).
Proof.
  intros H ext. unfold deser_full_top in *.
  destruct (strict_top_full h t _ _ _ _ _ H) as (a & Ha & _ & HE & _).
  rewrite app_nil_r in Ha. subst a.
  rewrite HE. now rewrite N.add_0_l.
Qed.
