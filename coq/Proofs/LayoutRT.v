(* The in-memory representation of zero-copy values: length and decode-after-encode. *)
Require Import EV.Base.Tac EV.Base.Bytes EV.Base.Res EV.Base.ListX.
Require Import EV.Model.Arith64 EV.Model.Types EV.Model.Layout EV.Model.Deser EV.Model.Typing.

(* ------------------------------------------------------------------ arithmetic helpers *)

Lemma round_up_ge x a : 0 < a -> x <= round_up x a.
Proof.
  intros Ha. unfold round_up.
  assert (Ha0 : a <> 0) by lia.
  pose proof (N.div_mod (x + a - 1) a Ha0) as Hdm.
  pose proof (N.mod_lt (x + a - 1) a Ha0) as Hlt.
  set (q := (x + a - 1) / a) in *. set (r := (x + a - 1) mod a) in *.
  nia.
Qed.

Lemma psize_ge1 p : 1 <= psize p.
Proof. destruct p as [i|i| | | |]; try destruct i; cbn [psize isize]; lia. Qed.

Lemma align_ge1_all :
  (forall t, 1 <= align_of t) /\ (forall fs, 1 <= align_fields fs) /\ (forall vs, 1 <= align_variants vs).
Proof.
  apply ty_fields_variants_ind; intros; cbn [align_of align_fields align_variants]; try lia.
  apply psize_ge1.
Qed.

Lemma align_of_ge1 t : 1 <= align_of t.
Proof. apply align_ge1_all. Qed.
Lemma align_fields_ge1 fs : 1 <= align_fields fs.
Proof. apply align_ge1_all. Qed.
Lemma align_variants_ge1 vs : 1 <= align_variants vs.
Proof. apply align_ge1_all. Qed.

(* ------------------------------------------------------------------ list helpers *)

Lemma nlen_pad_bytes pf pos n : nlen (pad_bytes pf pos n) = n.
Proof. unfold nlen, pad_bytes. rewrite map_length, seq_length. lia. Qed.

Lemma nlen_le_bytes k n : nlen (le_bytes k n) = N.of_nat k.
Proof. unfold nlen. now rewrite le_bytes_length. Qed.

Lemma nlen_nil {A} : nlen (@nil A) = 0.
Proof. reflexivity. Qed.

Lemma nlen_cons {A} (x : A) l : nlen (x :: l) = 1 + nlen l.
Proof. unfold nlen. cbn [length]. lia. Qed.

Lemma ntake_app_exact {A} n (a b : list A) : nlen a = n -> ntake n (a ++ b) = a.
Proof.
  intros H. rewrite ntake_app_ge by lia. rewrite H, N.sub_diag, ntake_0. apply app_nil_r.
Qed.

Lemma ndrop_app_exact {A} n (a b : list A) : nlen a = n -> ndrop n (a ++ b) = b.
Proof.
  intros H. rewrite ndrop_app_ge by lia. rewrite H, N.sub_diag. apply ndrop_0.
Qed.

(* ------------------------------------------------------------------ typing helpers *)

Lemma wt_variants_lt vs : forall k l, wt_variants vs k l = true -> k < variants_len vs.
Proof.
  induction vs as [|vn nm fs r IH]; intros k l H; cbn [wt_variants variants_len] in *.
  - discriminate.
  - destruct (N.eqb_spec k 0) as [E|E]; [lia|].
    apply IH in H. lia.
Qed.

Lemma wt_variants_nofields vs : forall k l,
  variants_have_fields vs = false -> wt_variants vs k l = true -> l = [].
Proof.
  induction vs as [|vn nm fs r IH]; intros k l Hv H; cbn [wt_variants variants_have_fields] in *.
  - discriminate.
  - destruct fs as [|fn ip t fr]; [|discriminate].
    destruct (k =? 0).
    + cbn [wt_fields] in H. destruct l; [reflexivity|discriminate].
    + eapply IH; eassumption.
Qed.

(* ------------------------------------------------------------------ the mutual statement *)

Definition Pt (t : ty) : Prop := forall pf pos v rest,
  zc_ok t = true -> wf t = true -> wt t v = true ->
  nlen (mem_repr pf pos t v) = size_of t /\
  mem_decode t (mem_repr pf pos t v ++ rest) = v.

Definition Pf (fs : fields) : Prop := forall pf pos cur vals pre rest,
  zc_ok_fields fs = true -> wf_fields fs = true -> wt_fields fs vals = true ->
  nlen pre = cur ->
  cur <= end_fields fs cur /\
  nlen (mem_repr_fields pf pos fs cur vals) = end_fields fs cur - cur /\
  mem_decode_fields fs cur (pre ++ mem_repr_fields pf pos fs cur vals ++ rest) = vals.

Definition Pv (vs : variants) : Prop := forall pf pos k vals rest,
  zc_ok_variants vs = true -> wf_variants vs = true -> wt_variants vs k vals = true ->
  nlen (mem_repr_variants pf pos vs k vals) <= size_variants vs /\
  mem_decode_variants vs k (mem_repr_variants pf pos vs k vals ++ rest) = vals.

Lemma list_len_of t : Pt t -> zc_ok t = true -> wf t = true ->
  forall l pf pos, forallb (wt t) l = true ->
  nlen (mem_repr_list (fun p x => mem_repr pf p t x) (size_of t) pos l) = nlen l * size_of t.
Proof.
  intros HP Hzc Hwf. induction l as [|x l IH]; intros pf pos Hall; cbn [mem_repr_list forallb] in *.
  - unfold nlen. cbn [length]. lia.
  - apply andb_true_iff in Hall. destruct Hall as [Hx Hl].
    rewrite nlen_app, nlen_cons, IH by assumption.
    destruct (HP pf pos x [] Hzc Hwf Hx) as [Hlen _]. rewrite Hlen, N.mul_add_distr_r. lia.
Qed.

Lemma list_decode_of t : Pt t -> zc_ok t = true -> wf t = true ->
  forall l pf pos rest, forallb (wt t) l = true ->
  decode_n (mem_decode t) (size_of t) (length l)
    (mem_repr_list (fun p x => mem_repr pf p t x) (size_of t) pos l ++ rest) = l.
Proof.
  intros HP Hzc Hwf. induction l as [|x l IH]; intros pf pos rest Hall;
    cbn [mem_repr_list forallb length decode_n] in *.
  - reflexivity.
  - apply andb_true_iff in Hall. destruct Hall as [Hx Hl].
    destruct (HP pf pos x [] Hzc Hwf Hx) as [Hlen Hdec].
    rewrite <- app_assoc.
    rewrite ntake_app_exact, ndrop_app_exact by assumption.
    f_equal.
    + rewrite app_nil_r in Hdec. exact Hdec.
    + apply IH. assumption.
Qed.

Lemma Pt_prim p : Pt (TPrim p).
Proof.
  intros pf pos v rest _ _ Hwt. cbn [wt] in Hwt.
  destruct v as [n| | | |]; try discriminate.
  unfold prim_ok in Hwt. apply andb_true_iff in Hwt. destruct Hwt as [Hn _].
  apply N.ltb_lt in Hn.
  cbn [mem_repr mem_decode size_of vnum].
  assert (Hlen : nlen (le_bytes (N.to_nat (psize p)) n) = psize p).
  { rewrite nlen_le_bytes. apply N2Nat.id. }
  split; [exact Hlen|].
  rewrite ntake_app_exact by exact Hlen.
  rewrite le_val_bytes_small; [reflexivity|].
  rewrite N2Nat.id. change 256 with (2 ^ 8). rewrite <- N.pow_mul_r. exact Hn.
Qed.

Lemma Pt_seq_list n t l pf pos rest : Pt t -> zc_ok t = true -> wf t = true ->
  (nlen l =? n) && forallb (wt t) l = true ->
  nlen (mem_repr_list (fun p x => mem_repr pf p t x) (size_of t) pos l) = n * size_of t /\
  VSeq (decode_n (mem_decode t) (size_of t) (N.to_nat n)
         (mem_repr_list (fun p x => mem_repr pf p t x) (size_of t) pos l ++ rest)) = VSeq l.
Proof.
  intros HP Hzc Hwf H. apply andb_true_iff in H. destruct H as [Hn Hall].
  apply N.eqb_eq in Hn. split.
  - rewrite list_len_of by assumption. now rewrite Hn.
  - f_equal. replace (N.to_nat n) with (length l) by (unfold nlen in Hn; lia).
    apply list_decode_of; assumption.
Qed.

Lemma Pt_array n t : Pt t -> Pt (TArray n t).
Proof.
  intros IH pf pos v rest Hzc Hwf Hwt.
  cbn [zc_ok] in Hzc. cbn [wf] in Hwf.
  apply andb_true_iff in Hwf. destruct Hwf as [Hwf _].
  apply andb_true_iff in Hwf. destruct Hwf as [Hwf _].
  cbn [wt] in Hwt. destruct v as [| |l| |]; try discriminate.
  cbn [mem_repr mem_decode size_of vseq_items].
  apply Pt_seq_list; assumption.
Qed.

Lemma Pt_tuple n t : Pt t -> Pt (TTuple n t).
Proof.
  intros IH pf pos v rest Hzc Hwf Hwt.
  cbn [zc_ok] in Hzc. cbn [wf] in Hwf.
  apply andb_true_iff in Hwf. destruct Hwf as [Hwf _].
  apply andb_true_iff in Hwf. destruct Hwf as [Hwf _].
  apply andb_true_iff in Hwf. destruct Hwf as [Hwf _].
  cbn [wt] in Hwt. destruct v as [| |l| |]; try discriminate.
  cbn [mem_repr mem_decode size_of vseq_items].
  apply Pt_seq_list; assumption.
Qed.

Lemma Pt_range k t : Pt t -> Pt (TRange k t).
Proof.
  intros IH pf pos v rest Hzc Hwf Hwt.
  cbn [wf] in Hwf. apply andb_true_iff in Hwf. destruct Hwf as [Hwf Hzc'].
  cbn [wt] in Hwt. destruct v as [| |l| |]; try discriminate.
  destruct k; cbn [zc_ok rkind_zc_ok andb] in Hzc; try discriminate;
    (destruct l as [|e [|e' l']]; try discriminate;
     cbn [mem_repr mem_decode size_of vseq_items hd];
     destruct (IH pf pos e rest Hzc' Hwf Hwt) as [Hlen Hdec];
     split; [exact Hlen | now rewrite Hdec]).
Qed.

Lemma Pt_struct i fs : Pf fs -> Pt (TStruct i fs).
Proof.
  intros IH pf pos v rest Hzc Hwf Hwt.
  cbn [zc_ok] in Hzc. apply andb_true_iff in Hzc. destruct Hzc as [Hz Hzf].
  cbn [wf] in Hwf. apply andb_true_iff in Hwf. destruct Hwf as [Hwff _].
  cbn [wt] in Hwt. destruct v as [| |l| |]; try discriminate.
  cbn [mem_repr mem_decode vseq_items].
  set (body := mem_repr_fields pf pos fs 0 l).
  set (sz := size_of (TStruct i fs)).
  set (pad := pad_bytes pf (pos + nlen body) (sz - nlen body)).
  destruct (IH pf pos 0 l [] (pad ++ rest) Hzf Hwff Hwt eq_refl) as (Hle & Hlen & Hdec).
  fold body in Hlen, Hdec.
  assert (Hsz : nlen body <= sz).
  { subst sz. cbn [size_of].
    pose proof (round_up_ge (end_fields fs 0) (align_of (TStruct i fs))) as Hr.
    pose proof (align_of_ge1 (TStruct i fs)). lia. }
  split.
  - subst pad. rewrite nlen_app, nlen_pad_bytes. lia.
  - rewrite <- app_assoc. f_equal. exact Hdec.
Qed.

Lemma Pt_enum i vs : Pv vs -> Pt (TEnum i vs).
Proof.
  intros IH pf pos v rest Hzc Hwf Hwt.
  cbn [zc_ok] in Hzc. apply andb_true_iff in Hzc. destruct Hzc as [Hz Hzv].
  cbn [wf] in Hwf. rewrite Hz in Hwf.
  apply andb_true_iff in Hwf. destruct Hwf as [Hwf Hwz].
  apply andb_true_iff in Hwf. destruct Hwf as [Hwf _].
  apply andb_true_iff in Hwf. destruct Hwf as [Hwfv _].
  apply andb_true_iff in Hwz. destruct Hwz as [Hwz _].
  apply andb_true_iff in Hwz. destruct Hwz as [_ H32].
  apply N.ltb_lt in H32.
  cbn [wt] in Hwt. destruct v as [| | |k l|]; try discriminate.
  apply andb_true_iff in Hwt. destruct Hwt as [_ Hwt].
  pose proof (wt_variants_lt vs k l Hwt) as Hk.
  assert (Htaglen : nlen (le_bytes 4 k) = 4) by (rewrite nlen_le_bytes; reflexivity).
  assert (Htagval : le_val (le_bytes 4 k) = k).
  { apply le_val_bytes_small. change 256 with (2 ^ 8). rewrite <- N.pow_mul_r.
    change (8 * N.of_nat 4) with 32. lia. }
  cbn [mem_repr mem_decode vtag vseq_items].
  set (sz := size_of (TEnum i vs)).
  assert (HA : 0 < align_of (TEnum i vs)) by (pose proof (align_of_ge1 (TEnum i vs)); lia).
  destruct (variants_have_fields vs) eqn:Hvf.
  - set (pa := align_variants vs).
    assert (Hpa : 0 < pa) by (pose proof (align_variants_ge1 vs); subst pa; lia).
    set (po := round_up 4 pa).
    assert (Hpo : 4 <= po) by (subst po; apply round_up_ge; assumption).
    set (mrv := mem_repr_variants pf (pos + po) vs k l).
    set (pad1 := pad_bytes pf (pos + 4) (po - 4)).
    set (body := le_bytes 4 k ++ pad1 ++ mrv).
    set (pad2 := pad_bytes pf (pos + nlen body) (sz - nlen body)).
    destruct (IH pf (pos + po) k l (pad2 ++ rest) Hzv Hwfv Hwt) as [Hlen Hdec].
    fold mrv in Hlen, Hdec.
    assert (Hpre : nlen (le_bytes 4 k ++ pad1) = po).
    { subst pad1. rewrite nlen_app, nlen_pad_bytes, Htaglen. lia. }
    assert (Hbody : nlen body = po + nlen mrv).
    { subst body. rewrite app_assoc, nlen_app, Hpre. reflexivity. }
    assert (Hsz : nlen body <= sz).
    { subst sz. cbn [size_of]. rewrite Hvf. fold pa. fold po.
      pose proof (round_up_ge (po + round_up (size_variants vs) pa) (align_of (TEnum i vs)) HA).
      pose proof (round_up_ge (size_variants vs) pa Hpa). lia. }
    split.
    + subst pad2. rewrite nlen_app, nlen_pad_bytes. lia.
    + subst body. rewrite <- !app_assoc.
      rewrite ntake_app_exact by exact Htaglen. rewrite Htagval.
      f_equal.
      rewrite (app_assoc (le_bytes 4 k) pad1).
      rewrite ndrop_app_exact by exact Hpre.
      exact Hdec.
  - pose proof (wt_variants_nofields vs k l Hvf Hwt) as Hl. subst l.
    assert (Hsz : 4 <= sz).
    { subst sz. cbn [size_of]. rewrite Hvf. apply round_up_ge. assumption. }
    split.
    + rewrite nlen_app, nlen_pad_bytes, Htaglen. lia.
    + rewrite <- app_assoc. rewrite ntake_app_exact by exact Htaglen. rewrite Htagval. reflexivity.
Qed.

Lemma Pf_nil : Pf FNil.
Proof.
  intros pf pos cur vals pre rest _ _ Hwt Hpre. cbn [wt_fields] in Hwt.
  destruct vals; [|discriminate].
  cbn [mem_repr_fields mem_decode_fields end_fields]. rewrite nlen_nil.
  repeat split; lia.
Qed.

Lemma Pf_cons fn ip t r : Pt t -> Pf r -> Pf (FCons fn ip t r).
Proof.
  intros IHt IHr pf pos cur vals pre rest Hzc Hwf Hwt Hpre.
  cbn [zc_ok_fields] in Hzc. apply andb_true_iff in Hzc. destruct Hzc as [Hzt Hzr].
  cbn [wf_fields] in Hwf. apply andb_true_iff in Hwf. destruct Hwf as [Hwt' Hwr].
  cbn [wt_fields] in Hwt. destruct vals as [|x l']; [discriminate|].
  apply andb_true_iff in Hwt. destruct Hwt as [Hx Hl'].
  cbn [mem_repr_fields mem_decode_fields end_fields hd tl].
  set (off := round_up cur (align_of t)).
  assert (Hoff : cur <= off).
  { subst off. apply round_up_ge. pose proof (align_of_ge1 t). lia. }
  set (pad := pad_bytes pf (pos + cur) (off - cur)).
  set (m := mem_repr pf (pos + off) t x).
  set (mf := mem_repr_fields pf pos r (off + size_of t) l').
  destruct (IHt pf (pos + off) x (mf ++ rest) Hzt Hwt' Hx) as [Hlen Hdec].
  fold m in Hlen, Hdec.
  assert (Hpre1 : nlen (pre ++ pad) = off).
  { subst pad. rewrite nlen_app, nlen_pad_bytes. lia. }
  assert (Hpre2 : nlen ((pre ++ pad) ++ m) = off + size_of t).
  { rewrite nlen_app, Hpre1, Hlen. reflexivity. }
  destruct (IHr pf pos (off + size_of t) l' ((pre ++ pad) ++ m) rest Hzr Hwr Hl' Hpre2)
    as (Hle & Hlenr & Hdecr).
  fold mf in Hlenr, Hdecr.
  split; [lia|]. split.
  - rewrite !nlen_app, Hlen, Hlenr. subst pad. rewrite nlen_pad_bytes. lia.
  - f_equal.
    + rewrite <- !app_assoc. rewrite (app_assoc pre pad).
      rewrite ndrop_app_exact by exact Hpre1. exact Hdec.
    + etransitivity; [|exact Hdecr]. f_equal. rewrite <- !app_assoc. reflexivity.
Qed.

Lemma Pv_nil : Pv VNil.
Proof. intros pf pos k vals rest _ _ Hwt. cbn [wt_variants] in Hwt. discriminate. Qed.

Lemma Pv_cons vn nm fs r : Pf fs -> Pv r -> Pv (VCons vn nm fs r).
Proof.
  intros IHf IHr pf pos k vals rest Hzc Hwf Hwt.
  cbn [zc_ok_variants] in Hzc. apply andb_true_iff in Hzc. destruct Hzc as [Hzf Hzr].
  cbn [wf_variants] in Hwf. apply andb_true_iff in Hwf. destruct Hwf as [Hwff Hwr].
  cbn [wt_variants] in Hwt.
  cbn [mem_repr_variants mem_decode_variants size_variants].
  destruct (k =? 0).
  - destruct (IHf pf pos 0 vals [] rest Hzf Hwff Hwt eq_refl) as (Hle & Hlen & Hdec).
    split; [|exact Hdec].
    pose proof (round_up_ge (end_fields fs 0) (align_fields fs)).
    pose proof (align_fields_ge1 fs). lia.
  - destruct (IHr pf pos (k - 1) vals rest Hzr Hwr Hwt) as [Hlen Hdec].
    split; [lia|exact Hdec].
Qed.

Lemma Pt_unitlike t :
  (forall v, wt t v = true -> v = VSeq []) ->
  (forall pf pos v, mem_repr pf pos t v = []) ->
  (forall b, mem_decode t b = VSeq []) ->
  size_of t = 0 -> Pt t.
Proof.
  intros Hv Hr Hd Hs pf pos v rest _ _ Hwt.
  rewrite Hr, Hd, Hs, (Hv v Hwt). split; reflexivity.
Qed.

Lemma wt_unit_inv (v : val) :
  match v with VSeq [] => true | _ => false end = true -> v = VSeq [].
Proof. destruct v as [| |l| |]; try discriminate. destruct l; [reflexivity|discriminate]. Qed.

Lemma Pt_not_zc t : zc_ok t = false -> Pt t.
Proof. intros H pf pos v rest Hzc. congruence. Qed.

Lemma layout_all : (forall t, Pt t) /\ (forall fs, Pf fs) /\ (forall vs, Pv vs).
Proof.
  apply ty_fields_variants_ind.
  - exact Pt_prim.
  - apply Pt_unitlike; try reflexivity. intros v H. now apply wt_unit_inv.
  - intros t _. apply Pt_unitlike; try reflexivity. intros v H. now apply wt_unit_inv.
  - apply Pt_not_zc; reflexivity.
  - apply Pt_not_zc; reflexivity.
  - intros t _. apply Pt_not_zc; reflexivity.
  - intros t _. apply Pt_not_zc; reflexivity.
  - intros t _. apply Pt_not_zc; reflexivity.
  - intros t _. apply Pt_not_zc; reflexivity.
  - intros n t IH. now apply Pt_array.
  - intros n t IH. now apply Pt_tuple.
  - intros t _. apply Pt_not_zc; reflexivity.
  - intros t _. apply Pt_not_zc; reflexivity.
  - intros b _ c _. apply Pt_not_zc; reflexivity.
  - intros k t IH. now apply Pt_range.
  - apply Pt_unitlike; try reflexivity. intros v H. now apply wt_unit_inv.
  - intros i fs IH. now apply Pt_struct.
  - intros i vs IH. now apply Pt_enum.
  - exact Pf_nil.
  - intros fn ip t IHt r IHr. now apply Pf_cons.
  - exact Pv_nil.
  - intros vn nm fs IHf r IHr. now apply Pv_cons.
Qed.

(* ------------------------------------------------------------------ the stated lemmas *)

Lemma mem_repr_len : forall t pf pos v,
  zc_ok t = true -> wf t = true -> wt t v = true ->
  nlen (mem_repr pf pos t v) = size_of t.
Proof.
  intros t pf pos v Hzc Hwf Hwt.
  exact (proj1 (proj1 layout_all t pf pos v [] Hzc Hwf Hwt)).
Qed.

Lemma mem_decode_repr : forall t pf pos v rest,
  zc_ok t = true -> wf t = true -> wt t v = true ->
  mem_decode t (mem_repr pf pos t v ++ rest) = v.
Proof.
  intros t pf pos v rest Hzc Hwf Hwt.
  exact (proj2 (proj1 layout_all t pf pos v rest Hzc Hwf Hwt)).
Qed.

Lemma mem_repr_list_len : forall t pf pos l,
  zc_ok t = true -> wf t = true -> forallb (wt t) l = true ->
  nlen (mem_repr_list (fun p x => mem_repr pf p t x) (size_of t) pos l) = nlen l * size_of t.
Proof.
  intros t pf pos l Hzc Hwf Hall.
  apply list_len_of; try assumption. apply layout_all.
Qed.

Lemma decode_n_repr_list : forall t pf pos l rest,
  zc_ok t = true -> wf t = true -> forallb (wt t) l = true ->
  decode_n (mem_decode t) (size_of t) (length l)
    (mem_repr_list (fun p x => mem_repr pf p t x) (size_of t) pos l ++ rest) = l.
Proof.
  intros t pf pos l rest Hzc Hwf Hall.
  apply list_decode_of; try assumption. apply layout_all.
Qed.

(* the representation does not depend on the padding junk outside padding positions: two
   representations have the same length (used to mask padding in the correspondence check) *)
Lemma mem_repr_len_pf : forall t pf pf' pos pos' v,
  zc_ok t = true -> wf t = true -> wt t v = true ->
  nlen (mem_repr pf pos t v) = nlen (mem_repr pf' pos' t v).
Proof.
  intros. rewrite !mem_repr_len by assumption. reflexivity.
Qed.
