(* C10: any corruption of the header's checked fields yields the specific error. *)
Require Import EV.Base.Tac EV.Base.Bytes EV.Base.Res EV.Base.ListX.
Require Import EV.Model.Arith64 EV.Model.Types EV.Model.Layout EV.Model.Ser EV.Model.Deser EV.Model.Header EV.Model.Typing.
Require Import EV.Proofs.Monads EV.Proofs.HeaderSpec.

(* Every serialized stream starts with the header of its type ... *)
Theorem C10_stream_starts_with_header :
  forall (pf : padfill) (h : hdr) (t : ty) (v : val) (evs : list event),
    ser_top pf h t v = (evs, SDone) ->
    exists body, bytes_of evs =
      header_bytes MAGIC VERSION_MAJOR VERSION_MINOR 8 (h_type_hash h) (h_align_hash h) (h_name h) ++ body.
Proof. exact ser_top_starts_with_header. Qed.

(* ... and for ANY values of the seven header fields (so in particular for every single-bit flip
   of the 29 fixed bytes) both deserializers, for every type and every base address, return
   exactly the error given by [header_verdict] -- never a value, never a panic -- or, when no
   checked field is wrong, continue with the body (independently of the minor version read). *)
Theorem C10_full_copy_verdict :
  forall (h : hdr) (t : ty) (magic major minor us sth sah : N) (nm body : list byte),
    fields_in_range magic major minor us sth sah nm ->
    deser_full_top h t (header_bytes magic major minor us sth sah nm ++ body) =
      match header_verdict h magic major minor us sth sah with
      | Some e => Err e
      | None => deser_full None t body (37 + nlen nm)
      end.
Proof. exact deser_full_top_header. Qed.

Theorem C10_eps_copy_verdict :
  forall (base : N) (h : hdr) (t : ty) (magic major minor us sth sah : N) (nm body : list byte),
    fields_in_range magic major minor us sth sah nm ->
    deser_eps_top base h t (header_bytes magic major minor us sth sah nm ++ body) =
      match header_verdict h magic major minor us sth sah with
      | Some e => Err e
      | None => deser_eps base t body (37 + nlen nm)
      end.
Proof. exact deser_eps_top_header. Qed.

(* The verdict, field by field, for any altered value of that field. *)
Theorem C10_magic : forall h m major minor us sth sah,
  m <> MAGIC -> header_verdict h m major minor us sth sah =
                Some (if m =? MAGIC_REV then EndiannessError else MagicCookieError m).
Proof. exact verdict_magic. Qed.
Theorem C10_major : forall h major minor us sth sah,
  major <> VERSION_MAJOR -> header_verdict h MAGIC major minor us sth sah = Some (MajorVersionMismatch major).
Proof. exact verdict_major. Qed.
Theorem C10_minor_raised : forall h minor us sth sah,
  VERSION_MINOR < minor -> header_verdict h MAGIC VERSION_MAJOR minor us sth sah = Some (MinorVersionMismatch minor).
Proof. exact verdict_minor_high. Qed.
Theorem C10_minor_lower_accepted : forall h minor,
  minor <= VERSION_MINOR -> header_verdict h MAGIC VERSION_MAJOR minor 8 (h_type_hash h) (h_align_hash h) = None.
Proof. exact verdict_minor_low. Qed.
Theorem C10_usize : forall h us sth sah,
  us <> 8 -> header_verdict h MAGIC VERSION_MAJOR VERSION_MINOR us sth sah = Some (UsizeSizeMismatch us).
Proof. exact verdict_usize. Qed.
Theorem C10_type_hash : forall h sth sah,
  sth <> h_type_hash h -> header_verdict h MAGIC VERSION_MAJOR VERSION_MINOR 8 sth sah = Some (WrongTypeHash sth).
Proof. exact verdict_type_hash. Qed.
Theorem C10_align_hash : forall h sah,
  sah <> h_align_hash h -> header_verdict h MAGIC VERSION_MAJOR VERSION_MINOR 8 (h_type_hash h) sah = Some (WrongAlignHash sah).
Proof. exact verdict_align_hash. Qed.

(* A single-bit flip always changes the field, and never turns the cookie into its byte-reversed
   form (so a flipped cookie is reported as a wrong cookie, the reversed one as endianness). *)
Theorem C10_flip_changes_field : forall x j, N.lxor x (2 ^ j) <> x.
Proof. exact flip_changes. Qed.
Theorem C10_flip_of_cookie_is_not_reversed_cookie : forall j, j < 64 -> N.lxor MAGIC (2 ^ j) <> MAGIC_REV.
Proof. exact flip_magic_not_rev. Qed.

Example C10_example :
  let h := {| h_type_hash := 5; h_align_hash := 6; h_name := [83] |} in
  fields_in_range MAGIC_REV 1 1 8 5 6 [83] /\
  deser_eps_top 4096 h TUnit (header_bytes MAGIC_REV 1 1 8 5 6 [83]) = Err EndiannessError /\
  deser_full_top h TUnit (header_bytes MAGIC 1 0 8 5 6 [83]) = Ok (VSeq [], [], 38) /\
  deser_full_top h TUnit (header_bytes MAGIC 1 1 8 5 7 [83]) = Err (WrongAlignHash 7).
Proof. vm_compute. repeat split; reflexivity. Qed.

Print Assumptions C10_stream_starts_with_header.
Print Assumptions C10_full_copy_verdict.
Print Assumptions C10_eps_copy_verdict.
Print Assumptions C10_magic.
Print Assumptions C10_align_hash.
Print Assumptions C10_flip_changes_field.
Print Assumptions C10_flip_of_cookie_is_not_reversed_cookie.
