(* C05: derived implementations round-trip every value in both modes and have the documented
   eps-copy type. Derived structs and enums are the constructors TStruct / TEnum of the type
   grammar (named, tuple and unit structs; unit, tuple and struct variants; fields whose type is,
   or merely mentions, a type parameter; const parameters; zero-copy or deep-copy attributes), so
   the theorems of C01 / C02 / C03 are stated for them, at any nesting depth, by the same
   inductions. *)
Require Import EV.Base.Tac EV.Base.Bytes EV.Base.Res EV.Base.ListX.
Require Import EV.Model.Arith64 EV.Model.Types EV.Model.Layout EV.Model.Ser EV.Model.Deser EV.Model.Header EV.Model.Typing EV.Model.Need EV.Model.Derive EV.Model.Generic.
Require Import EV.Proofs.Monads EV.Proofs.RoundTrip EV.Proofs.HeaderRT EV.Proofs.SerTotal EV.Proofs.EpsRT EV.Proofs.EpsTop EV.Proofs.DeriveP EV.Proofs.GenericP.

(* a definition in the grammar is accepted by the derive (no attribute panic, no unsatisfied bound) *)
Theorem C05_grammar_is_accepted :
  (forall i fs, wf (TStruct i fs) = true -> derive_check i (field_tys fs) = DAccept) /\
  (forall i vs, wf (TEnum i vs) = true -> derive_check i (variant_tys vs) = DAccept).
Proof. exact wf_derive_accepts. Qed.

(* full-copy round trip of every value of every derived struct *)
Theorem C05_struct_full_roundtrip :
  forall (pf : padfill) (h : hdr) (i : adt_info) (fs : fields) (v : val) (evs : list event),
    hdr_ok h ->
    wf (TStruct i fs) = true -> deserializable (TStruct i fs) = true ->
    wt (TStruct i fs) v = true -> exhausted_in (TStruct i fs) v = false ->
    ser_top pf h (TStruct i fs) v = (evs, SDone) ->
    deser_full_top h (TStruct i fs) (bytes_of evs) = Ok (v, [], evs_len evs).
Proof. intros pf h i fs. exact (full_roundtrip_top pf h (TStruct i fs)). Qed.

(* ... and of every derived enum *)
Theorem C05_enum_full_roundtrip :
  forall (pf : padfill) (h : hdr) (i : adt_info) (vs : variants) (v : val) (evs : list event),
    hdr_ok h ->
    wf (TEnum i vs) = true -> deserializable (TEnum i vs) = true ->
    wt (TEnum i vs) v = true -> exhausted_in (TEnum i vs) v = false ->
    ser_top pf h (TEnum i vs) v = (evs, SDone) ->
    deser_full_top h (TEnum i vs) (bytes_of evs) = Ok (v, [], evs_len evs).
Proof. intros pf h i vs. exact (full_roundtrip_top pf h (TEnum i vs)). Qed.

(* eps-copy round trip of every value of every derived type (struct or enum) *)
Theorem C05_eps_roundtrip :
  forall (base : N) (pf : padfill) (h : hdr) (t : ty) (v : val) (evs : list event),
    (exists i fs, t = TStruct i fs) \/ (exists i vs, t = TEnum i vs) ->
    hdr_ok h ->
    wf t = true -> units_pow2 t = true -> units_cover t = true -> deserializable t = true ->
    wt t v = true -> exhausted_in t v = false ->
    ser_top pf h t v = (evs, SDone) ->
    base mod max_unit t = 0 ->
    exists e, deser_eps_top base h t (bytes_of evs) = Ok (e, [], evs_len evs) /\ erase e = v.
Proof. intros base pf h t v evs _. exact (eps_roundtrip_top base pf h t v evs). Qed.

(* The eps-copy type.  [dty_of] (Model/Derive.v): a zero-copy derived type becomes a reference to
   itself; in a deep-copy derived type a field whose declared type is exactly a type parameter has
   that parameter's eps-copy type, every other field keeps its type (is fully deserialized). *)
Theorem C05_desertype_of_derived_types :
  forall i fs vs,
    dty_of (TStruct i fs) = (if a_zc i then DRef (TStruct i fs) else DStruct i (dty_fields fs)) /\
    dty_of (TEnum i vs) = (if a_zc i then DRef (TEnum i vs) else DEnum i (dty_variants vs)) /\
    (forall nm isp t r, dty_fields (FCons nm isp t r) = DFCons (if isp then dty_of t else DOwn t) (dty_fields r)).
Proof. intros i fs vs. repeat split. Qed.

(* The same at the level of type parameters.  A definition before instantiation ([gdef],
   Model/Generic.v) has fields whose types are expressions over its parameters; [deser_args] is the
   rule of the documentation -- parameter i is replaced by its own eps-copy type exactly when it is
   the declared type of some field (of some variant) -- and [dsubst] substitutes those eps-copy
   types into the declared field types, as rustc does for S<args'>.  For every definition inside
   the boundary of the grammar ([wf_gdef]: a parameter that is the type of a field is not mentioned
   inside another field) the eps-copy type the model assigns to the instantiated definition is
   exactly that substitution instance; outside the boundary the two disagree, which is why such a
   definition does not compile. *)
Theorem C05_desertype_is_the_parameter_level_rule :
  forall (d : gdef) (args : list ty),
    wf_gdef d = true -> a_zc (g_info d) = false -> List.length args = g_n d ->
    (forall f i, In f (all_fields d) -> mentions i (snd f) = true -> (i < g_n d)%nat) ->
    dty_of (inst_def d args) =
      if g_struct d then DStruct (g_info d) (dsubst_fields (deser_args d args) (g_fields d))
      else DEnum (g_info d) (dsubst_variants (deser_args d args) (g_variants d)).
Proof. exact desertype_is_parameter_substitution. Qed.

Theorem C05_boundary_shape_has_no_consistent_type :
  wf_gdef d13 = false /\
  dty_of (inst_def d13 [TVec (TPrim (PInt U8))]) <>
  DStruct (g_info d13) (dsubst_fields (deser_args d13 [TVec (TPrim (PInt U8))]) (g_fields d13)).
Proof. exact boundary_shape_disagrees. Qed.

(* Every result of eps-copy deserialization inhabits that type: it is borrowed exactly where the
   type says so (with every borrowed part in place, see C03) and owns its data everywhere else --
   in particular a field that merely mentions a parameter holds no reference. For every buffer. *)
Theorem C05_eps_results_have_the_eps_type :
  forall (base : N) (h : hdr) (t : ty) (buf : list byte) (e : val) (rest : list byte) (n : N),
    deser_eps_top base h t buf = Ok (e, rest, n) -> eps_ok base buf (dty_of t) e.
Proof. intros base h t buf e rest n H. exact (proj1 (eps_top_ok base h t buf e rest n H)). Qed.

(* full-copy results never borrow *)
Theorem C05_full_results_own_their_data :
  forall rk t i p v i' p', deser_full rk t i p = Ok (v, i', p') -> noref v = true.
Proof. exact full_noref. Qed.

(* Non-vacuity: S<A, B> { a: A, b: Vec<B>, c: E<A> } with A = Vec<u64>, B = u16 and a deep enum. *)
Definition c5_i (n : name) : adt_info :=
  {| a_name := n; a_zc := false; a_deep := false; a_reprs := []; a_align := 0; a_consts := [] |}.
Definition c5_e : ty := TEnum (c5_i [69]) (VCons [85] false FNil (VCons [84] false (FCons [48] true (TVec (TPrim (PInt U64))) (FCons [49] false (TPrim (PInt U8)) FNil)) VNil)).
Definition c5_t : ty := TStruct (c5_i [83])
  (FCons [97] true (TVec (TPrim (PInt U64))) (FCons [98] false (TVec (TPrim (PInt U16))) (FCons [99] false c5_e FNil))).
Example C05_example :
  wf c5_t = true /\
  dty_of c5_t = DStruct (c5_i [83]) (DFCons (DSliceOf (TPrim (PInt U64))) (DFCons (DOwn (TVec (TPrim (PInt U16)))) (DFCons (DOwn c5_e) DFNil))) /\
  dty_of c5_e = DEnum (c5_i [69]) (DVCons DFNil (DVCons (DFCons (DSliceOf (TPrim (PInt U64))) (DFCons (DOwn (TPrim (PInt U8))) DFNil)) DVNil)).
Proof. vm_compute. repeat split. Qed.

Print Assumptions C05_grammar_is_accepted.
Print Assumptions C05_struct_full_roundtrip.
Print Assumptions C05_enum_full_roundtrip.
Print Assumptions C05_eps_roundtrip.
Print Assumptions C05_desertype_of_derived_types.
Print Assumptions C05_desertype_is_the_parameter_level_rule.
Print Assumptions C05_boundary_shape_has_no_consistent_type.
Print Assumptions C05_eps_results_have_the_eps_type.
Print Assumptions C05_full_results_own_their_data.
