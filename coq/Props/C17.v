(* C17: a type wrongly declared zero-copy is never serialized as raw memory. *)
Require Import EV.Base.Tac EV.Base.Bytes EV.Base.Res EV.Base.ListX.
Require Import EV.Model.Arith64 EV.Model.Types EV.Model.Layout EV.Model.Ser EV.Model.Deser EV.Model.Header EV.Model.Typing EV.Model.Derive.
Require Import EV.Proofs.DeriveP.

(* First layer (compile time).  [derive_check] = check_attrs followed by the type-checking of the
   generated impl (the no-op test::<F: ZeroCopy>() per field type): a definition declared zero-copy
   is accepted exactly when it is repr(C), not also declared deep-copy, and all its field types are
   ZeroCopy.  Hence each of the three mutations of the property is rejected. *)
Theorem C17_derive_accepts_exactly :
  forall (i : adt_info) (ftys : list ty),
    derive_check i ftys = DAccept <->
    (a_zc i = false \/ (has_repr_c i = true /\ a_deep i = false /\ forallb zc_ok ftys = true)).
Proof. exact derive_check_spec. Qed.

Theorem C17_wrong_declarations_are_rejected :
  forall (i : adt_info) (ftys : list ty),
    a_zc i = true ->
    (has_repr_c i = false \/ a_deep i = true \/ (exists t, In t ftys /\ zc_ok t = false)) ->
    derive_check i ftys <> DAccept.
Proof.
  intros i ftys Hz Hbad Hacc. apply derive_check_spec in Hacc.
  destruct Hacc as [Hacc | (Hc & Hd & Hf)]; [congruence|].
  destruct Hbad as [Hb | [Hb | (t & Hin & Ht)]]; [congruence | congruence |].
  rewrite forallb_forall in Hf. specialize (Hf t Hin). congruence.
Qed.

(* what is accepted is sound: IS_ZERO_COPY is true and the representation holds no heap handle *)
Theorem C17_accepted_zero_copy_types_are_plain_data :
  (forall i fs, wf_fields fs = true -> a_zc i = true -> derive_check i (field_tys fs) = DAccept ->
     is_zc_const (TStruct i fs) = true /\ heap_free (TStruct i fs) = true) /\
  (forall i vs, wf_variants vs = true -> a_zc i = true -> derive_check i (variant_tys vs) = DAccept ->
     is_zc_const (TEnum i vs) = true /\ heap_free (TEnum i vs) = true).
Proof. exact derive_accepts_zero_copy_sound. Qed.

(* Second layer (run time), for EVERY type -- well-formed or not, derived or hand-written --, every
   value, position and outcome: a raw-memory event (a zero-copy block or an iterator item) is only
   ever emitted for a type whose IS_ZERO_COPY constant is true ... *)
Theorem C17_raw_memory_only_for_IS_ZERO_COPY_types :
  forall (pf : padfill) (t : ty) (v : val) (pos : N) (evs : list event) (out : sout),
    ser pf t v pos = (evs, out) -> Forall raw_event_ok evs.
Proof. exact ser_raw_events_ok. Qed.

(* ... and IS_ZERO_COPY types hold no heap handle, pointer or length (given the trait bounds of the
   std impls, which rustc enforces independently of the derive) *)
Theorem C17_IS_ZERO_COPY_types_hold_no_heap_handle :
  forall t, std_bounds t = true -> is_zc_const t = true -> heap_free t = true.
Proof. exact zc_const_heap_free. Qed.

(* A type that takes the zero-copy path although its IS_ZERO_COPY is false (fields not all
   zero-copy, or no repr(C)) panics before any byte of the value is written -- alone, or as the
   item type of a vector, boxed slice, slice or iterator. *)
Theorem C17_panics_before_writing :
  forall (pf : padfill) (t : ty) (v : val) (pos : N),
    is_zc t = true -> is_zc_const t = false ->
    (match t with TStruct _ _ | TEnum _ _ | TArray _ _ => ser pf t v pos = ([], SPanic PNotZeroCopy) | _ => True end) /\
    ser pf (TVec t) v pos = ([], SPanic PNotZeroCopy) /\
    ser pf (TBoxSlice t) v pos = ([], SPanic PNotZeroCopy) /\
    ser pf (TSerIter t) v pos = ([], SPanic PNotZeroCopy) /\
    (exists evs, ser pf (TSliceRef t) v pos = (evs, SPanic PNotZeroCopy) /\ bytes_of evs = []).
Proof. exact declared_zero_copy_guard. Qed.

(* Non-vacuity: a hand-written "zero-copy" struct holding a Vec: rejected by the derive; if forced
   (hand-written impls), serialization panics with nothing written, also inside an outer struct
   after a first field (only the bytes of that first field are written). *)
Definition c17_i (n : name) (zc : bool) : adt_info :=
  {| a_name := n; a_zc := zc; a_deep := false; a_reprs := [NAME_C]; a_align := 0; a_consts := [] |}.
Definition c17_liar : ty := TStruct (c17_i [76] true) (FCons [97] false (TPrim (PInt U8)) (FCons [98] false (TVec (TPrim (PInt U8))) FNil)).
Definition c17_outer : ty := TStruct (c17_i [79] false) (FCons [120] false (TPrim (PInt U16)) (FCons [121] false c17_liar FNil)).
Example C17_example :
  derive_check (c17_i [76] true) [TPrim (PInt U8); TVec (TPrim (PInt U8))] = DBoundError /\
  derive_check {| a_name := [76]; a_zc := true; a_deep := false; a_reprs := []; a_align := 0; a_consts := [] |} [TPrim (PInt U8)] = DPanicNotReprC /\
  derive_check {| a_name := [76]; a_zc := true; a_deep := true; a_reprs := [NAME_C]; a_align := 0; a_consts := [] |} [TPrim (PInt U8)] = DPanicBoth /\
  is_zc c17_liar = true /\ is_zc_const c17_liar = false /\
  ser (fun _ => 0) c17_liar (VSeq [VN 1; VSeq [VN 2; VN 3]]) 0 = ([], SPanic PNotZeroCopy) /\
  (let '(evs, out) := ser (fun _ => 0) c17_outer (VSeq [VN 258; VSeq [VN 1; VSeq [VN 2; VN 3]]]) 0 in
   out = SPanic PNotZeroCopy /\ bytes_of evs = [2; 1]).
Proof. vm_compute. repeat split. Qed.

Print Assumptions C17_derive_accepts_exactly.
Print Assumptions C17_wrong_declarations_are_rejected.
Print Assumptions C17_accepted_zero_copy_types_are_plain_data.
Print Assumptions C17_raw_memory_only_for_IS_ZERO_COPY_types.
Print Assumptions C17_IS_ZERO_COPY_types_hold_no_heap_handle.
Print Assumptions C17_panics_before_writing.
