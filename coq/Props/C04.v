(* C04: bytes written as one type are never accepted as a different type. *)
Require Import EV.Base.Tac EV.Base.Bytes EV.Base.Res EV.Base.ListX.
Require Import EV.Model.Arith64 EV.Model.Types EV.Model.Layout EV.Model.Ser EV.Model.Deser EV.Model.Header EV.Model.Typing EV.Model.Hash.
Require Import EV.Proofs.Monads EV.Proofs.HeaderRT EV.Proofs.HeaderSpec EV.Proofs.HashRefuse EV.Proofs.HashP EV.Proofs.HashInj.

(* For every 64-bit hash function H of the byte feeds: bytes serialized as T are refused when
   read as U -- by both deserializers, for every base address, with the type-hash error (or, the
   type hashes being equal, the alignment-hash error) carrying the hash found in the file, never
   a value, never a panic -- as soon as H separates the type feeds or the alignment feeds.
   (That xxh3-64 separates two given different feeds cannot be proved; the check confirms it for
   every generated pair.) *)
Theorem C04_cross_read_refused :
  forall (H : list byte -> N) (pf : padfill) (tw tu : ty) (nmw nmu : list byte) (v : val)
         (evs : list event) (base : N),
    hdr_ok (hdr_of H tw nmw) -> ser_top pf (hdr_of H tw nmw) tw v = (evs, SDone) ->
    (H (tfeed tw) <> H (tfeed tu) \/
     (H (tfeed tw) = H (tfeed tu) /\ H (align_feed tw) <> H (align_feed tu))) ->
    exists e, (e = WrongTypeHash (H (tfeed tw)) \/ e = WrongAlignHash (H (align_feed tw))) /\
      deser_full_top (hdr_of H tu nmu) tu (bytes_of evs) = Err e /\
      deser_eps_top base (hdr_of H tu nmu) tu (bytes_of evs) = Err e.
Proof. exact cross_read_refused. Qed.

(* The feeds separate the near-misses listed by the property. *)
Theorem C04_type_name : forall i j fs,
  adt_clean i -> adt_clean j -> a_zc i = a_zc j -> a_consts i = a_consts j -> a_name i <> a_name j ->
  tfeed (TStruct i fs) <> tfeed (TStruct j fs).
Proof. exact mut_struct_name. Qed.
Theorem C04_enum_name : forall i j vs,
  adt_clean i -> adt_clean j -> a_zc i = a_zc j -> a_consts i = a_consts j -> a_name i <> a_name j ->
  tfeed (TEnum i vs) <> tfeed (TEnum j vs).
Proof. exact mut_enum_name. Qed.
Theorem C04_copy_kind : forall i j fs gs, a_zc i <> a_zc j -> tfeed (TStruct i fs) <> tfeed (TStruct j gs).
Proof. exact mut_copy_kind_struct. Qed.
Theorem C04_copy_kind_enum : forall i j vs ws, a_zc i <> a_zc j -> tfeed (TEnum i vs) <> tfeed (TEnum j ws).
Proof. exact mut_copy_kind_enum. Qed.
Theorem C04_field_renamed : forall i n m isp t r,
  clean n -> clean m -> n <> m ->
  tfeed (TStruct i (FCons n isp t r)) <> tfeed (TStruct i (FCons m isp t r)).
Proof. exact mut_field_renamed. Qed.
Theorem C04_variant_renamed : forall i n m nm fs r,
  clean n -> clean m -> n <> m ->
  tfeed (TEnum i (VCons n nm fs r)) <> tfeed (TEnum i (VCons m nm fs r)).
Proof. exact mut_variant_renamed. Qed.
Theorem C04_field_type : forall i n isp t u r,
  (forall x y, tfeed t ++ x <> tfeed u ++ y) ->
  tfeed (TStruct i (FCons n isp t r)) <> tfeed (TStruct i (FCons n isp u r)).
Proof. exact mut_field_type. Qed.
Theorem C04_primitives_apart : forall p q x y, p <> q -> tfeed (TPrim p) ++ x <> tfeed (TPrim q) ++ y.
Proof. exact prim_feeds_apart. Qed.
Theorem C04_sequence_kind : forall t u, tfeed (TVec t) <> tfeed (TBoxSlice u).
Proof. exact mut_vec_boxslice. Qed.
Theorem C04_array_length : forall n m t u, n < 2 ^ 64 -> m < 2 ^ 64 -> n <> m -> tfeed (TArray n t) <> tfeed (TArray m u).
Proof. exact mut_array_len. Qed.
Theorem C04_tuple_arity : forall n m t, n <> m -> tfeed (TTuple n t) <> tfeed (TTuple m t).
Proof. exact mut_tuple_arity. Qed.
Theorem C04_generic_argument : forall t u, tfeed t <> tfeed u -> tfeed (TVec t) <> tfeed (TVec u).
Proof. exact mut_vec_elem. Qed.
Theorem C04_const_value : forall i j fs c d cs,
  a_zc i = a_zc j -> a_consts i = c :: cs -> a_consts j = d :: cs ->
  length (c_feed c) = length (c_feed d) -> c_feed c <> c_feed d -> c_name c = c_name d ->
  tfeed (TStruct i fs) <> tfeed (TStruct j fs).
Proof. exact mut_const_value. Qed.
Theorem C04_zero_copy_size : forall i j fs gs,
  a_zc i = true -> a_zc j = true ->
  size_of (TStruct i fs) < 2 ^ 64 -> size_of (TStruct j gs) < 2 ^ 64 ->
  size_of (TStruct i fs) <> size_of (TStruct j gs) ->
  align_feed (TStruct i fs) <> align_feed (TStruct j gs).
Proof. exact mut_size. Qed.
Theorem C04_repr_attributes : forall i j fs,
  a_zc i = true -> a_zc j = true -> size_of (TStruct i fs) = size_of (TStruct j fs) ->
  Forall clean (a_reprs i) -> Forall clean (a_reprs j) ->
  length (a_reprs i) = length (a_reprs j) -> a_reprs i <> a_reprs j ->
  align_feed (TStruct i fs) <> align_feed (TStruct j fs).
Proof. exact mut_repr_attr. Qed.

(* Documented equivalents share both feeds (hence both hashes). *)
Theorem C04_slice_shares_vec_hashes : forall t,
  tfeed (TSliceRef t) = tfeed (TVec t) /\ align_feed (TSliceRef t) = align_feed (TVec t).
Proof. exact equiv_slice_vec. Qed.
Theorem C04_iterator_shares_vec_hashes : forall t,
  tfeed (TSerIter t) = tfeed (TVec t) /\ align_feed (TSerIter t) = align_feed (TVec t).
Proof. exact equiv_iter_vec. Qed.

(* The feed is NOT injective (known findings D11, D12): two pairs of different types with equal
   type and alignment feeds, hence equal hashes for every hash function. *)
Lemma C04_refuted_tuple_regrouping :
  d11_a <> d11_b /\ tfeed d11_a = tfeed d11_b /\ align_feed d11_a = align_feed d11_b.
Proof. exact feed_not_injective_tuples. Qed.
Lemma C04_refuted_const_bytes :
  tfeed d12_enum = tfeed d12_struct /\ align_feed d12_enum = align_feed d12_struct.
Proof. exact feed_not_injective_consts. Qed.

(* On the fragment of the grammar without tuples and derived types (primitives, unit, PhantomData,
   strings, vectors, boxed slices, slices, iterator wrappers, arrays, Option, Bound, ControlFlow, the
   range types) the type-hash feed is uniquely decodable: equal feeds mean the same type up to the
   documented equivalence (&[T] and SerIter are hashed as Vec<T>).  General injectivity is false
   because of tuples (D11) and const parameters (D12), see the two refutations above. *)
Theorem C04_builtin_feeds_are_uniquely_decodable :
  forall t1 t2 r1 r2, builtin t1 = true -> builtin t2 = true ->
    tfeed t1 ++ r1 = tfeed t2 ++ r2 -> hcanon t1 = hcanon t2 /\ r1 = r2.
Proof. exact tfeed_prefix_free. Qed.

Theorem C04_builtin_feeds_injective :
  forall t1 t2, builtin t1 = true -> builtin t2 = true -> tfeed t1 = tfeed t2 -> hcanon t1 = hcanon t2.
Proof. exact tfeed_injective_on_builtins. Qed.

Print Assumptions C04_cross_read_refused.
Print Assumptions C04_field_renamed.
Print Assumptions C04_primitives_apart.
Print Assumptions C04_repr_attributes.
Print Assumptions C04_tuple_arity.
Print Assumptions C04_builtin_feeds_are_uniquely_decodable.
Print Assumptions C04_builtin_feeds_injective.
