(* C12: misplaced buffers are refused with an alignment error, never misread. *)
Require Import EV.Base.Tac EV.Base.Bytes EV.Base.Res EV.Base.ListX.
Require Import EV.Model.Arith64 EV.Model.Types EV.Model.Layout EV.Model.Ser EV.Model.Deser EV.Model.Header EV.Model.Typing EV.Model.Need.
Require Import EV.Proofs.Monads EV.Proofs.RoundTrip EV.Proofs.HeaderRT EV.Proofs.EpsRT EV.Proofs.EpsTop.

(* For EVERY base address: eps-copy deserialization of a serialized stream succeeds -- returning
   the serialized value and consuming exactly the stream -- exactly when the address is a
   multiple of [need t v], the largest unit among the zero-copy blocks met for this value
   (None hides blocks, empty sequences still count); otherwise it returns AlignmentError.
   No other outcome exists: never a wrong value, never another error, never a panic (so never
   the debug assertion on a reference misaligned for its type). *)
Theorem C12_placement :
  forall (base : N) (pf : padfill) (h : hdr) (t : ty) (v : val) (evs : list event),
    hdr_ok h ->
    wf t = true -> units_pow2 t = true -> units_cover t = true -> deserializable t = true ->
    wt t v = true -> exhausted_in t v = false ->
    ser_top pf h t v = (evs, SDone) ->
    (base mod need t v = 0 ->
       exists e, deser_eps_top base h t (bytes_of evs) = Ok (e, [], evs_len evs) /\ erase e = v) /\
    (base mod need t v <> 0 -> deser_eps_top base h t (bytes_of evs) = Err AlignmentError).
Proof. exact eps_top. Qed.

(* The requirement is a power of two that never exceeds the largest unit of the type. *)
Theorem C12_requirement_bounded :
  forall (t : ty) (v : val), units_pow2 t = true -> is_pow2 (need t v) = true /\ need t v <= max_unit t.
Proof.
  intros t v Hu. split; [now apply (proj1 need_pow2)|apply (proj1 need_le_max_unit)].
Qed.

(* Streams containing only byte-aligned data (requirement 1) deserialize at any address. *)
Theorem C12_byte_aligned_anywhere :
  forall (base : N) (pf : padfill) (h : hdr) (t : ty) (v : val) (evs : list event),
    hdr_ok h ->
    wf t = true -> units_pow2 t = true -> units_cover t = true -> deserializable t = true ->
    wt t v = true -> exhausted_in t v = false ->
    ser_top pf h t v = (evs, SDone) ->
    need t v = 1 ->
    exists e, deser_eps_top base h t (bytes_of evs) = Ok (e, [], evs_len evs) /\ erase e = v.
Proof.
  intros base pf h t v evs Hh Hw Hu Hc Hd Ht He Hs Hn.
  apply (proj1 (eps_top base pf h t v evs Hh Hw Hu Hc Hd Ht He Hs)).
  rewrite Hn. apply N.mod_1_r.
Qed.

Example C12_example :
  let t := TOption (TVec (TPrim (PInt U32))) in
  let h := {| h_type_hash := 1; h_align_hash := 2; h_name := [79] |} in
  need t (VTag 0 []) = 1 /\ need t (VTag 1 [VSeq []]) = 4 /\
  (let '(evs, _) := ser_top (fun _ => 0) h t (VTag 1 [VSeq []]) in
   deser_eps_top 4098 h t (bytes_of evs) = Err AlignmentError) /\
  (let '(evs, _) := ser_top (fun _ => 0) h t (VTag 0 []) in
   deser_eps_top 4099 h t (bytes_of evs) = Ok (VTag 0 [], [], evs_len evs)).
Proof. vm_compute. repeat split; reflexivity. Qed.

Print Assumptions C12_placement.
Print Assumptions C12_requirement_bounded.
Print Assumptions C12_byte_aligned_anywhere.
