(* C14: reader fragmentation does not change the value; reader failure is an error. *)
Require Import EV.Base.Tac EV.Base.Bytes EV.Base.Res EV.Base.ListX.
Require Import EV.Model.Arith64 EV.Model.Types EV.Model.Layout EV.Model.Ser EV.Model.Deser EV.Model.Header EV.Model.Typing EV.Model.IO.
Require Import EV.Proofs.Monads EV.Proofs.Prefix EV.Proofs.IOProps.

(* read_exact -- the only way full-copy deserialization touches its reader -- over a reader that
   delivers the stream in arbitrary fragments (any sizes >= 1, any interleaving of Interrupted)
   returns exactly what read_exact on the stream as one slice returns: the same bytes, the same
   position, or ReadError at the end of the data.  Never a panic. *)
Theorem C14_fragmentation_invariance :
  forall (data : list byte) (cut : N -> N -> N) (intr : N -> bool) (fuel : nat)
         (pos calls n : N) (s' : N * N) (out : rout),
    read_exact_io (stream_reader data cut intr None) fuel (pos, calls) n [] = (s', out) ->
    out <> RFuel -> pos <= nlen data ->
    match read_exact n (ndrop pos data) pos with
    | Ok (b, rest, p') => out = ROk b /\ fst s' = p' /\ rest = ndrop p' data
    | Err e => out = RErr /\ e = ReadError
    | Panic _ => False
    end.
Proof. exact read_exact_io_matches_model. Qed.

(* With a reader that fails once k bytes have been delivered: every read_exact that needs a
   byte at or beyond k returns ReadError (no panic), every other one is unaffected. *)
Theorem C14_failing_reader :
  forall (data : list byte) (cut : N -> N -> N) (intr : N -> bool) (failat : option N) (fuel : nat)
         (pos calls n : N) (s' : N * N) (out : rout),
    read_exact_io (stream_reader data cut intr failat) fuel (pos, calls) n [] = (s', out) ->
    out <> RFuel -> pos <= nlen data ->
    (match failat with Some k => pos <= k | None => True end) ->
    if (pos + n <=? nlen data) && (match failat with Some k => pos + n <=? k | None => true end)
    then out = ROk (ntake n (ndrop pos data)) /\ fst s' = pos + n
    else out = RErr.
Proof. exact read_exact_io_stream. Qed.

(* At the level of whole values: the full-copy deserializer is a composition of read_exact calls
   on the remaining stream, so it only depends on the bytes delivered; when the stream ends (or
   the reader fails) before the value is complete the result is ReadError -- never a value. *)
Theorem C14_incomplete_stream_is_read_error :
  forall (h : hdr) (t : ty) (bs : list byte) (v : val),
    deser_full_top h t bs = Ok (v, [], nlen bs) ->
    forall k, k < nlen bs -> deser_full_top h t (ntake k bs) = Err ReadError.
Proof. exact truncated_full. Qed.

Example C14_example :
  let data := [1; 2; 3; 4; 5; 6; 7; 8; 9] in
  let r := stream_reader data (fun calls _ => 1 + calls mod 3) (fun c => c mod 2 =? 1) (Some 7) in
  snd (read_exact_io r 50 (0, 0) 4 []) = ROk [1; 2; 3; 4] /\
  snd (read_exact_io r 50 (4, 0) 4 []) = RErr.
Proof. vm_compute. split; reflexivity. Qed.

Print Assumptions C14_fragmentation_invariance.
Print Assumptions C14_failing_reader.
Print Assumptions C14_incomplete_stream_is_read_error.
