(* C14: reader fragmentation does not change the value; reader failure is an error. *)
Require Import EV.Base.Tac EV.Base.Bytes EV.Base.Res EV.Base.ListX.
Require Import EV.Model.Arith64 EV.Model.Types EV.Model.Layout EV.Model.Ser EV.Model.Deser EV.Model.Header EV.Model.Typing EV.Model.IO EV.Model.Prog.
Require Import EV.Proofs.Monads EV.Proofs.Prefix EV.Proofs.IOProps EV.Proofs.ProgP.

(* read_exact -- the only way full-copy deserialization touches its reader -- over a reader that
   delivers the stream in arbitrary fragments (any sizes >= 1, any interleaving of Interrupted)
   returns exactly what read_exact on the stream as one slice returns: the same bytes, the same
   position, or ReadError at the end of the data.  Never a panic. *)
Theorem C14_fragmentation_invariance :
  forall (data : list byte) (cut : N -> N -> N) (intr : N -> bool) (fuel : nat)
         (pos calls n : N) (s' : N * N) (out : rout),
    read_exact_io (stream_reader data cut intr None) fuel (pos, calls) n [] = (s', out) ->
    out <> RFuel -> pos <= nlen data ->
    match read_exact n (ndrop pos data) pos with
    | Ok (b, rest, p') => out = ROk b /\ fst s' = p' /\ rest = ndrop p' data
    | Err e => out = RErr /\ e = ReadError
    | Panic _ => False
    end.
Proof. exact read_exact_io_matches_model. Qed.

(* With a reader that fails once k bytes have been delivered: every read_exact that needs a
   byte at or beyond k returns ReadError (no panic), every other one is unaffected. *)
Theorem C14_failing_reader :
  forall (data : list byte) (cut : N -> N -> N) (intr : N -> bool) (failat : option N) (fuel : nat)
         (pos calls n : N) (s' : N * N) (out : rout),
    read_exact_io (stream_reader data cut intr failat) fuel (pos, calls) n [] = (s', out) ->
    out <> RFuel -> pos <= nlen data ->
    (match failat with Some k => pos <= k | None => True end) ->
    if (pos + n <=? nlen data) && (match failat with Some k => pos + n <=? k | None => true end)
    then out = ROk (ntake n (ndrop pos data)) /\ fst s' = pos + n
    else out = RErr.
Proof. exact read_exact_io_stream. Qed.

(* At the level of whole values: the full-copy deserializer is a composition of read_exact calls
   on the remaining stream, so it only depends on the bytes delivered; when the stream ends (or
   the reader fails) before the value is complete the result is ReadError -- never a value. *)
Theorem C14_incomplete_stream_is_read_error :
  forall (h : hdr) (t : ty) (bs : list byte) (v : val),
    deser_full_top h t bs = Ok (v, [], nlen bs) ->
    forall k, k < nlen bs -> deser_full_top h t (ntake k bs) = Err ReadError.
Proof. exact truncated_full. Qed.

(* Whole values.  [prog_full_top h t] (Model/Prog.v) is Deserialize::deserialize_full written as a
   program over its only primitive on the reader, read_exact; run on a list it IS the full-copy
   deserializer of the model ... *)
Theorem C14_program_is_the_deserializer :
  forall h t input, run_list (prog_full_top h t) input 0 = deser_full_top h t input.
Proof. exact prog_full_top_is_deser_full_top. Qed.

(* ... and run against a reader that delivers the stream in ARBITRARY fragments with arbitrary
   Interrupted interleavings (every read_exact being std's loop over the reader) it returns the
   same value at the same position, the same error or the same panic as on the whole stream, for
   every type and every stream -- unless the reader interrupts forever. *)
Theorem C14_full_copy_fragmentation_invariance :
  forall (h : hdr) (t : ty) (data : list byte) (cut : N -> N -> N) (intr : N -> bool) (fuel : nat)
         (s' : N * N) (out : iores val),
    run_io (stream_reader data cut intr None) fuel (prog_full_top h t) (0, 0) 0 = (s', out) ->
    out <> INoOutcome ->
    match deser_full_top h t data with
    | Ok (v, rest, p') => out = IOk v p' /\ fst s' = p'
    | Err e => out = IErr e
    | Panic w => out = IPanic w
    end.
Proof. exact full_copy_fragmentation_invariance. Qed.

(* A reader that fails once k bytes have been delivered: either the deserializer never needed a
   byte at or beyond k and the result is unchanged, or the result is ReadError -- never another
   value, never a new panic. *)
Theorem C14_full_copy_failing_reader :
  forall (h : hdr) (t : ty) (data : list byte) (cut : N -> N -> N) (intr : N -> bool) (k : N) (fuel : nat)
         (s' : N * N) (out : iores val),
    run_io (stream_reader data cut intr (Some k)) fuel (prog_full_top h t) (0, 0) 0 = (s', out) ->
    out <> INoOutcome ->
    out = IErr ReadError \/
    match deser_full_top h t data with
    | Ok (v, rest, p') => out = IOk v p' /\ p' <= k
    | Err e => out = IErr e
    | Panic w => out = IPanic w
    end.
Proof. exact full_copy_failing_reader. Qed.

Example C14_example :
  let data := [1; 2; 3; 4; 5; 6; 7; 8; 9] in
  let r := stream_reader data (fun calls _ => 1 + calls mod 3) (fun c => c mod 2 =? 1) (Some 7) in
  snd (read_exact_io r 50 (0, 0) 4 []) = ROk [1; 2; 3; 4] /\
  snd (read_exact_io r 50 (4, 0) 4 []) = RErr.
Proof. vm_compute. split; reflexivity. Qed.

Print Assumptions C14_fragmentation_invariance.
Print Assumptions C14_failing_reader.
Print Assumptions C14_incomplete_stream_is_read_error.
Print Assumptions C14_program_is_the_deserializer.
Print Assumptions C14_full_copy_fragmentation_invariance.
Print Assumptions C14_full_copy_failing_reader.
