(* C15: variant tags map back to the variant written; foreign tags are rejected. *)
Require Import EV.Base.Tac EV.Base.Bytes EV.Base.Res EV.Base.ListX.
Require Import EV.Model.Arith64 EV.Model.Types EV.Model.Layout EV.Model.Ser EV.Model.Deser EV.Model.Header EV.Model.Typing.
Require Import EV.Proofs.Monads EV.Proofs.RoundTrip EV.Proofs.Tags.

(* Options, bounds and control-flow: every one-byte tag value that no variant writes is rejected
   with InvalidTag carrying exactly that value -- at any stream position, whatever follows the
   tag, on both reader backends (full-copy) and for every base address (eps-copy). *)
Theorem C15_foreign_byte_tag_full :
  forall (rk : rkind_t) (t : ty) (tag : N) (rest : list byte) (pos : N),
    byte_tagged t = true -> ntags t <= tag -> tag < 256 ->
    deser_full rk t (tag :: rest) pos = Err (InvalidTag tag).
Proof. exact foreign_byte_tag_full. Qed.

Theorem C15_foreign_byte_tag_eps :
  forall (base : N) (t : ty) (tag : N) (rest : list byte) (pos : N),
    byte_tagged t = true -> ntags t <= tag -> tag < 256 ->
    deser_eps base t (tag :: rest) pos = Err (InvalidTag tag).
Proof. exact foreign_byte_tag_eps. Qed.

(* Derived enums: every pointer-width tag value >= the number of variants is rejected with
   InvalidTag carrying that value, in both modes. *)
Theorem C15_foreign_enum_tag_full :
  forall (rk : rkind_t) (i : adt_info) (vs : variants) (tag : N) (rest : list byte) (pos : N),
    a_zc i = false -> variants_len vs <= tag -> tag < 2 ^ 64 ->
    deser_full rk (TEnum i vs) (le_bytes 8 tag ++ rest) pos = Err (InvalidTag tag).
Proof. exact foreign_enum_tag_full. Qed.

Theorem C15_foreign_enum_tag_eps :
  forall (base : N) (i : adt_info) (vs : variants) (tag : N) (rest : list byte) (pos : N),
    a_zc i = false -> variants_len vs <= tag -> tag < 2 ^ 64 ->
    deser_eps base (TEnum i vs) (le_bytes 8 tag ++ rest) pos = Err (InvalidTag tag).
Proof. exact foreign_enum_tag_eps. Qed.

(* The tag written for a variant selects exactly that variant's decoder ... *)
Theorem C15_valid_tag_selects_variant :
  forall (rk : rkind_t) (vs : variants) (k tag : N) (n : name) (nm : bool) (fs : fields),
    nth_variant vs k = Some (n, nm, fs) ->
    deser_full_variants rk vs k tag = (let+ l := deser_full_fields rk fs in rret (VTag tag l)).
Proof. exact valid_enum_tag_selects_variant. Qed.

(* ... and every value of every sum type (built-in or derived, any payload) is read back as the
   same variant with the same payload: the round trip of C01 at the sum types. *)
Theorem C15_written_tags_decode :
  forall (pf : padfill) (t : ty) (v : val),
    wf t = true -> deserializable t = true ->
    wt t v = true -> exhausted_in t v = false ->
    forall (pos : N) (evs : list event) (rest : list byte),
      ser pf t v pos = (evs, SDone) ->
      deser_full None t (bytes_of evs ++ rest) pos = Ok (v, rest, pos + evs_len evs).
Proof. exact roundtrip_full. Qed.

Example C15_example :
  deser_full None (TBound (TPrim (PInt U8))) [3; 9] 0 = Err (InvalidTag 3) /\
  deser_eps 64 (TCF TString TString) [2] 5 = Err (InvalidTag 2) /\
  ntags (TOption TUnit) = 2.
Proof. vm_compute. repeat split; reflexivity. Qed.

Print Assumptions C15_foreign_byte_tag_full.
Print Assumptions C15_foreign_byte_tag_eps.
Print Assumptions C15_foreign_enum_tag_full.
Print Assumptions C15_foreign_enum_tag_eps.
Print Assumptions C15_valid_tag_selects_variant.
Print Assumptions C15_written_tags_decode.
