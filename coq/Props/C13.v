(* C13: writer failures yield an error, a clean prefix, and an intact source value. *)
Require Import EV.Base.Tac EV.Base.Bytes EV.Base.Res EV.Base.ListX.
Require Import EV.Model.Arith64 EV.Model.Types EV.Model.Layout EV.Model.Ser EV.Model.Deser EV.Model.Header EV.Model.Typing EV.Model.IO.
Require Import EV.Proofs.Monads EV.Proofs.SerTotal EV.Proofs.IOProps.

(* For EVERY writer (any state machine answering write with a short count, Ok(0), Interrupted or
   an error, and flush with success or failure), any fuel, any serialization run: the bytes the
   writer accepted are a prefix of the fault-free stream. *)
Theorem C13_accepted_bytes_are_a_prefix :
  forall (w : writer) (fuel : nat) (s : wst w) (run : sres),
    is_prefix (fst (serialize_io w fuel s run)) (bytes_of (fst run)).
Proof. exact accepted_is_prefix. Qed.

(* For EVERY writer: success is reported only with the exact count and when the writer accepted
   exactly the fault-free bytes (flush included); any other run ends in WriteError (or has no
   outcome if the writer interrupts forever): never a panic, never success after a failure. *)
Theorem C13_result :
  forall (w : writer) (fuel : nat) (s : wst w) (evs : list event),
    let '(acc, r) := serialize_io w fuel s (evs, SDone) in
    (r = SROk (evs_len evs) /\ acc = bytes_of evs) \/ r = SRWriteError \/ r = SRNoOutcome.
Proof. exact serialize_io_result. Qed.

(* Writers that merely split or retry writes receive exactly the fault-free bytes. *)
Theorem C13_benign_writers :
  forall (w : writer) (fuel : nat) (s : wst w) (evs : list event),
    benign w ->
    snd (serialize_io w fuel s (evs, SDone)) <> SRNoOutcome ->
    serialize_io w fuel s (evs, SDone) = (bytes_of evs, SROk (evs_len evs)).
Proof. exact benign_writer_gets_everything. Qed.

(* The writer that fails after k bytes receives exactly the first k bytes; the result is WriteError. *)
Theorem C13_fail_after_k :
  forall (k : N) (evs : list event) (fuel : nat),
    k < evs_len evs -> (N.to_nat (evs_len evs) < fuel)%nat ->
    serialize_io (fail_after k) fuel 0 (evs, SDone) = (ntake k (bytes_of evs), SRWriteError).
Proof. exact fail_after_k. Qed.

(* The serialization of every well-typed value is such a run (it ends in SDone by itself), so
   the three statements above apply to it. The borrowed buffer of a slice reference is wrapped
   in a value that is never dropped: the event list contains EAliasBegin/EAliasEnd only, there
   is no event that releases it on any path. *)
Theorem C13_applies_to_every_value :
  forall (pf : padfill) (h : hdr) (t : ty) (v : val),
    wf t = true -> wt t v = true -> honest t v = true ->
    snd (ser_top pf h t v) = SDone.
Proof. exact ser_top_total. Qed.

Example C13_example :
  let h := {| h_type_hash := 1; h_align_hash := 2; h_name := [86] |} in
  let run := ser_top (fun _ => 0) h (TSliceRef (TPrim (PInt U64))) (VSeq [VN 1; VN 2]) in
  snd run = SDone /\
  serialize_io (fail_after 50) 200 0 run = (ntake 50 (bytes_of (fst run)), SRWriteError).
Proof. vm_compute. split; reflexivity. Qed.

Print Assumptions C13_accepted_bytes_are_a_prefix.
Print Assumptions C13_result.
Print Assumptions C13_benign_writers.
Print Assumptions C13_fail_after_k.
Print Assumptions C13_applies_to_every_value.
