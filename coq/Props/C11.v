(* C11: a truncated file is never deserialized into a value. *)
Require Import EV.Base.Tac EV.Base.Bytes EV.Base.Res EV.Base.ListX.
Require Import EV.Model.Arith64 EV.Model.Types EV.Model.Layout EV.Model.Ser EV.Model.Deser EV.Model.Header EV.Model.Typing.
Require Import EV.Proofs.Monads EV.Proofs.RoundTrip EV.Proofs.HeaderRT EV.Proofs.Prefix.

(* Every strict prefix of a stream that full-copy deserializes to a value (consuming all of it)
   yields ReadError -- for every type, with no well-formedness hypothesis. *)
Theorem C11_truncated_full :
  forall (h : hdr) (t : ty) (bs : list byte) (v : val),
    deser_full_top h t bs = Ok (v, [], nlen bs) ->
    forall k, k < nlen bs -> deser_full_top h t (ntake k bs) = Err ReadError.
Proof. exact truncated_full. Qed.

(* In eps-copy mode, for every base address, a strict prefix yields ReadError or a panic (the
   bounds check of slice indexing): never a value, never an alignment error. *)
Theorem C11_truncated_eps :
  forall (base : N) (h : hdr) (t : ty) (bs : list byte) (v : val),
    deser_eps_top base h t bs = Ok (v, [], nlen bs) ->
    forall k, k < nlen bs ->
      deser_eps_top base h t (ntake k bs) = Err ReadError \/
      exists w, deser_eps_top base h t (ntake k bs) = Panic w.
Proof. exact truncated_eps. Qed.

(* With C01: every strict prefix of what serialization produced is refused by full-copy
   deserialization, for every type, value and padding content. *)
Theorem C11_prefix_of_serialization_refused :
  forall (pf : padfill) (h : hdr) (t : ty) (v : val) (evs : list event),
    hdr_ok h -> wf t = true -> deserializable t = true ->
    wt t v = true -> exhausted_in t v = false ->
    ser_top pf h t v = (evs, SDone) ->
    forall k, k < nlen (bytes_of evs) ->
      deser_full_top h t (ntake k (bytes_of evs)) = Err ReadError.
Proof.
  intros pf h t v evs Hh Hw Hd Ht He Hs k Hk.
  apply (truncated_full h t (bytes_of evs) v); [|exact Hk].
  rewrite (full_roundtrip_top pf h t v evs Hh Hw Hd Ht He Hs). now rewrite nlen_bytes_of.
Qed.

(* The readers never look at bytes after the end of a valid stream (used for the loaders, C08). *)
Theorem C11_suffix_independence_eps :
  forall (base : N) (h : hdr) (t : ty) (bs : list byte) (v : val),
    deser_eps_top base h t bs = Ok (v, [], nlen bs) ->
    forall ext, deser_eps_top base h t (bs ++ ext) = Ok (v, ext, nlen bs).
Proof. exact eps_extension. Qed.

Example C11_example :
  let h := {| h_type_hash := 1; h_align_hash := 2; h_name := [83] |} in
  let t := TVec (TPrim (PInt U16)) in
  let '(evs, _) := ser_top (fun _ => 0) h t (VSeq [VN 7; VN 8]) in
  deser_full_top h t (bytes_of evs) = Ok (VSeq [VN 7; VN 8], [], nlen (bytes_of evs)) /\
  deser_full_top h t (ntake 40 (bytes_of evs)) = Err ReadError /\
  deser_eps_top 64 h t (ntake 49 (bytes_of evs)) = Panic PBounds.
Proof. vm_compute. repeat split; reflexivity. Qed.

Print Assumptions C11_truncated_full.
Print Assumptions C11_truncated_eps.
Print Assumptions C11_prefix_of_serialization_refused.
Print Assumptions C11_suffix_independence_eps.
