(* C07: zero-copy blocks are padded to their alignment unit; byte counts are exact. *)
Require Import EV.Base.Tac EV.Base.Bytes EV.Base.Res EV.Base.ListX.
Require Import EV.Model.Arith64 EV.Model.Types EV.Model.Layout EV.Model.Ser EV.Model.Deser EV.Model.Header EV.Model.Typing.
Require Import EV.Proofs.Pad EV.Proofs.Monads EV.Proofs.RoundTrip EV.Proofs.HeaderRT EV.Proofs.LayoutOK.

(* The padding formula: for every position and every power-of-two unit 2^k <= 2^64 the value
   computed by pad_align_to makes the position a multiple of the unit, is smaller than the
   unit, and no smaller padding does. *)
Theorem C07_pad_formula :
  forall (v k : N), k <= 64 ->
    let p := pad_align_to v (2 ^ k) in
    (v + p) mod 2 ^ k = 0 /\ p < 2 ^ k /\ (forall q, (v + q) mod 2 ^ k = 0 -> p <= q).
Proof. exact pad_align_to_spec. Qed.

(* In the stream of any value of any type whose units are powers of two, for every padding
   content: every zero-copy block starts at an offset that is a multiple of its type's unit,
   and every padding run is exactly pad_align_to(offset, unit), non-empty and shorter than the
   unit (so, by C07_pad_formula, the smallest gap; it consists of zero bytes by [ev_bytes]). *)
Theorem C07_blocks_aligned :
  forall (pf : padfill) (h : hdr) (t : ty) (v : val),
    units_pow2 t = true ->
    layout_ok 0 (fst (ser_top pf h t v)).
Proof. exact layout_top. Qed.

(* The unit of a zero-copy type without range types is at least its native alignment, and the
   unit of a struct is at least the unit of each field. *)
Theorem C07_unit_ge_align :
  forall t, zc_ok t = true -> range_free t = true -> align_of t <= unit_of t.
Proof. exact (proj1 unit_ge_align). Qed.

Theorem C07_unit_ge_field_unit :
  forall i nm isp t r, unit_of t <= unit_of (TStruct i (FCons nm isp t r)).
Proof. exact unit_field_le_struct. Qed.

(* Byte counts: the count returned by serialization (the position of the writer) is the number
   of bytes handed to the writer, and full-copy deserialization consumes exactly that many. *)
Theorem C07_count_is_bytes_written :
  forall (evs : list event), nlen (bytes_of evs) = evs_len evs.
Proof. exact nlen_bytes_of. Qed.

Theorem C07_full_consumes_exactly :
  forall (pf : padfill) (h : hdr) (t : ty) (v : val) (evs : list event),
    hdr_ok h -> wf t = true -> deserializable t = true ->
    wt t v = true -> exhausted_in t v = false ->
    ser_top pf h t v = (evs, SDone) ->
    exists v', deser_full_top h t (bytes_of evs) = Ok (v', [], nlen (bytes_of evs)).
Proof.
  intros pf h t v evs Hh Hw Hd Ht He Hs. exists v. rewrite nlen_bytes_of.
  exact (full_roundtrip_top pf h t v evs Hh Hw Hd Ht He Hs).
Qed.

(* The known class (D10): a RangeTo/RangeToInclusive over an index type whose size is not a
   power of two has a unit that is not a power of two; the mask formula is then not a padding. *)
Definition d10_ty : ty := TVec (TRange RTo (TArray 3 (TPrim (PInt U32)))).
Lemma C07_refuted_for_range_units :
  wf d10_ty = true /\ units_pow2 d10_ty = false /\
  unit_of (TRange RTo (TArray 3 (TPrim (PInt U32)))) = 12 /\
  (8 + pad_align_to 8 12) mod 12 <> 0.
Proof. vm_compute. repeat split; discriminate. Qed.

Example C07_example :
  units_pow2 (TVec (TStruct {| a_name := [90]; a_zc := true; a_deep := false; a_reprs := [NAME_C]; a_align := 32; a_consts := [] |}
                      (FCons [97] false (TPrim (PInt U8)) (FCons [98] false (TPrim (PInt U64)) FNil)))) = true.
Proof. vm_compute. reflexivity. Qed.

Print Assumptions C07_pad_formula.
Print Assumptions C07_blocks_aligned.
Print Assumptions C07_unit_ge_align.
Print Assumptions C07_unit_ge_field_unit.
Print Assumptions C07_count_is_bytes_written.
Print Assumptions C07_full_consumes_exactly.
