(* C01: full-copy round trip returns the value that was serialized.
   Only property theorems, closed by [exact], and their assumptions. *)
Require Import EV.Base.Tac EV.Base.Bytes EV.Base.Res EV.Base.ListX.
Require Import EV.Model.Arith64 EV.Model.Types EV.Model.Layout EV.Model.Ser EV.Model.Deser EV.Model.Header EV.Model.Typing.
Require Import EV.Proofs.Monads EV.Proofs.RoundTrip EV.Proofs.HeaderRT EV.Proofs.SerTotal.

(* Serialization of any value of any type in the grammar succeeds (no panic, no error), for
   every padding content; [honest] only excludes iterators that lie about their length (C16). *)
Theorem C01_serialization_succeeds :
  forall (pf : padfill) (h : hdr) (t : ty) (v : val),
    wf t = true -> wt t v = true -> honest t v = true ->
    snd (ser_top pf h t v) = SDone.
Proof. exact ser_top_total. Qed.

(* Serialize::serialize followed by Deserialize::deserialize_full on the produced bytes returns
   the original value, consumes the whole stream and nothing else.  For every type of the
   grammar (any nesting), every value except those holding an exhausted inclusive range on the
   deep path, and every content of padding bytes. *)
Theorem C01_full_roundtrip :
  forall (pf : padfill) (h : hdr) (t : ty) (v : val) (evs : list event),
    hdr_ok h ->
    wf t = true -> deserializable t = true ->
    wt t v = true -> exhausted_in t v = false ->
    ser_top pf h t v = (evs, SDone) ->
    deser_full_top h t (bytes_of evs) = Ok (v, [], evs_len evs).
Proof. exact full_roundtrip_top. Qed.

(* The same at every stream position and whatever follows in the stream (this is what makes
   the round trip hold wherever the type occurs inside another type). *)
Theorem C01_roundtrip_in_context :
  forall (pf : padfill) (t : ty) (v : val),
    wf t = true -> deserializable t = true ->
    wt t v = true -> exhausted_in t v = false ->
    forall (pos : N) (evs : list event) (rest : list byte),
      ser pf t v pos = (evs, SDone) ->
      deser_full None t (bytes_of evs ++ rest) pos = Ok (v, rest, pos + evs_len evs).
Proof. exact roundtrip_full. Qed.

(* Non-vacuity: a nested value with a NaN payload, an empty inner vector, a zero-copy struct
   with padding and an enum satisfies the hypotheses and round-trips by computation. *)
Definition ex_info (n : name) (zc : bool) : adt_info :=
  {| a_name := n; a_zc := zc; a_deep := false; a_reprs := if zc then [NAME_C] else []; a_align := 0; a_consts := [] |}.
Definition ex_zs : ty := TStruct (ex_info [90] true) (FCons [97] false (TPrim (PInt U8)) (FCons [98] false (TPrim (PInt U32)) FNil)).
Definition ex_ty : ty :=
  TStruct (ex_info [83] false)
    (FCons [120] false (TVec (TVec (TPrim PF32)))
    (FCons [121] true (TVec ex_zs)
    (FCons [122] false (TOption (TEnum (ex_info [69] false) (VCons [65] false FNil (VCons [66] true (FCons [48] false TString FNil) VNil)))) FNil))).
Definition ex_val : val :=
  VSeq [VSeq [VSeq []; VSeq [VN 2143289345; VN 2147483648]];
        VSeq [VSeq [VN 7; VN 9]; VSeq [VN 1; VN 4294967295]];
        VTag 1 [VTag 1 [VBytes [206; 181]]]].
Definition ex_hdr : hdr := {| h_type_hash := 1; h_align_hash := 2; h_name := [83] |}.

Example C01_example :
  wf ex_ty = true /\ deserializable ex_ty = true /\ wt ex_ty ex_val = true /\
  exhausted_in ex_ty ex_val = false /\ honest ex_ty ex_val = true /\
  (let '(evs, o) := ser_top (fun _ => 170) ex_hdr ex_ty ex_val in
   o = SDone /\ deser_full_top ex_hdr ex_ty (bytes_of evs) = Ok (ex_val, [], evs_len evs)).
Proof. vm_compute. repeat split; reflexivity. Qed.

Print Assumptions C01_serialization_succeeds.
Print Assumptions C01_full_roundtrip.
Print Assumptions C01_roundtrip_in_context.
