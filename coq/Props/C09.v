(* C09: backing memory is held while the structure lives, released exactly once, and nothing
   is leaked when loading fails. *)
Require Import EV.Base.Tac EV.Base.Bytes EV.Base.Res EV.Base.ListX.
Require Import EV.Model.Arith64 EV.Model.Types EV.Model.Layout EV.Model.Ser EV.Model.Deser EV.Model.Header EV.Model.Loader.
Require Import EV.Proofs.LoaderP.

(* The loaders as sequences of resource steps over a ledger of live resources (Model/Loader.v).
   A successful load leaves exactly one more live resource -- the backend owned by the returned
   case -- and dropping the case releases exactly that resource: *)
Theorem C09_success_then_release_once :
  forall (l : loader) (n : N) (live : list resource),
    l <> LFull ->
    exists b, load_ledger l n SNone live = (b :: live, true) /\ drop_case l n (b :: live) = live.
Proof. exact ledger_success. Qed.

(* A load that stops anywhere (metadata, open, acquisition, reading the file, deserialization:
   wrong type, corrupt or truncated file, by error or by panic) leaves the ledger as it was: *)
Theorem C09_failure_leaks_nothing :
  forall (l : loader) (n : N) (s : stop) (live : list resource),
    s <> SNone -> load_ledger l n s live = (live, false).
Proof. exact ledger_failure. Qed.

Theorem C09_load_full_holds_nothing :
  forall (n : N) (s : stop) (live : list resource), fst (load_ledger LFull n s live) = live.
Proof. exact ledger_full. Qed.

(* The lifetime part of the property ("borrowed data cannot outlive its owner for every safe
   client program") is about Rust's borrow checker: it is not expressible in this model; the
   check runs a family of probe programs (one per access path) through rustc and compares the
   outcome with the recorded classification (see DESIGN.md, known finding D7). *)

Print Assumptions C09_success_then_release_once.
Print Assumptions C09_failure_leaks_nothing.
Print Assumptions C09_load_full_holds_nothing.
