(* C09: backing memory is held while the structure lives, released exactly once, and nothing
   is leaked when loading fails. *)
Require Import EV.Base.Tac EV.Base.Bytes EV.Base.Res EV.Base.ListX.
Require Import EV.Model.Arith64 EV.Model.Types EV.Model.Layout EV.Model.Ser EV.Model.Deser EV.Model.Header EV.Model.Loader.
Require Import EV.Proofs.LoaderP.

(* The loaders as the sequences of their ownership-relevant steps (Model/Loader.v, [loader_steps]:
   fallible operations, acquisitions into locals, the write of the backend into the MaybeUninit
   case, arming and disarming of the BackendGuard), run over a ledger of live resources with the
   unwinding rules of Rust: locals are dropped on every exit, the contents of the MaybeUninit only by
   an armed guard.  A successful load leaves exactly one more live resource -- the backend owned by the returned
   case -- and dropping the case releases exactly that resource: *)
Theorem C09_success_then_release_once :
  forall (l : loader) (n : N) (h : how) (live : list resource),
    l <> LFull ->
    exists b, load_ledger l n SNone h live = (b :: live, true) /\ drop_case l n (b :: live) = live.
Proof. exact ledger_success. Qed.

(* A load that stops anywhere (metadata, open, acquisition, reading the file, deserialization:
   wrong type, corrupt or truncated file), by a returned error or by a panic, leaves the ledger as
   it was: *)
Theorem C09_failure_leaks_nothing :
  forall (l : loader) (n : N) (s : stop) (h : how) (live : list resource),
    can_stop l s = true -> load_ledger l n s h live = (live, false).
Proof. exact ledger_failure. Qed.

(* [can_stop]: every fallible step of each loader (computed from the step lists) *)
Theorem C09_stop_points :
  List.map (fun l => List.map (can_stop l) [SMetadata; SOpen; SAcquire; SReadFile; SFreeze; SDeser; SNone]) [LFull; LMem; LMmap; LMap] =
  [[false; true; false; false; false; true; false];
   [true; true; true; true; false; true; false];
   [true; true; true; true; true; true; false];
   [true; true; true; false; false; true; false]].
Proof. exact can_stop_table. Qed.

(* The model discriminates: the step lists of the pinned tree (no guard, defect D6) leak the backend
   when deserialization fails, and so does disarming the guard too early (seeded change C09-a). *)
Theorem C09_refuted_without_guard :
  forall n h live,
    ledger_of (loader_steps_pinned LMem n) SDeser h live = (RHeap (capacity LMem n) :: live, false) /\
    ledger_of (loader_steps_pinned LMmap n) SDeser h live = (RMapping (capacity LMmap n) :: live, false) /\
    ledger_of (loader_steps_pinned LMap n) SDeser h live = (RMapping n :: live, false).
Proof. exact ledger_pinned_leaks. Qed.

(* ... and so does a release attached to the returned error instead of a drop guard (seeded change
   C09-d): clean on every error and on success, it leaks the backend exactly when deserialization
   panics -- which a file truncated inside a zero-copy payload provokes. *)
Theorem C09_refuted_with_error_handler_instead_of_guard :
  forall (l : loader) (n : N) (live : list resource),
    l <> LFull ->
    (forall s, can_stop l s = true -> ledger_of (loader_steps_map_err l n) s ByErr live = (live, false)) /\
    (forall h, ledger_of (loader_steps_map_err l n) SNone h live = ledger_of (loader_steps l n) SNone h live) /\
    (forall s, can_stop l s = true -> s <> SDeser -> ledger_of (loader_steps_map_err l n) s ByPanic live = (live, false)) /\
    exists b, ledger_of (loader_steps_map_err l n) SDeser ByPanic live = (b :: live, false).
Proof. exact ledger_map_err. Qed.

Theorem C09_load_full_holds_nothing :
  forall (n : N) (s : stop) (h : how) (live : list resource), fst (load_ledger LFull n s h live) = live.
Proof. exact ledger_full. Qed.

(* The lifetime part of the property ("borrowed data cannot outlive its owner for every safe
   client program") is about Rust's borrow checker: it is not expressible in this model; the
   check runs a family of probe programs (one per access path) through rustc and compares the
   outcome with the recorded classification (see DESIGN.md, known finding D7). *)

Print Assumptions C09_success_then_release_once.
Print Assumptions C09_failure_leaks_nothing.
Print Assumptions C09_stop_points.
Print Assumptions C09_refuted_without_guard.
Print Assumptions C09_refuted_with_error_handler_instead_of_guard.
Print Assumptions C09_load_full_holds_nothing.
