(* C02: eps-copy round trip equals the original and agrees with full copy. *)
Require Import EV.Base.Tac EV.Base.Bytes EV.Base.Res EV.Base.ListX.
Require Import EV.Model.Arith64 EV.Model.Types EV.Model.Layout EV.Model.Ser EV.Model.Deser EV.Model.Header EV.Model.Typing EV.Model.Need.
Require Import EV.Proofs.Monads EV.Proofs.RoundTrip EV.Proofs.HeaderRT EV.Proofs.EpsRT EV.Proofs.EpsTop EV.Proofs.CoverP.

(* From a buffer whose base address is a multiple of the largest alignment unit in the type,
   eps-copy deserialization of the serialized bytes succeeds, consumes exactly the stream, and
   its result -- borrowed slices, strings and references resolved ([erase]) -- is the original
   value.  For every type of the grammar whose units are powers of two and cover the native
   alignment (everything outside the D10 class), every value, every padding content. *)
Theorem C02_eps_roundtrip :
  forall (base : N) (pf : padfill) (h : hdr) (t : ty) (v : val) (evs : list event),
    hdr_ok h ->
    wf t = true -> units_pow2 t = true -> units_cover t = true -> deserializable t = true ->
    wt t v = true -> exhausted_in t v = false ->
    ser_top pf h t v = (evs, SDone) ->
    base mod max_unit t = 0 ->
    exists e, deser_eps_top base h t (bytes_of evs) = Ok (e, [], evs_len evs) /\ erase e = v.
Proof. exact eps_roundtrip_top. Qed.

(* Whenever both modes return a value on the same serialized bytes (at any base address), the
   eps-copy result describes the same value as the full-copy result. *)
Theorem C02_modes_agree :
  forall (base : N) (pf : padfill) (h : hdr) (t : ty) (v : val) (evs : list event)
         (e f : val * list byte * N),
    hdr_ok h ->
    wf t = true -> units_pow2 t = true -> units_cover t = true -> deserializable t = true ->
    wt t v = true -> exhausted_in t v = false ->
    ser_top pf h t v = (evs, SDone) ->
    deser_eps_top base h t (bytes_of evs) = Ok e -> deser_full_top h t (bytes_of evs) = Ok f ->
    erase (fst (fst e)) = fst (fst f).
Proof. exact modes_agree. Qed.

(* The same inside any enclosing type: at every position, whatever follows, a field that is
   eps-copy deserialized either yields the value or AlignmentError, according to the base address
   only. *)
Theorem C02_eps_in_context :
  forall (base : N) (t : ty) (pf : padfill) (v : val),
    wf t = true -> units_pow2 t = true -> units_cover t = true -> deserializable t = true ->
    wt t v = true -> exhausted_in t v = false ->
    RTE base (ser pf t v) (deser_eps base t) (ER v) (need t v).
Proof. intros base. exact (proj1 (slice_eps_all base)). Qed.

(* The two unit hypotheses hold for every type of the grammar outside the known class D10: they
   follow from well-formedness as soon as every range type inside [t] has a size that is a power
   of two ([ranges_pow2], Proofs/CoverP.v; in particular for every type without ranges) and every
   repr(align(n)) attribute is a power of two (rustc's own rule, [aligns_ok]). *)
Theorem C02_unit_hypotheses_hold_outside_D10 :
  forall t, wf t = true -> aligns_ok t = true -> ranges_pow2 t = true ->
            units_pow2 t = true /\ units_cover t = true.
Proof. intros t W A R. split; [exact (wf_units_pow2 t W A R) | exact (wf_units_cover t W R)]. Qed.

Theorem C02_types_without_ranges_are_outside_D10 :
  forall t, no_ranges t = true -> ranges_pow2 t = true.
Proof. exact no_ranges_ranges_pow2. Qed.

(* and units_pow2 fails only because of a range *)
Theorem C02_unit_hypothesis_fails_only_on_ranges :
  forall t, wf t = true -> aligns_ok t = true -> units_pow2 t = false -> ranges_pow2 t = false.
Proof. exact units_pow2_only_fails_on_ranges. Qed.

(* The known class (D10): a unit that is not a power of two. From a 64-aligned buffer the
   stream of a Vec<RangeTo<[u32; 3]>> is refused with AlignmentError. *)
Definition d10_ty : ty := TVec (TRange RTo (TArray 3 (TPrim (PInt U32)))).
Definition d10_val : val := VSeq [VSeq [VSeq [VN 1; VN 2; VN 3]]].
Lemma C02_refuted_for_range_units :
  wf d10_ty = true /\ wt d10_ty d10_val = true /\ units_pow2 d10_ty = false /\
  (let h := {| h_type_hash := 1; h_align_hash := 2; h_name := [86] |} in
   let '(evs, _) := ser_top (fun _ => 0) h d10_ty d10_val in
   deser_eps_top 4096 h d10_ty (bytes_of evs) = Err AlignmentError).
Proof. vm_compute. repeat split; reflexivity. Qed.

Example C02_example :
  let t := TStruct {| a_name := [83]; a_zc := false; a_deep := false; a_reprs := []; a_align := 0; a_consts := [] |}
             (FCons [97] true (TVec (TPrim (PInt U64))) (FCons [98] false (TVec (TPrim (PInt U16))) (FCons [99] true TString FNil))) in
  let v := VSeq [VSeq [VN 5; VN 6]; VSeq [VN 7]; VBytes [104; 105]] in
  let h := {| h_type_hash := 1; h_align_hash := 2; h_name := [83] |} in
  wf t = true /\ units_pow2 t = true /\ units_cover t = true /\ wt t v = true /\ max_unit t = 8 /\
  (let '(evs, _) := ser_top (fun _ => 0) h t v in
   match deser_eps_top 4096 h t (bytes_of evs) with
   | Ok (e, _, _) => erase e = v /\ e <> v
   | _ => False
   end).
Proof. vm_compute. repeat split; try reflexivity. discriminate. Qed.

Print Assumptions C02_eps_roundtrip.
Print Assumptions C02_modes_agree.
Print Assumptions C02_eps_in_context.
Print Assumptions C02_unit_hypotheses_hold_outside_D10.
Print Assumptions C02_types_without_ranges_are_outside_D10.
Print Assumptions C02_unit_hypothesis_fails_only_on_ranges.
