(* C18: the recorded schema describes exactly the bytes that were written. *)
Require Import EV.Base.Tac EV.Base.Bytes EV.Base.Res EV.Base.ListX.
Require Import EV.Model.Arith64 EV.Model.Types EV.Model.Layout EV.Model.Ser EV.Model.Header EV.Model.Typing EV.Model.Schema.
Require Import EV.Proofs.Monads EV.Proofs.LayoutOK EV.Proofs.SchemaP.

(* The recording writer makes the same WriteWithNames calls as the plain one: in the model the
   rows are a function ([schema_of]) of the very events whose bytes are the stream, so "same
   bytes" holds by construction; for the implementation it is observed on every case. *)

(* Rows are in pre-order: offsets never decrease along the schema vector, and the vector is the
   pre-order traversal of the tree of rows. *)
Theorem C18_preorder :
  forall fuel pos path evs rs pos' rest,
    rows fuel pos path evs = (rs, pos', rest) -> offsets_sorted rs.
Proof. exact rows_preorder. Qed.

Theorem C18_rows_are_the_preorder_of_the_tree :
  forall fuel pos path evs,
    let '(ts, p1, r1) := trees fuel pos path evs in
    rows fuel pos path evs = (flatten ts, p1, r1).
Proof. exact rows_flatten. Qed.

(* Every row lies within the stream. *)
Theorem C18_rows_within_stream :
  forall evs, Forall (fun r => r_off r + r_size r <= evs_len evs) (schema_of evs).
Proof. exact schema_rows_within. Qed.

(* For the stream of any value of any type: the top-level rows tile the whole stream, and the
   children of every composite row tile it without gaps or overlaps. *)
Theorem C18_tiling :
  forall pf h t v evs,
    ser_top pf h t v = (evs, SDone) ->
    span (forest_of evs) 0 = Some (evs_len evs) /\ Forall tiled (forest_of evs).
Proof. exact schema_tiled. Qed.

(* Padding rows cover only zero bytes. *)
Theorem C18_padding_rows_are_zero :
  forall evs,
    Forall (fun r => r_leaf r = true ->
              (r_path r = [N_PADDING] -> ntake (r_size r) (ndrop (r_off r) (bytes_of evs)) = zeros (r_size r)))
           (schema_of evs).
Proof. exact leaf_rows_bytes. Qed.

(* Each block of zero-copy data starts at a multiple of its recorded alignment (the row's
   alignment is the unit of the block's type; C07 on the same events). *)
Theorem C18_blocks_aligned :
  forall pf h t v, units_pow2 t = true -> layout_ok 0 (fst (ser_top pf h t v)).
Proof. exact layout_top. Qed.

(* Rendering never fails: to_csv indexes nothing, debug indexes only inside the stream. *)
Theorem C18_rendering_never_fails :
  forall evs, debug_ok (evs_len evs) (schema_of evs) = true.
Proof. exact schema_debug_ok. Qed.

Example C18_example :
  let h := {| h_type_hash := 1; h_align_hash := 2; h_name := [86] |} in
  let evs := fst (ser_top (fun _ => 0) h (TVec (TPrim (PInt U32))) (VSeq [VN 1])) in
  List.map (fun r => (r_off r, r_size r, r_align r)) (skipn 9 (schema_of evs)) =
    [(38, 14, 0); (38, 8, 0); (46, 2, 1); (48, 4, 4)].
Proof. vm_compute. reflexivity. Qed.

Print Assumptions C18_preorder.
Print Assumptions C18_rows_are_the_preorder_of_the_tree.
Print Assumptions C18_rows_within_stream.
Print Assumptions C18_tiling.
Print Assumptions C18_padding_rows_are_zero.
Print Assumptions C18_blocks_aligned.
Print Assumptions C18_rendering_never_fails.
