(* C03: eps-copy borrows in place (in-bounds, at the written offset, written length, aligned) and
   allocates only the deep-copy skeleton. *)
Require Import EV.Base.Tac EV.Base.Bytes EV.Base.Res EV.Base.ListX.
Require Import EV.Model.Arith64 EV.Model.Types EV.Model.Layout EV.Model.Ser EV.Model.Deser EV.Model.Header EV.Model.Typing EV.Model.Need EV.Model.Derive.
Require Import EV.Proofs.HeaderRT EV.Proofs.DeriveP EV.Proofs.PlaceP EV.Proofs.SkelP.

(* For EVERY buffer (not only serialized ones), type, base address and result: every borrowed part
   of an eps-copy result ([ref_at], Model/Derive.v) lies inside the buffer, has exactly the byte
   length of its items, is aligned for its element type at the buffer's address, and its content
   is what the buffer holds at that place; parts that are not borrowed own their data. *)
Theorem C03_borrowed_parts_in_bounds_aligned_exact :
  forall (base : N) (h : hdr) (t : ty) (buf : list byte) (e : val) (rest : list byte) (n : N),
    deser_eps_top base h t buf = Ok (e, rest, n) ->
    eps_ok base buf (dty_of t) e /\ rest = ndrop n buf /\ n <= nlen buf.
Proof. exact eps_top_ok. Qed.

(* the same for a value read at any position inside a buffer (fields, items) *)
Theorem C03_in_context :
  forall (t : ty) (base : N) (buf : list byte) (pos : N) (e : val) (rest : list byte) (pos' : N),
    pos <= nlen buf ->
    deser_eps base t (ndrop pos buf) pos = Ok (e, rest, pos') ->
    eps_ok base buf (dty_of t) e /\ rest = ndrop pos' buf /\ pos <= pos' /\ pos' <= nlen buf.
Proof. exact eps_result_ok. Qed.

(* On serialized streams every borrowed part points exactly at a zero-copy block the serializer
   wrote: same absolute offset, same byte length. *)
Theorem C03_references_point_at_written_blocks :
  forall (base : N) (pf : padfill) (h : hdr) (t : ty) (v : val) (evs : list event) (e : val) (rest : list byte) (n : N),
    hdr_ok h ->
    wf t = true -> units_pow2 t = true -> units_cover t = true -> deserializable t = true ->
    wt t v = true -> exhausted_in t v = false ->
    ser_top pf h t v = (evs, SDone) ->
    deser_eps_top base h t (bytes_of evs) = Ok (e, rest, n) ->
    incl (refs e) (blocks_at 0 evs).
Proof. exact refs_in_blocks. Qed.

(* The allocation requests of an eps-copy deserialization ([alloc_eps]: one per sequence of
   deep-copy items, plus those of the fields that are fully copied by design) are a function of the
   skeleton of the result: two results that differ only in their borrowed parts (offsets, lengths,
   contents) request exactly the same allocations. *)
Theorem C03_allocation_depends_on_skeleton_only :
  forall (t : ty) (e e' : val), skel e = skel e' -> alloc_eps t e = alloc_eps t e'.
Proof. exact alloc_eps_same_skeleton. Qed.

(* At the level of the serialized values.  [skel_of t v] (Proofs/SkelP.v) is the value with every
   sequence that eps-copy returns as a borrowed slice, str or reference forgotten (length and
   content): two values with the same skeleton -- whatever the lengths and contents of their
   borrowed sequences, whatever the padding junk and the (aligned) buffer addresses -- make
   eps-copy deserialization request exactly the same allocations. *)
Theorem C03_allocation_independent_of_borrowed_lengths :
  forall (base base' : N) (pf pf' : padfill) (h : hdr) (t : ty) (v v' : val) (evs evs' : list event),
    hdr_ok h ->
    wf t = true -> units_pow2 t = true -> units_cover t = true -> deserializable t = true ->
    wt t v = true -> exhausted_in t v = false -> wt t v' = true -> exhausted_in t v' = false ->
    ser_top pf h t v = (evs, SDone) -> ser_top pf' h t v' = (evs', SDone) ->
    base mod max_unit t = 0 -> base' mod max_unit t = 0 ->
    skel_of t v = skel_of t v' ->
    exists e e', deser_eps_top base h t (bytes_of evs) = Ok (e, [], evs_len evs) /\
                 deser_eps_top base' h t (bytes_of evs') = Ok (e', [], evs_len evs') /\
                 alloc_eps t e = alloc_eps t e'.
Proof. exact alloc_independent_of_borrowed_lengths. Qed.

(* the skeleton of any typed eps-copy result is the skeleton of the value it describes *)
Theorem C03_result_skeleton_is_value_skeleton :
  forall t base buf e, eps_ok base buf (dty_of t) e -> skel e = skel_of t (erase e).
Proof. exact skel_of_eps_result. Qed.

(* Non-vacuity: a structure with a borrowed slice, a fully copied vector, a borrowed string, a
   vector of borrowed strings and a reference to a zero-copy struct. *)
Definition c3_i (n : name) (zc : bool) : adt_info :=
  {| a_name := n; a_zc := zc; a_deep := false; a_reprs := if zc then [NAME_C] else []; a_align := 0; a_consts := [] |}.
Definition c3_z : ty := TStruct (c3_i [90] true) (FCons [97] false (TPrim (PInt U8)) (FCons [98] false (TPrim (PInt U32)) FNil)).
Definition c3_t : ty := TStruct (c3_i [83] false)
  (FCons [97] true (TVec (TPrim (PInt U64))) (FCons [98] false (TVec (TPrim (PInt U16))) (FCons [99] true TString
  (FCons [100] true (TVec TString) (FCons [101] true c3_z FNil))))).
Definition c3_v (k : nat) : val :=
  VSeq [VSeq (repeat (VN 5) k); VSeq [VN 7]; VBytes (repeat 104 k); VSeq [VBytes (repeat 1 k); VBytes []]; VSeq [VN 3; VN 9]].
Definition c3_h : hdr := {| h_type_hash := 1; h_align_hash := 2; h_name := [83] |}.
Definition c3_run (k : nat) :=
  let '(evs, _) := ser_top (fun _ => 0) c3_h c3_t (c3_v k) in
  match deser_eps_top 4096 c3_h c3_t (bytes_of evs) with
  | Ok (e, _, _) => Some (refs e, blocks_at 0 evs, alloc_eps c3_t e, skel e)
  | _ => None
  end.
Definition c3_sub (r b : list (N * N)) : bool :=
  forallb (fun x => existsb (fun y => (fst x =? fst y) && (snd x =? snd y)) b) r.
Example C03_example :
  match c3_run 2, c3_run 9 with
  | Some (r2, b2, a2, s2), Some (r9, b9, a9, s9) =>
      r2 = [(48, 16); (82, 2); (100, 2); (110, 0); (112, 8)] /\ c3_sub r2 b2 = true /\
      r9 = [(48, 72); (138, 9); (163, 9); (180, 0); (180, 8)] /\ c3_sub r9 b9 = true /\
      s2 = s9 /\ a2 = [1; 2] /\ a9 = [1; 2] /\ skel_of c3_t (c3_v 2) = skel_of c3_t (c3_v 9) /\ s2 = skel_of c3_t (c3_v 2)
  | _, _ => False
  end.
Proof. vm_compute. repeat split. Qed.

Print Assumptions C03_borrowed_parts_in_bounds_aligned_exact.
Print Assumptions C03_in_context.
Print Assumptions C03_references_point_at_written_blocks.
Print Assumptions C03_allocation_depends_on_skeleton_only.
Print Assumptions C03_allocation_independent_of_borrowed_lengths.
Print Assumptions C03_result_skeleton_is_value_skeleton.
