(* C08: file loaders agree with eps-copy of the file bytes and own a sound region. *)
Require Import EV.Base.Tac EV.Base.Bytes EV.Base.Res EV.Base.ListX.
Require Import EV.Model.Arith64 EV.Model.Types EV.Model.Layout EV.Model.Ser EV.Model.Deser EV.Model.Header EV.Model.Typing EV.Model.Need EV.Model.Loader EV.Model.Derive.
Require Import EV.Proofs.Monads EV.Proofs.RoundTrip EV.Proofs.HeaderRT EV.Proofs.EpsRT EV.Proofs.EpsTop EV.Proofs.LoaderP EV.Proofs.DeriveP.

(* store writes exactly the serialized stream (by definition of the model: the file is the
   bytes handed to the buffered file writer; observed on the implementation, including when the
   destination already holds a longer file). *)
Theorem C08_store_writes_the_stream : forall run, store_file run = bytes_of (fst run).
Proof. reflexivity. Qed.

(* Loading the stored file with any of the four loaders gives the stored value: for the three
   loaders with a backing region the eps-copy value describes it, exactly the file is consumed
   and the rest of the region (the zero tail) is left untouched -- for every type, value and
   padding content, whenever the region's base address is a multiple of the largest unit of the
   type (the loaders guarantee 64 resp. the page size). *)
Theorem C08_loaders_return_the_stored_value :
  forall (l : loader) (base : N) (pf : padfill) (h : hdr) (t : ty) (v : val) (evs : list event),
    hdr_ok h ->
    wf t = true -> units_pow2 t = true -> units_cover t = true -> deserializable t = true ->
    wt t v = true -> exhausted_in t v = false ->
    ser_top pf h t v = (evs, SDone) ->
    base mod max_unit t = 0 ->
    (l = LMem -> rust_align t <= 64) ->
    exists e, load l base h t (store_file (evs, SDone)) =
                Ok (e, ndrop (nlen (bytes_of evs)) (region l (bytes_of evs)), evs_len evs) /\
              erase e = v.
Proof. exact load_stored_file. Qed.

(* load_mem can only guarantee 64-byte alignment: a type whose native alignment is larger is
   refused up front with AlignmentError, whatever the file holds *)
Theorem C08_load_mem_refuses_overaligned_types :
  forall base h t file, 64 < rust_align t -> load LMem base h t file = Err AlignmentError.
Proof.
  intros base h t file H. cbn [load]. unfold mem_precheck.
  destruct (N.ltb_spec 64 (rust_align t)) as [_|Hle]; [reflexivity|lia].
Qed.

(* For ANY file (stored by this library or not) that one of the three region-keeping loaders
   accepts: every borrowed part of the loaded structure lies inside the backing region owned by
   the result, has the byte length of its items, is aligned for its element type at the region's
   address and holds the region's bytes ([eps_ok] over the region, see C03); what load_full
   returns borrows nothing. *)
Theorem C08_borrowed_parts_lie_inside_the_backing_region :
  forall (l : loader) (base : N) (h : hdr) (t : ty) (file : list byte) (e : val) (rest : list byte) (n : N),
    load l base h t file = Ok (e, rest, n) ->
    match l with
    | LFull => noref e = true
    | _ => eps_ok base (region l file) (dty_of t) e /\ n <= nlen (region l file)
    end.
Proof.
  intros l base h t file e rest n H. destruct l; cbn [load] in H.
  - unfold deser_full_top in H. unfold rbind in H.
    destruct (check_header None h file 0) as [[[u i] p]|?|?]; try discriminate.
    exact (full_noref None t i p e rest n H).
  - destruct (mem_precheck t); [discriminate|].
    destruct (eps_top_ok base h t _ e rest n H) as (A & _ & B). split; assumption.
  - destruct (eps_top_ok base h t _ e rest n H) as (A & _ & B). split; assumption.
  - destruct (eps_top_ok base h t _ e rest n H) as (A & _ & B). split; assumption.
Qed.

(* The backing region starts with the file, has the rounded-up length (a multiple of 64 / of 16,
   less than one unit more than the file) and is zero from the end of the file on. *)
Theorem C08_region :
  forall (l : loader) (file : list byte),
    ntake (nlen file) (region l file) = file /\
    nlen (region l file) = capacity l (nlen file) /\
    ndrop (nlen file) (region l file) = zeros (capacity l (nlen file) - nlen file) /\
    nlen file <= capacity l (nlen file) /\
    (l = LMem -> capacity l (nlen file) mod 64 = 0 /\ capacity l (nlen file) < nlen file + 64) /\
    (l = LMmap -> capacity l (nlen file) mod 16 = 0 /\ capacity l (nlen file) < nlen file + 16).
Proof. exact region_facts. Qed.

(* The flag translation maps each of the 8 flag sets to the corresponding mmap-rs flag set
   (finite domain, by computation; the bound is in the statement). *)
Theorem C08_flags :
  forallb (fun f => (mmap_flag_bits f =? (N.shiftl (N.land f 1) 7) + (N.shiftl (N.land (N.shiftr f 1) 1) 8) + (N.shiftl (N.land (N.shiftr f 2) 1) 9)))
          [0; 1; 2; 3; 4; 5; 6; 7] = true /\
  List.map mmap_flag_bits [0; 1; 2; 3; 4; 5; 6; 7] = [0; 128; 256; 384; 512; 640; 768; 896].
Proof. exact flags_translation. Qed.

(* A truncated file is never loaded into a value by the entry points that do not zero-extend. *)
Theorem C08_truncated_files :
  forall h t bs v k base,
    k < nlen bs ->
    (deser_full_top h t bs = Ok (v, [], nlen bs) -> load LFull base h t (ntake k bs) = Err ReadError) /\
    (forall e, deser_eps_top base h t bs = Ok (e, [], nlen bs) ->
       load LMap base h t (ntake k bs) = Err ReadError \/ exists w, load LMap base h t (ntake k bs) = Panic w).
Proof. exact load_truncated. Qed.

Print Assumptions C08_loaders_return_the_stored_value.
Print Assumptions C08_borrowed_parts_lie_inside_the_backing_region.
Print Assumptions C08_load_mem_refuses_overaligned_types.
Print Assumptions C08_region.
Print Assumptions C08_flags.
Print Assumptions C08_truncated_files.
