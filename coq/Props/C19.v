(* C19: the aligned cursor behaves like the standard in-memory cursor.
   This file contains only the property theorems, closed by [exact], and their assumptions. *)
Require Import EV.Base.Tac EV.Base.Bytes EV.Base.ListX EV.Model.Arith64 EV.Model.Cursor EV.Proofs.CursorRef.

(* Every feasible history of writes, reads, seeks and position changes, for every unit size
   U (the size of the alignment type), yields on the aligned cursor the same result of every
   operation and the same (position, length, contents) after every operation as on
   std::io::Cursor<Vec<u8>>. *)
Theorem C19_refines_std_cursor :
  forall (U : N) (ops : list op),
    0 < U -> U <= 2 ^ 32 ->
    feasible sc_init ops ->
    ac_run U ac_init ops = std_run sc_init ops.
Proof. exact refine_from_init. Qed.

(* Every reachable state keeps: len <= storage, storage a whole number of units, and all
   storage bytes beyond len are zero (the reason the gap is zero-filled). *)
Theorem C19_storage_invariant :
  forall (U : N) (ops : list op),
    0 < U -> U <= 2 ^ 32 ->
    feasible sc_init ops ->
    inv U (ac_final U ac_init ops).
Proof. exact inv_from_init. Qed.

(* Non-vacuity: a history that seeks past the end, writes (also an empty write), reads back
   the zero-filled gap and seeks relative to the end is feasible, and exercises the gap. *)
Example C19_example_history :
  let ops := [OSetPos 40; OWrite [1; 2; 3]; OSeekStart 38; ORead 4; OSeekEnd (-50); OSeekEnd 7;
              OWrite []; OSeekCur (-10); OWrite [9]] in
  feasible sc_init ops /\
  std_run sc_init ops = ac_run 16 ac_init ops /\
  nth 3 (map fst (std_run sc_init ops)) OutUnit = OutData [0; 0; 1; 2].
Proof. vm_compute. repeat split; discriminate. Qed.

Print Assumptions C19_refines_std_cursor.
Print Assumptions C19_storage_invariant.
