(* C06: emitted bytes conform to the published format and stay readable. *)
Require Import EV.Base.Tac EV.Base.Bytes EV.Base.Res EV.Base.ListX.
Require Import EV.Model.Arith64 EV.Model.Types EV.Model.Layout EV.Model.Ser EV.Model.Deser EV.Model.Header EV.Model.Typing EV.Model.Hash EV.Model.Format.
Require Import EV.Proofs.Monads EV.Proofs.RoundTrip EV.Proofs.HeaderRT EV.Proofs.FormatP.
From Coq Require Import String.
Open Scope N_scope.

(* Format 1.1 is written out as a plain function from values to bytes in Model/Format.v
   ([enc], [enc_file]): header = cookie, major, minor, pointer width, type hash, alignment hash,
   length-prefixed type name; then the value in declaration order with little-endian primitives,
   8-byte length prefixes, one-byte tags 0/1 (Option), 0/1/2 (Bound), 0/1 (ControlFlow), 8-byte
   variant indices for derived enums, zero padding to the unit of each zero-copy block followed
   by its in-memory representation.  The serializer emits exactly those bytes, for every type,
   value and padding content: *)
Theorem C06_stream_is_format_1_1 :
  forall (pf : padfill) (h : hdr) (t : ty) (v : val) (evs : list event),
    wf t = true -> wt t v = true ->
    ser_top pf h t v = (evs, SDone) ->
    bytes_of evs = enc_file pf (h_type_hash h) (h_align_hash h) (h_name h) t v.
Proof. exact ser_top_is_enc_file. Qed.

(* the same for every value in context (any starting position) *)
Theorem C06_value_encoding :
  forall (t : ty) (pf : padfill) (v : val) (pos : N) (evs : list event),
    wf t = true -> wt t v = true ->
    ser pf t v pos = (evs, SDone) -> bytes_of evs = enc pf t v pos.
Proof. exact (proj1 ser_is_enc). Qed.

(* the value starts at offset 37 + |type name| *)
Theorem C06_value_offset :
  forall h, nlen (le_bytes 8 MAGIC ++ le_bytes 2 VERSION_MAJOR ++ le_bytes 2 VERSION_MINOR ++ le_bytes 1 8 ++
                  le_bytes 8 (h_type_hash h) ++ le_bytes 8 (h_align_hash h) ++ le_bytes 8 (nlen (h_name h)) ++ h_name h)
            = 37 + nlen (h_name h).
Proof. exact value_offset. Qed.

(* Every file of the format is read back to its value by the reference decoder (C01 on the
   reference encoder): any build that agrees with the reference on what it writes and reads
   keeps reading every conforming file to the same value. *)
Theorem C06_conforming_files_decode :
  forall (pf : padfill) (h : hdr) (t : ty) (v : val) (evs : list event),
    hdr_ok h -> wf t = true -> deserializable t = true ->
    wt t v = true -> exhausted_in t v = false ->
    ser_top pf h t v = (evs, SDone) ->
    deser_full_top h t (enc_file pf (h_type_hash h) (h_align_hash h) (h_name h) t v) = Ok (v, [], evs_len evs).
Proof.
  intros pf h t v evs Hh Hw Hd Ht He Hs.
  rewrite <- (ser_top_is_enc_file pf h t v evs Hw Ht Hs).
  exact (full_roundtrip_top pf h t v evs Hh Hw Hd Ht He Hs).
Qed.

(* The hash words are a function of the structure of the type only: the byte feeds [tfeed] and
   [align_feed] of Model/Hash.v are the published recipe (checked byte for byte against the
   implementation on every run); composite types feed their components' feeds unchanged. *)
Theorem C06_hash_recipe_is_compositional :
  forall t, tfeed (TVec t) = hstr (bs "Vec"%string) ++ tfeed t /\
            tfeed (TOption t) = hstr (bs "Option"%string) ++ tfeed t /\
            (forall n, tfeed (TArray n t) = hstr (bs "[]"%string) ++ husize n ++ tfeed t).
Proof. intros t. repeat split. Qed.

Example C06_example :
  enc_file (fun _ => 0) 1 2 [86] (TVec (TPrim (PInt U16))) (VSeq [VN 258; VN 3]) =
    [101; 112; 115; 101; 114; 100; 101; 32;  1; 0;  1; 0;  8;  1; 0; 0; 0; 0; 0; 0; 0;  2; 0; 0; 0; 0; 0; 0; 0;
     1; 0; 0; 0; 0; 0; 0; 0;  86;   2; 0; 0; 0; 0; 0; 0; 0;   2; 1;  3; 0].
Proof. vm_compute. reflexivity. Qed.

Print Assumptions C06_stream_is_format_1_1.
Print Assumptions C06_value_encoding.
Print Assumptions C06_value_offset.
Print Assumptions C06_conforming_files_decode.
Print Assumptions C06_hash_recipe_is_compositional.
