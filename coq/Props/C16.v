(* C16: slices and exact-size iterators serialize exactly like the vector. *)
Require Import EV.Base.Tac EV.Base.Bytes EV.Base.Res EV.Base.ListX.
Require Import EV.Model.Arith64 EV.Model.Types EV.Model.Layout EV.Model.Ser EV.Model.Deser EV.Model.Header EV.Model.Typing.
Require Import EV.Proofs.Monads EV.Proofs.SerTotal EV.Proofs.RoundTrip EV.Proofs.HeaderRT EV.Proofs.SliceIter.

(* Serializing a value in which slice references / iterator wrappers occur anywhere (standalone,
   as a type-parameter field of a structure, inside options ...) produces, header included, the
   same bytes and the same outcome as serializing the value with vectors in their place --
   for every element type (zero-copy or deep), every item sequence, every padding content. *)
Theorem C16_stream_equals_vector_stream :
  forall (pf : padfill) (h : hdr) (t : ty) (v : val),
    wf t = true -> wt t v = true -> honest t v = true ->
    bytes_of (fst (ser_top pf h t v)) = bytes_of (fst (ser_top pf h (vecty t) (normv t v))) /\
    snd (ser_top pf h t v) = snd (ser_top pf h (vecty t) (normv t v)).
Proof. exact ser_top_as_vec. Qed.

(* ... so (with C01) it deserializes as the vector type to the items. *)
Theorem C16_deserializes_as_vector :
  forall (pf : padfill) (h : hdr) (t : ty) (v : val) (evs : list event),
    hdr_ok h -> wf (vecty t) = true -> deserializable (vecty t) = true ->
    wt (vecty t) (normv t v) = true -> exhausted_in (vecty t) (normv t v) = false ->
    ser_top pf h (vecty t) (normv t v) = (evs, SDone) ->
    deser_full_top h (vecty t) (bytes_of evs) = Ok (normv t v, [], evs_len evs).
Proof. intros pf h t v evs. apply full_roundtrip_top. Qed.

(* An iterator that yields a different number of items than it announced: the result is the
   length-mismatch error reporting both counts, for every pair (announced, actual). *)
Theorem C16_lying_iterator :
  forall (pf : padfill) (t : ty) (announced : N) (items : list val) (pos : N),
    zc_ok t = true -> wf t = true -> nlen items <> announced ->
    snd (ser pf (TSerIter t) (VTag announced items) pos) = SErr (IteratorLengthMismatch (nlen items) announced).
Proof. exact lying_iterator. Qed.

Example C16_example :
  let t := TStruct {| a_name := [83]; a_zc := false; a_deep := false; a_reprs := []; a_align := 0; a_consts := [] |}
             (FCons [97] true (TSerIter (TPrim (PInt U32))) (FCons [98] true (TSliceRef TString) FNil)) in
  let v := VSeq [VTag 2 [VN 5; VN 6]; VSeq [VBytes [104]; VBytes []]] in
  let h := {| h_type_hash := 1; h_align_hash := 2; h_name := [83] |} in
  wf t = true /\ wt t v = true /\ honest t v = true /\
  vecty t <> t /\
  bytes_of (fst (ser_top (fun _ => 0) h t v)) = bytes_of (fst (ser_top (fun _ => 0) h (vecty t) (normv t v))).
Proof. vm_compute. repeat split; try reflexivity. discriminate. Qed.

Print Assumptions C16_stream_equals_vector_stream.
Print Assumptions C16_deserializes_as_vector.
Print Assumptions C16_lying_iterator.
