(* Outcomes of the modelled operations: a value, an error of the crate's error enum,
   or a panic (panics are outcomes, not stuck states: several properties distinguish them). *)
Require Import EV.Base.Tac.

Inductive err :=
| ReadError
| AlignmentError
| InvalidTag (n : N)
| MagicCookieError (n : N)
| EndiannessError
| MajorVersionMismatch (n : N)
| MinorVersionMismatch (n : N)
| UsizeSizeMismatch (n : N)
| WrongTypeHash (ser_hash : N)
| WrongAlignHash (ser_hash : N).

Inductive pwhy :=
| PBounds          (* slice index out of range *)
| PUnwrap          (* unwrap on None/Err: char, NonZero, utf8 *)
| PExhausted       (* assert!(!exhausted) *)
| PArith           (* debug overflow / division by zero *)
| PNotZeroCopy     (* check_zero_copy *)
| PDebugAssert.    (* debug_assert on align_to pre/post *)

Inductive res (A : Type) :=
| Ok (a : A)
| Err (e : err)
| Panic (w : pwhy).
Arguments Ok {A} a.
Arguments Err {A} e.
Arguments Panic {A} w.

Definition bind {A B} (r : res A) (f : A -> res B) : res B :=
  match r with
  | Ok a => f a
  | Err e => Err e
  | Panic w => Panic w
  end.

Notation "'let*' x ':=' r 'in' k" := (bind r (fun x => k))
  (at level 200, x pattern, r at level 100, k at level 200, right associativity).

Definition is_ok {A} (r : res A) : bool := match r with Ok _ => true | _ => false end.
Definition is_panic {A} (r : res A) : bool := match r with Panic _ => true | _ => false end.

Lemma bind_ok {A B} (r : res A) (f : A -> res B) b :
  bind r f = Ok b -> exists a, r = Ok a /\ f a = Ok b.
Proof. destruct r; cbn; intros H; try discriminate. eauto. Qed.
