(* Bytes and little-endian codecs.  A byte is an [N]; well-formed bytes are < 256. *)
Require Import EV.Base.Tac.

Definition byte := N.

Fixpoint le_bytes (k : nat) (n : N) : list byte :=
  match k with
  | O => []
  | S k' => (n mod 256) :: le_bytes k' (n / 256)
  end.

Fixpoint le_val (l : list byte) : N :=
  match l with
  | [] => 0
  | b :: l' => b + 256 * le_val l'
  end.

Definition bytes_ok (l : list byte) : Prop := Forall (fun b => b < 256) l.

Definition nlen {A} (l : list A) : N := N.of_nat (length l).

Lemma le_bytes_length k n : length (le_bytes k n) = k.
Proof. revert n; induction k as [|k IH]; intros n; cbn [le_bytes length]; [reflexivity|]. now rewrite IH. Qed.

Lemma le_bytes_ok k n : bytes_ok (le_bytes k n).
Proof.
  revert n; induction k as [|k IH]; intros n; cbn [le_bytes]; constructor.
  - apply N.mod_lt. lia.
  - apply IH.
Qed.

Lemma le_val_bytes k n : le_val (le_bytes k n) = n mod (256 ^ N.of_nat k).
Proof.
  revert n; induction k as [|k IH]; intros n; cbn [le_bytes le_val].
  - change (N.of_nat 0) with 0. rewrite N.pow_0_r, N.mod_1_r. reflexivity.
  - rewrite IH. rewrite Nat2N.inj_succ, N.pow_succ_r'.
    rewrite N.mod_mul_r by (try apply N.pow_nonzero; lia). lia.
Qed.

Lemma le_val_bytes_small k n : n < 256 ^ N.of_nat k -> le_val (le_bytes k n) = n.
Proof. intros H. rewrite le_val_bytes. now apply N.mod_small. Qed.

Lemma le_val_lt l : bytes_ok l -> le_val l < 256 ^ nlen l.
Proof.
  unfold nlen. induction 1 as [|b l Hb Hl IH]; cbn [le_val length].
  - change (N.of_nat 0) with 0. rewrite N.pow_0_r. lia.
  - rewrite Nat2N.inj_succ, N.pow_succ_r'. lia.
Qed.

Lemma le_bytes_val l : bytes_ok l -> le_bytes (length l) (le_val l) = l.
Proof.
  induction 1 as [|b l Hb Hl IH]; cbn [le_val length le_bytes]; [reflexivity|].
  f_equal.
  - rewrite (N.mul_comm 256), N.mod_add by lia. now apply N.mod_small.
  - rewrite (N.mul_comm 256), N.div_add by lia.
    rewrite (N.div_small b) by assumption. rewrite N.add_0_l. exact IH.
Qed.

Lemma le_bytes_inj k a b :
  a < 256 ^ N.of_nat k -> b < 256 ^ N.of_nat k -> le_bytes k a = le_bytes k b -> a = b.
Proof.
  intros Ha Hb H. rewrite <- (le_val_bytes_small k a Ha), <- (le_val_bytes_small k b Hb). now rewrite H.
Qed.
