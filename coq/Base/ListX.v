(* List utilities indexed by [N]: take/drop, zero runs, in-place overwrite. *)
Require Import EV.Base.Tac EV.Base.Bytes.

Definition ntake {A} (n : N) (l : list A) : list A := firstn (N.to_nat n) l.
Definition ndrop {A} (n : N) (l : list A) : list A := skipn (N.to_nat n) l.
Definition zeros (n : N) : list byte := repeat 0 (N.to_nat n).

(* [overwrite l pos buf]: the list [l] with [buf] copied at index [pos] (pos + |buf| <= |l|) *)
Definition overwrite {A} (l : list A) (pos : N) (buf : list A) : list A :=
  ntake pos l ++ buf ++ ndrop (pos + nlen buf) l.

Lemma nlen_app {A} (a b : list A) : nlen (a ++ b) = nlen a + nlen b.
Proof. unfold nlen. rewrite app_length. lia. Qed.

Lemma nlen_zeros n : nlen (zeros n) = n.
Proof. unfold nlen, zeros. rewrite repeat_length. lia. Qed.

Lemma nlen_ntake {A} n (l : list A) : nlen (ntake n l) = N.min n (nlen l).
Proof. unfold nlen, ntake. rewrite firstn_length. lia. Qed.

Lemma nlen_ndrop {A} n (l : list A) : nlen (ndrop n l) = nlen l - n.
Proof. unfold nlen, ndrop. rewrite skipn_length. lia. Qed.

Lemma ntake_ndrop {A} n (l : list A) : ntake n l ++ ndrop n l = l.
Proof. apply firstn_skipn. Qed.

Lemma ntake_all {A} n (l : list A) : nlen l <= n -> ntake n l = l.
Proof. unfold nlen, ntake. intros H. apply firstn_all2. lia. Qed.

Lemma ndrop_all {A} n (l : list A) : nlen l <= n -> ndrop n l = [].
Proof. unfold nlen, ndrop. intros H. apply skipn_all2. lia. Qed.

Lemma ntake_app_le {A} n (a b : list A) : n <= nlen a -> ntake n (a ++ b) = ntake n a.
Proof.
  unfold nlen, ntake. intros H. rewrite firstn_app.
  replace (N.to_nat n - length a)%nat with 0%nat by lia. cbn. now rewrite app_nil_r.
Qed.

Lemma ntake_app_ge {A} n (a b : list A) : nlen a <= n -> ntake n (a ++ b) = a ++ ntake (n - nlen a) b.
Proof.
  unfold nlen, ntake. intros H. rewrite firstn_app.
  rewrite (firstn_all2 a) by lia. f_equal. f_equal. lia.
Qed.

Lemma ndrop_app_le {A} n (a b : list A) : n <= nlen a -> ndrop n (a ++ b) = ndrop n a ++ b.
Proof.
  unfold nlen, ndrop. intros H. rewrite skipn_app.
  replace (N.to_nat n - length a)%nat with 0%nat by lia. reflexivity.
Qed.

Lemma ndrop_app_ge {A} n (a b : list A) : nlen a <= n -> ndrop n (a ++ b) = ndrop (n - nlen a) b.
Proof.
  unfold nlen, ndrop. intros H. rewrite skipn_app.
  rewrite (skipn_all2 a) by lia. cbn. f_equal. lia.
Qed.

Lemma ntake_ntake {A} n m (l : list A) : ntake n (ntake m l) = ntake (N.min n m) l.
Proof. unfold ntake. rewrite firstn_firstn. f_equal. lia. Qed.

Lemma skipn_skipn' {A} (n m : nat) (l : list A) : skipn n (skipn m l) = skipn (m + n) l.
Proof.
  revert l; induction m as [|m IH]; intros l; [reflexivity|].
  destruct l as [|x l]; cbn [skipn Nat.add]; [now rewrite skipn_nil|]. apply IH.
Qed.

Lemma ndrop_ndrop {A} n m (l : list A) : ndrop n (ndrop m l) = ndrop (m + n) l.
Proof. unfold ndrop. rewrite skipn_skipn'. f_equal. lia. Qed.

Lemma firstn_repeat' {A} (x : A) (n m : nat) : firstn n (repeat x m) = repeat x (Nat.min n m).
Proof.
  revert m; induction n as [|n IH]; intros m; [reflexivity|].
  destruct m as [|m]; cbn [repeat firstn Nat.min]; [reflexivity|]. now rewrite IH.
Qed.

Lemma skipn_repeat' {A} (x : A) (n m : nat) : skipn n (repeat x m) = repeat x (m - n).
Proof.
  revert m; induction n as [|n IH]; intros m; cbn [skipn]; [now rewrite Nat.sub_0_r|].
  destruct m as [|m]; cbn [repeat Nat.sub]; [reflexivity|]. apply IH.
Qed.

Lemma ntake_zeros n m : ntake n (zeros m) = zeros (N.min n m).
Proof.
  unfold ntake, zeros. rewrite firstn_repeat'. f_equal. lia.
Qed.

Lemma ndrop_zeros n m : ndrop n (zeros m) = zeros (m - n).
Proof.
  unfold ndrop, zeros. rewrite skipn_repeat'. f_equal. lia.
Qed.

Lemma zeros_app n m : zeros n ++ zeros m = zeros (n + m).
Proof. unfold zeros. rewrite <- repeat_app. f_equal. lia. Qed.

Lemma zeros_0 : zeros 0 = [].
Proof. reflexivity. Qed.

Lemma ntake_0 {A} (l : list A) : ntake 0 l = [].
Proof. reflexivity. Qed.

Lemma ndrop_0 {A} (l : list A) : ndrop 0 l = l.
Proof. reflexivity. Qed.

Lemma ndrop_ntake {A} n m (l : list A) : ndrop n (ntake m l) = ntake (m - n) (ndrop n l).
Proof.
  unfold ndrop, ntake. rewrite skipn_firstn_comm. f_equal. lia.
Qed.

Lemma ntake_ndrop_split {A} n m (l : list A) :
  n <= m -> ntake m l = ntake n l ++ ntake (m - n) (ndrop n l).
Proof.
  intros H. rewrite <- (ntake_ndrop n (ntake m l)).
  rewrite ntake_ntake, ndrop_ntake. f_equal. f_equal. lia.
Qed.

(* [has_n k l]: [l] has at least [k] elements; inspects at most the first [k] cells of [l] *)
Fixpoint has_n {A} (k : nat) (l : list A) : bool :=
  match k with
  | O => true
  | S k' => match l with [] => false | _ :: l' => has_n k' l' end
  end.

(* [has_len n l = (n <=? nlen l)], computed without walking [l] beyond its first [n] elements *)
Definition has_len {A} (n : N) (l : list A) : bool := has_n (N.to_nat n) l.

Lemma has_n_spec {A} (k : nat) (l : list A) : has_n k l = (k <=? length l)%nat.
Proof.
  revert l; induction k as [|k IH]; intros l; [reflexivity|].
  destruct l as [|x l]; cbn [has_n length]; [reflexivity|]. rewrite IH. reflexivity.
Qed.

Lemma has_len_spec {A} (n : N) (l : list A) : has_len n l = (n <=? nlen l).
Proof.
  unfold has_len, nlen. rewrite has_n_spec.
  destruct (Nat.leb_spec (N.to_nat n) (length l)); destruct (N.leb_spec n (N.of_nat (length l))); try reflexivity; lia.
Qed.
