(* Common imports and arithmetic set-up shared by every file of the development. *)
From Coq Require Export List NArith ZArith Lia Bool Arith.
From Coq Require Export ZifyBool ZifyNat ZifyN.
Export ListNotations.

Ltac Zify.zify_post_hook ::= Z.div_mod_to_equations.

Global Arguments N.add : simpl never.
Global Arguments N.sub : simpl never.
Global Arguments N.mul : simpl never.
Global Arguments N.div : simpl never.
Global Arguments N.modulo : simpl never.
Global Arguments N.pow : simpl never.
Global Arguments N.eqb : simpl never.
Global Arguments N.ltb : simpl never.
Global Arguments N.leb : simpl never.
Global Arguments N.land : simpl never.
Global Arguments N.max : simpl never.
Global Arguments N.min : simpl never.
Global Arguments N.to_nat : simpl never.
Global Arguments N.of_nat : simpl never.

Open Scope N_scope.

(* destruct the scrutinee of the first [if]/[match] found in the goal *)
Ltac case_if :=
  match goal with
  | |- context [if ?c then _ else _] => destruct c eqn:?
  end.

Ltac inv H := inversion H; subst; clear H.
