(* Extraction of the executable model to OCaml (ExtrOcamlBasic only: bool, option, unit, list,
   prod, sumbool, sumor and andb/orb are mapped to OCaml's; N, positive, Z stay inductive). *)
Require Import ExtrOcamlBasic.
Require Import EV.Base.Tac EV.Base.Bytes EV.Base.ListX EV.Model.Arith64 EV.Model.Cursor.
Extraction Language OCaml.
Extraction "../driver/model.ml" pad_align_to ac_run std_run ac_init sc_init.
