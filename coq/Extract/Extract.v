(* Extraction of the executable model to OCaml (ExtrOcamlBasic only: bool, option, unit, list,
   prod, sumbool, sumor and andb/orb are mapped to OCaml's; N, positive, Z, nat stay inductive). *)
Require Import ExtrOcamlBasic.
Require Import EV.Base.Tac EV.Base.Bytes EV.Base.Res EV.Base.ListX EV.Model.Arith64 EV.Model.Cursor.
Require Import EV.Model.Types EV.Model.Layout EV.Model.Ser EV.Model.Deser EV.Model.Header EV.Model.Typing EV.Model.Schema EV.Model.Need EV.Model.IO EV.Model.Oracles EV.Model.Hash EV.Model.Loader EV.Model.Derive EV.Model.Prog EV.Model.Generic.
Extraction Language OCaml.
Extraction "../driver/model.ml"
  pad_align_to ac_run std_run ac_init sc_init
  ser_top deser_full_top deser_eps_top ser deser_full deser_eps erase sertype
  unit_of size_of align_of is_zc zc_ok is_zc_const bytes_of evs_len check_header
  schema_of debug_ok wf wt units_pow2 deserializable exhausted_in need units_cover max_unit
  run_fail_after run_short run_flush_fail run_zero_after tfeed align_feed load region capacity mmap_flag_bits
  dty_of alloc_eps alloc_full skel refs blocks_at derive_check field_tys variant_tys heap_free std_bounds
  run_io run_list prog_full_top stream_reader
  wf_gdef inst_def deser_args dsubst.
