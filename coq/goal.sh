#!/bin/bash
# usage: goal.sh File.v LINE  -- compile File.v truncated before LINE with "Show." appended, print the goals
f=$1; n=$2
tmp=$(dirname $f)/_tmp_goal.v
head -n $((n-1)) $f > $tmp
echo "Show. Abort." >> $tmp
timeout 120 coqc -Q . EV -w -notation-overridden $tmp 2>&1 | tail -${3:-40}
rm -f $tmp $(dirname $f)/_tmp_goal.vo $(dirname $f)/_tmp_goal.glob $(dirname $f)/._tmp_goal.aux $(dirname $f)/_tmp_goal.vok $(dirname $f)/_tmp_goal.vos
