(* epserde/src/lib.rs: constants and pad_align_to, with 64-bit wrap-around written out. *)
Require Import EV.Base.Tac EV.Base.Bytes.

Definition W : N := 2 ^ 64.
Definition USIZE_MAX : N := W - 1.

(* usize::wrapping_neg *)
Definition wrapping_neg (v : N) : N := (W - v mod W) mod W.

(* value.wrapping_neg() & (align_to - 1); the caller guarantees align_to >= 1
   (align_to = 0 underflows: a panic in the debug profile, modelled at call sites). *)
Definition pad_align_to (value align_to : N) : N :=
  N.land (wrapping_neg value) (align_to - 1).

(* b"epserde " as a little-endian u64 *)
Definition MAGIC_BYTES : list byte := [101; 112; 115; 101; 114; 100; 101; 32].
Definition MAGIC : N := le_val MAGIC_BYTES.
Definition MAGIC_REV : N := le_val (rev MAGIC_BYTES).
Definition VERSION_MAJOR : N := 1.
Definition VERSION_MINOR : N := 1.
