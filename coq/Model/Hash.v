(* traits/type_info.rs, the TypeHash / AlignHash impls of impls/*.rs and of the derive: the
   exact byte sequences fed to the hasher.  The 64-bit hash itself (xxh3-64, seed 0) is not
   modelled: header words are inputs; theorems that go from "feeds differ" to "hashes differ"
   carry that as a hypothesis. *)
Require Import EV.Base.Tac EV.Base.Bytes EV.Base.Res EV.Base.ListX.
Require Import EV.Model.Arith64 EV.Model.Types EV.Model.Layout.
From Coq Require Import String.

(* <str as Hash>::hash: the bytes, then 0xff *)
Definition hstr (s : name) : list byte := s ++ [255].
(* usize::hash *)
Definition husize (n : N) : list byte := le_bytes 8 n.

Definition iprim_name (i : iprim) : name :=
  match i with
  | U8 => bs "u8" | U16 => bs "u16" | U32 => bs "u32" | U64 => bs "u64" | U128 => bs "u128" | USize => bs "usize"
  | I8 => bs "i8" | I16 => bs "i16" | I32 => bs "i32" | I64 => bs "i64" | I128 => bs "i128" | ISize => bs "isize"
  end.
Definition nz_name (i : iprim) : name :=
  match i with
  | U8 => bs "NonZeroU8" | U16 => bs "NonZeroU16" | U32 => bs "NonZeroU32" | U64 => bs "NonZeroU64"
  | U128 => bs "NonZeroU128" | USize => bs "NonZeroUsize"
  | I8 => bs "NonZeroI8" | I16 => bs "NonZeroI16" | I32 => bs "NonZeroI32" | I64 => bs "NonZeroI64"
  | I128 => bs "NonZeroI128" | ISize => bs "NonZeroIsize"
  end.
Definition prim_name (p : prim) : name :=
  match p with
  | PInt i => iprim_name i | PNZ i => nz_name i
  | PF32 => bs "f32" | PF64 => bs "f64" | PBool => bs "bool" | PChar => bs "char"
  end.
Definition rkind_name (k : rkind) : name :=
  match k with
  (* stringify!(core::ops::$ty) inside macro_rules: rustc 1.95 prints the path with spaces *)
  | RRange => bs "core :: ops :: Range" | RFrom => bs "core :: ops :: RangeFrom"
  | RIncl => bs "core :: ops :: RangeInclusive" | RTo => bs "core :: ops :: RangeTo"
  | RToIncl => bs "core :: ops :: RangeToInclusive"
  end.

Definition consts_feed (cs : list cparam) : list byte :=
  List.concat (List.map c_feed cs) ++ List.concat (List.map (fun c => hstr (c_name c)) cs).

Fixpoint tfeed (t : ty) : list byte :=
  match t with
  | TPrim p => hstr (prim_name p)
  | TUnit => hstr (bs "()")
  | TPhantom t' => hstr (bs "PhantomData") ++ tfeed t'
  | TString => hstr (bs "String")
  | TBoxStr => hstr (bs "Box<str>")
  | TVec t' | TSliceRef t' | TSerIter t' => hstr (bs "Vec") ++ tfeed t'
  | TBoxSlice t' => hstr (bs "Box<[]>") ++ tfeed t'
  | TArray n t' => hstr (bs "[]") ++ husize n ++ tfeed t'
  | TTuple n t' => hstr (bs "()") ++ List.concat (repeat (tfeed t') (N.to_nat n))
  | TOption t' => hstr (bs "Option") ++ tfeed t'
  | TBound t' => hstr (bs "core::ops::Bound") ++ tfeed t'
  | TCF b c => hstr (bs "core::ops::ControlFlow") ++ tfeed b ++ tfeed c
  | TRange k t' => hstr (rkind_name k) ++ tfeed t'
  | TRangeFull => hstr (bs "core::ops::RangeFull")
  | TStruct i fs =>
      hstr (if a_zc i then bs "ZeroCopy" else bs "DeepCopy") ++ consts_feed (a_consts i) ++
      hstr (a_name i) ++ tfeed_names fs ++ tfeed_types fs
  | TEnum i vs =>
      hstr (if a_zc i then bs "ZeroCopy" else bs "DeepCopy") ++ consts_feed (a_consts i) ++
      hstr (a_name i) ++ tfeed_variants vs
  end
with tfeed_names (fs : fields) : list byte :=
  match fs with FNil => [] | FCons n _ _ r => hstr n ++ tfeed_names r end
with tfeed_types (fs : fields) : list byte :=
  match fs with FNil => [] | FCons _ _ t r => tfeed t ++ tfeed_types r end
with tfeed_inter (fs : fields) : list byte :=      (* enum variant: name, type, name, type ... *)
  match fs with FNil => [] | FCons n _ t r => hstr n ++ tfeed t ++ tfeed_inter r end
with tfeed_variants (vs : variants) : list byte :=
  match vs with VNil => [] | VCons n _ fs r => hstr n ++ tfeed_inter fs ++ tfeed_variants r end.

(* std_align_hash::<T>: padding to the native alignment, then the size *)
Definition std_ah (t : ty) (off : N) : list byte * N :=
  let pad := pad_align_to off (align_of t) in
  (husize pad ++ husize (size_of t), off + pad + size_of t).

Fixpoint afeed_rep (f : N -> list byte * N) (k : nat) (off : N) : list byte * N :=
  match k with
  | O => ([], off)
  | S k' => let '(b, o1) := f off in let '(b', o2) := afeed_rep f k' o1 in (b ++ b', o2)
  end.

Fixpoint afeed (t : ty) (off : N) {struct t} : list byte * N :=
  match t with
  | TPrim _ | TUnit => std_ah t off
  | TPhantom _ | TString | TBoxStr | TBound _ | TRangeFull => ([], off)
  | TVec t' | TBoxSlice t' | TOption t' | TSliceRef t' | TSerIter t' => (fst (afeed t' 0), off)
  | TArray n t' =>
      if n =? 0 then ([], off)
      else let '(b, o1) := afeed t' off in (b, o1 + (n - 1) * size_of t')
  | TTuple n t' => afeed_rep (afeed t') (N.to_nat n) off
  | TCF b c => (fst (afeed b 0) ++ fst (afeed c 0), off)
  | TRange _ t' =>
      let '(b1, o1) := std_ah t' off in let '(b2, o2) := std_ah t' o1 in (b1 ++ b2, o2)
  | TStruct i fs =>
      if a_zc i then
        let '(b, o1) := afeed_fields fs off in
        (husize (size_of t) ++ List.concat (List.map hstr (a_reprs i)) ++ b, o1)
      else (afeed_fields_reset fs, off)
  | TEnum i vs =>
      if a_zc i then
        let '(b, o1) := afeed_variants vs off off in
        (husize (size_of t) ++ List.concat (List.map hstr (a_reprs i)) ++ b, o1)
      else afeed_variants vs 0 off
  end
(* fields threaded through the running offset *)
with afeed_fields (fs : fields) (off : N) {struct fs} : list byte * N :=
  match fs with
  | FNil => ([], off)
  | FCons _ _ t r => let '(b, o1) := afeed t off in let '(b', o2) := afeed_fields r o1 in (b ++ b', o2)
  end
(* deep-copy struct: every field from offset 0 *)
with afeed_fields_reset (fs : fields) {struct fs} : list byte :=
  match fs with
  | FNil => []
  | FCons _ _ t r => fst (afeed t 0) ++ afeed_fields_reset r
  end
(* every variant restarts from [start]; the offset after the last variant is returned
   ([cur] when there is no variant) *)
with afeed_variants (vs : variants) (start cur : N) {struct vs} : list byte * N :=
  match vs with
  | VNil => ([], cur)
  | VCons _ _ fs r =>
      let '(b, o1) := afeed_fields fs start in
      let '(b', o2) := afeed_variants r start o1 in (b ++ b', o2)
  end.

Definition align_feed (t : ty) : list byte := fst (afeed t 0).
