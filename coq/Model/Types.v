(* The type grammar of ε-serde covered by the model, and untyped value trees.
   Derived structs/enums are modelled *after instantiation* of their generic parameters:
   each field records its (instantiated) type and whether its declared type is exactly a
   type parameter (which selects ε-copy vs full-copy deserialization of that field). *)
Require Import EV.Base.Tac EV.Base.Bytes.
From Coq Require Import String Ascii.

(* names (type, field, variant, repr strings) are byte strings *)
Definition name := list byte.
Definition bs (s : string) : name := List.map N_of_ascii (list_ascii_of_string s).

Definition NAME_C : name := bs "C"%string.

Inductive iprim := U8 | U16 | U32 | U64 | U128 | USize | I8 | I16 | I32 | I64 | I128 | ISize.
Inductive prim := PInt (i : iprim) | PNZ (i : iprim) | PF32 | PF64 | PBool | PChar.
Inductive rkind := RRange | RFrom | RIncl | RTo | RToIncl.

(* a const generic parameter: name, the bytes its value feeds to the hasher (see Hash.v) *)
Record cparam := { c_name : name; c_feed : list byte }.

Record adt_info := {
  a_name : name;
  a_zc : bool;                 (* #[zero_copy] *)
  a_deep : bool;               (* #[deep_copy] *)
  a_reprs : list name;         (* token strings of every #[repr(...)] attribute, in order *)
  a_align : N;                 (* n of an extra #[repr(align(n))], 0 if none (layout only) *)
  a_consts : list cparam
}.

Inductive ty :=
| TPrim (p : prim)
| TUnit
| TPhantom (t : ty)
| TString
| TBoxStr
| TVec (t : ty)
| TBoxSlice (t : ty)
| TSliceRef (t : ty)           (* &[T]: serialize-only *)
| TSerIter (t : ty)            (* SerIter<T, I>: serialize-only *)
| TArray (n : N) (t : ty)
| TTuple (n : N) (t : ty)      (* homogeneous (T, ..., T) of arity n, 1 <= n <= 12 *)
| TOption (t : ty)
| TBound (t : ty)
| TCF (b c : ty)               (* ControlFlow<B, C> *)
| TRange (k : rkind) (t : ty)
| TRangeFull
| TStruct (i : adt_info) (fs : fields)
| TEnum (i : adt_info) (vs : variants)
with fields :=
| FNil
| FCons (fname : name) (isparam : bool) (t : ty) (rest : fields)
with variants :=
| VNil
| VCons (vname : name) (named : bool) (fs : fields) (rest : variants).

Scheme ty_mut := Induction for ty Sort Prop
  with fields_mut := Induction for fields Sort Prop
  with variants_mut := Induction for variants Sort Prop.
Combined Scheme ty_fields_variants_ind from ty_mut, fields_mut, variants_mut.

Inductive refkind := RSlice | RStr | ROne.

Inductive val :=
| VN (n : N)                              (* primitive: bit pattern *)
| VBytes (l : list byte)                  (* String, Box<str> *)
| VSeq (l : list val)                     (* sequences, arrays, tuples, struct fields, ranges *)
| VTag (k : N) (l : list val)             (* sums: variant index + payload; SerIter: announced length + items *)
| VRef (k : refkind) (off nbytes count : N) (v : val).
   (* ε-copy only: a borrowed slice/str/reference into the input buffer at offset [off],
      [nbytes] long, [count] items, whose decoded content is [v] *)

Fixpoint fields_len (fs : fields) : N :=
  match fs with FNil => 0 | FCons _ _ _ r => 1 + fields_len r end.
Fixpoint variants_len (vs : variants) : N :=
  match vs with VNil => 0 | VCons _ _ _ r => 1 + variants_len r end.
Fixpoint nth_variant (vs : variants) (k : N) : option (name * bool * fields) :=
  match vs with
  | VNil => None
  | VCons n nm fs r => if k =? 0 then Some (n, nm, fs) else nth_variant r (k - 1)
  end.

Definition isize (i : iprim) : N :=
  match i with
  | U8 | I8 => 1 | U16 | I16 => 2 | U32 | I32 => 4 | U64 | I64 | USize | ISize => 8 | U128 | I128 => 16
  end.
Definition psize (p : prim) : N :=
  match p with
  | PInt i | PNZ i => isize i
  | PF32 => 4 | PF64 => 8 | PBool => 1 | PChar => 4
  end.

Definition valid_char (n : N) : bool := (n <? 55296) || ((57343 <? n) && (n <? 1114112)).

Definition rkind_zc_ok (k : rkind) : bool := match k with RTo | RToIncl => true | _ => false end.
