(* Copy kinds, alignment units (MaxSizeOf), and the in-memory layout of zero-copy types
   (x86-64, rustc layout of the std types involved, repr(C) for derived types). *)
Require Import EV.Base.Tac EV.Base.Bytes EV.Base.ListX EV.Model.Arith64 EV.Model.Types.

(* CopyType::Copy = Zero *)
Fixpoint is_zc (t : ty) : bool :=
  match t with
  | TPrim _ | TUnit | TPhantom _ | TRangeFull => true
  | TArray _ t' => is_zc t'
  | TTuple _ _ => true
  | TRange _ _ => true
  | TStruct i _ | TEnum i _ => a_zc i
  | _ => false
  end.

(* T: ZeroCopy holds (CopyType Zero + Copy + MaxSizeOf + 'static), recursively *)
Fixpoint zc_ok (t : ty) : bool :=
  match t with
  | TPrim _ | TUnit | TPhantom _ | TRangeFull => true
  | TArray _ t' => zc_ok t'
  | TTuple _ t' => zc_ok t'
  | TRange k t' => rkind_zc_ok k && zc_ok t'
  | TStruct i fs => a_zc i && zc_ok_fields fs
  | TEnum i vs => a_zc i && zc_ok_variants vs
  | _ => false
  end
with zc_ok_fields (fs : fields) : bool :=
  match fs with
  | FNil => true
  | FCons _ _ t r => zc_ok t && zc_ok_fields r
  end
with zc_ok_variants (vs : variants) : bool :=
  match vs with
  | VNil => true
  | VCons _ _ fs r => zc_ok_fields fs && zc_ok_variants r
  end.

Definition round_up (x a : N) : N := (x + a - 1) / a * a.

Definition has_repr_c (i : adt_info) : bool :=
  existsb (fun r => if list_eq_dec N.eq_dec r NAME_C then true else false) (a_reprs i).

Fixpoint variants_have_fields (vs : variants) : bool :=
  match vs with
  | VNil => false
  | VCons _ _ fs r => match fs with FNil => variants_have_fields r | _ => true end
  end.

(* size_of / align_of of zero-copy types (0 / 1 on anything else) *)
Fixpoint align_of (t : ty) : N :=
  match t with
  | TPrim p => psize p
  | TArray _ t' | TTuple _ t' | TRange _ t' => align_of t'
  | TStruct i fs => N.max (N.max 1 (a_align i)) (align_fields fs)
  | TEnum i vs => N.max (N.max 1 (a_align i)) (if variants_have_fields vs then N.max 4 (align_variants vs) else 4)
  | _ => 1
  end
with align_fields (fs : fields) : N :=
  match fs with
  | FNil => 1
  | FCons _ _ t r => N.max (align_of t) (align_fields r)
  end
with align_variants (vs : variants) : N :=
  match vs with
  | VNil => 1
  | VCons _ _ fs r => N.max (align_fields fs) (align_variants r)
  end.

Fixpoint size_of (t : ty) : N :=
  match t with
  | TPrim p => psize p
  | TArray n t' | TTuple n t' => n * size_of t'
  | TRange k t' =>
      match k with
      | RRange => 2 * size_of t'
      | RIncl => round_up (2 * size_of t' + 1) (align_of t')
      | _ => size_of t'
      end
  | TStruct i fs => round_up (end_fields fs 0) (align_of t)
  | TEnum i vs =>
      if variants_have_fields vs
      then let pa := align_variants vs in
           round_up (round_up 4 pa + round_up (size_variants vs) pa) (align_of t)
      else round_up 4 (align_of t)
  | _ => 0
  end
(* offset just after the last field when the fields are laid out from offset [cur] *)
with end_fields (fs : fields) (cur : N) : N :=
  match fs with
  | FNil => cur
  | FCons _ _ t r => end_fields r (round_up cur (align_of t) + size_of t)
  end
(* max over variants of the size of the variant's repr(C) struct *)
with size_variants (vs : variants) : N :=
  match vs with
  | VNil => 0
  | VCons _ _ fs r => N.max (round_up (end_fields fs 0) (align_fields fs)) (size_variants r)
  end.

(* MaxSizeOf::max_size_of() as coded (after the unit >= 1 fix) *)
Fixpoint unit_of (t : ty) : N :=
  match t with
  | TPrim p => N.max (psize p) 1
  | TUnit | TPhantom _ | TRangeFull => 1
  | TArray _ t' | TTuple _ t' => unit_of t'
  | TRange k t' => N.max (size_of t) 1
  | TStruct i fs => N.max (align_of t) (unit_fields fs)
  | TEnum i vs => N.max (align_of t) (unit_variants vs)
  | _ => 1
  end
with unit_fields (fs : fields) : N :=
  match fs with
  | FNil => 0
  | FCons _ _ t r => N.max (unit_of t) (unit_fields r)
  end
with unit_variants (vs : variants) : N :=
  match vs with
  | VNil => 0
  | VCons _ _ fs r => N.max (unit_fields fs) (unit_variants r)
  end.

(* SerializeInner::IS_ZERO_COPY as computed by the impls and the derive *)
Fixpoint is_zc_const (t : ty) : bool :=
  match t with
  | TPrim _ | TUnit | TPhantom _ | TRangeFull => true
  | TArray _ t' => is_zc_const t'
  | TTuple _ _ => true
  | TRange _ _ => true
  | TStruct i fs => has_repr_c i && zc_const_fields fs
  | TEnum i vs => has_repr_c i && zc_const_variants vs
  | _ => false
  end
with zc_const_fields (fs : fields) : bool :=
  match fs with
  | FNil => true
  | FCons _ _ t r => is_zc_const t && zc_const_fields r
  end
with zc_const_variants (vs : variants) : bool :=
  match vs with
  | VNil => true
  | VCons _ _ fs r => zc_const_fields fs && zc_const_variants r
  end.

(* ------------------------------------------------------------------ memory representation *)

(* [pf o] is the junk found in the padding byte that lands at stream offset [o]: the
   serializer copies uninitialised padding verbatim, so every theorem quantifies over [pf]. *)
Definition padfill := N -> byte.

Definition pad_bytes (pf : padfill) (pos n : N) : list byte :=
  List.map (fun i => pf (pos + N.of_nat i)) (seq 0 (N.to_nat n)).

Definition vseq_items (v : val) : list val := match v with VSeq l | VTag _ l => l | _ => [] end.
Definition vtag (v : val) : N := match v with VTag k _ => k | _ => 0 end.
Definition vnum (v : val) : N := match v with VN n => n | _ => 0 end.

Fixpoint mem_repr_list (f : N -> val -> list byte) (sz pos : N) (l : list val) : list byte :=
  match l with
  | [] => []
  | x :: l' => f pos x ++ mem_repr_list f sz (pos + sz) l'
  end.

(* [mem_repr pf pos t v]: the bytes of value [v] of zero-copy type [t] placed at stream
   offset [pos] (the offset only selects the junk in padding bytes) *)
Fixpoint mem_repr (pf : padfill) (pos : N) (t : ty) (v : val) {struct t} : list byte :=
  match t with
  | TPrim p => le_bytes (N.to_nat (psize p)) (vnum v)
  | TArray _ t' | TTuple _ t' =>
      mem_repr_list (fun p x => mem_repr pf p t' x) (size_of t') pos (vseq_items v)
  | TRange k t' =>
      match k with
      | RTo | RToIncl => mem_repr pf pos t' (hd (VSeq []) (vseq_items v))
      | _ => []     (* Range, RangeFrom, RangeInclusive are not Copy: never inside a zero-copy block *)
      end
  | TStruct i fs =>
      let body := mem_repr_fields pf pos fs 0 (vseq_items v) in
      body ++ pad_bytes pf (pos + nlen body) (size_of t - nlen body)
  | TEnum i vs =>
      let k := vtag v in
      let tagb := le_bytes 4 k in
      let body :=
        if variants_have_fields vs then
          let po := round_up 4 (align_variants vs) in
          tagb ++ pad_bytes pf (pos + 4) (po - 4) ++ mem_repr_variants pf (pos + po) vs k (vseq_items v)
        else tagb in
      body ++ pad_bytes pf (pos + nlen body) (size_of t - nlen body)
  | _ => []
  end
(* fields laid out from relative offset [cur]; [pos] is the stream offset of relative offset 0 *)
with mem_repr_fields (pf : padfill) (pos : N) (fs : fields) (cur : N) (vs : list val) {struct fs} : list byte :=
  match fs with
  | FNil => []
  | FCons _ _ t r =>
      let off := round_up cur (align_of t) in
      pad_bytes pf (pos + cur) (off - cur) ++
      mem_repr pf (pos + off) t (hd (VSeq []) vs) ++
      mem_repr_fields pf pos r (off + size_of t) (tl vs)
  end
with mem_repr_variants (pf : padfill) (pos : N) (vs : variants) (k : N) (vals : list val) {struct vs} : list byte :=
  match vs with
  | VNil => []
  | VCons _ _ fs r =>
      if k =? 0 then mem_repr_fields pf pos fs 0 vals else mem_repr_variants pf pos r (k - 1) vals
  end.

Fixpoint decode_n (f : list byte -> val) (sz : N) (k : nat) (b : list byte) : list val :=
  match k with
  | O => []
  | S k' => f (ntake sz b) :: decode_n f sz k' (ndrop sz b)
  end.

(* [mem_decode t b]: the value read from the first [size_of t] bytes of [b] *)
Fixpoint mem_decode (t : ty) (b : list byte) {struct t} : val :=
  match t with
  | TPrim p => VN (le_val (ntake (psize p) b))
  | TArray n t' | TTuple n t' => VSeq (decode_n (mem_decode t') (size_of t') (N.to_nat n) b)
  | TRange k t' =>
      match k with
      | RTo | RToIncl => VSeq [mem_decode t' b]
      | _ => VSeq []
      end
  | TStruct i fs => VSeq (mem_decode_fields fs 0 b)
  | TEnum i vs =>
      let k := le_val (ntake 4 b) in
      VTag k (if variants_have_fields vs
              then mem_decode_variants vs k (ndrop (round_up 4 (align_variants vs)) b)
              else [])
  | _ => VSeq []
  end
with mem_decode_fields (fs : fields) (cur : N) (b : list byte) {struct fs} : list val :=
  match fs with
  | FNil => []
  | FCons _ _ t r =>
      let off := round_up cur (align_of t) in
      mem_decode t (ndrop off b) :: mem_decode_fields r (off + size_of t) b
  end
with mem_decode_variants (vs : variants) (k : N) (b : list byte) {struct vs} : list val :=
  match vs with
  | VNil => []
  | VCons _ _ fs r => if k =? 0 then mem_decode_fields fs 0 b else mem_decode_variants r (k - 1) b
  end.
