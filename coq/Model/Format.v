(* Format version 1.1, written directly as a function from values to bytes (no writer, no
   events): the published layout.  Proofs/FormatP.v shows the serializer produces exactly these
   bytes. *)
Require Import EV.Base.Tac EV.Base.Bytes EV.Base.Res EV.Base.ListX.
Require Import EV.Model.Arith64 EV.Model.Types EV.Model.Layout.

(* zero padding up to the next multiple of the unit *)
Definition padz (pos u : N) : list byte := zeros (pad_align_to pos u).

(* items one after the other, each at the position where the previous one ended *)
Fixpoint enc_list (f : val -> N -> list byte) (pos : N) (l : list val) : list byte :=
  match l with
  | [] => []
  | x :: l' => let b := f x pos in b ++ enc_list f (pos + nlen b) l'
  end.

(* a block of zero-copy data: zero padding to the unit of its type, then its memory *)
Definition enc_block (pf : padfill) (t : ty) (v : val) (pos : N) : list byte :=
  let p := padz pos (unit_of t) in p ++ mem_repr pf (pos + nlen p) t v.

(* a sequence of zero-copy elements: 8-byte length, zero padding to the unit of the element
   type, the elements' memory one after the other *)
Definition enc_zc_seq (pf : padfill) (t : ty) (count : N) (l : list val) (pos : N) : list byte :=
  let p := padz (pos + 8) (unit_of t) in
  le_bytes 8 count ++ p ++ mem_repr_list (fun q x => mem_repr pf q t x) (size_of t) (pos + 8 + nlen p) l.

Definition arg0 (v : val) : val := hd (VSeq []) (vseq_items v).

Fixpoint enc (pf : padfill) (t : ty) (v : val) (pos : N) {struct t} : list byte :=
  match t with
  | TPrim p => le_bytes (N.to_nat (psize p)) (vnum v)                     (* native (little) endian *)
  | TUnit | TPhantom _ | TRangeFull => []
  | TString | TBoxStr => match v with VBytes l => le_bytes 8 (nlen l) ++ l | _ => [] end
  | TVec t' | TBoxSlice t' | TSliceRef t' =>
      if is_zc t' then enc_zc_seq pf t' (nlen (vseq_items v)) (vseq_items v) pos
      else le_bytes 8 (nlen (vseq_items v)) ++ enc_list (enc pf t') (pos + 8) (vseq_items v)
  | TSerIter t' => enc_zc_seq pf t' (vtag v) (vseq_items v) pos
  | TArray _ t' =>
      if is_zc t' then enc_block pf t v pos else enc_list (enc pf t') pos (vseq_items v)
  | TTuple _ _ => enc_block pf t v pos
  | TOption t' =>
      match vtag v with
      | 0 => [0]
      | _ => 1 :: enc pf t' (arg0 v) (pos + 1)
      end
  | TBound t' =>
      match vtag v with
      | 0 => [0]
      | 1 => 1 :: enc pf t' (arg0 v) (pos + 1)
      | _ => 2 :: enc pf t' (arg0 v) (pos + 1)
      end
  | TCF b c =>
      match vtag v with
      | 0 => 0 :: enc pf b (arg0 v) (pos + 1)
      | _ => 1 :: enc pf c (arg0 v) (pos + 1)
      end
  | TRange k t' =>
      match k with
      | RRange => enc_list (enc pf t') pos (firstn 2 (vseq_items v))
      | RIncl => enc_list (enc pf t') pos (firstn 2 (vseq_items v)) ++
                 le_bytes 1 (vnum (hd (VSeq []) (tl (tl (vseq_items v)))))
      | _ => enc pf t' (arg0 v) pos
      end
  | TStruct i fs => if a_zc i then enc_block pf t v pos else enc_fields pf fs (vseq_items v) pos
  | TEnum i vs =>
      if a_zc i then enc_block pf t v pos
      else le_bytes 8 (vtag v) ++ enc_variants pf vs (vtag v) (vseq_items v) (pos + 8)
  end
(* fields in declaration order *)
with enc_fields (pf : padfill) (fs : fields) (l : list val) (pos : N) {struct fs} : list byte :=
  match fs with
  | FNil => []
  | FCons _ _ t r => let b := enc pf t (hd (VSeq []) l) pos in b ++ enc_fields pf r (tl l) (pos + nlen b)
  end
with enc_variants (pf : padfill) (vs : variants) (k : N) (l : list val) (pos : N) {struct vs} : list byte :=
  match vs with
  | VNil => []
  | VCons _ _ fs r => if k =? 0 then enc_fields pf fs l pos else enc_variants pf r (k - 1) l pos
  end.

(* the whole file: header, then the value at offset 37 + |type name| *)
Definition enc_file (pf : padfill) (type_hash align_hash : N) (type_name : list byte) (t : ty) (v : val) : list byte :=
  let hdr := le_bytes 8 MAGIC ++ le_bytes 2 VERSION_MAJOR ++ le_bytes 2 VERSION_MINOR ++ le_bytes 1 8 ++
             le_bytes 8 type_hash ++ le_bytes 8 align_hash ++ le_bytes 8 (nlen type_name) ++ type_name in
  hdr ++ enc pf t v (nlen hdr).
