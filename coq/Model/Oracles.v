(* Concrete writers used by the correspondence check of C13 (the same ones the harness runs
   the real crate against). *)
Require Import EV.Base.Tac EV.Base.Bytes EV.Base.Res EV.Base.ListX.
Require Import EV.Model.Arith64 EV.Model.Types EV.Model.Layout EV.Model.Ser EV.Model.IO.

(* accepts bytes until [k] in total (the last write partially), then fails *)
Definition o_fail_after (k : N) : writer :=
  {| wst := N;
     w_write := fun taken buf =>
       if taken + nlen buf <=? k then (taken + nlen buf, WAccept (nlen buf))
       else if taken <? k then (k, WAccept (k - taken))
       else (taken, WFail);
     w_flush := fun taken => (taken, true) |}.

(* accepts at most [mx] bytes per call, interrupts every [intr]-th call (0 = never) *)
Definition o_short (mx intr : N) : writer :=
  {| wst := N;
     w_write := fun calls buf =>
       let c := calls + 1 in
       if negb (intr =? 0) && (c mod intr =? 0) then (c, WInterrupted)
       else (c, WAccept (N.min mx (nlen buf)));
     w_flush := fun c => (c, true) |}.

Definition o_flush_fail : writer :=
  {| wst := unit;
     w_write := fun _ buf => (tt, WAccept (nlen buf));
     w_flush := fun _ => (tt, false) |}.

(* returns Ok(0) once [k] bytes have been taken *)
Definition o_zero_after (k : N) : writer :=
  {| wst := N;
     w_write := fun taken buf =>
       let n := N.min (k - taken) (nlen buf) in (taken + n, WAccept n);
     w_flush := fun taken => (taken, true) |}.

Definition run_fail_after (k : N) (fuel : nat) (run : sres) := serialize_io (o_fail_after k) fuel 0 run.
Definition run_short (mx intr : N) (fuel : nat) (run : sres) := serialize_io (o_short mx intr) fuel 0 run.
Definition run_flush_fail (fuel : nat) (run : sres) := serialize_io o_flush_fail fuel tt run.
Definition run_zero_after (k : N) (fuel : nat) (run : sres) := serialize_io (o_zero_after k) fuel 0 run.
