(* Deserialization: deser/helpers.rs, reader_with_pos.rs, slice_with_pos.rs and the
   _deserialize_full_inner / _deserialize_eps_inner of impls/*.rs and of the derive. *)
Require Import EV.Base.Tac EV.Base.Bytes EV.Base.Res EV.Base.ListX.
Require Import EV.Model.Arith64 EV.Model.Types EV.Model.Layout.

(* a reader: remaining input and position -> result, remaining input, new position *)
Definition R (A : Type) := list byte -> N -> res (A * list byte * N).

Definition rret {A} (a : A) : R A := fun i p => Ok (a, i, p).
Definition rerr {A} (e : err) : R A := fun _ _ => Err e.
Definition rpanic {A} (w : pwhy) : R A := fun _ _ => Panic w.
Definition rbind {A B} (r : R A) (f : A -> R B) : R B := fun i p =>
  match r i p with
  | Ok (a, i', p') => f a i' p'
  | Err e => Err e
  | Panic w => Panic w
  end.
Notation "'let+' x ':=' r 'in' k" := (rbind r (fun x => k))
  (at level 200, x pattern, r at level 100, k at level 200, right associativity).

(* ReadNoStd::read_exact on both backends: ReadError when the input is too short *)
Definition read_exact (n : N) : R (list byte) := fun i p =>
  if has_len n i then Ok (ntake n i, ndrop n i, p + n) else Err ReadError.

(* backend.data[..n] followed by backend.skip(n) on SliceWithPos: a bounds-check panic when short *)
Definition take_slice (n : N) : R (list byte) := fun i p =>
  if has_len n i then Ok (ntake n i, ndrop n i, p + n) else Panic PBounds.

Definition rpos : R N := fun i p => Ok (p, i, p).

(* the reader kind: [None] = ReaderWithPos over any reader, [Some base] = SliceWithPos whose
   buffer starts at address [base] *)
Definition rkind_t := option N.

(* ReadWithPos::align::<T>() with T::max_size_of() = u *)
Definition ralign (rk : rkind_t) (u : N) : R unit := fun i p =>
  if u =? 0 then Panic PArith else
  let pad := pad_align_to p u in
  match rk with
  | None => match read_exact pad i p with
            | Ok (_, i', p') => Ok (tt, i', p')
            | Err e => Err e
            | Panic w => Panic w
            end
  | Some base =>
      if has_len pad i then
        if (base + (p + pad)) mod u =? 0 then Ok (tt, ndrop pad i, p + pad) else Err AlignmentError
      else Panic PBounds
  end.

Definition decode_prim (p : prim) (n : N) : res val :=
  match p with
  | PBool => Ok (VN (if n =? 0 then 0 else 1))
  | PChar => if valid_char n then Ok (VN n) else Panic PUnwrap
  | PNZ _ => if n =? 0 then Panic PUnwrap else Ok (VN n)
  | _ => Ok (VN n)
  end.

Definition rlift {A} (r : res A) : R A := fun i p =>
  match r with Ok a => Ok (a, i, p) | Err e => Err e | Panic w => Panic w end.

(* primitive through read_exact (full-copy impls, and length/tag reads of the ε-copy impls) *)
Definition rprim_full (p : prim) : R val :=
  let+ b := read_exact (psize p) in rlift (decode_prim p (le_val b)).
(* primitive through slice indexing (ε-copy impls) *)
Definition rprim_eps (p : prim) : R val :=
  let+ b := take_slice (psize p) in rlift (decode_prim p (le_val b)).

Definition rusize : R N := let+ b := read_exact 8 in rret (le_val b).
Definition ru8 : R N := let+ b := read_exact 1 in rret (le_val b).

Fixpoint rrepeat (r : R val) (k : nat) : R (list val) :=
  match k with
  | O => rret []
  | S k' => let+ x := r in let+ xs := rrepeat r k' in rret (x :: xs)
  end.

(* ------------------------------------------------------------------ UTF-8 (String::from_utf8) *)

Definition cont (b : byte) : bool := (128 <=? b) && (b <=? 191).
Definition inr (lo hi b : N) : bool := (lo <=? b) && (b <=? hi).

Fixpoint utf8_valid (l : list byte) : bool :=
  match l with
  | [] => true
  | b0 :: r =>
      if b0 <? 128 then utf8_valid r
      else if inr 194 223 b0 then
        match r with b1 :: r1 => cont b1 && utf8_valid r1 | _ => false end
      else if inr 224 239 b0 then
        match r with
        | b1 :: b2 :: r2 =>
            (if b0 =? 224 then inr 160 191 b1 else if b0 =? 237 then inr 128 159 b1 else cont b1)
            && cont b2 && utf8_valid r2
        | _ => false
        end
      else if inr 240 244 b0 then
        match r with
        | b1 :: b2 :: b3 :: r3 =>
            (if b0 =? 240 then inr 144 191 b1 else if b0 =? 244 then inr 128 143 b1 else cont b1)
            && cont b2 && cont b3 && utf8_valid r3
        | _ => false
        end
      else false
  end.

(* ------------------------------------------------------------------ full-copy *)

(* deserialize_full_zero::<T> *)
Definition full_zero (rk : rkind_t) (t : ty) : R val :=
  let+ _ := ralign rk (unit_of t) in
  let+ b := read_exact (size_of t) in
  rret (mem_decode t b).

(* deserialize_full_vec_zero::<T> *)
Definition full_vec_zero (rk : rkind_t) (t : ty) : R (list val) :=
  let+ len := rusize in
  let+ _ := ralign rk (unit_of t) in
  let+ b := read_exact (len * size_of t) in
  rret (decode_n (mem_decode t) (size_of t) (N.to_nat len) b).

Definition full_string (rk : rkind_t) : R val :=
  let+ len := rusize in
  let+ _ := ralign rk 1 in
  let+ b := read_exact len in
  if utf8_valid b then rret (VBytes b) else rpanic PUnwrap.

Definition unit_val : val := VSeq [].

Fixpoint deser_full (rk : rkind_t) (t : ty) {struct t} : R val :=
  match t with
  | TPrim p => rprim_full p
  | TUnit | TPhantom _ | TRangeFull => rret unit_val
  | TString | TBoxStr => full_string rk
  | TVec t' | TBoxSlice t' =>
      if is_zc t' then let+ l := full_vec_zero rk t' in rret (VSeq l)
      else let+ len := rusize in let+ l := rrepeat (deser_full rk t') (N.to_nat len) in rret (VSeq l)
  | TSliceRef _ | TSerIter _ => rpanic PUnwrap    (* serialize-only types *)
  | TArray n t' =>
      if is_zc t' then
        let+ _ := ralign rk (unit_of t') in
        let+ b := read_exact (size_of t) in
        rret (mem_decode t b)
      else let+ l := rrepeat (deser_full rk t') (N.to_nat n) in rret (VSeq l)
  | TTuple _ _ => full_zero rk t
  | TOption t' =>
      let+ tag := ru8 in
      match tag with
      | 0 => rret (VTag 0 [])
      | 1 => let+ x := deser_full rk t' in rret (VTag 1 [x])
      | _ => rerr (InvalidTag tag)
      end
  | TBound t' =>
      let+ tag := ru8 in
      match tag with
      | 0 => rret (VTag 0 [])
      | 1 => let+ x := deser_full rk t' in rret (VTag 1 [x])
      | 2 => let+ x := deser_full rk t' in rret (VTag 2 [x])
      | _ => rerr (InvalidTag tag)
      end
  | TCF b c =>
      let+ tag := ru8 in
      match tag with
      | 0 => let+ x := deser_full rk b in rret (VTag 0 [x])
      | 1 => let+ x := deser_full rk c in rret (VTag 1 [x])
      | _ => rerr (InvalidTag tag)
      end
  | TRange k t' =>
      match k with
      | RRange => let+ s := deser_full rk t' in let+ e := deser_full rk t' in rret (VSeq [s; e])
      | RFrom => let+ s := deser_full rk t' in rret (VSeq [s])
      | RIncl =>
          let+ s := deser_full rk t' in
          let+ e := deser_full rk t' in
          let+ x := rprim_full PBool in
          if vnum x =? 0 then rret (VSeq [s; e; x]) else rpanic PExhausted
      | RTo | RToIncl => let+ e := deser_full rk t' in rret (VSeq [e])
      end
  | TStruct i fs =>
      if a_zc i then full_zero rk t
      else let+ l := deser_full_fields rk fs in rret (VSeq l)
  | TEnum i vs =>
      if a_zc i then full_zero rk t
      else let+ tag := rusize in deser_full_variants rk vs tag tag
  end
with deser_full_fields (rk : rkind_t) (fs : fields) {struct fs} : R (list val) :=
  match fs with
  | FNil => rret []
  | FCons _ _ t r =>
      let+ x := deser_full rk t in
      let+ xs := deser_full_fields rk r in
      rret (x :: xs)
  end
(* [k] counts down to the variant selected by [tag] *)
with deser_full_variants (rk : rkind_t) (vs : variants) (k tag : N) {struct vs} : R val :=
  match vs with
  | VNil => rerr (InvalidTag tag)
  | VCons _ _ fs r =>
      if k =? 0 then let+ l := deser_full_fields rk fs in rret (VTag tag l)
      else deser_full_variants rk r (k - 1) tag
  end.

(* ------------------------------------------------------------------ ε-copy *)

Fixpoint repeat_val (v : val) (k : nat) : list val :=
  match k with O => [] | S k' => v :: repeat_val v k' end.

(* deserialize_eps_zero::<T> *)
Definition eps_zero (base : N) (t : ty) : R val :=
  let+ _ := ralign (Some base) (unit_of t) in
  let+ p := rpos in
  if size_of t =? 0 then rret (VRef ROne p 0 1 (mem_decode t []))
  else
    if (base + p) mod (align_of t) =? 0 then
      let+ b := take_slice (size_of t) in
      rret (VRef ROne p (size_of t) 1 (mem_decode t b))
    else
      (* align_to leaves a non-empty prefix: debug_assert!(pre.is_empty()) *)
      let+ b := take_slice (size_of t) in rpanic PDebugAssert.

(* deserialize_eps_slice_zero::<T> *)
Definition eps_slice_zero (base : N) (t : ty) : R val :=
  let+ len := rusize in
  let+ _ := ralign (Some base) (unit_of t) in
  let+ p := rpos in
  if size_of t =? 0 then
    rret (VRef RSlice p 0 len (VSeq (repeat_val (mem_decode t []) (N.to_nat len))))
  else
    let+ b := take_slice (len * size_of t) in
    if (base + p) mod (align_of t) =? 0 then
      rret (VRef RSlice p (len * size_of t) len (VSeq (decode_n (mem_decode t) (size_of t) (N.to_nat len) b)))
    else rpanic PDebugAssert.

Definition eps_string (base : N) : R val :=
  let+ len := rusize in
  let+ _ := ralign (Some base) 1 in
  let+ p := rpos in
  let+ b := take_slice len in
  rret (VRef RStr p len len (VBytes b)).

Fixpoint deser_eps (base : N) (t : ty) {struct t} : R val :=
  match t with
  | TPrim p => rprim_eps p
  | TUnit | TPhantom _ | TRangeFull => rret unit_val
  | TString | TBoxStr => eps_string base
  | TVec t' | TBoxSlice t' =>
      if is_zc t' then eps_slice_zero base t'
      else let+ len := rusize in let+ l := rrepeat (deser_eps base t') (N.to_nat len) in rret (VSeq l)
  | TSliceRef _ | TSerIter _ => rpanic PUnwrap
  | TArray n t' =>
      if is_zc t' then eps_zero base t    (* same steps as deserialize_eps_zero, unit of the element type *)
      else let+ l := rrepeat (deser_eps base t') (N.to_nat n) in rret (VSeq l)
  | TTuple _ _ => eps_zero base t
  | TOption t' =>
      let+ tag := ru8 in
      match tag with
      | 0 => rret (VTag 0 [])
      | 1 => let+ x := deser_eps base t' in rret (VTag 1 [x])
      | _ => rerr (InvalidTag tag)
      end
  | TBound t' =>
      let+ tag := ru8 in
      match tag with
      | 0 => rret (VTag 0 [])
      | 1 => let+ x := deser_eps base t' in rret (VTag 1 [x])
      | 2 => let+ x := deser_eps base t' in rret (VTag 2 [x])
      | _ => rerr (InvalidTag tag)
      end
  | TCF b c =>
      let+ tag := ru8 in
      match tag with
      | 0 => let+ x := deser_eps base b in rret (VTag 0 [x])
      | 1 => let+ x := deser_eps base c in rret (VTag 1 [x])
      | _ => rerr (InvalidTag tag)
      end
  | TRange k t' =>
      match k with
      | RRange => let+ s := deser_eps base t' in let+ e := deser_eps base t' in rret (VSeq [s; e])
      | RFrom => let+ s := deser_eps base t' in rret (VSeq [s])
      | RIncl =>
          let+ s := deser_eps base t' in
          let+ e := deser_eps base t' in
          let+ x := rprim_full PBool in
          if vnum x =? 0 then rret (VSeq [s; e; x]) else rpanic PExhausted
      | RTo | RToIncl => let+ e := deser_eps base t' in rret (VSeq [e])
      end
  | TStruct i fs =>
      if a_zc i then eps_zero base t
      else let+ l := deser_eps_fields base fs in rret (VSeq l)
  | TEnum i vs =>
      if a_zc i then eps_zero base t
      else let+ tag := rusize in deser_eps_variants base vs tag tag
  end
(* a field whose declared type is exactly a type parameter is ε-copy deserialized, any other
   field is fully deserialized (from the same SliceWithPos) *)
with deser_eps_fields (base : N) (fs : fields) {struct fs} : R (list val) :=
  match fs with
  | FNil => rret []
  | FCons _ isp t r =>
      let+ x := (if isp then deser_eps base t else deser_full (Some base) t) in
      let+ xs := deser_eps_fields base r in
      rret (x :: xs)
  end
with deser_eps_variants (base : N) (vs : variants) (k tag : N) {struct vs} : R val :=
  match vs with
  | VNil => rerr (InvalidTag tag)
  | VCons _ _ fs r =>
      if k =? 0 then let+ l := deser_eps_fields base fs in rret (VTag tag l)
      else deser_eps_variants base r (k - 1) tag
  end.

(* forget where borrowed parts came from *)
Fixpoint erase (v : val) : val :=
  match v with
  | VRef _ _ _ _ x => x
  | VSeq l => VSeq (List.map erase l)
  | VTag k l => VTag k (List.map erase l)
  | _ => v
  end.
