(* ser/write_with_names.rs: the rows recorded by SchemaWriter, as a function of the writer
   events (the recording writer makes the same WriteWithNames calls as the plain one). *)
Require Import EV.Base.Tac EV.Base.Bytes EV.Base.Res EV.Base.ListX.
Require Import EV.Model.Arith64 EV.Model.Types EV.Model.Layout EV.Model.Ser.
From Coq Require Import String.

Definition N_PADDING : name := bs "PADDING".
Definition N_zero : name := bs "zero".

Record row := {
  r_path : list name;     (* the components joined by "." in SchemaRow::field *)
  r_off : N;
  r_size : N;
  r_align : N;            (* 0 for fields, 1 for padding, V::max_size_of() for zero-copy bytes *)
  r_leaf : bool           (* padding or zero-copy bytes (no children) *)
}.

(* [rows fuel pos path evs] reads events up to the ELeave closing the current field and returns
   the rows in the order of the schema vector, the position reached and the remaining events *)
Fixpoint rows (fuel : nat) (pos : N) (path : list name) (evs : list event)
  : list row * N * list event :=
  match fuel with
  | O => ([], pos, evs)
  | S f =>
      match evs with
      | [] => ([], pos, [])
      | ELeave :: r => ([], pos, r)
      | EEnter nm t :: r =>
          let '(kids, pos1, r1) := rows f pos (nm :: path) r in
          let me := {| r_path := rev (nm :: path); r_off := pos; r_size := pos1 - pos; r_align := 0; r_leaf := false |} in
          let '(sibs, pos2, r2) := rows f pos1 path r1 in
          (me :: kids ++ sibs, pos2, r2)
      | EPad u n :: r =>
          let '(sibs, pos2, r2) := rows f (pos + n) path r in
          ({| r_path := [N_PADDING]; r_off := pos; r_size := n; r_align := 1; r_leaf := true |} :: sibs, pos2, r2)
      | EBlock t b :: r | EItem t b :: r =>
          let '(sibs, pos2, r2) := rows f (pos + nlen b) path r in
          ({| r_path := rev (N_zero :: path); r_off := pos; r_size := nlen b; r_align := unit_of t; r_leaf := true |} :: sibs, pos2, r2)
      | e :: r => rows f (pos + ev_len e) path r
      end
  end.

Definition schema_of (evs : list event) : list row :=
  let '(rs, _, _) := rows (S (List.length evs)) 0 [] evs in rs.

(* Schema::debug indexes data[row.offset .. row.offset + row.size] for every row that is not
   followed by a row with the same offset (and for the last row); to_csv indexes nothing *)
Fixpoint debug_ok (data_len : N) (rs : list row) : bool :=
  match rs with
  | [] => true
  | [r] => r_off r + r_size r <=? data_len
  | r :: ((r' :: _) as rest) =>
      (if r_off r =? r_off r' then true else r_off r + r_size r <=? data_len) && debug_ok data_len rest
  end.
