(* epserde/src/utils/aligned_cursor.rs ([ac_step], copied statement by statement) and the
   specification it must refine: std::io::Cursor<Vec<u8>> as implemented by the standard
   library ([std_step]).  Target: 64-bit usize. *)
Require Import EV.Base.Tac EV.Base.Bytes EV.Base.ListX EV.Model.Arith64.

Inductive op :=
| OWrite (buf : list byte)        (* Write::write(buf) *)
| ORead (n : N)                   (* Read::read(&mut [0; n]) *)
| OSeekStart (n : N)              (* Seek::seek(SeekFrom::Start(n)) *)
| OSeekCur (z : Z)                (* Seek::seek(SeekFrom::Current(z)) *)
| OSeekEnd (z : Z)                (* Seek::seek(SeekFrom::End(z)) *)
| OSetPos (n : N).                (* set_position(n) *)

Inductive out :=
| OutN (n : N)                    (* Ok(n) *)
| OutData (l : list byte)         (* Ok(|l|) with l copied at the start of the buffer *)
| OutErr                          (* Err(InvalidInput) *)
| OutUnit
| OutPanic.

(* u64::checked_add_signed followed by the <= usize::MAX test *)
Definition seek_target (base : N) (z : Z) : option N :=
  let t := (Z.of_N base + z)%Z in
  if ((0 <=? t) && (t <=? Z.of_N USIZE_MAX))%Z then Some (Z.to_N t) else None.

(* ---------------------------------------------------------------- std::io::Cursor<Vec<u8>> *)

Record sc := { svec : list byte; spos : N }.
Definition sc_init : sc := {| svec := []; spos := 0 |}.

Definition std_step (s : sc) (o : op) : sc * out :=
  match o with
  | OWrite buf =>
      (* reserve_and_pad: zero-fill up to pos when pos is past the end *)
      let v1 := if nlen (svec s) <? spos s then svec s ++ zeros (spos s - nlen (svec s)) else svec s in
      (* copy, extending the length when needed *)
      let v2 := overwrite v1 (spos s) buf in
      ({| svec := v2; spos := spos s + nlen buf |}, OutN (nlen buf))
  | ORead n =>
      let rem := ndrop (N.min (spos s) (nlen (svec s))) (svec s) in
      let k := N.min n (nlen rem) in
      ({| svec := svec s; spos := spos s + k |}, OutData (ntake k rem))
  | OSeekStart n => ({| svec := svec s; spos := n |}, OutN n)
  | OSeekCur z =>
      match seek_target (spos s) z with
      | Some n => ({| svec := svec s; spos := n |}, OutN n)
      | None => (s, OutErr)
      end
  | OSeekEnd z =>
      match seek_target (nlen (svec s)) z with
      | Some n => ({| svec := svec s; spos := n |}, OutN n)
      | None => (s, OutErr)
      end
  | OSetPos n => ({| svec := svec s; spos := n |}, OutUnit)
  end.

(* ---------------------------------------------------------------- AlignedCursor<T>, |T| = U *)

(* [avec] is the storage seen as bytes: vec.len() * size_of::<T>() of them *)
Record ac := { avec : list byte; apos : N; alen : N }.
Definition ac_init : ac := {| avec := []; apos := 0; alen := 0 |}.

Definition div_ceil (a b : N) : N := (a + b - 1) / b.

Definition ac_step (U : N) (s : ac) (o : op) : ac * out :=
  match o with
  | OWrite buf =>
      let blen := nlen buf in
      let len := N.min blen (USIZE_MAX - apos s) in
      if negb (blen =? 0) && (len =? 0) then (s, OutErr) else
      let cap := N.min (nlen (avec s)) USIZE_MAX in          (* saturating_mul *)
      let v1 := if cap <? apos s + len
                then avec s ++ zeros (div_ceil (apos s + len) U * U - nlen (avec s))   (* resize *)
                else avec s in
      if len <? blen then (s, OutPanic) else                   (* copy_from_slice length mismatch *)
      let v2 := overwrite v1 (apos s) buf in
      ({| avec := v2; apos := apos s + len; alen := N.max (alen s) (apos s + len) |}, OutN len)
  | ORead n =>
      if alen s <=? apos s then (s, OutData []) else
      let k := N.min n (alen s - apos s) in
      ({| avec := avec s; apos := apos s + k; alen := alen s |},
       OutData (ntake k (ndrop (apos s) (ntake (alen s) (avec s)))))
  | OSeekStart n => ({| avec := avec s; apos := n; alen := alen s |}, OutN n)
  | OSeekCur z =>
      match seek_target (apos s) z with
      | Some n => ({| avec := avec s; apos := n; alen := alen s |}, OutN n)
      | None => (s, OutErr)
      end
  | OSeekEnd z =>
      match seek_target (alen s) z with
      | Some n => ({| avec := avec s; apos := n; alen := alen s |}, OutN n)
      | None => (s, OutErr)
      end
  | OSetPos n => ({| avec := avec s; apos := n; alen := alen s |}, OutUnit)
  end.

(* What a client can observe after each operation: its result, position(), len(), as_bytes() *)
Definition ac_obs (s : ac) : N * N * list byte := (apos s, alen s, ntake (alen s) (avec s)).
Definition sc_obs (s : sc) : N * N * list byte := (spos s, nlen (svec s), svec s).

Fixpoint ac_run (U : N) (s : ac) (ops : list op) : list (out * (N * N * list byte)) :=
  match ops with
  | [] => []
  | o :: ops' => let '(s', r) := ac_step U s o in (r, ac_obs s') :: ac_run U s' ops'
  end.

Fixpoint std_run (s : sc) (ops : list op) : list (out * (N * N * list byte)) :=
  match ops with
  | [] => []
  | o :: ops' => let '(s', r) := std_step s o in (r, sc_obs s') :: std_run s' ops'
  end.

(* Histories that a real machine can execute: no write ends beyond isize::MAX
   (both implementations abort on the allocation there). *)
Definition ISIZE_MAX : N := 2 ^ 63 - 1.

Fixpoint feasible (s : sc) (ops : list op) : Prop :=
  match ops with
  | [] => True
  | o :: ops' =>
      match o with
      | OWrite buf => spos s + nlen buf <= ISIZE_MAX
      | _ => True
      end /\ feasible (fst (std_step s o)) ops'
  end.
