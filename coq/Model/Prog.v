(* Full-copy deserialization as a program over the single primitive it uses on its reader:
   ReadNoStd::read_exact (through ReaderWithPos, which counts the bytes read).  The program can be
   run on a list (the model of Deser.v) or against an arbitrary reader state machine (IO.v): C14
   at the level of whole values. *)
Require Import EV.Base.Tac EV.Base.Bytes EV.Base.Res EV.Base.ListX.
Require Import EV.Model.Arith64 EV.Model.Types EV.Model.Layout EV.Model.Ser EV.Model.Deser EV.Model.Header EV.Model.IO.

Inductive prog (A : Type) :=
| PRet (a : A)
| PErr (e : err)
| PPanic (w : pwhy)
| PRead (n : N) (k : list byte -> prog A)      (* backend.read_exact(buf) with |buf| = n *)
| PPos (k : N -> prog A).                      (* backend.pos() *)
Arguments PRet {A} a.
Arguments PErr {A} e.
Arguments PPanic {A} w.
Arguments PRead {A} n k.
Arguments PPos {A} k.

Fixpoint pbind {A B} (p : prog A) (f : A -> prog B) : prog B :=
  match p with
  | PRet a => f a
  | PErr e => PErr e
  | PPanic w => PPanic w
  | PRead n k => PRead n (fun b => pbind (k b) f)
  | PPos k => PPos (fun q => pbind (k q) f)
  end.
Notation "'let*' x ':=' r 'in' k" := (pbind r (fun x => k))
  (at level 200, x pattern, r at level 100, k at level 200, right associativity).

(* on a list: the reader monad of Deser.v *)
Fixpoint run_list {A} (p : prog A) : R A :=
  match p with
  | PRet a => rret a
  | PErr e => rerr e
  | PPanic w => rpanic w
  | PRead n k => rbind (read_exact n) (fun b => run_list (k b))
  | PPos k => rbind rpos (fun q => run_list (k q))
  end.

(* against a reader: every read_exact is std's loop over the reader; [fuel] bounds each loop *)
Inductive iores (A : Type) :=
| IOk (a : A) (pos : N)
| IErr (e : err)
| IPanic (w : pwhy)
| INoOutcome.                                  (* the reader interrupted forever *)
Arguments IOk {A} a pos.
Arguments IErr {A} e.
Arguments IPanic {A} w.
Arguments INoOutcome {A}.

Fixpoint run_io {A} (r : reader) (fuel : nat) (p : prog A) (s : rst r) (pos : N) : rst r * iores A :=
  match p with
  | PRet a => (s, IOk a pos)
  | PErr e => (s, IErr e)
  | PPanic w => (s, IPanic w)
  | PRead n k =>
      let '(s', o) := read_exact_io r fuel s n [] in
      match o with
      | ROk b => run_io r fuel (k b) s' (pos + n)
      | RErr => (s', IErr ReadError)
      | RFuel => (s', INoOutcome)
      end
  | PPos k => run_io r fuel (k pos) s pos
  end.

(* ------------------------------------------------------------------ the full-copy deserializer as a program *)

Definition plift {A} (r : res A) : prog A :=
  match r with Ok a => PRet a | Err e => PErr e | Panic w => PPanic w end.

Definition pprim (p : prim) : prog val := PRead (psize p) (fun b => plift (decode_prim p (le_val b))).
Definition pusize : prog N := PRead 8 (fun b => PRet (le_val b)).
Definition pu8 : prog N := PRead 1 (fun b => PRet (le_val b)).

(* ReaderWithPos::align: the padding is read (and discarded) *)
Definition palign (u : N) : prog unit :=
  PPos (fun p => if u =? 0 then PPanic PArith else PRead (pad_align_to p u) (fun _ => PRet tt)).

Fixpoint prepeat (p : prog val) (k : nat) : prog (list val) :=
  match k with
  | O => PRet []
  | S k' => let* x := p in let* xs := prepeat p k' in PRet (x :: xs)
  end.

Definition pfull_zero (t : ty) : prog val :=
  let* _ := palign (unit_of t) in PRead (size_of t) (fun b => PRet (mem_decode t b)).

Definition pfull_vec_zero (t : ty) : prog (list val) :=
  let* len := pusize in
  let* _ := palign (unit_of t) in
  PRead (len * size_of t) (fun b => PRet (decode_n (mem_decode t) (size_of t) (N.to_nat len) b)).

Definition pfull_string : prog val :=
  let* len := pusize in
  let* _ := palign 1 in
  PRead len (fun b => if utf8_valid b then PRet (VBytes b) else PPanic PUnwrap).

Fixpoint prog_full (t : ty) {struct t} : prog val :=
  match t with
  | TPrim p => pprim p
  | TUnit | TPhantom _ | TRangeFull => PRet unit_val
  | TString | TBoxStr => pfull_string
  | TVec t' | TBoxSlice t' =>
      if is_zc t' then let* l := pfull_vec_zero t' in PRet (VSeq l)
      else let* len := pusize in let* l := prepeat (prog_full t') (N.to_nat len) in PRet (VSeq l)
  | TSliceRef _ | TSerIter _ => PPanic PUnwrap
  | TArray n t' =>
      if is_zc t' then
        let* _ := palign (unit_of t') in PRead (size_of t) (fun b => PRet (mem_decode t b))
      else let* l := prepeat (prog_full t') (N.to_nat n) in PRet (VSeq l)
  | TTuple _ _ => pfull_zero t
  | TOption t' =>
      let* tag := pu8 in
      match tag with
      | 0 => PRet (VTag 0 [])
      | 1 => let* x := prog_full t' in PRet (VTag 1 [x])
      | _ => PErr (InvalidTag tag)
      end
  | TBound t' =>
      let* tag := pu8 in
      match tag with
      | 0 => PRet (VTag 0 [])
      | 1 => let* x := prog_full t' in PRet (VTag 1 [x])
      | 2 => let* x := prog_full t' in PRet (VTag 2 [x])
      | _ => PErr (InvalidTag tag)
      end
  | TCF b c =>
      let* tag := pu8 in
      match tag with
      | 0 => let* x := prog_full b in PRet (VTag 0 [x])
      | 1 => let* x := prog_full c in PRet (VTag 1 [x])
      | _ => PErr (InvalidTag tag)
      end
  | TRange k t' =>
      match k with
      | RRange => let* s := prog_full t' in let* e := prog_full t' in PRet (VSeq [s; e])
      | RFrom => let* s := prog_full t' in PRet (VSeq [s])
      | RIncl =>
          let* s := prog_full t' in
          let* e := prog_full t' in
          let* x := pprim PBool in
          if vnum x =? 0 then PRet (VSeq [s; e; x]) else PPanic PExhausted
      | RTo | RToIncl => let* e := prog_full t' in PRet (VSeq [e])
      end
  | TStruct i fs =>
      if a_zc i then pfull_zero t
      else let* l := prog_full_fields fs in PRet (VSeq l)
  | TEnum i vs =>
      if a_zc i then pfull_zero t
      else let* tag := pusize in prog_full_variants vs tag tag
  end
with prog_full_fields (fs : fields) {struct fs} : prog (list val) :=
  match fs with
  | FNil => PRet []
  | FCons _ _ t r =>
      let* x := prog_full t in
      let* xs := prog_full_fields r in
      PRet (x :: xs)
  end
with prog_full_variants (vs : variants) (k tag : N) {struct vs} : prog val :=
  match vs with
  | VNil => PErr (InvalidTag tag)
  | VCons _ _ fs r =>
      if k =? 0 then let* l := prog_full_fields fs in PRet (VTag tag l)
      else prog_full_variants r (k - 1) tag
  end.

(* check_header::<T> *)
Definition pread_val (n : N) : prog N := PRead n (fun b => PRet (le_val b)).
Definition prog_header (h : hdr) : prog unit :=
  let* magic := pread_val 8 in
  let* _ := (if magic =? MAGIC then PRet tt
             else if magic =? MAGIC_REV then PErr EndiannessError
             else PErr (MagicCookieError magic)) in
  let* major := pread_val 2 in
  if negb (major =? VERSION_MAJOR) then PErr (MajorVersionMismatch major) else
  let* minor := pread_val 2 in
  if VERSION_MINOR <? minor then PErr (MinorVersionMismatch minor) else
  let* us := pu8 in
  if negb (us =? 8) then PErr (UsizeSizeMismatch us) else
  let* sth := pread_val 8 in
  let* sah := pread_val 8 in
  let* _ := pfull_string in
  if negb (sth =? h_type_hash h) then PErr (WrongTypeHash sth) else
  if negb (sah =? h_align_hash h) then PErr (WrongAlignHash sah) else
  PRet tt.

(* Deserialize::deserialize_full *)
Definition prog_full_top (h : hdr) (t : ty) : prog val :=
  let* _ := prog_header h in prog_full t.
