(* Well-formed types (what compiles and is inside the modelled grammar) and well-typed values. *)
Require Import EV.Base.Tac EV.Base.Bytes EV.Base.Res EV.Base.ListX.
Require Import EV.Model.Arith64 EV.Model.Types EV.Model.Layout EV.Model.Deser.

Definition is_pow2 (n : N) : bool := (0 <? n) && (n =? 2 ^ N.log2 n) && (N.log2 n <=? 63).

Definition prim_ok (p : prim) (n : N) : bool :=
  (n <? 2 ^ (8 * psize p)) &&
  match p with
  | PBool => n <? 2
  | PChar => valid_char n
  | PNZ _ => negb (n =? 0)
  | _ => true
  end.

Definition bytes_okb (l : list byte) : bool := forallb (fun b => b <? 256) l.

(* [wt t v]: [v] is a value of type [t] *)
Fixpoint wt (t : ty) (v : val) {struct t} : bool :=
  match t with
  | TPrim p => match v with VN n => prim_ok p n | _ => false end
  | TUnit | TPhantom _ | TRangeFull => match v with VSeq [] => true | _ => false end
  | TString | TBoxStr =>
      match v with VBytes l => bytes_okb l && utf8_valid l && (nlen l <? W) | _ => false end
  | TVec t' | TBoxSlice t' | TSliceRef t' =>
      match v with VSeq l => forallb (wt t') l && (nlen l <? W) | _ => false end
  | TSerIter t' =>
      match v with VTag k l => forallb (wt t') l && (nlen l <? W) && (k <? W) | _ => false end
  | TArray n t' | TTuple n t' =>
      match v with VSeq l => (nlen l =? n) && forallb (wt t') l | _ => false end
  | TOption t' =>
      match v with
      | VTag k l => match l with
                    | [] => k =? 0
                    | [x] => (k =? 1) && wt t' x
                    | _ => false
                    end
      | _ => false
      end
  | TBound t' =>
      match v with
      | VTag k l => match l with
                    | [] => k =? 0
                    | [x] => ((k =? 1) || (k =? 2)) && wt t' x
                    | _ => false
                    end
      | _ => false
      end
  | TCF b c =>
      match v with
      | VTag k [x] => if k =? 0 then wt b x else (k =? 1) && wt c x
      | _ => false
      end
  | TRange k t' =>
      match v with
      | VSeq l =>
          match k, l with
          | RRange, [s; e] => wt t' s && wt t' e
          | RIncl, [s; e; VN x] => wt t' s && wt t' e && (x <? 2)
          | RFrom, [s] => wt t' s
          | RTo, [e] | RToIncl, [e] => wt t' e
          | _, _ => false
          end
      | _ => false
      end
  | TStruct i fs => match v with VSeq l => wt_fields fs l | _ => false end
  | TEnum i vs => match v with VTag k l => (k <? W) && wt_variants vs k l | _ => false end
  end
with wt_fields (fs : fields) (l : list val) {struct fs} : bool :=
  match fs with
  | FNil => match l with [] => true | _ => false end
  | FCons _ _ t r => match l with x :: l' => wt t x && wt_fields r l' | [] => false end
  end
with wt_variants (vs : variants) (k : N) (l : list val) {struct vs} : bool :=
  match vs with
  | VNil => false
  | VCons _ _ fs r => if k =? 0 then wt_fields fs l else wt_variants r (k - 1) l
  end.

(* an exhausted RangeInclusive on the deep path: refused by the documented assertion *)
Fixpoint exhausted_in (t : ty) (v : val) {struct t} : bool :=
  match t with
  | TVec t' | TBoxSlice t' | TSliceRef t' | TArray _ t' =>
      if is_zc t' then false else existsb (exhausted_in t') (vseq_items v)
  | TOption t' | TBound t' => existsb (exhausted_in t') (vseq_items v)
  | TCF b c => if vtag v =? 0 then existsb (exhausted_in b) (vseq_items v) else existsb (exhausted_in c) (vseq_items v)
  | TRange RIncl _ => negb (vnum (hd (VN 0) (tl (tl (vseq_items v)))) =? 0)
  | TStruct i fs => if a_zc i then false else exhausted_fields fs (vseq_items v)
  | TEnum i vs => if a_zc i then false else exhausted_variants vs (vtag v) (vseq_items v)
  | _ => false
  end
with exhausted_fields (fs : fields) (l : list val) {struct fs} : bool :=
  match fs with
  | FNil => false
  | FCons _ _ t r => exhausted_in t (hd (VSeq []) l) || exhausted_fields r (tl l)
  end
with exhausted_variants (vs : variants) (k : N) (l : list val) {struct vs} : bool :=
  match vs with
  | VNil => false
  | VCons _ _ fs r => if k =? 0 then exhausted_fields fs l else exhausted_variants r (k - 1) l
  end.

(* alignment-unit sanity of a zero-copy type: every unit met inside it is a power of two
   (false exactly for the D10 class: RangeTo/RangeToInclusive over an index whose size is
   not a power of two) *)
Fixpoint units_pow2 (t : ty) : bool :=
  match t with
  | TPhantom _ => true
  | TVec t' | TBoxSlice t' | TSliceRef t' | TSerIter t' | TOption t' | TBound t' =>
      units_pow2 t' && is_pow2 (unit_of t')
  | TArray _ t' | TTuple _ t' => units_pow2 t' && is_pow2 (unit_of t')
  | TCF b c => units_pow2 b && units_pow2 c
  | TRange _ t' => units_pow2 t' && is_pow2 (unit_of t)
  | TStruct i fs => is_pow2 (unit_of t) && units_pow2_fields fs
  | TEnum i vs => is_pow2 (unit_of t) && units_pow2_variants vs
  | _ => true
  end
with units_pow2_fields (fs : fields) : bool :=
  match fs with
  | FNil => true
  | FCons _ _ t r => units_pow2 t && units_pow2_fields r
  end
with units_pow2_variants (vs : variants) : bool :=
  match vs with
  | VNil => true
  | VCons _ _ fs r => units_pow2_fields fs && units_pow2_variants r
  end.

(* [wf t]: the type is in the supported grammar (its impls exist and compile) *)
Fixpoint wf (t : ty) : bool :=
  match t with
  | TPrim _ | TUnit | TPhantom _ | TRangeFull | TString | TBoxStr => true
  | TVec t' | TBoxSlice t' | TSliceRef t' => wf t' && (if is_zc t' then zc_ok t' else true)
  | TSerIter t' => wf t' && zc_ok t'
  | TArray n t' => wf t' && (if is_zc t' then zc_ok t' else true) && (n <? W)
  | TTuple n t' => wf t' && zc_ok t' && (1 <=? n) && (n <=? 12)
  | TOption t' | TBound t' => wf t'
  | TCF b c => wf b && wf c
  | TRange _ t' => wf t' && zc_ok t'
  | TStruct i fs =>
      wf_fields fs &&
      (if a_zc i then has_repr_c i && negb (a_deep i) && zc_ok_fields fs &&
                      ((a_align i =? 0) || is_pow2 (a_align i))
       else true)
  | TEnum i vs =>
      wf_variants vs && (0 <? variants_len vs) && (variants_len vs <? W) &&
      (if a_zc i then has_repr_c i && negb (a_deep i) && zc_ok_variants vs &&
                      (variants_len vs <? 2 ^ 32) &&
                      ((a_align i =? 0) || is_pow2 (a_align i))
       else true)
  end
with wf_fields (fs : fields) : bool :=
  match fs with
  | FNil => true
  | FCons _ _ t r => wf t && wf_fields r
  end
with wf_variants (vs : variants) : bool :=
  match vs with
  | VNil => true
  | VCons _ _ fs r => wf_fields fs && wf_variants r
  end.

(* types that can be deserialized as themselves (no &[T] / SerIter inside) *)
Fixpoint deserializable (t : ty) : bool :=
  match t with
  | TSliceRef _ | TSerIter _ => false
  | TVec t' | TBoxSlice t' | TArray _ t' | TTuple _ t' | TOption t' | TBound t' | TRange _ t' => deserializable t'
  | TCF b c => deserializable b && deserializable c
  | TStruct _ fs => deserializable_fields fs
  | TEnum _ vs => deserializable_variants vs
  | _ => true
  end
with deserializable_fields (fs : fields) : bool :=
  match fs with
  | FNil => true
  | FCons _ _ t r => deserializable t && deserializable_fields r
  end
with deserializable_variants (vs : variants) : bool :=
  match vs with
  | VNil => true
  | VCons _ _ fs r => deserializable_fields fs && deserializable_variants r
  end.
