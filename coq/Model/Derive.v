(* What the derive macro decides about a type definition (attribute coherence, the per-field
   ZeroCopy bound), the ε-copy type (DeserType) of every type of the grammar, and what it means
   for an ε-copy result to inhabit that type with all its borrowed parts in place. *)
Require Import EV.Base.Tac EV.Base.Bytes EV.Base.Res EV.Base.ListX.
Require Import EV.Model.Arith64 EV.Model.Types EV.Model.Layout EV.Model.Ser EV.Model.Deser EV.Model.Typing.

(* ------------------------------------------------------------------ the ε-copy type *)

(* DeserType<'a> of a type.  [DOwn t]: the type itself, owning all its data (no borrowed part);
   [DRef t] = &'a t, [DSliceOf t] = &'a [t], [DStr] = &'a str; the other constructors are the
   std / derived type constructors applied to ε-copy types. *)
Inductive dty :=
| DOwn (t : ty)
| DRef (t : ty)
| DSliceOf (t : ty)
| DStr
| DVec (d : dty)
| DBox (d : dty)
| DArr (n : N) (d : dty)
| DOpt (d : dty)
| DBnd (d : dty)
| DCtl (b c : dty)
| DRng (k : rkind) (d : dty)
| DStruct (i : adt_info) (fs : dfields)
| DEnum (i : adt_info) (vs : dvariants)
with dfields :=
| DFNil
| DFCons (d : dty) (rest : dfields)
with dvariants :=
| DVNil
| DVCons (fs : dfields) (rest : dvariants).

(* impls/*.rs (type DeserType<'a> = ...) and the derive: a zero-copy type becomes a reference
   to itself; in a deep-copy derived type a field whose declared type is exactly a type parameter
   gets that parameter's ε-copy type, every other field keeps its own type. *)
Fixpoint dty_of (t : ty) : dty :=
  match t with
  | TPrim _ | TUnit | TPhantom _ | TRangeFull => DOwn t
  | TString | TBoxStr => DStr
  | TVec t' => if is_zc t' then DSliceOf t' else DVec (dty_of t')
  | TBoxSlice t' => if is_zc t' then DSliceOf t' else DBox (dty_of t')
  | TSliceRef _ | TSerIter _ => DOwn t          (* serialize-only: no DeserType *)
  | TArray n t' => if is_zc t' then DRef t else DArr n (dty_of t')
  | TTuple _ _ => DRef t
  | TOption t' => DOpt (dty_of t')
  | TBound t' => DBnd (dty_of t')
  | TCF b c => DCtl (dty_of b) (dty_of c)
  | TRange k t' => DRng k (dty_of t')
  | TStruct i fs => if a_zc i then DRef t else DStruct i (dty_fields fs)
  | TEnum i vs => if a_zc i then DRef t else DEnum i (dty_variants vs)
  end
with dty_fields (fs : fields) : dfields :=
  match fs with
  | FNil => DFNil
  | FCons _ isp t r => DFCons (if isp then dty_of t else DOwn t) (dty_fields r)
  end
with dty_variants (vs : variants) : dvariants :=
  match vs with
  | VNil => DVNil
  | VCons _ _ fs r => DVCons (dty_fields fs) (dty_variants r)
  end.

(* ------------------------------------------------------------------ inhabitants *)

Fixpoint noref (v : val) : bool :=
  match v with
  | VRef _ _ _ _ _ => false
  | VSeq l | VTag _ l => forallb noref l
  | _ => true
  end.

Definition All {A} (P : A -> Prop) (l : list A) : Prop := fold_right (fun x acc => P x /\ acc) True l.

Definition slice (buf : list byte) (off n : N) : list byte := ntake n (ndrop off buf).

(* a borrowed part of kind [k] over elements of type [t]: it lies inside the buffer, has the
   length of its items, is aligned for the element type when the buffer starts at address
   [base], and its content is what the buffer holds there *)
Definition ref_at (base : N) (buf : list byte) (k : refkind) (t : ty) (e : val) : Prop :=
  match e with
  | VRef k' off nb cnt x =>
      k' = k /\ off + nb <= nlen buf /\ nb = cnt * size_of t /\
      (nb = 0 \/ (base + off) mod align_of t = 0) /\
      match k with
      | ROne => cnt = 1 /\ x = mem_decode t (slice buf off nb)
      | RSlice => x = VSeq (decode_n (mem_decode t) (size_of t) (N.to_nat cnt) (slice buf off nb))
      | RStr => x = VBytes (slice buf off nb)
      end
  | _ => False
  end.

Fixpoint eps_ok (base : N) (buf : list byte) (d : dty) (e : val) {struct d} : Prop :=
  match d with
  | DOwn _ => noref e = true
  | DRef t => ref_at base buf ROne t e
  | DSliceOf t => ref_at base buf RSlice t e
  | DStr => ref_at base buf RStr TU8 e
  | DVec d' | DBox d' => match e with VSeq l => All (eps_ok base buf d') l | _ => False end
  | DArr n d' => match e with VSeq l => nlen l = n /\ All (eps_ok base buf d') l | _ => False end
  | DOpt d' =>
      match e with
      | VTag 0 [] => True
      | VTag 1 [x] => eps_ok base buf d' x
      | _ => False
      end
  | DBnd d' =>
      match e with
      | VTag 0 [] => True
      | VTag 1 [x] | VTag 2 [x] => eps_ok base buf d' x
      | _ => False
      end
  | DCtl b c =>
      match e with
      | VTag 0 [x] => eps_ok base buf b x
      | VTag 1 [x] => eps_ok base buf c x
      | _ => False
      end
  | DRng k d' =>
      match k, e with
      | RRange, VSeq [s; x] => eps_ok base buf d' s /\ eps_ok base buf d' x
      | RIncl, VSeq [s; x; b] => eps_ok base buf d' s /\ eps_ok base buf d' x /\ noref b = true
      | RFrom, VSeq [s] | RTo, VSeq [s] | RToIncl, VSeq [s] => eps_ok base buf d' s
      | _, _ => False
      end
  | DStruct _ fs => match e with VSeq l => eps_ok_fields base buf fs l | _ => False end
  | DEnum _ vs => match e with VTag k l => eps_ok_variants base buf vs k l | _ => False end
  end
with eps_ok_fields (base : N) (buf : list byte) (fs : dfields) (l : list val) {struct fs} : Prop :=
  match fs, l with
  | DFNil, [] => True
  | DFCons d r, x :: l' => eps_ok base buf d x /\ eps_ok_fields base buf r l'
  | _, _ => False
  end
with eps_ok_variants (base : N) (buf : list byte) (vs : dvariants) (k : N) (l : list val) {struct vs} : Prop :=
  match vs with
  | DVNil => False
  | DVCons fs r => if k =? 0 then eps_ok_fields base buf fs l else eps_ok_variants base buf r (k - 1) l
  end.

(* ------------------------------------------------------------------ where the references point *)

(* the zero-copy blocks written by the serializer with their absolute stream offsets *)
Fixpoint blocks_at (pos : N) (evs : list event) : list (N * N) :=
  match evs with
  | [] => []
  | e :: r =>
      match e with EBlock _ b => [(pos, nlen b)] | _ => [] end ++ blocks_at (pos + ev_len e) r
  end.

(* (offset, byte length) of every borrowed part of an ε-copy result, in traversal order *)
Fixpoint refs (v : val) : list (N * N) :=
  match v with
  | VRef _ off nb _ _ => [(off, nb)]
  | VSeq l | VTag _ l => flat_map refs l
  | _ => []
  end.

(* ------------------------------------------------------------------ allocation requests *)

(* element counts of the heap allocations made by full-copy deserialization of [v] ... *)
Fixpoint alloc_full (t : ty) (v : val) {struct t} : list N :=
  match t with
  | TString | TBoxStr => match v with VBytes l => [nlen l] | _ => [] end
  | TVec t' | TBoxSlice t' =>
      nlen (vseq_items v) :: (if is_zc t' then [] else flat_map (alloc_full t') (vseq_items v))
  | TArray _ t' => if is_zc t' then [] else flat_map (alloc_full t') (vseq_items v)
  | TOption t' | TBound t' | TRange _ t' => flat_map (alloc_full t') (vseq_items v)
  | TCF b c => if vtag v =? 0 then flat_map (alloc_full b) (vseq_items v) else flat_map (alloc_full c) (vseq_items v)
  | TStruct i fs => if a_zc i then [] else alloc_full_fields fs (vseq_items v)
  | TEnum i vs => if a_zc i then [] else alloc_full_variants vs (vtag v) (vseq_items v)
  | _ => []
  end
with alloc_full_fields (fs : fields) (l : list val) {struct fs} : list N :=
  match fs with
  | FNil => []
  | FCons _ _ t r => alloc_full t (hd (VSeq []) l) ++ alloc_full_fields r (tl l)
  end
with alloc_full_variants (vs : variants) (k : N) (l : list val) {struct vs} : list N :=
  match vs with
  | VNil => []
  | VCons _ _ fs r => if k =? 0 then alloc_full_fields fs l else alloc_full_variants r (k - 1) l
  end.

(* ... and by ε-copy deserialization returning [e]: the deep-copy skeleton (one request per
   sequence of deep-copy items) and the fields that are fully copied by design; a borrowed part
   requests nothing *)
Fixpoint alloc_eps (t : ty) (e : val) {struct t} : list N :=
  match t with
  | TVec t' | TBoxSlice t' =>
      if is_zc t' then [] else nlen (vseq_items e) :: flat_map (alloc_eps t') (vseq_items e)
  | TArray _ t' => if is_zc t' then [] else flat_map (alloc_eps t') (vseq_items e)
  | TOption t' | TBound t' | TRange _ t' => flat_map (alloc_eps t') (vseq_items e)
  | TCF b c => if vtag e =? 0 then flat_map (alloc_eps b) (vseq_items e) else flat_map (alloc_eps c) (vseq_items e)
  | TStruct i fs => if a_zc i then [] else alloc_eps_fields fs (vseq_items e)
  | TEnum i vs => if a_zc i then [] else alloc_eps_variants vs (vtag e) (vseq_items e)
  | _ => []
  end
with alloc_eps_fields (fs : fields) (l : list val) {struct fs} : list N :=
  match fs with
  | FNil => []
  | FCons _ isp t r =>
      (if isp then alloc_eps t (hd (VSeq []) l) else alloc_full t (hd (VSeq []) l)) ++ alloc_eps_fields r (tl l)
  end
with alloc_eps_variants (vs : variants) (k : N) (l : list val) {struct vs} : list N :=
  match vs with
  | VNil => []
  | VCons _ _ fs r => if k =? 0 then alloc_eps_fields fs l else alloc_eps_variants r (k - 1) l
  end.

(* the skeleton of an ε-copy result: every borrowed part forgotten (position, length, content) *)
Fixpoint skel (v : val) : val :=
  match v with
  | VRef k _ _ _ _ => VRef k 0 0 0 (VSeq [])
  | VSeq l => VSeq (List.map skel l)
  | VTag k l => VTag k (List.map skel l)
  | _ => v
  end.

(* ------------------------------------------------------------------ derive-time decisions *)

Inductive derive_outcome :=
| DAccept
| DPanicNotReprC       (* "Type .. is declared as zero copy, but it is not repr(C)" *)
| DPanicBoth           (* "Type .. is declared as both zero copy and deep copy" *)
| DBoundError.         (* test::<FieldType>() with FieldType: ZeroCopy unsatisfied (E0277) *)

(* check_attrs followed by the type-checking of the generated zero-copy impl; [ftys] are the
   types of all fields (of all variants) *)
Definition derive_check (i : adt_info) (ftys : list ty) : derive_outcome :=
  if a_zc i && negb (has_repr_c i) then DPanicNotReprC
  else if a_zc i && a_deep i then DPanicBoth
  else if a_zc i && negb (forallb zc_ok ftys) then DBoundError
  else DAccept.

Fixpoint field_tys (fs : fields) : list ty :=
  match fs with FNil => [] | FCons _ _ t r => t :: field_tys r end.
Fixpoint variant_tys (vs : variants) : list ty :=
  match vs with VNil => [] | VCons _ _ fs r => field_tys fs ++ variant_tys r end.

(* types whose in-memory representation holds no heap handle, pointer or length *)
Fixpoint heap_free (t : ty) : bool :=
  match t with
  | TPrim _ | TUnit | TPhantom _ | TRangeFull => true
  | TArray _ t' | TTuple _ t' | TRange _ t' => heap_free t'
  | TStruct _ fs => heap_free_fields fs
  | TEnum _ vs => heap_free_variants vs
  | _ => false
  end
with heap_free_fields (fs : fields) : bool :=
  match fs with FNil => true | FCons _ _ t r => heap_free t && heap_free_fields r end
with heap_free_variants (vs : variants) : bool :=
  match vs with VNil => true | VCons _ _ fs r => heap_free_fields fs && heap_free_variants r end.

(* the trait bounds of the std impls (checked by rustc, whatever the derive does): the
   components of tuples, the index type of ranges and the items of SerIter are ZeroCopy *)
Fixpoint std_bounds (t : ty) : bool :=
  match t with
  | TPhantom _ => true
  | TVec t' | TBoxSlice t' | TSliceRef t' | TArray _ t' | TOption t' | TBound t' => std_bounds t'
  | TSerIter t' | TTuple _ t' | TRange _ t' => zc_ok t' && std_bounds t'
  | TCF b c => std_bounds b && std_bounds c
  | TStruct _ fs => std_bounds_fields fs
  | TEnum _ vs => std_bounds_variants vs
  | _ => true
  end
with std_bounds_fields (fs : fields) : bool :=
  match fs with FNil => true | FCons _ _ t r => std_bounds t && std_bounds_fields r end
with std_bounds_variants (vs : variants) : bool :=
  match vs with VNil => true | VCons _ _ fs r => std_bounds_fields fs && std_bounds_variants r end.

(* every raw-memory event of a run is for a type whose IS_ZERO_COPY constant is true *)
Definition raw_event_ok (e : event) : Prop :=
  match e with
  | EBlock t _ | EItem t _ => is_zc_const t = true
  | _ => True
  end.
