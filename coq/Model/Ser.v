(* Serialization: ser/mod.rs, ser/helpers.rs, ser/write_with_names.rs (default methods) and
   the _serialize_inner of impls/*.rs and of the derive, as a function producing the list
   of writer events (one event per WriteWithNames call). *)
Require Import EV.Base.Tac EV.Base.Bytes EV.Base.Res EV.Base.ListX.
Require Import EV.Model.Arith64 EV.Model.Types EV.Model.Layout.
From Coq Require Import String.

Inductive event :=
| EWrite (b : list byte)                 (* write_all(b) *)
| EPad (u n : N)                         (* align to unit u: n calls of write_all(&[0]) *)
| EBlock (t : ty) (b : list byte)        (* write_bytes::<t>(b): a single write_all *)
| EItem (t : ty) (b : list byte)         (* one item of a SerIter: write_bytes::<t>(b) *)
| EEnter (nm : name) (t : ty)            (* entry of backend.write(nm, &v) with v : t *)
| ELeave
| EAliasBegin                            (* a fake Vec aliasing a borrowed slice is created (never dropped) *)
| EAliasEnd
| EFlush.

Inductive serr := IteratorLengthMismatch (actual expected : N).
Inductive sout := SDone | SPanic (w : pwhy) | SErr (e : serr).
Definition sres := (list event * sout)%type.

Definition ev_len (e : event) : N :=
  match e with
  | EWrite b | EBlock _ b | EItem _ b => nlen b
  | EPad _ n => n
  | _ => 0
  end.
Fixpoint evs_len (es : list event) : N :=
  match es with [] => 0 | e :: r => ev_len e + evs_len r end.

Definition ev_bytes (e : event) : list byte :=
  match e with
  | EWrite b | EBlock _ b | EItem _ b => b
  | EPad _ n => zeros n
  | _ => []
  end.
Fixpoint bytes_of (es : list event) : list byte :=
  match es with [] => [] | e :: r => ev_bytes e ++ bytes_of r end.

(* a writer: from the current stream position to the events it emits *)
Definition Wr := N -> sres.

Definition wdone : Wr := fun _ => ([], SDone).
Definition wev (e : event) : Wr := fun _ => ([e], SDone).
Definition wpanic (w : pwhy) : Wr := fun _ => ([], SPanic w).
Definition wseq (a b : Wr) : Wr := fun pos =>
  let '(ea, oa) := a pos in
  match oa with
  | SDone => let '(eb, ob) := b (pos + evs_len ea) in (ea ++ eb, ob)
  | _ => (ea, oa)
  end.
Notation "a ;; b" := (wseq a b) (at level 61, left associativity).

(* WriteWithNames::align::<V>() with V::max_size_of() = u *)
Definition walign (u : N) : Wr := fun pos =>
  if u =? 0 then ([], SPanic PArith) else
  let p := pad_align_to pos u in
  if p =? 0 then ([], SDone) else ([EPad u p], SDone).

(* backend.write(nm, &v) *)
Definition wfield (nm : name) (t : ty) (w : Wr) : Wr := wev (EEnter nm t) ;; w ;; wev ELeave.

Definition N_len : name := bs "len".
Definition N_item : name := bs "item".
Definition N_Tag : name := bs "Tag".
Definition N_tag : name := bs "tag".
Definition N_Some : name := bs "Some".
Definition N_Included : name := bs "Included".
Definition N_Excluded : name := bs "Excluded".
Definition N_Break : name := bs "Break".
Definition N_Continue : name := bs "Continue".
Definition N_start : name := bs "start".
Definition N_end : name := bs "end".
Definition N_exhausted : name := bs "exhausted".
Definition N_ROOT : name := bs "ROOT".
Definition N_v : name := bs "v".

Definition TUSIZE := TPrim (PInt USize).
Definition TU8 := TPrim (PInt U8).
Definition TBOOL := TPrim PBool.

Definition wusize (nm : name) (n : N) : Wr := wfield nm TUSIZE (wev (EWrite (le_bytes 8 n))).
Definition wu8 (nm : name) (n : N) : Wr := wfield nm TU8 (wev (EWrite (le_bytes 1 n))).

(* the items of a deep sequence, each through backend.write("item", item) *)
Fixpoint wlist (f : val -> Wr) (nm : name) (t : ty) (l : list val) : Wr :=
  match l with
  | [] => wdone
  | x :: l' => wfield nm t (f x) ;; wlist f nm t l'
  end.

(* SerIter, zero-copy items: each item through serialize_zero_unchecked (one write_bytes each) *)
Fixpoint witems (pf : padfill) (t : ty) (l : list val) : Wr :=
  match l with
  | [] => wdone
  | x :: l' => (fun pos => ([EItem t (mem_repr pf pos t x)], SDone)) ;; witems pf t l'
  end.

(* serialize_zero: check_zero_copy, align, write_bytes *)
Definition wzero (pf : padfill) (t : ty) (v : val) : Wr :=
  if is_zc_const t then
    walign (unit_of t) ;; (fun pos => ([EBlock t (mem_repr pf pos t v)], SDone))
  else wpanic PNotZeroCopy.

(* serialize_slice_zero: check_zero_copy, len, align, write_bytes of the whole slice *)
Definition wslice_zero (pf : padfill) (t : ty) (l : list val) : Wr :=
  if is_zc_const t then
    wusize N_len (nlen l) ;; walign (unit_of t) ;;
    (fun pos => ([EBlock t (mem_repr_list (fun p x => mem_repr pf p t x) (size_of t) pos l)], SDone))
  else wpanic PNotZeroCopy.

Definition wbytes_zero (l : list byte) : Wr :=
  wusize N_len (nlen l) ;; walign 1 ;; wev (EBlock TU8 l).

Definition field_ser_name (named : bool) (nm : name) : name := if named then nm else N_v ++ nm.

Fixpoint ser (pf : padfill) (t : ty) (v : val) {struct t} : Wr :=
  match t with
  | TPrim p => wev (EWrite (le_bytes (N.to_nat (psize p)) (vnum v)))
  | TUnit | TPhantom _ | TRangeFull => wdone
  | TString | TBoxStr => match v with VBytes l => wbytes_zero l | _ => wpanic PUnwrap end
  | TVec t' | TBoxSlice t' =>
      if is_zc t' then wslice_zero pf t' (vseq_items v)
      else wusize N_len (nlen (vseq_items v)) ;; wlist (ser pf t') N_item t' (vseq_items v)
  | TSliceRef t' =>
      wev EAliasBegin ;;
      (if is_zc t' then wslice_zero pf t' (vseq_items v)
       else wusize N_len (nlen (vseq_items v)) ;; wlist (ser pf t') N_item t' (vseq_items v)) ;;
      wev EAliasEnd
  | TSerIter t' =>
      (* zero-copy items only: SerIter::new requires T: ZeroCopy *)
      if is_zc_const t' then
        wusize N_len (vtag v) ;; walign (unit_of t') ;; witems pf t' (vseq_items v) ;;
        (fun _ => if nlen (vseq_items v) =? vtag v then ([], SDone)
                  else ([], SErr (IteratorLengthMismatch (nlen (vseq_items v)) (vtag v))))
      else wpanic PNotZeroCopy
  | TArray _ t' =>
      if is_zc t' then wzero pf t v else wlist (ser pf t') N_item t' (vseq_items v)
  | TTuple _ _ => wzero pf t v
  | TOption t' =>
      match vtag v with
      | 0 => wu8 N_Tag 0
      | _ => wu8 N_Tag 1 ;; wfield N_Some t' (ser pf t' (hd (VSeq []) (vseq_items v)))
      end
  | TBound t' =>
      match vtag v with
      | 0 => wu8 N_Tag 0
      | 1 => wu8 N_Tag 1 ;; wfield N_Included t' (ser pf t' (hd (VSeq []) (vseq_items v)))
      | _ => wu8 N_Tag 2 ;; wfield N_Excluded t' (ser pf t' (hd (VSeq []) (vseq_items v)))
      end
  | TCF b c =>
      match vtag v with
      | 0 => wu8 N_Tag 0 ;; wfield N_Break b (ser pf b (hd (VSeq []) (vseq_items v)))
      | _ => wu8 N_Tag 1 ;; wfield N_Continue c (ser pf c (hd (VSeq []) (vseq_items v)))
      end
  | TRange k t' =>
      let x0 := hd (VSeq []) (vseq_items v) in
      let x1 := hd (VSeq []) (tl (vseq_items v)) in
      let x2 := hd (VSeq []) (tl (tl (vseq_items v))) in
      match k with
      | RRange => wfield N_start t' (ser pf t' x0) ;; wfield N_end t' (ser pf t' x1)
      | RFrom => wfield N_start t' (ser pf t' x0)
      | RIncl => wfield N_start t' (ser pf t' x0) ;; wfield N_end t' (ser pf t' x1) ;;
                 wfield N_exhausted TBOOL (wev (EWrite (le_bytes 1 (vnum x2))))
      | RTo | RToIncl => wfield N_end t' (ser pf t' x0)
      end
  | TStruct i fs =>
      if a_zc i then wzero pf t v else ser_fields pf true fs (vseq_items v)
  | TEnum i vs =>
      if a_zc i then wzero pf t v
      else wusize N_tag (vtag v) ;; ser_variants pf vs (vtag v) (vseq_items v)
  end
with ser_fields (pf : padfill) (named : bool) (fs : fields) (vals : list val) {struct fs} : Wr :=
  match fs with
  | FNil => wdone
  | FCons nm _ t r =>
      wfield (field_ser_name named nm) t (ser pf t (hd (VSeq []) vals)) ;; ser_fields pf named r (tl vals)
  end
with ser_variants (pf : padfill) (vs : variants) (k : N) (vals : list val) {struct vs} : Wr :=
  match vs with
  | VNil => wdone     (* unreachable for a value of the type *)
  | VCons _ named fs r =>
      if k =? 0 then ser_fields pf named fs vals else ser_variants pf r (k - 1) vals
  end.
