(* Serialize::store and Deserialize::{load_full, load_mem, load_mmap, mmap} (deser/mod.rs,
   deser/mem_case.rs): the backing region each loader builds, what it deserializes from, the
   resources it holds (a ledger of live resources), and the flag translation. *)
Require Import EV.Base.Tac EV.Base.Bytes EV.Base.Res EV.Base.ListX.
Require Import EV.Model.Arith64 EV.Model.Types EV.Model.Layout EV.Model.Ser EV.Model.Deser EV.Model.Header.

(* store: serialize to a BufWriter<File>: the file is the stream *)
Definition store_file (run : sres) : list byte := bytes_of (fst run).

Inductive loader := LFull | LMem | LMmap | LMap.   (* load_full, load_mem, load_mmap, mmap *)

(* the rounded-up capacity of the two copying loaders *)
Definition capacity (l : loader) (n : N) : N :=
  match l with
  | LMem => n + pad_align_to n 64
  | LMmap => n + pad_align_to n 16
  | _ => n
  end.

(* the backing region: the file, zero-filled up to the capacity *)
Definition region (l : loader) (file : list byte) : list byte :=
  file ++ zeros (capacity l (nlen file) - nlen file).

(* alignment guaranteed for the region's base address *)
Definition base_align (l : loader) : N :=
  match l with LMem => 64 | LMmap | LMap => 4096 | LFull => 1 end.

(* the loaders that keep a region deserialize eps-copy from it *)
(* load_mem refuses up front a type whose native alignment exceeds the 64 bytes it can guarantee
   (align_of::<Self>() > align_of::<MemoryAlignment>()) *)
(* align_of::<T>() of rustc for any type of the grammar (Layout.align_of is about zero-copy types
   only): heap-owning types are pointer-aligned, sums and ranges take the alignment of their
   payload, derived types the largest alignment among repr(align) and their fields *)
Fixpoint rust_align (t : ty) : N :=
  match t with
  | TPrim p => psize p
  | TUnit | TPhantom _ | TRangeFull => 1
  | TString | TBoxStr | TVec _ | TBoxSlice _ | TSliceRef _ | TSerIter _ => 8
  | TArray _ t' | TTuple _ t' | TOption t' | TBound t' | TRange _ t' => rust_align t'
  | TCF b c => N.max (rust_align b) (rust_align c)
  | TStruct i fs => N.max (N.max 1 (a_align i)) (rust_align_fields fs)
  | TEnum i vs => N.max (N.max 1 (a_align i)) (rust_align_variants vs)
  end
with rust_align_fields (fs : fields) : N :=
  match fs with FNil => 1 | FCons _ _ t r => N.max (rust_align t) (rust_align_fields r) end
with rust_align_variants (vs : variants) : N :=
  match vs with VNil => 1 | VCons _ _ fs r => N.max (rust_align_fields fs) (rust_align_variants r) end.

Definition mem_precheck (t : ty) : bool := 64 <? rust_align t.

Definition load (l : loader) (base : N) (h : hdr) (t : ty) (file : list byte) : res (val * list byte * N) :=
  match l with
  | LFull => deser_full_top h t file
  | LMem => if mem_precheck t then Err AlignmentError else deser_eps_top base h t (region l file)
  | _ => deser_eps_top base h t (region l file)
  end.

(* ------------------------------------------------------------------ flags *)

(* Flags bits: 0 TRANSPARENT_HUGE_PAGES, 1 SEQUENTIAL, 2 RANDOM_ACCESS; mmap-rs 0.6.1 bits:
   7 TRANSPARENT_HUGE_PAGES, 8 SEQUENTIAL, 9 RANDOM_ACCESS *)
Definition mmap_flag_bits (f : N) : N :=
  (if N.testbit f 0 then 2 ^ 7 else 0) + (if N.testbit f 1 then 2 ^ 8 else 0) + (if N.testbit f 2 then 2 ^ 9 else 0).

(* ------------------------------------------------------------------ resources *)

Inductive resource := RHeap (size : N) | RMapping (size : N) | RFile.

(* where a load can stop, and how: by an error returned with `?`, or by a panic.  Locals are dropped
   either way; a drop guard acts either way; a handler attached to the Result (map_err) only sees
   the error *)
Inductive stop := SMetadata | SOpen | SAcquire | SReadFile | SFreeze | SDeser | SNone.
Inductive how := ByErr | ByPanic.

Definition stop_eqb (a b : stop) : bool :=
  match a, b with
  | SMetadata, SMetadata | SOpen, SOpen | SAcquire, SAcquire | SReadFile, SReadFile
  | SFreeze, SFreeze | SDeser, SDeser | SNone, SNone => true
  | _, _ => false
  end.

(* The body of a loader as the sequence of its steps that matter for ownership.  A resource is
   owned either by a local variable (released when the function returns or unwinds) or, once
   written through the raw pointer into the MaybeUninit<MemCase>, by nobody in particular: the
   compiler does not drop the contents of a MaybeUninit, so it is released on an early exit only if
   a BackendGuard is armed at that point; on success it is owned by the returned case. *)
Inductive lstep :=
| LTry (why : stop)                       (* a fallible operation: `...?`, or one that may panic *)
| LAcquire (r : resource) (why : stop)    (* let x = acquire()?; on success a local owns r *)
| LPublish (r : resource)                 (* the write of the backend through the raw pointer: r leaves its local *)
| LArm                                    (* let guard = BackendGuard(..) *)
| LDisarm                                 (* core::mem::forget(guard) *)
| LOnErr.                                 (* the rest runs as `(..).map_err(|e| { release the backend; e })`: not in the code as it is *)

Record lstate := { l_locals : list resource; l_published : list resource; l_armed : bool; l_onerr : bool }.

Definition remove_first (r : resource) (l : list resource) : list resource :=
  (fix go (l : list resource) : list resource :=
     match l with
     | [] => []
     | x :: l' =>
         match r, x with
         | RFile, RFile => l'
         | RHeap a, RHeap b | RMapping a, RMapping b => if a =? b then l' else x :: go l'
         | _, _ => x :: go l'
         end
     end) l.

(* [lrun steps s st]: run the steps; the first fallible step tagged [s] fails.  Returns what is
   left behind that nobody owns (leaked), and, on success, the resources owned by the returned
   case. *)
Fixpoint lrun (steps : list lstep) (s : stop) (h : how) (st : lstate) : list resource * option (list resource) :=
  match steps with
  | [] => ([], Some (l_published st))                  (* Ok(uninit.assume_init()): locals are dropped *)
  | x :: rest =>
      (* the locals are dropped; the published backend by an armed guard, or by an error handler when the stop is an error *)
      let handled := l_armed st || (l_onerr st && match h with ByErr => true | ByPanic => false end) in
      let fail := ((if handled then [] else l_published st), None) in
      match x with
      | LTry why => if stop_eqb why s then fail else lrun rest s h st
      | LAcquire r why =>
          if stop_eqb why s then fail
          else lrun rest s h {| l_locals := r :: l_locals st; l_published := l_published st; l_armed := l_armed st; l_onerr := l_onerr st |}
      | LPublish r =>
          lrun rest s h {| l_locals := remove_first r (l_locals st); l_published := r :: l_published st; l_armed := l_armed st; l_onerr := l_onerr st |}
      | LArm => lrun rest s h {| l_locals := l_locals st; l_published := l_published st; l_armed := true; l_onerr := l_onerr st |}
      | LDisarm => lrun rest s h {| l_locals := l_locals st; l_published := l_published st; l_armed := false; l_onerr := l_onerr st |}
      | LOnErr => lrun rest s h {| l_locals := l_locals st; l_published := l_published st; l_armed := l_armed st; l_onerr := true |}
      end
  end.

(* the four loaders as coded (deser/mod.rs after the fixes 05218c1, f833d76, d735b01) *)
Definition loader_steps (l : loader) (n : N) : list lstep :=
  match l with
  | LFull => [LAcquire RFile SOpen; LTry SDeser]
  | LMem =>
      [LTry SMetadata; LAcquire RFile SOpen; LAcquire (RHeap (capacity l n)) SAcquire; LTry SReadFile;
       LPublish (RHeap (capacity l n)); LArm; LTry SDeser; LDisarm]
  | LMmap =>
      [LTry SMetadata; LAcquire RFile SOpen; LAcquire (RMapping (capacity l n)) SAcquire; LTry SReadFile;
       LTry SFreeze;                      (* make_read_only: on failure the mapping comes back and is dropped *)
       LPublish (RMapping (capacity l n)); LArm; LTry SDeser; LDisarm]
  | LMap =>
      [LTry SMetadata; LAcquire RFile SOpen; LAcquire (RMapping (capacity l n)) SAcquire;
       LPublish (RMapping (capacity l n)); LArm; LTry SDeser; LDisarm]
  end.

(* the same without the guard: the code of the pinned tree (defect D6) *)
Definition loader_steps_pinned (l : loader) (n : N) : list lstep :=
  List.filter (fun x => match x with LArm | LDisarm => false | _ => true end) (loader_steps l n).

Definition lstate0 : lstate := {| l_locals := []; l_published := []; l_armed := false; l_onerr := false |}.

(* a plausible rewrite of the guard (seeded change C09-d): the fallible tail wrapped in map_err *)
Definition loader_steps_map_err (l : loader) (n : N) : list lstep :=
  List.map (fun x => match x with LArm => LOnErr | y => y end)
           (List.filter (fun x => match x with LDisarm => false | _ => true end) (loader_steps l n)).

(* effect of a load on the list of live resources: (live resources after the call, whether a
   MemCase owning its backend is returned) *)
Definition ledger_of (steps : list lstep) (s : stop) (h : how) (live : list resource) : list resource * bool :=
  match lrun steps s h lstate0 with
  | (leaked, Some owned) => (owned ++ leaked ++ live, true)
  | (leaked, None) => (leaked ++ live, false)
  end.

Definition load_ledger (l : loader) (n : N) (s : stop) (h : how) (live : list resource) : list resource * bool :=
  match l, s with
  | LFull, SNone => (live, true)          (* load_full returns an owned value: no backend *)
  | _, _ => ledger_of (loader_steps l n) s h live
  end.

(* the points where a loader can stop *)
Definition can_stop (l : loader) (s : stop) : bool :=
  existsb (fun x => match x with LTry w | LAcquire _ w => stop_eqb w s | _ => false end) (loader_steps l 0).

(* dropping the MemCase releases exactly its backend *)
Definition drop_case (l : loader) (n : N) (live : list resource) : list resource :=
  match l with
  | LFull => live
  | _ => tl live
  end.
