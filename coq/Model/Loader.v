(* Serialize::store and Deserialize::{load_full, load_mem, load_mmap, mmap} (deser/mod.rs,
   deser/mem_case.rs): the backing region each loader builds, what it deserializes from, the
   resources it holds (a ledger of live resources), and the flag translation. *)
Require Import EV.Base.Tac EV.Base.Bytes EV.Base.Res EV.Base.ListX.
Require Import EV.Model.Arith64 EV.Model.Types EV.Model.Layout EV.Model.Ser EV.Model.Deser EV.Model.Header.

(* store: serialize to a BufWriter<File>: the file is the stream *)
Definition store_file (run : sres) : list byte := bytes_of (fst run).

Inductive loader := LFull | LMem | LMmap | LMap.   (* load_full, load_mem, load_mmap, mmap *)

(* the rounded-up capacity of the two copying loaders *)
Definition capacity (l : loader) (n : N) : N :=
  match l with
  | LMem => n + pad_align_to n 64
  | LMmap => n + pad_align_to n 16
  | _ => n
  end.

(* the backing region: the file, zero-filled up to the capacity *)
Definition region (l : loader) (file : list byte) : list byte :=
  file ++ zeros (capacity l (nlen file) - nlen file).

(* alignment guaranteed for the region's base address *)
Definition base_align (l : loader) : N :=
  match l with LMem => 64 | LMmap | LMap => 4096 | LFull => 1 end.

(* the loaders that keep a region deserialize eps-copy from it *)
Definition load (l : loader) (base : N) (h : hdr) (t : ty) (file : list byte) : res (val * list byte * N) :=
  match l with
  | LFull => deser_full_top h t file
  | _ => deser_eps_top base h t (region l file)
  end.

(* ------------------------------------------------------------------ flags *)

(* Flags bits: 0 TRANSPARENT_HUGE_PAGES, 1 SEQUENTIAL, 2 RANDOM_ACCESS; mmap-rs 0.6.1 bits:
   7 TRANSPARENT_HUGE_PAGES, 8 SEQUENTIAL, 9 RANDOM_ACCESS *)
Definition mmap_flag_bits (f : N) : N :=
  (if N.testbit f 0 then 2 ^ 7 else 0) + (if N.testbit f 1 then 2 ^ 8 else 0) + (if N.testbit f 2 then 2 ^ 9 else 0).

(* ------------------------------------------------------------------ resources *)

Inductive resource := RHeap (size : N) | RMapping (size : N) | RFile.

(* where a load can stop *)
Inductive stop := SMetadata | SOpen | SAcquire | SReadFile | SDeser | SNone.

(* the steps of a loader up to [stop], as effects on the list of live resources; the backend is
   released on the error path after it has been published into the MemCase (fix 05218c1) *)
Definition load_ledger (l : loader) (n : N) (s : stop) (live : list resource) : list resource * bool :=
  (* returns the live resources after the call and whether a MemCase (owning the backend) is returned *)
  let backend := match l with LMem => [RHeap (capacity l n)] | LMmap | LMap => [RMapping (capacity l n)] | LFull => [] end in
  match s with
  | SMetadata | SOpen | SAcquire => (live, false)          (* nothing acquired yet, or acquisition failed *)
  | SReadFile => (live, false)                             (* the file handle and the not yet published backend are dropped by `?` *)
  | SDeser => (live, false)                                (* published backend dropped explicitly, file handle dropped *)
  | SNone => (backend ++ live, true)                       (* the file handle is dropped; the MemCase owns the backend *)
  end.

(* dropping the MemCase releases exactly its backend *)
Definition drop_case (l : loader) (n : N) (live : list resource) : list resource :=
  match l with
  | LFull => live
  | _ => tl live
  end.
