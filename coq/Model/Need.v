(* The alignment requirement of a stream: the largest unit of the zero-copy blocks that
   deserialization from a slice meets for this value (both modes align at the same places). *)
Require Import EV.Base.Tac EV.Base.Bytes EV.Base.Res EV.Base.ListX.
Require Import EV.Model.Arith64 EV.Model.Types EV.Model.Layout EV.Model.Typing.

Fixpoint need_list (f : val -> N) (l : list val) : N :=
  match l with [] => 1 | x :: l' => N.max (f x) (need_list f l') end.

Fixpoint need (t : ty) (v : val) {struct t} : N :=
  match t with
  | TVec t' | TBoxSlice t' | TSliceRef t' | TSerIter t' =>
      if is_zc t' then unit_of t' else need_list (need t') (vseq_items v)
  | TArray _ t' => if is_zc t' then unit_of t' else need_list (need t') (vseq_items v)
  | TTuple _ _ => unit_of t
  | TOption t' | TBound t' => need_list (need t') (vseq_items v)
  | TCF b c => if vtag v =? 0 then need_list (need b) (vseq_items v) else need_list (need c) (vseq_items v)
  | TRange _ t' => need_list (need t') (firstn 2 (vseq_items v))
  | TStruct i fs => if a_zc i then unit_of t else need_fields fs (vseq_items v)
  | TEnum i vs => if a_zc i then unit_of t else need_variants vs (vtag v) (vseq_items v)
  | _ => 1
  end
with need_fields (fs : fields) (l : list val) {struct fs} : N :=
  match fs with
  | FNil => 1
  | FCons _ _ t r => N.max (need t (hd (VSeq []) l)) (need_fields r (tl l))
  end
with need_variants (vs : variants) (k : N) (l : list val) {struct vs} : N :=
  match vs with
  | VNil => 1
  | VCons _ _ fs r => if k =? 0 then need_fields fs l else need_variants r (k - 1) l
  end.

(* every zero-copy block type met has a unit that is a multiple of its alignment (so that an
   address aligned to the unit is aligned for the type) *)
Definition cover (t : ty) : bool := (size_of t =? 0) || (unit_of t mod align_of t =? 0).

Fixpoint units_cover (t : ty) : bool :=
  match t with
  | TVec t' | TBoxSlice t' | TSliceRef t' | TSerIter t' => if is_zc t' then cover t' else units_cover t'
  | TArray _ t' => if is_zc t' then cover t else units_cover t'
  | TTuple _ _ => cover t
  | TOption t' | TBound t' => units_cover t'
  | TCF b c => units_cover b && units_cover c
  | TRange _ t' => units_cover t'
  | TStruct i fs => if a_zc i then cover t else units_cover_fields fs
  | TEnum i vs => if a_zc i then cover t else units_cover_variants vs
  | _ => true
  end
with units_cover_fields (fs : fields) : bool :=
  match fs with FNil => true | FCons _ _ t r => units_cover t && units_cover_fields r end
with units_cover_variants (vs : variants) : bool :=
  match vs with VNil => true | VCons _ _ fs r => units_cover_fields fs && units_cover_variants r end.

(* the largest unit of any zero-copy block type occurring in the type (for every value) *)
Fixpoint max_unit (t : ty) : N :=
  match t with
  | TVec t' | TBoxSlice t' | TSliceRef t' | TSerIter t' => if is_zc t' then unit_of t' else max_unit t'
  | TArray _ t' => if is_zc t' then unit_of t' else max_unit t'
  | TTuple _ _ => unit_of t
  | TOption t' | TBound t' => max_unit t'
  | TCF b c => N.max (max_unit b) (max_unit c)
  | TRange _ t' => max_unit t'
  | TStruct i fs => if a_zc i then unit_of t else max_unit_fields fs
  | TEnum i vs => if a_zc i then unit_of t else max_unit_variants vs
  | _ => 1
  end
with max_unit_fields (fs : fields) : N :=
  match fs with FNil => 1 | FCons _ _ t r => N.max (max_unit t) (max_unit_fields r) end
with max_unit_variants (vs : variants) : N :=
  match vs with VNil => 1 | VCons _ _ fs r => N.max (max_unit_fields fs) (max_unit_variants r) end.
