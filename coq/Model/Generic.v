(* Derived definitions BEFORE instantiation: field types are expressions over the type parameters.
   The rest of the model works on instantiated types (Types.v: each field only records whether its
   declared type is exactly a parameter); this file relates the two levels and states the rule of
   the documentation for the eps-copy type at the level of parameters. *)
Require Import EV.Base.Tac EV.Base.Bytes EV.Base.Res EV.Base.ListX.
Require Import EV.Model.Arith64 EV.Model.Types EV.Model.Layout EV.Model.Ser EV.Model.Deser EV.Model.Typing EV.Model.Derive.

(* type expressions over parameters 0, 1, ...: a parameter, a type mentioning no parameter, or a
   parameter mentioned under the constructors through which the grammar lets it appear *)
Inductive texp :=
| EParam (i : nat)
| EClosed (t : ty)
| EPhantom (e : texp)
| EVec (e : texp)
| EBoxSlice (e : texp)
| EArr (n : N) (e : texp)
| EOpt (e : texp).

Fixpoint inst (args : list ty) (e : texp) : ty :=
  match e with
  | EParam i => nth i args TUnit
  | EClosed t => t
  | EPhantom e' => TPhantom (inst args e')
  | EVec e' => TVec (inst args e')
  | EBoxSlice e' => TBoxSlice (inst args e')
  | EArr n e' => TArray n (inst args e')
  | EOpt e' => TOption (inst args e')
  end.

Fixpoint mentions (i : nat) (e : texp) : bool :=
  match e with
  | EParam j => Nat.eqb i j
  | EClosed _ => false
  | EPhantom e' | EVec e' | EBoxSlice e' | EArr _ e' | EOpt e' => mentions i e'
  end.

Definition is_param (e : texp) : bool := match e with EParam _ => true | _ => false end.

Definition gfields := list (name * texp).

(* parameter i is the declared type of some field *)
Definition bare (i : nat) (fs : gfields) : bool :=
  existsb (fun f => match snd f with EParam j => Nat.eqb i j | _ => false end) fs.

(* a deep-copy struct or enum definition with [g_n] type parameters *)
Record gdef := { g_info : adt_info; g_n : nat; g_struct : bool;
                 g_fields : gfields;                              (* struct: its fields *)
                 g_variants : list (name * bool * gfields) }.     (* enum: name, named?, fields *)

Definition all_fields (d : gdef) : gfields :=
  if g_struct d then g_fields d else List.concat (List.map (fun v => snd v) (g_variants d)).

(* instantiation: the types of Types.v *)
Fixpoint inst_fields (args : list ty) (fs : gfields) : fields :=
  match fs with
  | [] => FNil
  | (n, e) :: r => FCons n (is_param e) (inst args e) (inst_fields args r)
  end.
Fixpoint inst_variants (args : list ty) (vs : list (name * bool * gfields)) : variants :=
  match vs with
  | [] => VNil
  | (n, named, fs) :: r => VCons n named (inst_fields args fs) (inst_variants args r)
  end.
Definition inst_def (d : gdef) (args : list ty) : ty :=
  if g_struct d then TStruct (g_info d) (inst_fields args (g_fields d))
  else TEnum (g_info d) (inst_variants args (g_variants d)).

(* the boundary of the grammar: a parameter that is the declared type of some field (of some
   variant) is not mentioned inside the type of any other field *)
Definition wf_gdef (d : gdef) : bool :=
  forallb (fun f => is_param (snd f) ||
                    forallb (fun i => negb (bare i (all_fields d) && mentions i (snd f))) (seq 0 (g_n d)))
          (all_fields d).

(* The rule of the documentation, at the level of parameters: exactly the parameters that are the
   type of some field are replaced by their own eps-copy type. *)
Definition deser_args (d : gdef) (args : list ty) : list dty :=
  List.map (fun ia => if bare (fst ia) (all_fields d) then dty_of (snd ia) else DOwn (snd ia))
           (combine (seq 0 (List.length args)) args).

(* type constructors applied to eps-copy types: an owned argument gives an owned type *)
Definition dwrap (f : ty -> ty) (g : dty -> dty) (d : dty) : dty :=
  match d with DOwn t => DOwn (f t) | _ => g d end.

(* substitution of eps-copy types for the parameters in a declared field type: what rustc computes
   for the field types of S<args'> *)
Fixpoint dsubst (dargs : list dty) (e : texp) : dty :=
  match e with
  | EParam i => nth i dargs (DOwn TUnit)
  | EClosed t => DOwn t
  | EPhantom e' => dwrap TPhantom (fun d => d) (dsubst dargs e')
  | EVec e' => dwrap TVec DVec (dsubst dargs e')
  | EBoxSlice e' => dwrap TBoxSlice DBox (dsubst dargs e')
  | EArr n e' => dwrap (TArray n) (DArr n) (dsubst dargs e')
  | EOpt e' => dwrap TOption DOpt (dsubst dargs e')
  end.

Fixpoint dsubst_fields (dargs : list dty) (fs : gfields) : dfields :=
  match fs with
  | [] => DFNil
  | (_, e) :: r => DFCons (dsubst dargs e) (dsubst_fields dargs r)
  end.
Fixpoint dsubst_variants (dargs : list dty) (vs : list (name * bool * gfields)) : dvariants :=
  match vs with
  | [] => DVNil
  | (_, _, fs) :: r => DVCons (dsubst_fields dargs fs) (dsubst_variants dargs r)
  end.
