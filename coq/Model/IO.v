(* ser/write.rs and deser/read.rs over std::io: WriteNoStd::write_all / flush and
   ReadNoStd::read_exact are std's default write_all / read_exact loops over an arbitrary
   writer / reader, every io::Error mapped to WriteError / ReadError.  A writer or reader is an
   arbitrary state machine (an oracle): theorems quantify over all of them. *)
Require Import EV.Base.Tac EV.Base.Bytes EV.Base.Res EV.Base.ListX.
Require Import EV.Model.Arith64 EV.Model.Types EV.Model.Layout EV.Model.Ser.

(* ------------------------------------------------------------------ writers *)

Inductive wresp :=
| WAccept (k : N)      (* Ok(k): the first k bytes of the buffer were taken (k = 0: Ok(0)) *)
| WInterrupted         (* Err(ErrorKind::Interrupted) *)
| WFail.               (* any other Err *)

Record writer := {
  wst : Type;
  w_write : wst -> list byte -> wst * wresp;
  w_flush : wst -> wst * bool            (* true = Ok(()) *)
}.

Inductive wout := WOk | WErr | WFuel.    (* WFuel: the oracle interrupted forever (no outcome) *)

(* std::io::Write::write_all; [acc] collects (in reverse) the chunks the writer accepted *)
Fixpoint write_all (w : writer) (fuel : nat) (s : wst w) (buf : list byte) (acc : list byte)
  : wst w * list byte * wout :=
  match buf with
  | [] => (s, acc, WOk)
  | _ =>
      match fuel with
      | O => (s, acc, WFuel)
      | S f =>
          let '(s', r) := w_write w s buf in
          match r with
          | WAccept k =>
              if k =? 0 then (s', acc, WErr)                       (* WriteZero *)
              else write_all w f s' (ndrop k buf) (acc ++ ntake k buf)
          | WInterrupted => write_all w f s' buf acc
          | WFail => (s', acc, WErr)
          end
      end
  end.

(* n times write_all(&[0]) *)
Fixpoint write_zeros (w : writer) (fuel : nat) (s : wst w) (n : nat) (acc : list byte)
  : wst w * list byte * wout :=
  match n with
  | O => (s, acc, WOk)
  | S n' =>
      let '(s', acc', o) := write_all w fuel s [0] acc in
      match o with WOk => write_zeros w fuel s' n' acc' | _ => (s', acc', o) end
  end.

(* the WriteWithNames calls of a serialization, in order, against the writer; stops at the
   first failure (the `?` of every call) *)
Fixpoint run_events (w : writer) (fuel : nat) (s : wst w) (evs : list event) (acc : list byte)
  : wst w * list byte * wout :=
  match evs with
  | [] => (s, acc, WOk)
  | e :: r =>
      let '(s', acc', o) :=
        match e with
        | EWrite b | EBlock _ b | EItem _ b => write_all w fuel s b acc
        | EPad _ n => write_zeros w fuel s (N.to_nat n) acc
        | EFlush => let '(s1, ok) := w_flush w s in (s1, acc, if ok then WOk else WErr)
        | _ => (s, acc, WOk)
        end in
      match o with WOk => run_events w fuel s' r acc' | _ => (s', acc', o) end
  end.

Inductive ser_result :=
| SROk (n : N)                    (* Ok(n) *)
| SRWriteError                    (* Err(WriteError) *)
| SRIterMismatch (actual expected : N)
| SRPanic
| SRNoOutcome.                    (* the writer interrupted forever *)

(* Serialize::serialize against a writer: the events of the fault-free run are replayed until
   the writer fails; a panic or an iterator-length error of the serializer itself surfaces only
   if the writer accepted everything before it *)
Definition serialize_io (w : writer) (fuel : nat) (s : wst w) (run : sres) : list byte * ser_result :=
  let '(evs, so) := run in
  let '(_, acc, o) := run_events w fuel s evs [] in
  (acc,
   match o with
   | WErr => SRWriteError
   | WFuel => SRNoOutcome
   | WOk => match so with
            | SDone => SROk (evs_len evs)
            | SPanic _ => SRPanic
            | SErr (IteratorLengthMismatch a e) => SRIterMismatch a e
            end
   end).

(* ------------------------------------------------------------------ readers *)

Inductive rresp :=
| RData (b : list byte)   (* Ok(|b|) with b copied into the buffer; [] is Ok(0) *)
| RInterrupted
| RFail.

Record reader := {
  rst : Type;
  r_read : rst -> N -> rst * rresp        (* read into a buffer of the given length *)
}.

Inductive rout := ROk (b : list byte) | RErr | RFuel.

(* std::io::Read::read_exact (default): loop until the buffer is full *)
Fixpoint read_exact_io (r : reader) (fuel : nat) (s : rst r) (n : N) (got : list byte) : rst r * rout :=
  if n =? 0 then (s, ROk got) else
  match fuel with
  | O => (s, RFuel)
  | S f =>
      let '(s', x) := r_read r s n in
      match x with
      | RData b =>
          if nlen b =? 0 then (s', RErr)                          (* UnexpectedEof *)
          else if n <? nlen b then (s', RErr)                     (* a reader must not return more than asked *)
          else read_exact_io r f s' (n - nlen b) (got ++ b)
      | RInterrupted => read_exact_io r f s' n got
      | RFail => (s', RErr)
      end
  end.

(* A reader that delivers the stream [data] in fragments chosen by [cut] (a fragment size
   >= 1 for each call), interrupts when [intr] says so, and fails once [failat] bytes have
   been delivered (None: never). State: bytes delivered, calls made. *)
Definition stream_reader (data : list byte) (cut : N -> N -> N) (intr : N -> bool) (failat : option N) : reader :=
  {| rst := (N * N)%type;
     r_read := fun '(pos, calls) n =>
       if intr calls then ((pos, calls + 1), RInterrupted) else
       match failat with
       | Some k => if k <=? pos then ((pos, calls + 1), RFail) else
                   let m := N.min (N.min (N.max 1 (cut calls n)) n) (k - pos) in
                   let b := ntake m (ndrop pos data) in ((pos + nlen b, calls + 1), RData b)
       | None =>
           let m := N.min (N.max 1 (cut calls n)) n in
           let b := ntake m (ndrop pos data) in ((pos + nlen b, calls + 1), RData b)
       end |}.
