(* ser::write_header / Serialize::serialize_on_field_write and deser::check_header /
   Deserialize::{deserialize_full, deserialize_eps}.  The two 64-bit hashes and the type-name
   string are parameters here (Hash.v gives the byte feeds they are computed from). *)
Require Import EV.Base.Tac EV.Base.Bytes EV.Base.Res EV.Base.ListX.
Require Import EV.Model.Arith64 EV.Model.Types EV.Model.Layout EV.Model.Ser EV.Model.Deser.
From Coq Require Import String.

Definition N_MAGIC : name := bs "MAGIC".
Definition N_VERSION_MAJOR : name := bs "VERSION_MAJOR".
Definition N_VERSION_MINOR : name := bs "VERSION_MINOR".
Definition N_USIZE_SIZE : name := bs "USIZE_SIZE".
Definition N_TYPE_HASH : name := bs "TYPE_HASH".
Definition N_REPR_HASH : name := bs "REPR_HASH".
Definition N_TYPE_NAME : name := bs "TYPE_NAME".

Definition TU16 := TPrim (PInt U16).
Definition TU64 := TPrim (PInt U64).

Record hdr := { h_type_hash : N; h_align_hash : N; h_name : list byte }.

Definition header_w (h : hdr) : Wr :=
  wfield N_MAGIC TU64 (wev (EWrite (le_bytes 8 MAGIC))) ;;
  wfield N_VERSION_MAJOR TU16 (wev (EWrite (le_bytes 2 VERSION_MAJOR))) ;;
  wfield N_VERSION_MINOR TU16 (wev (EWrite (le_bytes 2 VERSION_MINOR))) ;;
  wfield N_USIZE_SIZE TU8 (wev (EWrite (le_bytes 1 8))) ;;
  wfield N_TYPE_HASH TU64 (wev (EWrite (le_bytes 8 (h_type_hash h)))) ;;
  wfield N_REPR_HASH TU64 (wev (EWrite (le_bytes 8 (h_align_hash h)))) ;;
  wfield N_TYPE_NAME TString (wbytes_zero (h_name h)).

(* Serialize::serialize: header, the value as field "ROOT", flush *)
Definition ser_top (pf : padfill) (h : hdr) (t : ty) (v : val) : sres :=
  (header_w h ;; wfield N_ROOT t (ser pf t v) ;; wev EFlush) 0.

(* check_header::<T> for a T whose own hashes are [h] *)
Definition check_header (rk : rkind_t) (h : hdr) : R unit :=
  let+ magic := (let+ b := read_exact 8 in rret (le_val b)) in
  let+ _ := (if magic =? MAGIC then rret tt
             else if magic =? MAGIC_REV then rerr EndiannessError
             else rerr (MagicCookieError magic)) in
  let+ major := (let+ b := read_exact 2 in rret (le_val b)) in
  if negb (major =? VERSION_MAJOR) then rerr (MajorVersionMismatch major) else
  let+ minor := (let+ b := read_exact 2 in rret (le_val b)) in
  if VERSION_MINOR <? minor then rerr (MinorVersionMismatch minor) else
  let+ us := ru8 in
  if negb (us =? 8) then rerr (UsizeSizeMismatch us) else
  let+ sth := (let+ b := read_exact 8 in rret (le_val b)) in
  let+ sah := (let+ b := read_exact 8 in rret (le_val b)) in
  let+ _ := full_string rk in
  if negb (sth =? h_type_hash h) then rerr (WrongTypeHash sth) else
  if negb (sah =? h_align_hash h) then rerr (WrongAlignHash sah) else
  rret tt.

Definition deser_full_top (h : hdr) (t : ty) (input : list byte) : res (val * list byte * N) :=
  (let+ _ := check_header None h in deser_full None t) input 0.

Definition deser_eps_top (base : N) (h : hdr) (t : ty) (input : list byte) : res (val * list byte * N) :=
  (let+ _ := check_header (Some base) h in deser_eps base t) input 0.

(* the type written in the header and used for deserialization (SerializeInner::SerType) *)
Fixpoint sertype (t : ty) : ty :=
  match t with
  | TSliceRef t' | TSerIter t' => TVec t'
  | TStruct i fs => TStruct i (sertype_fields fs)
  | TEnum i vs => TEnum i (sertype_variants vs)
  | _ => t
  end
with sertype_fields (fs : fields) : fields :=
  match fs with
  | FNil => FNil
  | FCons n isp t r => FCons n isp (if isp then sertype t else t) (sertype_fields r)
  end
with sertype_variants (vs : variants) : variants :=
  match vs with
  | VNil => VNil
  | VCons n nm fs r => VCons n nm (sertype_fields fs) (sertype_variants r)
  end.
